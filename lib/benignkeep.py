#!/usr/bin/env python3
"""lib/benignkeep.py <out_dir>/<i> <name> : archive a behaviour-preserving change and the verdicts of the checks that
were run against it (lib/benigncheck.py wrote benigncheck.json next to it) under /verif/benign/<name>/."""
import json, os, shutil, sys
d, name = os.path.abspath(sys.argv[1]), sys.argv[2]
dst = os.path.join("/verif/benign", name)
os.makedirs(dst, exist_ok=True)
shutil.copy(os.path.join(d, "patch.diff"), dst)
meta = json.load(open(os.path.join(d, "meta.json")))
res = json.load(open(os.path.join(d, "benigncheck.json")))
meta["confirmed_by_coordinator"] = {"patch_applies": res.get("patch_applies"), "builds_with_and_without_verif_tag": res.get("builds"),
                                    "stable_baseline_tests_still_pass": res.get("baseline_ok")}
meta["checks_run"] = {k: {"exit": v["exit"], "verdict_lines": [l[:300] for l in v["lines"]][:4]} for k, v in res.get("checks", {}).items()}
alarms = {}
for k, v in res.get("checks", {}).items():
    if v["exit"] != 0:
        why = ""
        ap = os.path.join(d, "alarm_%s.txt" % k)
        if os.path.exists(ap):
            t = open(ap).read()
            i = t.find('"broken"')
            why = t[i:i + 600] if i >= 0 else t[-600:]
        alarms[k] = {"no_failing_input_found": any("no-failing-input-found" in l for l in v["lines"]), "reason": why}
meta["alarms"] = alarms
json.dump(meta, open(os.path.join(dst, "meta.json"), "w"), indent=1)
print(name, "archived; alarms:", {k: ("sanctioned" if a["no_failing_input_found"] else "FALSE ALARM") for k, a in alarms.items()})
