#!/usr/bin/env python3
"""Rewrites DESIGN.md section 12 (between the SEEDED markers) from seeded/*/meta.json."""
import glob, json, os, re
V = os.path.dirname(os.path.dirname(os.path.abspath(__file__)))
rows = []
for f in sorted(glob.glob(os.path.join(V, "seeded", "*", "meta.json"))):
    m = json.load(open(f)); name = os.path.basename(os.path.dirname(f))
    det = []
    for k, v in sorted(m.get("detected_by", {}).items()):
        if not re.match(r"C\d\d$", k):
            continue
        lines = [l for l in v.get("verdict_lines", []) if l.startswith("VIOLATION")]
        if v.get("exit") == 1:
            kind = "concrete input" if any("no-failing-input-found" not in l for l in lines) else "model/impl disagreement only (no-failing-input-found)"
            det.append("%s: %s" % (k, kind))
        elif k == name[:3]:
            others = [o for o, w in m.get("detected_by", {}).items() if w.get("exit") == 1 and re.match(r"C\d\d$", o)]
            det.append("%s: not detected%s" % (k, " (the neighbouring check does)" if others else ""))
    note = m.get("history_note", "")
    first = m.get("first_run_before_strengthening")
    if first and not note:
        missed = [k for k, e in sorted(first.items()) if e == 0 and re.match(r"C\d\d$", k) and m.get("detected_by", {}).get(k, {}).get("exit") == 1]
        if missed:
            note = "first missed by %s; check strengthened (section 12, rounds)" % ", ".join(missed)
    rows.append("| `%s` | %s | %s | %s%s |" % (name, (m.get("summary") or "").replace("|", "/").replace("\n", " ")[:260],
                                              (m.get("needs") or "").replace("|", "/").replace("\n", " ")[:200], "; ".join(det),
                                              (" — " + note) if note else ""))
table = ("| seed | change | needs | caught by |\n|---|---|---|---|\n" + "\n".join(rows)) if rows else "(none yet)"
p = os.path.join(V, "DESIGN.md"); s = open(p).read()
block = "<!-- SEEDED:BEGIN -->\n" + table + "\n<!-- SEEDED:END -->"
if "<!-- SEEDED:BEGIN -->" in s:
    s = re.sub(r"<!-- SEEDED:BEGIN -->.*?<!-- SEEDED:END -->", lambda _: block, s, flags=re.S)
else:
    sec = ("\n\n## 12. Seeded changes and which checks catch them\n\n"
           "Each change was written by a fresh sub-agent that saw only the text of one property and a scratch worktree of /repo, "
           "and was asked for a change that still compiles and passes the existing tests but breaks the property, with a demonstration. "
           "The coordinator confirmed every kept change on scratch copies (`lib/seedcheck.py`: patch applies, builds with and without the "
           "`verif` tag, the stable baseline tests of the affected packages still pass, the demonstration fails with the change and passes "
           "without it) and ran the checks against the mutant (`VERIF_REPO_DIR`). Patch, demonstration and `meta.json` are under "
           "`/verif/seeded/<seed>/`. Where a check first missed a change the note says what was strengthened.\n\n" + block + "\n")
    i = s.index("## Appendix A.")
    s = s[:i] + sec.lstrip("\n") + "\n\n" + s[i:]
open(p, "w").write(s)
print(len(rows), "seeds")
