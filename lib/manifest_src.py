HOOKS = {
    "guard": "verif",
    "enable": "go build -tags verif (the harness module /verif/harness replaces github.com/mongodb/ftdc with /repo)",
    "baseline_off_cmd": "cd /repo && GOFLAGS=-mod=mod go test -vet=off -count=1 -timeout 25m ./...",
    "source_commits": ["88e4868", "ce61a12", "1ec0135"],
    "add_only": True,
}
ENGINES = [
    {"name": "coq-model", "path": "/verif/coq", "serves_properties": ["C01", "C02", "C03", "C04", "C09", "C19", "C05", "C06", "C16", "C10", "C11", "C15", "C07", "C08", "C12", "C13", "C14", "C17", "C18", "C20"],
     "kind_free_text": "hand-written Gallina model (Model/), proofs (Proofs/), property theorems (Props/), Coq 8.16.1"},
    {"name": "correspondence", "path": "/verif/harness", "serves_properties": ["C01", "C02", "C03", "C04", "C09", "C19", "C05", "C06", "C16", "C10", "C11", "C15", "C07", "C08", "C12", "C13", "C14", "C17", "C18", "C20"],
     "kind_free_text": "Go harness driving /repo (built with -tags verif) + extracted OCaml model and oracle (ocaml/) on the same cases"},
]
NOTES = ("Every check: rebuild Coq closure of Props/<id>.v, parse Print Assumptions, build harness against /repo's working tree, "
         "run implementation and extracted model on the same generated cases, apply the extracted oracle to the implementation's observations.")
NOT_APPLICABLE = {}  # every property is claimed

def chk(pid, text, note, technique, design):
    return {"property_id": pid, "quick_cmd": "./check %s --tier quick" % pid, "thorough_cmd": "./check %s --tier thorough" % pid,
            "evidence_file": "/verif/evidence/%s.json" % pid, "replay_cmd_template": "./check %s --replay {path}" % pid,
            "engine": "coq-model", "level_claimed": {"category": "proof", "text": text, "design_ref": design},
            "level_note": note, "technique": technique}

CHECKS = [
    chk("C01",
        "Coq theorems C01_roundtrip / C01_bytes (Props/C01.v): for every compressing collector kind (base, batch, dynamic, streaming, "
        "streaming-dynamic), every chunk size 1<=n<2^31 and every non-empty same-schema document sequence (any tree of sub-documents and "
        "arrays over all 21 BSON types, values in their types' ranges, datetimes within Go's nanosecond range), all Adds succeed and reading "
        "the emitted stream back yields exactly the inputs with non-metric leaves removed, in order, without error; the bytes decode to "
        "exactly the emitted documents. Proved over a Gallina model of extraction, wrap-around deltas, zero-run/varint coding, BSON framing "
        "and the reader; zlib is a parameter with inflate(deflate p)=p. The known finding D1 (timestamp seconds x1000) is proved as "
        "C01_timestamp_refuted and excluded by hypothesis. Model tied to /repo on every run: collector histories and reader views are "
        "compared byte-for-byte / document-for-document with the extracted model, and the extracted oracle c01_ok is applied to what "
        "ReadStructuredMetrics returned.",
        "Trusted: Coq kernel, extraction, glue, generator quality; zlib and birch's BSON (modelled, exercised on every case); "
        "wall-clock _id values normalised. Timestamp leaves with non-zero seconds are a known finding.",
        "Coq proof (structural induction over value trees, delta/RLE/varint inverses, per-kind chunking invariants) + differential correspondence",
        "DESIGN.md section 8 C01"),
    chk("C14",
        "19 Coq theorems (Props/C14.v) over a store-based model of events/collector.go and events/performance.go in which event objects are "
        "addressed by index, so repeated pointers (also the running-total pointer itself) have their Go meaning: Performance.Add for any two "
        "pointers; the cumulative collector writes for the k-th event the wrap-around sums of counters/timers of events 1..k with the k-th "
        "event's timestamp, gauges and id rule, for fresh events and for arbitrary histories over the value each object had when added; the "
        "n-sampling collector writes exactly positions 0,n,2n,... with the running totals; pass-through writes every event unchanged; nil is "
        "refused and changes nothing; unmarshal(marshal p) = p over explicit key tables; timestamps survive at millisecond precision. "
        "Correspondence: histories through three event collectors x five ftdc collectors decoded with ReadMetrics, marshal/unmarshal and "
        "MarshalBSON round trips; extracted oracles applied to the decoded samples. Section 11 (Model/EventsMore.v): the interval and "
        "random-sampling collectors over explicit clock / coin lists - their running totals are the cumulative collector's whatever clock and "
        "coins, what they write is its output thinned by an explicit mask; interval <= 0 and percent > 100 are the cumulative collector, an "
        "interval that never elapses is the sampling collector beyond the sequence length; the harness drives them at those parameter values.",
        "Known finding C14-caller-write (reported as KNOWN-FINDING when the fixed histories with a caller write reproduce it; Coq: C14_caller_write_refuted over Model/EventsAlias.v): the cumulative and sampling collectors alias the first event object as their accumulator. Trusted: as C12. A wrapped ftdc collector that refuses a write is driven (what is handed over does not depend on it) but its "
        "refusals are not part of the events model; timestamps "
        "kept within years 1800-2200 (UnixNano range is C01's concern); sampling rate 0 modelled as a panic, excluded (n >= 1).",
        "Coq proof (induction over operation histories on an explicit object store) + differential correspondence",
        "DESIGN.md section 8 C14"),
    chk("C15",
        "20 Coq theorems (Props/C15.v) over per-recorder state machines (raw, single, grouped, interval, histogram x4, sync and shim wrappers; "
        "clock readings, ticks and collector failures as inputs): the model meets an independently written policy specification for EVERY call "
        "history: counters = wrap-around sums of increments since the last EndTest/Reset (histograms: the in-range records), gauges = last value "
        "set, explicit durations summed (raw: overwritten), elapsed parts are differences of supplied clock readings hence bounded by the wall "
        "clock, persistence exactly at the policy's moments, one Add per persisted point, EndTest returns exactly the collector failures and "
        "rejected records of its window, after EndTest/Reset the state is fresh except gauges and the continuation behaves like a fresh "
        "recorder. Correspondence: all histories of length <= 3/4 over 8 calls x 17 configurations + random + flusher-tick cases through the "
        "real recorders with a snapshotting, selectively failing collector.",
        "Trusted: as C12. Real time is not controllable: clock-derived fields (timestamps, elapsed part of Total) are checked by bounds around "
        "the harness's own readings; interval gates exercised at 0 and 1 h. Deviations of the code from the Recorder interface comment "
        "(unstamped increments dropped at EndTest, raw recorder re-persisting, interval recorder without Number++) are followed by the "
        "reference model as the property demands ('per-implementation reference model'); listed in DESIGN.md.",
        "Coq proof (induction over call histories against a field-by-field policy) + differential correspondence",
        "DESIGN.md section 8 C15, Appendix B"),
    chk("C16",
        "12 Coq theorems (Props/C16.v): C16_lock_paths_balanced and C16_source_* are re-proved by computation over coq/Generated/LockPaths.v, "
        "which harness/lockpaths.go regenerates from /repo's source on every run (every return path of every method of both interval recorders, "
        "the synchronized recorder and collectors and the catcher as a sequence of lock events), so a return path that skips Unlock breaks a "
        "proof; over an LTS of G user goroutines with arbitrary programs, the ticker-driven flusher(s) and the mutex, for EVERY schedule: lock "
        "invariant and mutual exclusion, no deadlock, every call terminates, at most one uncancelled flusher which never persists after "
        "cancellation, and the counters persisted by EndTest equal the wrap-around sum of the increments linearised before it (nothing persisted "
        "and the cycle dropped if it was never stamped - stated explicitly); a generic theorem covers any goroutines running balanced paths "
        "over one RWMutex; C16_old_deadlock_refuted exhibits the pre-repair deadlock. Correspondence: flusher stalled between tick and lock "
        "across EndTest/Reset (vpoint hooks), microsecond-ticker stress with watchdogs, one-flusher and sum oracles, race-detector build.",
        "Trusted: Go runtime semantics; the lock-path translator is a narrow pattern extractor that fails loudly on constructs it does not "
        "understand. 'No data races' as such: lock discipline theorem + race detector runs (labelled partial). One counter modelled; root-context "
        "cancellation and collector errors not modelled.",
        "Coq proof over regenerated source facts + LTS invariants over all schedules + stall-schedule correspondence",
        "DESIGN.md section 8 C16"),
    chk("C17",
        "13 Coq theorems (Props/C17.v) for the six uncompressed collector kinds, all batch sizes, EVERY operation history and every writer fault "
        "schedule, over arbitrary documents: C17_log (writer records and Resolve are exactly metadata-then-accepted-samples, verbatim, once each, in "
        "order; Info = pending), C17_flavour (every output of a collector has the flavour it was constructed with, for its whole lifetime, and no "
        "compressed FTDC is ever produced - the theorem the repaired defect D10 broke), C17_batch (1..n samples per output), exact Add outcomes, "
        "flush-before-add at capacity, new output exactly at a signature change or capacity for the schema-aware kinds, outputs never mix "
        "signatures, pure Add sequences are grouped without loss. The extracted oracle c17_run is proved true on the model for every history "
        "(C17_oracle). Correspondence: all short histories over 8 symbols x 6 kinds x n<=3 plus random ones with write faults; BSON flavour compared "
        "byte-for-byte, JSON flavour line by line against the library's own rendering and parsed back.",
        "Trusted: as C01. Extended-JSON rendering/parsing is a library step outside the model (compared textually with the same library call on the "
        "inputs). The model's OSetMeta None has no Go counterpart (SetMetadata(nil) errors) and is never generated.",
        "Coq proof (refinement to a (records, pending, metadata) machine by induction over histories) + differential correspondence",
        "DESIGN.md section 8 C17"),
    chk("C18",
        "10 Coq theorems (Props/C18.v) over a Gallina model of csv.go and of the parts of encoding/csv and strconv it relies on: quoting/parsing "
        "round trip for every record outside an exactly characterised class (C18_quote_roundtrip; commas, quotes, LF, lone CR inside), integer "
        "rendering round trip for every int64, datetime columns render as non-numeric text, WriteCSV = header of the keys + one row per sample with "
        "the integer-normalised values for EVERY chunk list of constant metric count, a count change is an error after the earlier rows, DumpCSV "
        "starts a new self-describing file exactly at count changes for every chunk list, ConvertFromCSV hands the collector exactly one (key, "
        "int64) document per sample, and - composed with C08_dynamic - the re-read table equals the original (C18_roundtrip_reread). "
        "Correspondence incl. all keys of <= 3 characters over {a , \" LF}; extracted oracles on CSV text, file sets and re-read chunks.",
        "Trusted: as C01; Go's encoding/csv and strconv are modelled (and compared). Two known findings rooted in encoding/csv: a lone empty key is "
        "written as a blank line; CR LF inside a key is read back as LF (proved as *_refuted witnesses). The lost final-flush error of "
        "ConvertFromCSV is modelled and compared, outside the property's wording.",
        "Coq proof (induction over fields/records/chunks) + differential correspondence",
        "DESIGN.md section 8 C18"),
    chk("C19",
        "11 Coq theorems (Props/C19.v): scanner model (line splitting, CR stripping, 64 KiB token limit - boundary pinned against the real "
        "library) and the select loop of CollectJSONStream as an event-driven machine over the dynamic collector: for every input and every "
        "schedule in which the flush timer does not fire before the source is exhausted the result is Ok of FTDC decoding to the numeric "
        "projection of every line in order (composed with C08_dynamic) or an error when a line is malformed, too long or unreadable - never Ok of "
        "a proper prefix (C19_json, C19_json_never_short, C19_json_refusal, C19_json_live); CollectRuntime as a machine over the streaming "
        "collector for every valid option set and every timer/cancel event list: the i-th sample has id i, every file is valid FTDC, ids across "
        "files are 0..n-1 without gaps, the final partial batch is flushed on cancel, an idle flush creates no file (C19_runtime*). "
        "C19_timer_refuted is the known finding D17. Correspondence: line streams with lengths straddling the limit, schema changes, a malformed "
        "line at every position; CollectRuntime runs with jittered cancellation incl. parallel collectors, files read back.",
        "Known finding C19-json-type-change (an error on a well-formed stream in which a number changes its BSON type between lines; reported when such cases reproduce it). Trusted: OS, timers and file system are observed, not modelled; Extended-JSON parsing is the library's (its own parse of every line is "
        "handed to the model). Known finding D17: the flush timer firing early returns a shortened result with nil error. Follow mode not covered. "
        "Documents without numeric leaves that the dynamic collector cannot tell apart are outside docs_ok.",
        "Coq proof (event-machine invariants, composition with C08) + differential correspondence",
        "DESIGN.md section 8 C19"),
    chk("C20",
        "Seven Coq theorems (Props/C20.v) over a Gallina model of t2.go (TranslateGenny, translateAtNextWindow with its inclusive prevIdx "
        "cursor and chunk advance, translateMetrics' selection by key, GetGennyTime, the 300-sample streaming collector): for every actor list "
        "with at least one chunk each and every start<end: exactly end-start samples stamped 1000*(start+i); one sub-document per actor in input "
        "order; each actor's values are all zero or one of its own samples; the selected sample is the first at or after the cursor whose ceiling "
        "second differs from the previously selected one; selected positions never move backwards; output chunks hold 300 samples except the last; "
        "GetGennyTime = ceiling seconds of first and maximal last timestamps. Correspondence: actor streams built with the events collectors, "
        "TranslateGenny output decoded with ReadStructuredMetrics/ReadChunks, GetGennyTime; extracted oracles on the decoded output.",
        "Trusted: as C12. float64 Ceil replaced by integer ceiling (exact below 2^53; exercised to 2^43 ms). An actor with no chunk at all "
        "dereferences nil in Go (modelled as None, excluded by hypothesis, observed once in a subprocess). log.Fatal on collector errors not driven.",
        "Coq proof (induction over seconds with a cursor invariant) + differential correspondence",
        "DESIGN.md section 8 C20"),
    chk("C13",
        "Seven Coq theorems (Props/C13.v) over the hdrhist model: value at rank k = representative of the exact k-th order statistic for "
        "every multiset and rank; monotone in rank; Min/Max/mean numerator exact up to the range width; merge of equal geometry = recording "
        "the union with nothing dropped, in either order; merge into another geometry conserves total+dropped; windowed merge = union of the "
        "last n windows for every record/rotate schedule; Export/Import reproduce an equal histogram. Correspondence on quantile grids, merge "
        "splits, window schedules, Export/Import and BSON/JSON round trips, with oracles that use sorted inputs and point functions only.",
        "Trusted: as C12. The float step int64(q/100*n+0.5) is outside the model: the harness computes the rank with the same Go expression and "
        "exactly in rationals and drops (and counts) rounding ties. BSON/JSON marshalling libraries are exercised, not modelled. Known findings "
        "(reported as KNOWN-FINDING when their fixed witnesses reproduce them): C13-quantile-tie (the float64 rank of ValueAtQuantile on an "
        "exact rounding tie is one too low) and C13-mean-overflow (Mean sums count*value in a wrapping int64).",
        "Coq proof (order statistics over the cumulative scan, ring invariant) + differential correspondence",
        "DESIGN.md section 8 C13"),
    chk("C02",
        "Coq theorems (Props/C02.v): for ANY stream the model reader decodes, every chunk's keys are the dot-joined full leaf paths of its "
        "reference document (field names and array indices, '.inc' for the second half of a timestamp), types follow the leaves, timestamp halves "
        "are paired and every series has nPoints values (C02_keys_full_paths); keys are pairwise distinct when keys are dot-free and siblings "
        "distinct (C02_keys_unique); for every compressing collector and same-schema input the chunk table read back equals the specification "
        "table of the inputs — i-th value of each series = normalisation of that leaf in the i-th sample (C02_table); the flattened, structured, "
        "matrix and series views of every chunk are exact projections of that one table with the same keys, order, sample count "
        "(C02_views_project) and original BSON types (C02_types_preserved). Correspondence on shape classes with measured quotas (depth >= 4, "
        "sibling sub-documents, arrays in documents in arrays) through all six reader entry points; oracle built from the input documents only.",
        "A second stage feeds streams of the independent specification encoder of C03 (forms no collector writes) to every view and compares each with the table the specification decoder reads. Trusted: as C01. Known finding D1 (timestamp seconds x1000) excluded by hypothesis and proved as C02_timestamp_refuted. Arrays are assumed "
        "to have fewer than 10^40 elements (decimal index rendering of the model).",
        "Coq proof (induction over value trees; injectivity of dot-joined paths) + differential correspondence",
        "DESIGN.md section 8 C02"),
    chk("C03",
        "Coq theorems (Props/C03.v) against an INDEPENDENT format specification (Spec/FtdcSpec.v, written from the format description; shares "
        "only byte/BSON primitives with the implementation model): C03_spec_roundtrip (every legal encoding - any partition of zero runs incl. "
        "split and boundary-crossing runs, int32/int64/double type fields, interleaved metadata and unknown documents - decodes to the encoded "
        "samples), C03_encode_canonical (for every compressing collector and same-schema input the emitted documents are exactly the spec's "
        "CANONICAL chunk documents of the sample groups: header fields exact, length prefix = payload length, payload byte-identical with the "
        "reference sample verbatim and every zero run maximal; the independent decoder recovers the samples), C03_encode_bytes (no trailing "
        "bytes), C03_decode_complete (the model of the library's reader decodes every spec-conformant stream to exactly its samples; loop "
        "invariant of the zero-run carry against the spec's run expansion), C03_oracle_sound / C03_oracle_docs_sound (the executable oracles the "
        "driver applies to the implementation's bytes - headers, metric vectors, verbatim references, canonical payloads, and every sample read "
        "back as a document equal to its input without the non-metric leaves - hold of the model's output). Correspondence in both directions: collector output decoded by the "
        "extracted spec decoder; streams drawn from the extracted spec encoder (choice lists) fed to all library readers.",
        "Trusted: as C01; zlib itself. Known finding D1 (timestamp seconds) excluded in the decode direction. `type` given as decimal128 is "
        "skipped by the library (the spec covers int32/int64/double). Non-minimal varints are covered by the theorem but not generated.",
        "Coq proof (independent spec, loop invariant, composition with the C01 invariants) + two-way differential correspondence",
        "DESIGN.md section 8 C03"),
    chk("C04",
        "13 Coq theorems (Props/C04.v) over the byte-level reader model (Model/Frame.v: readBufBSON, readDiagnostic, readChunks with the "
        "payload read by the same framing function and the 2^27 size limit; Model/Validate.v mirroring the structural validation in read.go): "
        "for EVERY byte string: the reader's fuel suffices (termination), every delivered chunk makes every view total - no out-of-range "
        "index, timestamp halves paired (C04_no_panic); for every sequence of valid documents every byte prefix reads back exactly the "
        "documents wholly inside it with an error iff the cut is inside a document (C04_truncation); chunks before a damaged tail are still "
        "delivered (C04_prefix_intact); no error is reported iff the input is exactly a concatenation of valid documents whose chunks all decode "
        "(C04_error_iff / C04_error_reported); the validator accepts exactly what the strict decoder decodes (C04_validate_sound/complete, fuel "
        "lemmas); the byte-level chunk reader coincides with the document-level reader of C01-C11 on collector output (C04_bridge, "
        "C04_bridge_stream). Correspondence: every prefix, single-byte substitution/insertion/deletion at every offset of the outer stream and "
        "of the re-compressed payload, perturbed length/count fields, type confusion - each stream through all five reader entry points in a "
        "watchdog'd worker process; crashes and hangs are violations; oracle on error flags and on the chunks before the first damaged byte.",
        "Trusted: as C01; birch's lazy parsing of embedded documents (the validation now rejects what birch would panic on). That an arbitrary "
        "corruption makes a stream ill-formed is established per mutant by the model, not by an abstract corruption theorem. Process-level "
        "memory exhaustion is bounded by the 2^27-value limit (about 1 GiB); a legal near-limit chunk costs tens of seconds. No native fuzz soak.",
        "Coq proof (fuel/termination, prefix induction, validator-decoder equivalence) + exhaustive mutant classes in a watchdog'd subprocess",
        "DESIGN.md section 8 C04"),
    chk("C05",
        "Coq theorems (Props/C05.v) over a labelled transition system of the reader goroutines (document reader RD, chunk decoder RC, document / "
        "matrix worker W with its sample streamer S, consumer; unbuffered and buffered channels with arbitrary capacities; one cancel flag per "
        "cancel function with the context parent relation; catcher as a list), for EVERY input (unbounded lists of good/bad/other documents ending "
        "cleanly or in a read error) and EVERY schedule: C05_error_visible - once the consumer has seen the end of a failed stream an error is "
        "registered, for the chunk iterator and the layered document and matrix/series iterators; C05_err_stays (monotone); C05_all_errors_kept; "
        "C05_local_traces - every goroutine's schedule-point labels are a word of its automaton; C05_order_matters - with the pre-repair order "
        "(close before Add) a 5-step schedule loses the error. Correspondence: stall enumeration over (schedule point, occurrence) x failure "
        "location x 5 entry points on the real readers (the hook inside catcher.Add is the point 'about to register an error'), perturbed "
        "schedules, local-trace conformance, concurrent catcher runs.",
        "Trusted: Go runtime semantics of channels/select/context/mutex (the LTS); Close and catcher.Add are atomic steps in the model; "
        "blocking inside a caller-supplied io.Reader and export errors of the matrix worker are not modelled.",
        "Coq proof (inductive invariant over all schedules and inputs) + systematic stall schedules and local-trace conformance on the real code",
        "DESIGN.md section 8 C05, Appendix A"),
    chk("C06",
        "Coq theorems (Props/C06.v) over the same LTS with the code's capacities (2 / 100 / 25 / 100): after Close or cancellation of the "
        "construction context (flags monotone) the system never deadlocks short of all goroutines being done (C06_no_deadlock), a measure linear "
        "in the unread input strictly decreases with every goroutine step (C06_bounded) so every goroutine terminates under every schedule "
        "(C06_terminates), once they are gone at most capacity further Next calls return true and none blocks (C06_next_after_close), a second "
        "Close changes nothing (C06_close_idempotent); C06_matrix_old_refuted exhibits the pre-repair leak (worker blocked on its full 25-slot "
        "pipe). Correspondence: every reader x stream shapes (up to 40 chunks, 300 samples) x cancel points x {Close, cancel, both, Close twice}, "
        "goroutine profile after cancellation, further items counted, stalls before sends.",
        "Trusted: as C05. 'Within bounded time' is proved as bounded steps under any schedule; wall-clock time and blocking inside io.Reader.Read "
        "are outside the model. Before quiescence a select with both arms ready may deliver more than capacity items (only the linear bound "
        "holds there), so the capacity bound is stated after the goroutines have exited, as the harness measures it.",
        "Coq proof (no-deadlock + decreasing measure over all schedules) + outcome correspondence on the real readers",
        "DESIGN.md section 8 C06, Appendix A"),
    chk("C07",
        "Coq theorems (Props/C07.v) for the five compressing collector kinds, every chunk size and EVERY operation history (Add, unreadable Add, "
        "Resolve, Reset, Flush, SetMetadata, Info; any mix of schemas the collector can tell apart): C07_log — after every operation "
        "decoded(writer) ++ decoded(Resolve) = the accepted-and-not-discarded samples once each in order, Info's sample count = accepted and not yet "
        "flushed, every chunk <= its capacity (the executable statement c07_run is proved true for all histories); C07_rejected_add — a rejected "
        "Add leaves the decoded contents unchanged and the state literally unchanged (except the streaming collector's flush-before-add on "
        "unreadable input); C07_resolve_readonly; C07_reset_fresh — after Reset every continuation behaves as on a fresh collector (with the "
        "metadata the code keeps). Correspondence: all histories of length <= 3/5 over 8 operation symbols + random long ones, observed after "
        "every operation; the same c07_step oracle is applied to the implementation's observations. Section C07Wrappers: "
        "C07_writer_collector_is_sdyn (every NewWriterCollector history is the streaming-dynamic history of the translated operations), "
        "C07_sampling_zero_is_identity / C07_sampling_long_first_only / C07_sampling_inner_history / C07_sampling_never_invents "
        "(NewSamplingCollector over an explicit clock) justify how the histories through those two entry points are evaluated.",
        "Known finding C07-same-types-other-keys (reported as KNOWN-FINDING when the three fixed histories tagged 'renamed' reproduce it): the collectors that are not schema-aware store a document with the chunk's metric types and other key names under the chunk's names. Trusted: as C01. 'only the last chunk of a schema run may hold fewer' is proved as exact chunk sizes for the schema-aware kinds on pure Add "
        "sequences (C08_dynamic), for general histories only the upper bound is proved. Documents the collector cannot tell apart (same metric count "
        "and types, for schema-aware kinds same key paths) are assumed to have one schema.",
        "Coq proof (invariant over collector state and writer log for all kinds, induction over histories) + differential correspondence",
        "DESIGN.md section 8 C07"),
    chk("C08",
        "Coq theorems (Props/C08.v): C08_dynamic — for the dynamic and streaming-dynamic collectors and EVERY document sequence (arbitrary schema "
        "changes, returning to earlier schemas; no type-only change) every Add is accepted, the output decodes to exactly the inputs and the chunk "
        "sizes are exactly change points U capacity points; C08_no_mixing — in every reachable state of every kind every chunk holds only samples "
        "with the metric count and types of its reference document; C08_add_same_types / C08_add_refused — a differing document is refused with an "
        "error and the state unchanged; C08_dyn_count_refuted documents that the dynamic collector compares key paths only. "
        "C08_signature_injective (Proofs/SigInjective.v): the key string the schema-aware collectors hash (bson_hash.go after fix f2c2358, "
        "defect D23) determines the skeleton of a document once the metric types are given, so C08_dynamic_all_schemas states C08_dynamic "
        "WITHOUT the hypothesis that the collector can tell the schemas of the sequence apart. Correspondence and c08_ok oracle on exhaustive "
        "short and random schema sequences (pool incl. regrouped, renamed and moved leaves), and a second stage over the uncompressed "
        "collectors that are not schema-aware (model and oracle of C17).",
        "Trusted: as C01; FNV-64 hash collisions are outside the model (signatures compared as strings). The pre-repair behaviour of both "
        "schema-aware collectors (D9, D10) and of the schema hash (D23) is detected by the oracle (see DESIGN.md section 7).",
        "Coq proof (induction over document sequences, run-length/capacity arithmetic) + differential correspondence",
        "DESIGN.md section 8 C08"),
    chk("C09",
        "6 Coq theorems (Props/C09.v): for the streaming collectors, every history and every fault schedule of clean successes and errors that "
        "consume nothing: the writer's bytes are at every instant the concatenation of complete valid documents (C09_log_wellformed); hence "
        "every byte prefix decodes to exactly the chunks wholly contained in it with an error iff it ends inside a document (C09_prefix, via "
        "C04_truncation and C04_bridge); after k accepted samples at least N*floor((k-1)/N) are in the writer (C09_durability); a failing write "
        "makes the Add/flush return an error, leaves collector and log literally unchanged, and after any later successful flush the decoded log "
        "holds every accepted sample exactly once in order (C09_faults_error - the executable statement c09_run is proved true for every such "
        "history, for all compressing kinds; C09_failed_write). The short-write case is false of the faithful model: C09_short_write_refuted "
        "(known finding D18). Correspondence: every byte offset of the written streams as a crash point (exhaustive for the generated logs), every "
        "placement of one or two faults among the first 8 (12) writes x 3 streaming constructors incl. NewWriterCollector x N in {1,2,3}.",
        "Trusted: as C04. Known finding D18: a Write that consumes part of the payload leaves the partial bytes in the stream and the retry "
        "appends the whole payload (reported as KNOWN-FINDING when the check's own two-write witness reproduces it).",
        "Coq proof (invariant with fault schedules, prefix theorem) + exhaustive crash-point and fault-placement enumeration",
        "DESIGN.md section 8 C09"),
    chk("C10",
        "10 Coq theorems (Props/C10.v) over a labelled transition system of the synchronized collector (RW mutex, Lock/op/Unlock as separate "
        "steps) and of the buffered collector over it (pipe of any capacity incl. rendezvous, drainer, producers whose select arms are separate "
        "transitions, cancel event), for unboundedly many clients, arbitrary programs and EVERY interleaving: the inner log is the sequential "
        "application of the acknowledged Adds in lock-acquisition order, which preserves each producer's program order (exactly once, in order); "
        "Resolve returns a prefix; buffered conservation acked = drained ++ in-hand ++ in-pipe (FIFO, no loss, no duplication); everything "
        "acknowledged before the cancel event is delivered in every later quiescent state; the catcher retains exactly the non-nil errors added "
        "concurrently; no deadlock and bounded critical sections; the drainer's schedule-point trace is a path of its automaton. Correspondence: "
        "G producers x M samples with observers, buffer sizes 0..3, GOMAXPROCS varied, stalls at the drainer's schedule points; the driver must "
        "explain every observed run by a witness schedule executed with the extracted step function; -race build in the thorough tier.",
        "Both tiers repeat their schedules under the Go race detector (quick: one repetition). Trusted: Go runtime semantics of channels, select, context, sync.RWMutex (the LTS); writer preference of RWMutex omitted (adds "
        "interleavings only). 'No data races' as such cannot be exhibited by a Gallina model: carried by the lock-discipline theorem and the race "
        "detector (thorough tier), labelled partial. Termination is stated for quiescent states; the never-exiting drainer is outside the wording.",
        "Coq proof (inductive invariants over all schedules) + witness-schedule correspondence against the real collectors",
        "DESIGN.md section 8 C10"),
    chk("C11",
        "Coq theorems (Props/C11.v): C11_read / C11_read_at - for EVERY list of outer documents the i-th delivered chunk reports the last type-0 "
        "document preceding it (independent left-to-right specification), None exactly when none precedes; C11_items - document, matrix and "
        "series views carry the metadata of the chunk each item came from; C11_emit - for all five compressing kinds, every history (any "
        "documents, unreadable Adds, any write faults) every Resolve result and writer record is [metadata document iff the slot is set, "
        "immediately before the first chunk, same _id, doc = the last SetMetadata] ++ chunk documents, with the per-kind slot policy (Reset keeps "
        "it on base/stream/sdyn, clears it on batch/dyn); C11_emit_indep - erasing all SetMetadata calls changes nothing but the metadata "
        "documents (never mixed into samples). Correspondence: histories with SetMetadata at every position, twin runs without metadata, streams "
        "composed of pieces with stray type-0 and unknown documents through all readers with per-item metadata.",
        "Trusted: as C01. The iterator model is sequential (scheduling is C05/C06). Batch/dynamic collectors drop their metadata on Reset and "
        "after a successful FlushCollector - within the wording, listed as an observation.",
        "Coq proof (induction over document lists and operation histories) + differential correspondence",
        "DESIGN.md section 8 C11"),
    chk("C12",
        "Seven Coq theorems (Props/C12.v) over the Gallina model of hdrhist: for every configuration (0<=lo, 1<=hi<2^62, 1<=s<=5) and every "
        "0<=v<=hi the value is accepted, lies in its reported equivalence range, the range is no wider than max(unit, v*10^-s) and is exactly "
        "the set of values counted together; the iterator cells enumerate the counts array once; for every record sequence total = successes "
        "= sum of counts = sum of distribution bars. The model is tied to /repo on every run by a differential correspondence check "
        "(geometry, index functions, Min/Max/quantile, distributions) and the extracted oracle c12_ok is applied to the implementation's observations. "
        "In addition the integer arithmetic of hdrhist/hdr.go (bitLen, getBucketIndex, getSubBucketIdx, countsIndex(For), valueFromIndex, "
        "sizeOf/lowest/next/highest/medianEquivalentValue, the RecordValues bounds test, the integer part of New) is TRANSLATED from the Go source "
        "into Gallina on every run (harness/hdrtrans.go -> coq/Generated/HdrArith.v) and Props/FactsHdr.v re-proves each translated function equal "
        "to the model's and restates C12_accepts / C12_in_range / C12_width (and C13_rank) over the translated functions. "
        "RecordValues runs and RecordCorrectedValue are in the model: C12_record_values_is_repeated_record_value, C12_corrected_values_closed_form, "
        "C12_corrected_is_a_record_sequence, C12_corrected_counts, C12_corrected_refused_unchanged.",
        "Trusted: Coq kernel, extraction, OCaml/Go/python glue, generator quality. Float64 Log2/Pow steps of New are replaced by exact integer "
        "functions in the model and tied by correspondence only (exhaustively for s in 1..5, lo sampled up to 2^41). hi < 2^62 assumed.",
        "Coq proof (induction, Z.log2 arithmetic) + differential correspondence model vs implementation",
        "DESIGN.md section 8 C12"),
]
