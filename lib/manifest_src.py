HOOKS = {
    "guard": "verif",
    "enable": "go build -tags verif (the harness module /verif/harness replaces github.com/mongodb/ftdc with /repo)",
    "baseline_off_cmd": "cd /repo && GOFLAGS=-mod=mod go test -vet=off -count=1 -timeout 25m ./...",
    "source_commits": ["88e4868"],
    "add_only": True,
}
ENGINES = [
    {"name": "coq-model", "path": "/verif/coq", "serves_properties": ["C12"],
     "kind_free_text": "hand-written Gallina model (Model/), proofs (Proofs/), property theorems (Props/), Coq 8.16.1"},
    {"name": "correspondence", "path": "/verif/harness", "serves_properties": ["C12"],
     "kind_free_text": "Go harness driving /repo (built with -tags verif) + extracted OCaml model and oracle (ocaml/) on the same cases"},
]
NOTES = ("Every check: rebuild Coq closure of Props/<id>.v, parse Print Assumptions, build harness against /repo's working tree, "
         "run implementation and extracted model on the same generated cases, apply the extracted oracle to the implementation's observations.")
NOT_APPLICABLE = {}

def chk(pid, text, note, technique, design):
    return {"property_id": pid, "quick_cmd": "./check %s --tier quick" % pid, "thorough_cmd": "./check %s --tier thorough" % pid,
            "evidence_file": "/verif/evidence/%s.json" % pid, "replay_cmd_template": "./check %s --replay {path}" % pid,
            "engine": "coq-model", "level_claimed": {"category": "proof", "text": text, "design_ref": design},
            "level_note": note, "technique": technique}

CHECKS = [
    chk("C12",
        "Seven Coq theorems (Props/C12.v) over the Gallina model of hdrhist: for every configuration (0<=lo, 1<=hi<2^62, 1<=s<=5) and every "
        "0<=v<=hi the value is accepted, lies in its reported equivalence range, the range is no wider than max(unit, v*10^-s) and is exactly "
        "the set of values counted together; the iterator cells enumerate the counts array once; for every record sequence total = successes "
        "= sum of counts = sum of distribution bars. The model is tied to /repo on every run by a differential correspondence check "
        "(geometry, index functions, Min/Max/quantile, distributions) and the extracted oracle c12_ok is applied to the implementation's observations.",
        "Trusted: Coq kernel, extraction, OCaml/Go/python glue, generator quality. Float64 Log2/Pow steps of New are replaced by exact integer "
        "functions in the model and tied by correspondence only (exhaustively for s in 1..5, lo sampled up to 2^41). hi < 2^62 assumed.",
        "Coq proof (induction, Z.log2 arithmetic) + differential correspondence model vs implementation",
        "DESIGN.md section 8 C12"),
]
