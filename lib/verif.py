"""Common machinery of the /verif checks (see DESIGN.md section 3).

Every check:  build the Coq closure of Props/<id>.v  ->  re-run coqc on the
property file and parse Print Assumptions  ->  (re)generate source facts  ->
build the Go harness against /repo's working tree with -tags verif  ->  run the
implementation on the generated cases  ->  run the extracted model and oracle on
the same cases  ->  verdict, replay file, evidence file.
"""
import json, os, re, subprocess, sys, time, hashlib, glob, shutil

VERIF = os.path.dirname(os.path.dirname(os.path.abspath(__file__)))
# the repository under test; VERIF_REPO_DIR redirects every check to a scratch copy (used for testing the
# checks against seeded mutants without touching /repo); registered commands never set it
REPO = os.environ.get("VERIF_REPO_DIR", "/repo")
COQ = os.path.join(VERIF, "coq")
WORK = os.path.join(VERIF, "work")
# development aid: a scratch copy of the harness module can be used instead of /verif/harness
HARNESS = os.environ.get("VERIF_HARNESS_DIR", os.path.join(VERIF, "harness"))
if REPO != "/repo" and "VERIF_HARNESS_DIR" not in os.environ:
    # private copy of the harness module whose go.mod points at the scratch repository
    _h = os.path.join("/tmp", "verif_harness_" + hashlib.sha1(REPO.encode()).hexdigest()[:10])
    os.makedirs(_h, exist_ok=True)
    for _f in glob.glob(os.path.join(VERIF, "harness", "*.go")) + [os.path.join(VERIF, "harness", "go.mod")]:
        shutil.copy(_f, _h)
    _m = open(os.path.join(_h, "go.mod")).read().replace("=> /repo", "=> " + REPO)
    open(os.path.join(_h, "go.mod"), "w").write(_m)
    HARNESS = _h
    WORK = os.path.join("/tmp", "verif_work_" + hashlib.sha1(REPO.encode()).hexdigest()[:10])
EVIDENCE = os.path.join(VERIF, "evidence")
REPLAYS = os.path.join(VERIF, "replays")
if REPO != "/repo":
    # private copy of the Coq tree (the source-facts translators rewrite coq/Generated from the scratch
    # repository; rsync -a keeps time stamps, so nothing that is up to date is rebuilt) and private evidence,
    # so that runs against scratch repositories never disturb /verif's own build tree or evidence
    _k = hashlib.sha1(REPO.encode()).hexdigest()[:10]
    COQ = os.path.join("/tmp", "verif_coq_" + _k)
    os.makedirs(COQ, exist_ok=True)
    subprocess.run(["rsync", "-a", "--delete", os.path.join(VERIF, "coq") + "/", COQ + "/"], check=True)
    WORK = os.path.join("/tmp", "verif_work_" + _k)
    EVIDENCE = os.path.join(WORK, "evidence")
    REPLAYS = os.path.join(WORK, "replays")
ENV = dict(os.environ, GOFLAGS="-mod=mod", GOPROXY="off", GOSUMDB="off", GOTOOLCHAIN="local",
           CGO_ENABLED=os.environ.get("CGO_ENABLED", "0"))

FORBIDDEN = re.compile(r"\b(Admitted|admit|Axiom|Axioms|Parameter|Parameters|Conjecture|Admit Obligations|"
                       r"Unset Guard Checking|Unset Positivity Checking|Unset Universe Checking|bypass_check|"
                       r"type-in-type|impredicative-set)\b")

TRUSTED_BASE_COMMON = [
    "Coq 8.16.1 kernel (coqc); vm_compute used for closed computations; no native_compute",
    "no axioms declared by this development (Print Assumptions output parsed on every run)",
    "extraction: ExtrOcamlBasic only (Extract Inductive bool/option/unit/list/prod/sumbool/sumor, "
    "Extract Inlined Constant andb/orb); N, Z, positive, nat stay Coq datatypes",
    "OCaml drivers ocaml/zglue.ml + ocaml/<id>_run.ml (parsing/printing glue), OCaml 4.13.1 compiler",
    "Go harness (generators, observation of the implementation), python driver lib/verif.py",
]


class build_lock:
    """one build at a time in the trees a build writes to (coq/, harness/bin): checks may be started side by side.
    Re-entrant within a process. With VERIF_REPO_DIR the Coq tree, the harness and the work directory are private copies
    and so is this lock; the OCaml drivers are always built in the shared /verif/ocaml (ocaml_lock)."""
    depth = 0
    f = None
    lockname = ".build.lock"

    @classmethod
    def lockdir(cls):
        return WORK

    def __enter__(self):
        import fcntl
        cls = type(self)
        if cls.depth == 0:
            os.makedirs(cls.lockdir(), exist_ok=True)
            cls.f = open(os.path.join(cls.lockdir(), cls.lockname), "w")
            fcntl.flock(cls.f, fcntl.LOCK_EX)
        cls.depth += 1
        return self

    def __exit__(self, *a):
        import fcntl
        cls = type(self)
        cls.depth -= 1
        if cls.depth == 0:
            fcntl.flock(cls.f, fcntl.LOCK_UN)
            cls.f.close()
            cls.f = None


class ocaml_lock(build_lock):
    depth = 0
    f = None
    lockname = ".ocaml.lock"

    @classmethod
    def lockdir(cls):
        return os.path.join(VERIF, "work")


def sh(cmd, timeout=600, cwd=None, env=None, input=None):
    """run a shell command; returns (rc, combined output). rc 124 on timeout."""
    try:
        p = subprocess.run(cmd, shell=isinstance(cmd, str), cwd=cwd, env=env or ENV, input=input,
                           stdout=subprocess.PIPE, stderr=subprocess.STDOUT, timeout=timeout, text=True)
        return p.returncode, p.stdout
    except subprocess.TimeoutExpired as e:
        outp = e.stdout if isinstance(e.stdout, str) else (e.stdout or b"").decode("utf8", "replace")
        return 124, outp + "\n[timeout]"


class Check:
    def __init__(self, pid, tier, seed):
        self.pid, self.tier, self.seed = pid, tier, seed
        self.t0 = time.time()
        self.work = os.path.join(WORK, pid)
        os.makedirs(self.work, exist_ok=True)
        os.makedirs(EVIDENCE, exist_ok=True)
        os.makedirs(REPLAYS, exist_ok=True)
        self.env = dict(ENV, VERIF_SEED=str(seed), VERIF_TIER=tier)
        self.violations = []      # list of (replay_path, suffix)
        self.known_hits = {}      # finding id -> text
        self.notes = []
        self.proof = None
        self.assumptions = []
        self.broken = []          # names of theorems / correspondences that no longer check

    # ---------------------------------------------------------------- Coq
    def coq_build(self, targets):
        """build the .vo closure of the given targets (paths relative to coq/)"""
        with build_lock():
            rc, out = sh("./mkproject.sh", cwd=COQ, timeout=120)
            if rc != 0:
                return False, out
            vos = " ".join(t[:-2] + ".vo" if t.endswith(".v") else t for t in targets)
            rc, out = sh("timeout 1500 make -j16 %s" % vos, cwd=COQ, timeout=1600)
            return rc == 0, out

    def coq_props(self, props_file, extra_targets=()):
        """compile the property file (and the source-facts obligations that belong to this property,
        after regenerating their tables from the repository's current source) and parse the
        Print Assumptions output."""
        with build_lock():
            return self._coq_props(props_file, extra_targets)

    def _coq_props(self, props_file, extra_targets=()):
        import facts
        fact_files = list(facts.FACTS_FOR.get(self.pid, []))
        if fact_files:
            okg, _ = self.go_build()
            if okg:
                okf, flog = facts.regenerate(self)
                self.facts_log = flog[-600:]
                if not okf:
                    self.broken.append("source facts no longer extractable (harness/facts.go, lockpaths.go, hdrtrans.go): %s" % flog[-600:])
        src = "\n".join(open(os.path.join(COQ, f)).read() for f in [props_file] + fact_files)
        stripped = re.sub(r"\(\*.*?\*\)", "", src, flags=re.S)
        theorems = re.findall(r"^\s*(?:Theorem)\s+([A-Za-z0-9_']+)", stripped, flags=re.M)
        ok, log = self.coq_build([props_file] + fact_files + list(extra_targets))
        res = {"file": props_file, "theorems": theorems, "obligations": len(theorems), "discharged": 0,
               "axioms": [], "ok": ok, "log": log[-3000:]}
        hits = self.forbidden_scan()
        res["forbidden_hits"] = hits
        if ok:
            rc, out = 0, ""
            for pf in [props_file] + fact_files:
                rc1, out1 = sh("timeout 900 coqc -R . FV -w -notation-overridden,-deprecated-hint-without-locality,"
                               "-deprecated-instance-without-locality %s" % pf, cwd=COQ, timeout=1000)
                rc = rc or rc1
                out += out1
            res["ok"] = rc == 0
            if rc != 0:
                res["log"] = out[-3000:]
            closed = len(re.findall(r"Closed under the global context", out))
            axblocks = re.findall(r"Axioms:\n((?:.+\n?)+?)(?=\n\S|\Z)", out)
            axioms = []
            for blk in axblocks:
                for l in blk.splitlines():
                    m = re.match(r"^([A-Za-z0-9_.']+)\s*:", l)
                    if m:
                        axioms.append(m.group(1))
            res["discharged"] = min(len(theorems), closed + len(axblocks)) if rc == 0 else 0
            res["axioms"] = sorted(set(axioms))
        if hits:
            res["ok"] = False
            res["log"] = "forbidden constructs: %s" % hits
        self.proof = res
        if not res["ok"] or res["discharged"] != res["obligations"]:
            self.broken.append("Coq development for %s (%s): %s" % (self.pid, props_file, res["log"][-800:]))
        return res

    def forbidden_scan(self):
        hits = []
        for f in glob.glob(os.path.join(COQ, "**", "*.v"), recursive=True):
            txt = open(f).read()
            txt = re.sub(r"\(\*.*?\*\)", "", txt, flags=re.S)
            for m in FORBIDDEN.finditer(txt):
                hits.append("%s: %s" % (os.path.relpath(f, COQ), m.group(0)))
        return hits

    def coqchk(self, props_file):
        mod = "FV." + props_file[:-2].replace("/", ".")
        rc, out = sh("timeout 3000 coqchk -silent -o -R . FV %s" % mod, cwd=COQ, timeout=3100)
        return rc == 0, out[-2500:]

    def ocaml_build(self, model, driver, outname):
        with ocaml_lock():
            rc, out = sh("./build.sh %s %s %s" % (model, driver, outname), cwd=os.path.join(VERIF, "ocaml"), timeout=600)
        if rc != 0:
            self.broken.append("OCaml build of %s: %s" % (outname, out[-800:]))
        return rc == 0, out

    # ---------------------------------------------------------------- Go
    def go_build(self, race=False):
        h = HARNESS
        try:
            shutil.copyfile(os.path.join(REPO, "go.sum"), os.path.join(h, "go.sum"))
        except OSError:
            pass
        binname = "bin/ftdcverif-race" if race else "bin/ftdcverif"
        env = dict(self.env)
        if race:
            env["CGO_ENABLED"] = "1"
        with build_lock():
            rc, out = sh("go build %s -tags verif -o %s.new . && mv -f %s.new %s" % ("-race" if race else "", binname, binname, binname),
                         cwd=h, env=env, timeout=900)
        if rc != 0:
            self.broken.append("harness does not build against /repo (go build -tags verif): %s" % out[-1500:])
        return rc == 0, out

    def harness(self, args, timeout=900, race=False):
        b = os.path.join(HARNESS, "bin/ftdcverif-race" if race else "bin/ftdcverif")
        return sh([b] + list(args), cwd=self.work, env=self.env, timeout=timeout)

    def model(self, outname, args, timeout=900):
        # extracted code recurses deeply on long lists: lift the stack limit for the driver
        import shlex
        cmd = "ulimit -v 4000000 2>/dev/null; exec " + " ".join(shlex.quote(a) for a in
                                                                 [os.path.join(VERIF, "ocaml", "bin", outname)] + list(args))
        return sh(cmd, cwd=self.work, timeout=timeout)

    # ---------------------------------------------------------------- findings
    def known_findings(self):
        path = os.path.join(VERIF, "KNOWN_FINDINGS.jsonl")
        res = []
        if os.path.exists(path):
            for l in open(path):
                l = l.strip()
                if not l or l.startswith("#") or l.startswith("fixed:"):
                    continue
                try:
                    j = json.loads(l)
                except ValueError:
                    continue
                if j.get("property") == self.pid and j.get("status", "open") == "open":
                    res.append(j)
        return res

    def known(self, finding):
        self.known_hits[finding["id"]] = finding["what"]

    # ---------------------------------------------------------------- verdict
    def replay_path(self, tag=""):
        return os.path.join(REPLAYS, "%s-%s-%d%s.json" % (self.pid, self.tier, self.seed, tag))

    def violation(self, replay_obj, no_input=False, tag=""):
        path = self.replay_path(tag if tag else ("-%d" % len(self.violations) if self.violations else ""))
        replay_obj = dict(replay_obj, property=self.pid, tier=self.tier, seed=self.seed)
        with open(path, "w") as f:
            json.dump(replay_obj, f, indent=1, default=str)
        self.violations.append((path, " no-failing-input-found" if no_input else ""))

    def finish(self, coverage, assumptions=None, level="proof"):
        wall = time.time() - self.t0
        cov = dict(coverage)
        if self.proof is not None:
            cov.setdefault("obligations", self.proof["obligations"])
            cov.setdefault("discharged", self.proof["discharged"])
            cov.setdefault("checker_cmd", "cd /verif/coq && ./mkproject.sh && make -j16 %s && coqc -R . FV %s"
                           % (self.proof["file"][:-2] + ".vo", self.proof["file"]))
            cov.setdefault("theorems", self.proof["theorems"])
            cov.setdefault("axioms_reported", self.proof["axioms"])
            tb = list(TRUSTED_BASE_COMMON) + list(cov.get("trusted_base", []))
            if self.proof["axioms"]:
                tb.append("axioms reported by Print Assumptions: " + ", ".join(self.proof["axioms"]))
            else:
                tb.append("Print Assumptions: every property theorem is 'Closed under the global context'")
            cov["trusted_base"] = tb
        cov["known_findings_seen"] = sorted(self.known_hits)
        cov["broken"] = self.broken
        ev = {"property_id": self.pid, "tier": self.tier, "seed": self.seed, "level": level, "coverage": cov,
              "assumptions": assumptions or [], "wall_s": round(wall, 2), "violations": len(self.violations)}
        with open(os.path.join(EVIDENCE, "%s.json" % self.pid), "w") as f:
            json.dump(ev, f, indent=1, default=str)
        for fid, what in sorted(self.known_hits.items()):
            print("KNOWN-FINDING: property=%s %s [%s]" % (self.pid, what, fid))
        for path, suffix in self.violations:
            print("VIOLATION property=%s replay=%s%s" % (self.pid, path, suffix))
        for n in self.notes:
            print("note:", n)
        print("%s %s tier=%s seed=%d wall=%.1fs obligations=%s discharged=%s evaluations=%s" % (
            self.pid, "FAIL" if self.violations else "ok", self.tier, self.seed, wall,
            cov.get("obligations"), cov.get("discharged"), cov.get("evaluations")))
        sys.exit(1 if self.violations else 0)


def parse_model_output(out):
    """split driver output into mismatch lines, viol lines and the summary dict"""
    mism, viol, summ, other = [], [], {}, []
    for l in out.splitlines():
        if l.startswith("MISMATCH"):
            mism.append(l)
        elif l.startswith("VIOL"):
            viol.append(l)
        elif l.startswith("SUMMARY"):
            for kv in l.split()[1:]:
                k, _, v = kv.partition("=")
                try:
                    summ[k] = int(v)
                except ValueError:
                    summ[k] = v
        elif l.strip():
            other.append(l)
    return mism, viol, summ, other


def distinct(lines):
    return len(set(hashlib.sha1(l.encode()).hexdigest() for l in lines))
