#!/usr/bin/env python3
"""Regenerates MANIFEST.json from lib/manifest_src.py (keeps not_applicable current)."""
import json, os, sys
sys.path.insert(0, os.path.dirname(os.path.abspath(__file__)))
import manifest_src as S
V = os.path.dirname(os.path.dirname(os.path.abspath(__file__)))
props = [json.loads(l) for l in open(os.path.join(V, "properties.jsonl"))]
claimed = {c["property_id"] for c in S.CHECKS}
m = {"version": 1, "setup_cmd": "./setup.sh", "hooks": S.HOOKS, "engines": S.ENGINES, "checks": S.CHECKS, "notes": S.NOTES,
     "not_applicable": [{"property_id": p["id"], "reason": S.NOT_APPLICABLE.get(p["id"], "check not built yet (construction in progress; DESIGN.md section 11)")}
                        for p in props if p["id"] not in claimed]}
json.dump(m, open(os.path.join(V, "MANIFEST.json"), "w"), indent=1)
print("claimed:", sorted(claimed))
