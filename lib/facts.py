"""Source-facts translator glue (DESIGN.md section 5b) for the three fact families of harness/facts.go.

    regenerate(check)  runs `ftdcverif facts <verif.REPO> <verif.COQ>/Generated` (the harness binary
                       must have been built: check.go_build()) and returns (ok, log).  The command
                       rewrites Generated/TypeTables.v, PerfKeys.v, Caps.v from the repository's current
                       source (a file is only rewritten when its content changes, so make does not
                       rebuild anything on an unchanged tree).  ok is False when the translator no longer
                       understands the source ("source facts no longer extractable: file:line: ..."); in
                       that case nothing is written and the previously generated files stay in place.
    FACTS_FOR          property id -> the Props/Facts*.v files whose obligations belong to it; build them
                       with check.coq_props / check.coq_build after regenerate().

For the properties of HDRTRANS_FOR (C12, C13) regenerate(check) instead runs the Go -> Gallina translator
`ftdcverif hdrtrans <verif.REPO> <verif.COQ>/Generated/HdrArith.v` (harness/hdrtrans.go): the integer arithmetic
of hdrhist/hdr.go as Gallina definitions, proved equal to Model/Hdr.v in Proofs/HdrTranslated.v (obligations:
Props/FactsHdr.v).  Same contract: rewritten only when changed, nothing written when the source is outside the
translator's Go subset.
"""
import os
import re

import verif

GENERATED = ["TypeTables.v", "PerfKeys.v", "Caps.v"]

FACTS_FOR = {
    "C01": ["Props/FactsTypes.v"],   # encoder / decoder / restore type switches agree with the model
    "C02": ["Props/FactsTypes.v"],   # every reader view (flat, matrix, series, csv) handles the same types
    "C14": ["Props/FactsKeys.v"],    # Performance marshal/unmarshal key tables are the model's
    "C20": ["Props/FactsCaps.v"],    # max_samples, second_ms
    "C06": ["Props/FactsCaps.v"],    # channel capacities of the reader pipelines
    "C10": ["Props/FactsLocks.v"],   # synchronized collectors and catcher: write lock on every mutating method
    "C12": ["Props/FactsHdr.v"],     # hdrhist/hdr.go integer arithmetic, translated, equals Model/Hdr.v
    "C13": ["Props/FactsHdr.v"],     # same functions (highest/lowest/medianEquivalentValue under the quantiles)
}

# the generated files a property's obligations read: only these are regenerated for it, so that a source change the
# extractor of another family no longer understands does not break this property's check
FAMILIES_FOR = {"C01": ["TypeTables.v"], "C02": ["TypeTables.v"], "C14": ["PerfKeys.v"], "C20": ["Caps.v"], "C06": ["Caps.v"]}

# properties whose obligations read Generated/LockPaths.v (harness/lockpaths.go); C16's own check regenerates it itself
LOCKPATHS_FOR = {"C10"}

# properties whose obligations read Generated/HdrArith.v (harness/hdrtrans.go)
HDRTRANS_FOR = {"C12", "C13"}
HDRTRANS_GENERATED = "HdrArith.v"


def regenerate(check):
    """regenerate coq/Generated/{TypeTables,PerfKeys,Caps}.v from verif.REPO; returns (ok, log)"""
    out_dir = os.path.join(verif.COQ, "Generated")
    if check.pid in LOCKPATHS_FOR:
        rc, out = check.harness(["lockpaths", verif.REPO, os.path.join(out_dir, "LockPaths.v")], timeout=120)
        ok = rc == 0 and re.search(r"lockpaths: \d+ entries", out) is not None
        return ok, out
    if check.pid in HDRTRANS_FOR:
        rc, out = check.harness(["hdrtrans", verif.REPO, os.path.join(out_dir, HDRTRANS_GENERATED)], timeout=120)
        ok = rc == 0 and re.search(r"^hdrtrans: %s (unchanged|written)$" % re.escape(HDRTRANS_GENERATED), out,
                                   flags=re.M) is not None
        return ok, out
    fams = FAMILIES_FOR.get(check.pid, GENERATED)
    rc, out = check.harness(["facts", verif.REPO, out_dir] + fams, timeout=120)
    ok = rc == 0 and all(re.search(r"^facts: %s (unchanged|written)$" % re.escape(f), out, flags=re.M)
                         for f in fams)
    return ok, out


def changed(log):
    """names of the generated files the last regenerate() rewrote"""
    return re.findall(r"^(?:facts|hdrtrans): (\S+) written$", log, flags=re.M)
