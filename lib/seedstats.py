#!/usr/bin/env python3
"""Summary over seeded/*/meta.json: how many archived changes are reported by their own property's check, by some check,
by none; optionally restricted to a round (seed numbers lo..hi)."""
import glob, json, os, re, sys
V = os.path.dirname(os.path.dirname(os.path.abspath(__file__)))
lo, hi = (int(sys.argv[1]), int(sys.argv[2])) if len(sys.argv) > 2 else (1, 999)
own = some = none = obsolete = total = 0
missed_own, missed_all = [], []
for f in sorted(glob.glob(os.path.join(V, "seeded", "*", "meta.json"))):
    name = os.path.basename(os.path.dirname(f)); k = int(name.split("-")[1])
    if not lo <= k <= hi:
        continue
    m = json.load(open(f)); total += 1
    if m.get("obsolete_after_fix"):
        obsolete += 1
        continue
    det = {c: v.get("exit") for c, v in m.get("detected_by", {}).items() if re.match(r"C\d\d$", c)}
    if det.get(name[:3]) == 1:
        own += 1
    elif any(e == 1 for e in det.values()):
        some += 1; missed_own.append(name)
    else:
        none += 1; missed_all.append(name)
print("total %d: own check %d, neighbouring check only %d (%s), no check %d (%s), obsolete after a fix %d" %
      (total, own, some, " ".join(missed_own), none, " ".join(missed_all), obsolete))
