#!/bin/sh
# lib/mutant.sh <patch.diff> <check-id>... : run checks against a scratch copy of /repo with a patch applied.
# Evidence/replays written by such runs are scratch, too (they are restored afterwards).
set -e
patch=$(readlink -f "$1"); shift
tmp=$(mktemp -d /tmp/mutant_repo.XXXXXX)
cp -r /repo/. "$tmp"/
(cd "$tmp" && git apply "$patch")
cd /verif
mkdir -p /tmp/mutant_evidence_backup && cp -r evidence/. /tmp/mutant_evidence_backup/ 2>/dev/null || true
for id in "$@"; do
  echo "== $id on mutant $(basename $(dirname $patch))/$(basename $patch)"
  VERIF_REPO_DIR="$tmp" ./check "$id" 2>&1 | grep -E "^(VIOLATION|KNOWN-FINDING|C[0-9]+ (ok|FAIL))" || true
done
cp -r /tmp/mutant_evidence_backup/. evidence/ 2>/dev/null || true
h=$(python3 -c "import hashlib,sys;print(hashlib.sha1(sys.argv[1].encode()).hexdigest()[:10])" "$tmp")
rm -rf "$tmp" /tmp/verif_harness_$h /tmp/verif_work_$h /tmp/mutant_evidence_backup
