#!/bin/sh
# lib/mutant.sh <patch.diff> <check-id>... : run checks against a scratch copy of /repo with a patch applied.
# Such runs use a private Coq tree, harness, work and evidence directory under /tmp (lib/verif.py), removed afterwards.
set -e
patch=$(readlink -f "$1"); shift
tmp=$(mktemp -d /tmp/mutant_repo.XXXXXX)
cp -r /repo/. "$tmp"/
(cd "$tmp" && git apply "$patch")
cd /verif
for id in "$@"; do
  echo "== $id on mutant $(basename $(dirname $patch))/$(basename $patch)"
  VERIF_REPO_DIR="$tmp" ./check "$id" 2>&1 | grep -E "^(VIOLATION|KNOWN-FINDING|C[0-9]+ (ok|FAIL))" || true
done
h=$(python3 -c "import hashlib,sys;print(hashlib.sha1(sys.argv[1].encode()).hexdigest()[:10])" "$tmp")
rm -rf /tmp/mutant_last_replays; cp -r /tmp/verif_work_$h/replays /tmp/mutant_last_replays 2>/dev/null || true
rm -rf "$tmp" /tmp/verif_harness_$h /tmp/verif_work_$h /tmp/verif_coq_$h
