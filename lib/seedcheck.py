#!/usr/bin/env python3
"""lib/seedcheck.py <seed_out_dir>/<i> <pkgs-for-baseline> -- <check ids...>
Confirms a seeded change (patch.diff + demo + meta.json) on scratch copies of /repo:
 (1) the patch applies, builds, and the stable baseline tests of the given packages still pass,
 (2) the demonstration fails with the change and passes without it,
 (3) runs the named checks against the mutant (via VERIF_REPO_DIR) and reports their verdicts.
Prints a JSON summary; never touches /repo."""
import json, os, shutil, subprocess, sys, tempfile
args = sys.argv[1:]
d = os.path.abspath(args[0]); rest = args[1:]
pkgs, checks = (rest[:rest.index("--")], rest[rest.index("--") + 1:]) if "--" in rest else (rest, [])
env = dict(os.environ, GOFLAGS="-mod=mod", GOPROXY="off", GOSUMDB="off", GOTOOLCHAIN="local")
meta = json.load(open(os.path.join(d, "meta.json")))
def sh(cmd, cwd=None, e=None, timeout=1800):
    p = subprocess.run(cmd, shell=True, cwd=cwd, env=e or env, stdout=subprocess.PIPE, stderr=subprocess.STDOUT, text=True, timeout=timeout)
    return p.returncode, p.stdout
def copy_repo():
    t = tempfile.mkdtemp(prefix="seedchk_")
    sh("cp -r /repo/. %s/" % t)
    return t
res = {"dir": d, "meta_summary": meta.get("summary")}
clean, mut = copy_repo(), copy_repo()
try:
    rc, out = sh("git apply %s" % os.path.join(d, "patch.diff"), cwd=mut)
    res["patch_applies"] = rc == 0
    if rc != 0:
        res["error"] = out[-500:]
    else:
        rc, out = sh("go build ./... && go build -tags verif ./...", cwd=mut)
        res["builds"] = rc == 0
        # baseline on the mutant
        base = json.load(open("/root/.vp/BASELINE.json")); want = set(base["stable_pass"])
        rc, out = sh("go test -json -vet=off -count=1 -timeout 25m %s" % " ".join(pkgs), cwd=mut)
        passed = set()
        for l in out.splitlines():
            try:
                j = json.loads(l)
            except ValueError:
                continue
            if j.get("Test") and j.get("Action") == "pass":
                passed.add("%s::%s" % (j["Package"], j["Test"]))
        pk = set(x.split("::")[0] for x in passed)
        scope = set(x for x in want if x.split("::")[0] in pk)
        res["baseline_missing"] = sorted(scope - passed)[:10]
        res["baseline_ok"] = not (scope - passed) and len(scope) > 0
        # demo
        demo = [f for f in os.listdir(d) if f.startswith("demo")]
        loc = meta.get("demo_location", "")
        for name, tree in (("clean", clean), ("mutant", mut)):
            if demo and loc:
                dst = os.path.join(tree, loc)
                os.makedirs(os.path.dirname(dst), exist_ok=True)
                shutil.copy(os.path.join(d, demo[0]), dst)
                pkgdir = os.path.dirname(loc) or "."
                rc, out = sh("go test -tags verif -vet=off -count=1 -run 'Seed|Demo' ./%s/" % pkgdir, cwd=tree, timeout=900)
                res["demo_%s_passes" % name] = rc == 0
                os.remove(dst)
        res["demo_confirms"] = res.get("demo_clean_passes") is True and res.get("demo_mutant_passes") is False
        # checks against the mutant
        res["checks"] = {}
        for cid in checks:
            rc, out = sh("./check %s" % cid, cwd="/verif", e=dict(env, VERIF_REPO_DIR=mut), timeout=1800)
            lines = [l for l in out.splitlines() if l.startswith(("VIOLATION", "KNOWN-FINDING")) or " ok " in l or " FAIL " in l]
            res["checks"][cid] = {"exit": rc, "lines": lines[:6]}
finally:
    shutil.rmtree(clean, ignore_errors=True); shutil.rmtree(mut, ignore_errors=True)
    import hashlib
    _h = hashlib.sha1(mut.encode()).hexdigest()[:10]
    sh("rm -rf /tmp/verif_harness_%s /tmp/verif_work_%s /tmp/verif_coq_%s" % (_h, _h, _h))
print(json.dumps(res, indent=1))
