#!/bin/sh
# run every property check (quick tier) and print one verdict line each
cd "$(dirname "$0")/.."
for id in ${@:-C01 C02 C03 C04 C05 C06 C07 C08 C09 C10 C11 C12 C13 C14 C15 C16 C17 C18 C19 C20}; do
  start=$(date +%s)
  out=$(timeout 900 ./check $id 2>&1); rc=$?
  end=$(date +%s)
  echo "$id rc=$rc $((end-start))s :: $(echo "$out" | grep -E "^(VIOLATION|KNOWN-FINDING)" | cut -c1-110 | tr '\n' ';') $(echo "$out" | tail -1 | cut -c1-120)"
done
