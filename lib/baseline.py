#!/usr/bin/env python3
"""Run the repository's test-suite (guard off) and compare with /root/.vp/BASELINE.json stable_pass."""
import json, subprocess, sys, os
base = json.load(open("/root/.vp/BASELINE.json"))
want = set(base["stable_pass"])
env = dict(os.environ, GOFLAGS="-mod=mod", GOPROXY="off", GOSUMDB="off")
pkgs = sys.argv[1:] or ["./..."]
p = subprocess.run(["go", "test", "-json", "-vet=off", "-count=1", "-timeout", "25m"] + pkgs, cwd="/repo", env=env,
                   stdout=subprocess.PIPE, stderr=subprocess.STDOUT, text=True)
passed, failed = set(), set()
for l in p.stdout.splitlines():
    try:
        j = json.loads(l)
    except ValueError:
        continue
    if j.get("Test") and j.get("Action") in ("pass", "fail"):
        (passed if j["Action"] == "pass" else failed).add("%s::%s" % (j["Package"], j["Test"]))
pk = set(x.split("::")[0] for x in passed | failed)
scope = set(x for x in want if x.split("::")[0] in pk)
missing = sorted(scope - passed)
print("baseline stable_pass in scope: %d, passed now: %d, missing: %d, failed now: %d" % (len(scope), len(scope & passed), len(missing), len(failed)))
for m in missing[:40]:
    print("  NOT PASSING:", m)
sys.exit(1 if missing else 0)
