#!/usr/bin/env python3
"""lib/seedkeep.py <seed_out_dir>/<i> <name> <pkgs...> -- <checks...> : confirm (seedcheck) and archive under /verif/seeded/<name>/"""
import json, os, shutil, subprocess, sys
d, name = sys.argv[1], sys.argv[2]
out = subprocess.run([sys.executable, os.path.join(os.path.dirname(__file__), "seedcheck.py"), d] + sys.argv[3:], stdout=subprocess.PIPE, text=True).stdout
res = json.loads(out)
ok = res.get("patch_applies") and res.get("builds") and res.get("baseline_ok") and res.get("demo_confirms")
print(name, "CONFIRMED" if ok else "NOT CONFIRMED", {k: v["exit"] for k, v in res.get("checks", {}).items()})
if ok:
    dst = os.path.join("/verif/seeded", name)
    os.makedirs(dst, exist_ok=True)
    for f in os.listdir(d):
        shutil.copy(os.path.join(d, f), dst)
    meta = json.load(open(os.path.join(dst, "meta.json")))
    meta["confirmed_by_coordinator"] = {"patch_applies": True, "builds_with_and_without_verif_tag": True, "stable_baseline_tests_still_pass": True,
                                        "demo_fails_with_change_passes_without": True, "commands": "lib/seedcheck.py (scratch copies of /repo)"}
    meta["detected_by"] = {k: {"exit": v["exit"], "verdict_lines": v["lines"]} for k, v in res.get("checks", {}).items()}
    json.dump(meta, open(os.path.join(dst, "meta.json"), "w"), indent=1)
else:
    print(json.dumps(res, indent=1)[:1500])
