#!/usr/bin/env python3
"""lib/seedrecheck.py <name> <pkgs...> -- <checks...> : re-run seedcheck on an archived seed (/verif/seeded/<name>) and
refresh meta.json's detected_by (used after a check was strengthened)."""
import json, os, subprocess, sys
name = sys.argv[1]
d = os.path.join("/verif/seeded", name)
out = subprocess.run([sys.executable, os.path.join(os.path.dirname(__file__), "seedcheck.py"), d] + sys.argv[2:], stdout=subprocess.PIPE, text=True).stdout
res = json.loads(out)
ok = res.get("patch_applies") and res.get("builds") and res.get("baseline_ok") and res.get("demo_confirms")
print(name, "CONFIRMED" if ok else "NOT CONFIRMED", {k: v["exit"] for k, v in res.get("checks", {}).items()})
if ok:
    mp = os.path.join(d, "meta.json")
    meta = json.load(open(mp))
    prev = meta.get("detected_by", {})
    if any(v.get("exit") == 0 for v in prev.values()) and "first_run_before_strengthening" not in meta:
        meta["first_run_before_strengthening"] = {k: v.get("exit") for k, v in prev.items()}
    meta["detected_by"] = {k: {"exit": v["exit"], "verdict_lines": v["lines"]} for k, v in res.get("checks", {}).items()}
    json.dump(meta, open(mp, "w"), indent=1)
