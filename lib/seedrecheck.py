#!/usr/bin/env python3
"""lib/seedrecheck.py <name> <checks...> : re-run the named checks against an archived, already confirmed seed
(/verif/seeded/<name>/patch.diff applied to a scratch copy of /repo) and refresh meta.json's detected_by
(used after a check was strengthened; the first result is kept under first_run_before_strengthening)."""
import json, os, shutil, subprocess, sys, tempfile, hashlib
name, checks = sys.argv[1], sys.argv[2:]
d = os.path.join("/verif/seeded", name)
env = dict(os.environ, GOFLAGS="-mod=mod", GOPROXY="off", GOSUMDB="off", GOTOOLCHAIN="local")
mut = tempfile.mkdtemp(prefix="seedre_")
subprocess.run("cp -r /repo/. %s/" % mut, shell=True, check=True)
res = {}
try:
    subprocess.run("git apply %s" % os.path.join(d, "patch.diff"), shell=True, cwd=mut, check=True)
    for cid in checks:
        p = subprocess.run("./check %s" % cid, shell=True, cwd="/verif", env=dict(env, VERIF_REPO_DIR=mut),
                           stdout=subprocess.PIPE, stderr=subprocess.STDOUT, text=True, timeout=1800)
        lines = [l for l in p.stdout.splitlines() if l.startswith(("VIOLATION", "KNOWN-FINDING")) or " ok " in l or " FAIL " in l]
        res[cid] = {"exit": p.returncode, "verdict_lines": lines[:6]}
finally:
    shutil.rmtree(mut, ignore_errors=True)
    h = hashlib.sha1(mut.encode()).hexdigest()[:10]
    subprocess.run("rm -rf /tmp/verif_harness_%s /tmp/verif_work_%s /tmp/verif_coq_%s" % (h, h, h), shell=True)
mp = os.path.join(d, "meta.json")
meta = json.load(open(mp))
prev = meta.get("detected_by", {})
if "first_run_before_strengthening" not in meta and any(prev.get(k, {}).get("exit") == 0 and v["exit"] != 0 for k, v in res.items()):
    meta["first_run_before_strengthening"] = {k: v.get("exit") for k, v in prev.items()}
prev.update(res)
meta["detected_by"] = {k: v for k, v in prev.items() if k.startswith("C")}
json.dump(meta, open(mp, "w"), indent=1)
print(name, {k: v["exit"] for k, v in res.items()})
