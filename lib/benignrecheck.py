#!/usr/bin/env python3
"""lib/benignrecheck.py <name> [checks...] : re-run the checks recorded for an archived behaviour-preserving change
(/verif/benign/<name>/patch.diff applied to a scratch copy of /repo) against the current machinery and refresh
meta.json's checks_run / alarms."""
import json, os, re, shutil, subprocess, sys, tempfile, hashlib
name = sys.argv[1]
d = os.path.join("/verif/benign", name)
mp = os.path.join(d, "meta.json")
meta = json.load(open(mp))
checks = sys.argv[2:] or sorted(meta.get("checks_run", {}))
env = dict(os.environ, GOFLAGS="-mod=mod", GOPROXY="off", GOSUMDB="off", GOTOOLCHAIN="local")
mut = tempfile.mkdtemp(prefix="benignre_")
subprocess.run("cp -r /repo/. %s/" % mut, shell=True, check=True)
res, alarms = {}, {}
try:
    subprocess.run("git apply %s" % os.path.join(d, "patch.diff"), shell=True, cwd=mut, check=True)
    for cid in checks:
        p = subprocess.run("./check %s" % cid, shell=True, cwd="/verif", env=dict(env, VERIF_REPO_DIR=mut),
                           stdout=subprocess.PIPE, stderr=subprocess.STDOUT, text=True, timeout=1800)
        lines = [l for l in p.stdout.splitlines() if l.startswith(("VIOLATION", "KNOWN-FINDING")) or " ok " in l or " FAIL " in l]
        res[cid] = {"exit": p.returncode, "verdict_lines": [l[:300] for l in lines][:4]}
        if p.returncode != 0:
            why = ""
            for rp in re.findall(r"replay=(\S+)", p.stdout)[:1]:
                try:
                    t = open(rp).read()
                    i = t.find('"broken"')
                    why = t[i:i + 600] if i >= 0 else t[:600]
                except OSError:
                    pass
            alarms[cid] = {"no_failing_input_found": any("no-failing-input-found" in l for l in lines), "reason": why}
finally:
    shutil.rmtree(mut, ignore_errors=True)
    h = hashlib.sha1(mut.encode()).hexdigest()[:10]
    subprocess.run("rm -rf /tmp/verif_harness_%s /tmp/verif_work_%s /tmp/verif_coq_%s" % (h, h, h), shell=True)
meta["checks_run"], meta["alarms"] = res, alarms
json.dump(meta, open(mp, "w"), indent=1)
print(name, {k: v["exit"] for k, v in res.items()}, {k: ("sanctioned" if a["no_failing_input_found"] else "FALSE ALARM") for k, a in alarms.items()})
