#!/usr/bin/env python3
"""lib/benigncheck.py <out_dir>/<i> <pkgs-for-baseline> -- <check ids...>
A behaviour-preserving change (patch.diff + meta.json with why_preserved) is applied to a scratch copy of /repo;
the stable baseline tests of the named packages must still pass, and then the named checks are run against it.
A check that exits non-zero here raises an alarm on code where the property (by the author's argument) still holds:
either a false alarm of the machinery, or the sanctioned 'proof/correspondence broke, no-failing-input-found' report.
Prints a JSON summary; never touches /repo."""
import json, os, shutil, subprocess, sys, tempfile, hashlib
args = sys.argv[1:]
d = os.path.abspath(args[0]); rest = args[1:]
pkgs, checks = (rest[:rest.index("--")], rest[rest.index("--") + 1:]) if "--" in rest else (rest, [])
env = dict(os.environ, GOFLAGS="-mod=mod", GOPROXY="off", GOSUMDB="off", GOTOOLCHAIN="local")
meta = json.load(open(os.path.join(d, "meta.json")))
def sh(cmd, cwd=None, e=None, timeout=1800):
    p = subprocess.run(cmd, shell=True, cwd=cwd, env=e or env, stdout=subprocess.PIPE, stderr=subprocess.STDOUT, text=True, timeout=timeout)
    return p.returncode, p.stdout
mut = tempfile.mkdtemp(prefix="benignchk_")
sh("cp -r /repo/. %s/" % mut)
res = {"dir": d, "kind": meta.get("kind"), "summary": meta.get("summary")}
try:
    rc, out = sh("git apply %s" % os.path.join(d, "patch.diff"), cwd=mut)
    res["patch_applies"] = rc == 0
    if rc == 0:
        rc, out = sh("go build ./... && go build -tags verif ./...", cwd=mut)
        res["builds"] = rc == 0
        if pkgs:
            base = json.load(open("/root/.vp/BASELINE.json")); want = set(base["stable_pass"])
            rc, out = sh("go test -json -vet=off -count=1 -timeout 25m %s" % " ".join(pkgs), cwd=mut)
            passed = set()
            for l in out.splitlines():
                try:
                    j = json.loads(l)
                except ValueError:
                    continue
                if j.get("Test") and j.get("Action") == "pass":
                    passed.add("%s::%s" % (j["Package"], j["Test"]))
            pk = set(x.split("::")[0] for x in passed)
            scope = set(x for x in want if x.split("::")[0] in pk)
            res["baseline_ok"] = not (scope - passed) and len(scope) > 0
            res["baseline_missing"] = sorted(scope - passed)[:10]
        res["checks"] = {}
        for cid in checks:
            rc, out = sh("./check %s" % cid, cwd="/verif", e=dict(env, VERIF_REPO_DIR=mut), timeout=1800)
            lines = [l for l in out.splitlines() if l.startswith(("VIOLATION", "KNOWN-FINDING", "note:")) or " ok " in l or " FAIL " in l]
            res["checks"][cid] = {"exit": rc, "lines": lines[:8]}
            if rc != 0:
                keep = os.path.join(d, "alarm_%s.txt" % cid)
                txt = out[-6000:]
                import re, glob
                for rp in re.findall(r"replay=(\S+)", out)[:3]:
                    try:
                        txt += "\n== %s\n%s" % (rp, open(rp).read()[:3000])
                    except OSError:
                        pass
                open(keep, "w").write(txt)
    else:
        res["error"] = out[-500:]
finally:
    shutil.rmtree(mut, ignore_errors=True)
    _h = hashlib.sha1(mut.encode()).hexdigest()[:10]
    sh("rm -rf /tmp/verif_harness_%s /tmp/verif_work_%s /tmp/verif_coq_%s" % (_h, _h, _h))
json.dump(res, open(os.path.join(d, "benigncheck.json"), "w"), indent=1)
print(json.dumps(res, indent=1))
