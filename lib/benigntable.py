#!/usr/bin/env python3
"""lib/benigntable.py : regenerate the table of behaviour-preserving changes in DESIGN.md (between the BENIGN markers)"""
import json, os, re, glob
rows = []
for mp in sorted(glob.glob("/verif/benign/*/meta.json")):
    m = json.load(open(mp)); name = os.path.basename(os.path.dirname(mp))
    ran = m.get("checks_run", {})
    quiet = [k for k, v in ran.items() if v["exit"] == 0]
    al = m.get("alarms", {})
    alarm = "; ".join("%s: %s" % (k, ("proof/translator no longer applies, `no-failing-input-found`" if a["no_failing_input_found"] else "ALARM")) for k, a in al.items()) or "none"
    note = m.get("coordinator_note", "")
    rows.append("| %s | %s | %s | %s | %s |%s" % (name, m.get("kind", ""), (m.get("summary") or "").replace("|", "/").replace("\n", " ")[:170], ", ".join(quiet), alarm, (" " + note) if note else ""))
tab = "| change | kind | what | checks that stayed quiet | checks that reported |\n|---|---|---|---|---|\n" + "\n".join(rows)
p = "/verif/DESIGN.md"
s = open(p).read()
s = re.sub(r"<!-- BENIGN:BEGIN -->.*?<!-- BENIGN:END -->", "<!-- BENIGN:BEGIN -->\n" + tab + "\n<!-- BENIGN:END -->", s, flags=re.S)
open(p, "w").write(s)
print(len(rows), "rows")
