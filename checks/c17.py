"""C17 — uncompressed collectors emit exactly the samples given, in one stable encoding
(DESIGN.md section 8, C17).  Theorems: coq/Props/C17.v; model: coq/Model/Collector.v
(ucoll, scoll over IU, sdcoll); specification machine + oracle: coq/Model/UncOk.v;
harness: harness/c17.go; driver: ocaml/c17_run.ml."""
import json, os, re, hashlib, collections
import verif, codec_common as cc

PROPS = "Props/C17.v"


def case_stats(path, nontrivial_ids):
    """input distribution of c17.cases; distinct non-trivial cases by the text of their operations"""
    kinds, ops, ns = collections.Counter(), collections.Counter(), collections.Counter()
    distinct, samples, cur, cid = set(), [], [], None
    ncases = faulty = 0
    for l in open(path):
        t = l.split(" ", 1)[0].strip()
        if t == "CASE":
            f = l.split()
            ncases += 1
            kinds[f[2]] += 1
            ns[f[3]] += 1
            faulty += 1 if len(f) > 4 and f[4] != "-" else 0
            cid, cur = f[1], [" ".join(f[2:])]
        elif t == "END":
            if cid in nontrivial_ids:
                distinct.add(hashlib.sha1("\n".join(cur).encode()).hexdigest())
                if len(samples) < 3 and (len(samples) == 0 or len(cur) >= 4 + 2 * len(samples)):
                    samples.append(["CASE " + cur[0]] + [x[:200] for x in cur[1:9]])
            cur = []
        else:
            ops[t] += 1
            if t in ("A", "B", "M", "R", "X", "F", "I"):
                cur.append(l.strip())
    return {"cases": ncases, "kinds": dict(kinds), "batch_sizes": dict(ns), "ops": dict(ops),
            "distinct_nontrivial": len(distinct), "samples": samples, "cases_with_writer_faults": faulty}


def run(c):
    pr = c.coq_props(PROPS, extra_targets=["Extract/ExUnc.v"])
    okb, _ = c.ocaml_build("unc_model", "c17_run.ml", "c17_run")
    okg, _ = c.go_build()
    cov = {"rule": "6 uncompressed constructors x batch sizes 1..3 x every history over {Add A, Add B (other field count), Add A' (same "
                   "count, other keys), Resolve, Reset, Flush, SetMetadata, Info} up to length 3 (quick; length 4 sampled 1/8) or 4 "
                   "(thorough; length 5 sampled 1/8); every history up to length 4 over {Add A, Add A+ (A's metric signature, one more "
                   "field), Add {}, Flush}; random histories of 5..44 operations, batch sizes 1..5, random document shapes over all BSON "
                   "types (JSON kinds: without decimal128 / binary subtype 2), unreadable inputs, writer fault schedules (error, short "
                   "write) for the writing kinds. Resolve, Info and the writer log are observed after EVERY operation. non-trivial = "
                   ">= 2 accepted samples and (a completed write or a schema change between accepted samples or a Reset); distinct by "
                   "the text of the case's operations (kind, batch size, faults, documents)",
           "evaluations": 0, "distinct_nontrivial": 0, "samples": [], "disagreements_checked": 0}
    if okb and okg:
        rc, out = c.harness(["c17", c.work], timeout=1500)
        if rc != 0:
            c.broken.append("harness c17 failed rc=%d: %s" % (rc, out[-1500:]))
            c.violation({"kind": "implementation crashed or hung while being observed", "output": out[-3000:]}, no_input=True)
        else:
            cases = os.path.join(c.work, "c17.cases")
            rcm, mout = c.model("c17_run", [cases], timeout=1500)
            mism, viol, summ, other = verif.parse_model_output(mout)
            if rcm != 0 or "cases" not in summ:
                c.broken.append("c17_run driver failed: %s" % mout[-800:])
            nt = set(l.split()[1] for l in other if l.startswith("NT "))
            st = case_stats(cases, nt)
            cov.update(evaluations=summ.get("cases", 0), operations=summ.get("ops", 0),
                       distinct_nontrivial=st["distinct_nontrivial"], nontrivial_cases=summ.get("nontrivial", 0),
                       samples=st["samples"], disagreements_checked=len(mism), oracle_violations=len(viol),
                       input_distribution=st["kinds"], batch_sizes=st["batch_sizes"], ops=st["ops"],
                       cases_with_writer_faults=st["cases_with_writer_faults"],
                       json_lines_parsed_back=summ.get("json_lines_parsed_back", 0),
                       json_samples_compared_as_bson=summ.get("json_samples_compared_as_bson", 0),
                       partial_writes=summ.get("partial_writes", 0),
                       observations_outside_the_property={
                           "schema_aware_add_refused_for_field_count": summ.get("sdyn_count_refusals", 0),
                           "outputs_mixing_top_level_field_counts_via_empty_document": summ.get("mixed_field_counts", 0)},
                       what_is_compared="BSON flavour: every output document byte for byte (hex) against the model's and, in the oracle, "
                                        "against the accepted inputs; JSON flavour: the raw text, line by line, against the library's own "
                                        "rendering of the accepted input documents (bson.MarshalExtJSON(doc,false,false), computed by the "
                                        "harness from the generated bytes), every line parsed back with bson.UnmarshalExtJSON and, for "
                                        "documents that survive relaxed Extended JSON unchanged (json_stable), compared with the input as BSON")
            for v in viol[:3]:
                sid = re.search(r"case=(\d+)", v)
                c.violation({"kind": "oracle c17_step false on the implementation's observation", "case": v[:4000],
                             "history": cc.first_case_text(cases, sid.group(1)) if sid else None,
                             "how_to_replay": "./check C17 --replay <this file>"})
            if mism and not viol:
                c.broken.append("correspondence model<->implementation: %d disagreements, first: %s" % (len(mism), mism[0][:800]))
    if c.broken and not c.violations:
        c.violation({"kind": "proof or correspondence no longer checks; no input violating C17 was found", "broken": c.broken}, no_input=True)
    if c.tier == "thorough" and pr["ok"]:
        okc, outc = c.coqchk(PROPS)
        if not okc and "Inconsistent assumptions" in outc:
            # other developments in the shared coq/ tree were rebuilt while this check ran: rebuild the closure, retry once
            c.coq_build([PROPS])
            okc, outc = c.coqchk(PROPS)
        cov["coqchk"] = {"ok": okc, "tail": outc[-1200:]}
        if not okc:
            c.violation({"kind": "coqchk rejected the compiled development", "log": outc}, no_input=True)
    c.finish(cov, assumptions=[
        "the relaxed Extended-JSON rendering of one document (bson.MarshalExtJSON) is a library step outside the model: texts are "
        "compared with the library's rendering of the same input bytes, and parsed back with the library's own parser",
        "documents not generated for the JSON kinds: decimal128 values (about 2.5% of random bit patterns render to a $numberDecimal "
        "string with an exponent the same library's parser rejects - a library asymmetry, the collector's text equals the library's "
        "rendering) and binary subtype 2 (the harness's independent rendering from raw bytes fails for fewer than 4 data bytes; "
        "the collector itself renders them)",
        "equality of FNV-64 key hashes (schema-aware kinds) is modelled as equality of the hashed key strings (no collisions)",
        "birch's BSON decoding/encoding of input documents is modelled (Model/Bson.v) and exercised on every exchanged document"])


def replay(c, path):
    """re-run the recorded history on the implementation (fresh observations), then model and oracle"""
    j = json.load(open(path))
    hist = j.get("history")
    if not hist:
        print(json.dumps(j, indent=1)[:3000])
        raise SystemExit(1)
    okb, _ = c.ocaml_build("unc_model", "c17_run.ml", "c17_run")
    okg, _ = c.go_build()
    src = os.path.join(c.work, "replay.history")
    open(src, "w").write("\n".join(hist) + "\n")
    rc, out = c.harness(["c17", c.work, "--replay", src], timeout=300)
    if rc != 0:
        print("harness failed:", out[-2000:])
        raise SystemExit(1)
    rc, out = c.model("c17_run", [os.path.join(c.work, "c17.cases")], timeout=300)
    print(open(os.path.join(c.work, "c17.cases")).read()[:6000])
    print(out[-3000:])
    mism, viol, summ, _ = verif.parse_model_output(out)
    raise SystemExit(1 if (viol or mism or rc != 0) else 0)
