"""C18 — CSV export and import preserve the metric table (DESIGN.md section 8, C18)."""
import json, os, re, collections, hashlib
import verif

PROPS = "Props/C18.v"

# classes in which the code does not meet the wording of the property (behaviour of Go's encoding/csv underneath csv.go);
# each is reported as a KNOWN-FINDING when KNOWN_FINDINGS.jsonl lists it for C18, and as a VIOLATION (with the concrete
# case) otherwise.  The driver puts a failing oracle into a class only if the implementation did exactly what the model predicts
CLASSES = {
    "lone-empty-key": "C18-lone-empty-key",
    "key-crlf": "C18-key-crlf",
}


def case_text(path, case_id):
    keep, out = False, []
    for l in open(path):
        if l.startswith("CASE "):
            keep = l.split()[1] == str(case_id)
        if keep:
            out.append(l.rstrip("\n")[:100000])
            if l.startswith("END"):
                break
    return out


def classify(cases_path, nontrivial_ids):
    """input distribution of the case file; distinct non-trivial cases by the text of their input line"""
    tags = collections.Counter()
    stats = collections.Counter()
    distinct_nt, samples = set(), []
    cur, tag, inp = None, None, None
    for l in open(cases_path):
        t = l.split(" ", 3)
        if t[0] == "CASE":
            cur, tag = t[1], t[2].strip()
            tags[tag] += 1
        elif t[0] in ("S", "T"):
            if cur in nontrivial_ids:
                distinct_nt.add(hashlib.sha1(l.encode()).hexdigest())
            if len(samples) < 3 and tag in ("count", "key2", "text") and not any(s.startswith("[" + tag) for s in samples):
                samples.append("[%s] %s" % (tag, l.strip()[:300]))
        elif t[0] == "SRC":
            n = int(l.split()[3])
            stats["source_chunks"] += n
            stats["streams_with_%s_chunks" % ("0" if n == 0 else "1" if n == 1 else "2+")] += 1
        elif t[0] == "W":
            stats["write_err" if l.split()[2] == "1" else "write_ok"] += 1
        elif t[0] == "D":
            nf = int(l.split()[3])
            stats["dump_files_%s" % (nf if nf < 3 else "3+")] += 1
        elif t[0] == "V":
            stats[("convert_text_" if tag == "text" else "convert_stream_") + ("err" if l.split()[3] == "1" else "ok")] += 1
        elif t[0] == "VF":
            stats["failing_writer_" + ("err_returned" if l.split()[3] == "1" else "nil_returned")] += 1
        elif t[0] == "C":
            stats["chunk_lines"] += 1
    return tags, stats, distinct_nt, samples


def run(c):
    pr = c.coq_props(PROPS, extra_targets=["Extract/ExCsv.v"])
    okb, _ = c.ocaml_build("csv_model", "c18_run.ml", "c18_run") if pr["ok"] or os.path.exists(os.path.join(verif.COQ, "csv_model.ml")) else (False, "")
    okg, _ = c.go_build()
    cases = os.path.join(c.work, "c18.cases")
    cov = {"rule": "chunk streams from the real collectors (base/batch/dyn/stream/sdyn, chunk sizes 1,2,3,5,10): one schema over several "
                   "chunks, metric-count-changing segment sequences (dynamic collectors, incl. segments without metrics), equal-count "
                   "key-changing sequences; bool/int32/int64/double/datetime/timestamp leaves, nested documents and arrays, random / "
                   "small-step / boundary (MinInt64, MaxInt64, ...) / constant values; keys from a pool of CSV metacharacter keys "
                   "(comma, quote, LF, CR, leading space and Unicode spaces, '\\.', invalid UTF-8); every key of <= 3 characters over "
                   "{a , \" LF} alone and as second metric; corner streams; bare CSV texts (token soup and irregular tables) through "
                   "ConvertFromCSV. Each stream: WriteCSV, DumpCSV, ConvertFromCSV with bucket 1, 2, 7 + ReadChunks, ConvertFromCSV into "
                   "a failing writer. non-trivial = >= 2 chunks, or a key with comma/quote/CR/LF/leading space/empty, or a negative or "
                   ">= 2^62 value; distinct by input line",
           "evaluations": 0, "distinct_nontrivial": 0, "samples": [], "disagreements_checked": 0}
    oracle_viol = False
    if okg and okb:
        rc, out = c.harness(["c18", c.work], timeout=1500)
        if rc != 0:
            c.broken.append("harness c18 failed (rc=%d): %s" % (rc, out[-1500:]))
            c.violation({"kind": "implementation crashed or hung while being observed", "output": out[-3000:]}, no_input=True)
        else:
            rc, mout = c.model("c18_run", [cases], timeout=1500)
            mism, viol, summ, other = verif.parse_model_output(mout)
            nt_ids = set(l.split()[1] for l in other if l.startswith("NT "))
            known = [l for l in other if l.startswith("KNOWN ")]
            tags, stats, distinct_nt, samples = classify(cases, nt_ids)
            cov.update(evaluations=summ.get("cases", 0), distinct_nontrivial=len(distinct_nt), samples=samples,
                       disagreements_checked=len(mism), input_distribution=dict(tags), observations=dict(stats),
                       oracle_violations=len(viol), known_class_lines=len(known),
                       roundtrip_oracle_evaluations=summ.get("roundtrip_evaluations", 0),
                       exhaustive_part="all 84 keys of 1..3 characters over {a , \" LF}: each alone (2 samples, base collector) and as the "
                                       "second of two metrics (3 samples incl. MinInt64, streaming dynamic collector, chunk size 2)")
            if rc != 0 or "cases" not in summ:
                c.broken.append("model driver failed: %s" % mout[-1000:])
            kf = {f["id"]: f for f in c.known_findings()}
            seen = collections.OrderedDict()
            for l in known:
                seen.setdefault(l.split()[1], l)
            for cls, first in seen.items():
                fid = CLASSES.get(cls)
                if fid in kf:
                    c.known(kf[fid])
                else:
                    m = re.search(r"case=(\d+)", first)
                    c.violation({"kind": "the code does not meet the property's wording in the class '%s' (not listed as known)" % cls,
                                 "case": first[:4000], "input": case_text(cases, m.group(1)) if m else None,
                                 "how_to_replay": "./check C18 --replay <this file>"}, tag="-" + cls)
            oracle_viol = bool(viol)
            for v in viol[:3]:
                m = re.search(r"case=(\d+)", v)
                c.violation({"kind": "oracle false on the implementation's observation", "case": v[:4000],
                             "input": case_text(cases, m.group(1)) if m else None,
                             "how_to_replay": "./check C18 --replay <this file>"})
            if mism and not viol:
                c.broken.append("correspondence model<->csv.go: %d disagreements, first: %s" % (len(mism), mism[0][:600]))
    if c.broken and not oracle_viol:
        # (violations reported for the documented classes do not excuse a broken proof or correspondence)
        c.violation({"kind": "proof or correspondence no longer checks; no input violating C18 was found", "broken": c.broken},
                    no_input=True, tag="-broken")
    if c.tier == "thorough" and pr["ok"]:
        okc, outc = c.coqchk(PROPS)
        cov["coqchk"] = {"ok": okc, "tail": outc[-1200:]}
        if not okc:
            c.violation({"kind": "coqchk rejected the compiled development", "log": outc}, no_input=True)
    c.finish(cov, assumptions=[
        "Go's encoding/csv (Writer.Write, Reader.Read with default settings), strconv.FormatInt/Atoi and time.Format(RFC3339) are "
        "modelled in Model/Csv.v; tied by the correspondence of the full CSV text, of every file, and of ConvertFromCSV's result on "
        "the written texts and on irregular bare texts",
        "datetime cells are compared with time.Local = UTC (set by the harness); the theorems only use that such a cell is never a number",
        "the source chunk list is what Model/Codec.v reads from the (zlib-normalised) stream; it is compared with ReadChunks' chunks on every case",
        "ConvertFromCSV's output is compared through ReadChunks (chunk boundaries, keys, values), the chunk _id (wall clock) is not observed",
        "the composition with the FTDC codec in C18_roundtrip_reread needs every converted document below BSON's 2 GiB limit (as C01/C02)"])


def replay(c, path):
    """re-run the implementation on the recorded input (the S / T line of the case) and judge it again"""
    j = json.load(open(path))
    inp = j.get("input")
    if not inp:
        print(json.dumps(j, indent=1)[:3000])
        raise SystemExit(1)
    okg, _ = c.go_build()
    c.ocaml_build("csv_model", "c18_run.ml", "c18_run")
    line = next((l for l in inp if l.startswith(("S ", "T "))), None)
    if line is None:
        raise SystemExit("replay file without an input line")
    kind, hx = line.split()[0], line.split()[1]
    rc, out = c.harness(["c18replay", c.work, kind, hx], timeout=120)
    if rc != 0:
        print("harness failed:", out[-2000:])
        raise SystemExit(1)
    rc, mout = c.model("c18_run", [os.path.join(c.work, "replay.cases")])
    print(line[:300])
    print(mout.strip()[:3000])
    raise SystemExit(1 if ("VIOL" in mout or "MISMATCH" in mout or "KNOWN " in mout) else 0)
