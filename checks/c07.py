"""C07 — collectors are faithful, bounded logs (DESIGN.md section 8, C07)."""
import json, os, re
import verif, codec_common as cc

PROPS = "Props/C07.v"
PROFILE, ORACLE = "c07", "c07"
RULE = ("every operation history of length <= 3 (quick) / <= 5 (thorough, length 5 sampled) over the 8 symbols {Add A, Add B (one more field), "
        "Add unreadable, Resolve, Reset, Flush, SetMetadata, Info} x 5 compressing constructors x N in {1,2}(,3) x wrapper stacks, plus random "
        "histories of 5..45 operations with N <= 5; after EVERY operation Resolve, Info and the writer log are observed. "
        "non-trivial = history with >= 2 accepted Adds and (a Reset or Flush or rejected Add); distinct by case text")
ASSUME = ["decoding of the implementation's outputs for the oracle uses the model's reader (proved inverse of the model encoder in C01, compared with the "
          "library's readers in C01/C02), so a reader bug in the library cannot mask a collector bug",
          "zlib as in C01; wall-clock _id values normalised"]


def nontrivial(path):
    n, cur = 0, None
    seen = set()
    for l in open(path):
        if l.startswith("CASE"):
            cur = {"ok": 0, "other": False, "txt": []}
        elif l.startswith("END") and cur is not None:
            t = "".join(cur["txt"])
            if cur["ok"] >= 2 and cur["other"] and t not in seen:
                seen.add(t); n += 1
            cur = None
        elif cur is not None and l[:2] in ("A ", "B ", "X ", "F "):
            cur["txt"].append(l[:80])
            if l.startswith("A ") and l.rstrip().endswith("=> ok"):
                cur["ok"] += 1
            if l[:2] in ("X ", "F ", "B ") or (l.startswith("A ") and not l.rstrip().endswith("=> ok")):
                cur["other"] = True
    return n


def run(c, props=PROPS, profile=PROFILE, oracle=ORACLE, rule=RULE, extra_stage=None):
    pr = c.coq_props(props, extra_targets=["Extract/ExCodec.v"])
    ok = cc.build(c, drivers=("hist_run",))
    disagree = None
    cov = {"rule": rule, "evaluations": 0, "distinct_nontrivial": 0, "samples": [], "disagreements_checked": 0}
    if ok:
        rc, out = c.harness([profile, c.work], timeout=1500)
        if rc != 0:
            c.broken.append("harness %s failed rc=%d: %s" % (profile, rc, out[-1500:]))
            c.violation({"kind": "implementation crashed or hung while being observed", "output": out[-3000:]}, no_input=True)
        else:
            hist = os.path.join(c.work, "hist.cases")
            rc, mout = c.model("hist_run", [hist, oracle], timeout=1500)
            mism, viol, summ, other = verif.parse_model_output(mout)
            if rc != 0 or "cases" not in summ:
                c.broken.append("hist_run failed: %s" % mout[-800:])
            st = cc.hist_stats(hist)
            cov.update(evaluations=summ.get("ops", 0), histories=summ.get("cases", 0), distinct_nontrivial=nontrivial(hist),
                       samples=st["samples"], disagreements_checked=len(mism), input_distribution=st["kinds"], ops=st["ops"],
                       oracle_violations=len(viol))
            khits = [l for l in other if l.startswith("KNOWN c07-renamed")]
            if khits:
                cov["known_renamed_field_cases"] = len(khits)
                kf = {f["id"]: f for f in c.known_findings()}
                if "C07-same-types-other-keys" in kf:
                    c.known(kf["C07-same-types-other-keys"])
                else:
                    c.violation({"kind": "a finding that KNOWN_FINDINGS.jsonl does not list", "lines": khits[:5]})
            for v in viol[:3]:
                sid = re.search(r"case=(\d+)", v)
                c.violation({"kind": "oracle %s false on the implementation's observations" % oracle, "case": v[:3000],
                             "history": cc.first_case_text(hist, sid.group(1)) if sid else None})
            if mism and not viol:
                c.broken.append("correspondence model<->collectors: %d disagreements, first: %s" % (len(mism), mism[0][:600]))
                sid = re.search(r"case=(\d+)", mism[0])
                if sid:
                    disagree = cc.first_case_text(hist, sid.group(1))
    if extra_stage is not None and ok:
        extra_stage(c, cov)
    if c.broken and not c.violations:
        rep = {"kind": "proof or correspondence no longer checks; no history violating the property was found", "broken": c.broken}
        if disagree:
            rep["history"] = disagree  # the history on which model and implementation differ (replayable)
        c.violation(rep, no_input=True)
    if c.tier == "thorough" and pr["ok"]:
        okc, outc = c.coqchk(props)
        cov["coqchk"] = {"ok": okc, "tail": outc[-1200:]}
    c.finish(cov, assumptions=ASSUME)


def replay(c, path):
    j = json.load(open(path))
    hist = j.get("history") or []
    cc.build(c, drivers=("hist_run",))
    p = os.path.join(c.work, "replay.cases")
    open(p, "w").write("\n".join(hist) + "\n")
    print("stored observations of the failing history are re-evaluated by the model driver (re-run the check to re-observe the implementation)")
    rc, out = c.model("hist_run", [p, ORACLE])
    print(out)
    raise SystemExit(1 if ("VIOL" in out or "MISMATCH" in out) else 0)
