"""Shared pieces of the codec-family checks (C01, C02, C03, C07, C08, C09, C11, C17):
build the extracted codec model drivers, run a harness profile that writes
hist.cases / read.cases, run the drivers, collect mismatches / violations."""
import os, collections, hashlib
import verif


def build(c, drivers=("hist_run", "read_run"), extra_targets=()):
    ok = True
    for d in drivers:
        okb, _ = c.ocaml_build("codec_model", d + ".ml", d)
        ok = ok and okb
    okg, _ = c.go_build()
    return ok and okg


def hist_stats(path, nontrivial_rule=None):
    """input distribution of a hist.cases file"""
    kinds, ops = collections.Counter(), collections.Counter()
    ncases, samples = 0, []
    cur, distinct = [], set()
    for l in open(path):
        t = l.split(" ", 1)[0].strip()
        if t == "CASE":
            ncases += 1
            kinds[l.split()[2]] += 1
            cur = [l.strip()]
        elif t == "END":
            txt = "\n".join(cur)
            distinct.add(hashlib.sha1(txt.encode()).hexdigest())
            if len(samples) < 2 and len(cur) >= 4:
                samples.append([x[:160] for x in cur[:8]])
            cur = []
        else:
            ops[t.strip()] += 1
            cur.append(l.strip())
    return {"cases": ncases, "kinds": dict(kinds), "ops": dict(ops), "distinct": len(distinct), "samples": samples}


def run_driver(c, name, casefile, what):
    rc, out = c.model(name, [casefile], timeout=1500)
    mism, viol, summ, other = verif.parse_model_output(out)
    known = [l for l in other if l.startswith("KNOWN")]
    if rc != 0 or "cases" not in summ:
        c.broken.append("%s driver failed on %s: %s" % (name, what, out[-800:]))
    return mism, viol, summ, known


def first_case_text(path, case_id, start="CASE", end="END", idcol=1):
    """extract the text of one case from a case file (for replay files)"""
    keep, out = False, []
    for l in open(path):
        t = l.split()
        if t and t[0] == start:
            keep = (len(t) > idcol and t[idcol] == str(case_id))
        if keep:
            out.append(l.rstrip("\n")[:200000])
        if t and t[0] == end and keep:
            break
    return out


def run_driver_sharded(c, name, casefile, what, extra_args=(), shards=12, end_marker="ENDS"):
    """split a case file at case boundaries and run the driver on the pieces in parallel"""
    import subprocess
    lines = open(casefile, errors="replace").read().split("\n")
    cases, cur = [], []
    for l in lines:
        cur.append(l)
        if l.strip() == end_marker:
            cases.append(cur); cur = []
    if cur and any(x.strip() for x in cur):
        cases.append(cur)
    shards = max(1, min(shards, len(cases)))
    procs = []
    for i in range(shards):
        p = casefile + ".shard%d" % i
        with open(p, "w") as f:
            for cs in cases[i::shards]:
                f.write("\n".join(cs) + "\n")
        procs.append((p, subprocess.Popen("ulimit -s 262144 2>/dev/null; ulimit -v 4000000 2>/dev/null; exec %s %s %s" % (
            os.path.join(verif.VERIF, "ocaml", "bin", name), p, " ".join(extra_args)),
            shell=True, stdout=subprocess.PIPE, stderr=subprocess.STDOUT, text=True)))
    mism, viol, known, summ = [], [], [], collections.Counter()
    for p, pr in procs:
        try:
            out, _ = pr.communicate(timeout=1500)
        except subprocess.TimeoutExpired:
            pr.kill(); out = "[timeout]"
        m, v, s, other = verif.parse_model_output(out)
        if (pr.returncode != 0 or "cases" not in s) and ("Out_of_memory" in out or "Stack_overflow" in out or pr.returncode < 0):
            # the driver ran out of memory or was killed while the machine was busy with other checks: once more, alone
            pr2 = subprocess.run("ulimit -s 262144 2>/dev/null; ulimit -v 8000000 2>/dev/null; exec %s %s %s" % (
                os.path.join(verif.VERIF, "ocaml", "bin", name), p, " ".join(extra_args)),
                shell=True, stdout=subprocess.PIPE, stderr=subprocess.STDOUT, text=True, timeout=1500)
            out = pr2.stdout
            m, v, s, other = verif.parse_model_output(out)
            pr = pr2
        if pr.returncode != 0 or "cases" not in s:
            c.broken.append("%s driver failed on %s (%s): %s" % (name, what, os.path.basename(p), out[-600:]))
        mism += m; viol += v; known += [l for l in other if l.startswith("KNOWN")]
        for k, val in s.items():
            if isinstance(val, int):
                summ[k] += val
        try:
            os.remove(p)
        except OSError:
            pass
    return mism, viol, dict(summ), known
