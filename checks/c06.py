"""C06 — Close or cancellation stops every reader goroutine (DESIGN.md section 8, C06)."""
import json, os, collections
import verif

PROPS = "Props/C06.v"


def classify(path):
    entries, shapes, modes, stalls = collections.Counter(), collections.Counter(), collections.Counter(), collections.Counter()
    nontrivial, samples = set(), []
    maxfurther = collections.Counter()
    maxus = 0
    for l in open(path):
        t = l.split()
        if not t or t[0] != "Q":
            continue
        entry, nc, ns, k, mode = t[1:6]
        f = dict(x.split("=", 1) for x in t[6:] if "=" in x)
        entries[entry] += 1
        shapes["%sx%s" % (nc, ns)] += 1
        modes[mode] += 1
        st = f.get("stall", "-")
        if st != "-":
            lab, occ, reached = st.split(":")
            stalls[lab + (":reached" if reached == "1" else ":not-reached")] += 1
        if int(f["read"]) < int(f["total"]):
            nontrivial.add((entry, nc, ns, k, mode, st))
            if len(samples) < 6 and int(f["further"]) > 0 and (len(samples) < 2 or st != "-"):
                samples.append(" ".join(x for x in t if not x.startswith("in="))[:400])
        maxfurther[entry] = max(maxfurther[entry], int(f["further"]))
        maxus = max(maxus, int(f["us"]))
    return dict(entry_points=dict(entries), stream_shapes_chunks_x_samples=dict(shapes), cancel_modes=dict(modes),
                stalls_before_sends=dict(stalls), max_further_items_per_entry=dict(maxfurther),
                max_microseconds_until_no_goroutine_left=maxus), nontrivial, samples


def run(c):
    pr = c.coq_props(PROPS, extra_targets=["Extract/ExSysReader.v"])
    okb, _ = c.ocaml_build("sysreader_model", "c06_run.ml", "c06_run") if pr["ok"] or os.path.exists(os.path.join(verif.COQ, "sysreader_model.ml")) else (False, "")
    okg, _ = c.go_build()
    cases = os.path.join(c.work, "c06.cases")
    cov = {"rule": "every reader (ReadChunks, ReadMetrics, ReadStructuredMetrics, ReadMatrix, ReadSeries, Chunk.Iterator, "
                   "Chunk.StructuredIterator) x stream shape (1/3/40 chunks x 1/300 samples) x cancel point k (sampled around the "
                   "buffer sizes 2/25/100/300 in the quick tier, exhaustive for streams up to 400 items in the thorough tier) x "
                   "{Close, cancel of the construction context, both, Close twice}, plain and with perturbed schedules (mode~), plus "
                   "cancellation while a goroutine is held right before one of its sends. non-trivial = unread items at cancel time; "
                   "distinct by (entry, shape, k, mode, stall point)",
           "evaluations": 0, "distinct_nontrivial": 0, "samples": [], "disagreements_checked": 0}
    if okg and okb:
        rc, out = c.harness(["c06", cases], timeout=6000)
        if rc != 0:
            c.broken.append("harness c06 failed (rc=%d): %s" % (rc, out[-1500:]))
            c.violation({"kind": "implementation crashed or hung while being observed", "output": out[-3000:]}, no_input=True)
        else:
            rc, mout = c.model("c06_run", [cases], timeout=3000)
            mism, viol, summ, other = verif.parse_model_output(mout)
            dist, nontrivial, samples = classify(cases)
            cov.update(evaluations=summ.get("cases", 0), distinct_nontrivial=len(nontrivial), samples=samples,
                       disagreements_checked=len(mism), input_distribution=dist, oracle_violations=len(viol),
                       bound_checked="further Next()==true after quiescence <= 2 (chunks), 100 (documents), 25 (matrix/series), "
                                     "100 (per-chunk iterator): C06_next_after_close")
            if rc != 0 or "cases" not in summ:
                c.broken.append("model driver failed: %s" % mout[-1000:])
            for v in viol[:3]:
                c.violation({"kind": "oracle c06_ok false on the implementation's observation: goroutines left after Close/cancel, "
                                     "more buffered items than the capacity, or a call that did not return",
                             "case": v, "how_to_replay": "./check C06 --replay <this file>"})
            if mism and not viol:
                c.broken.append("correspondence model<->readers: %d disagreements, first: %s" % (len(mism), mism[0][:600]))
    if c.broken and not c.violations:
        c.violation({"kind": "proof or correspondence no longer checks; no input violating C06 was found",
                     "broken": c.broken}, no_input=True)
    if c.tier == "thorough" and pr["ok"]:
        okc, outc = c.coqchk(PROPS)
        cov["coqchk"] = {"ok": okc, "tail": outc[-1200:]}
        if not okc:
            c.violation({"kind": "coqchk rejected the compiled development", "log": outc}, no_input=True)
    c.finish(cov, assumptions=[
        "blocking inside a caller-supplied io.Reader.Read is outside the model (readDiagnostic cannot be cancelled while it reads); "
        "the harness reads from memory",
        "Close is one atomic step of the model that sets every cancel flag the code's Close sets (chunk: ctxC; document: iterctx, "
        "current sample context, ctxC; matrix/series: iterctx, ctxC)",
        "the Go runtime's channel, select and context semantics are trusted; a select with several ready arms is a free choice "
        "of the schedule in the model",
        "the capacity bound on further items (C06_next_after_close) is for Next calls issued after the goroutines are gone, which is "
        "how the harness counts; while goroutines still run only the linear bound of C06_bounded holds, because a select with "
        "a ready send arm and a ready ctx.Done arm may take either",
        "'within bounded time' is a bounded number of goroutine steps (C06_bounded); the harness waits up to 2 s of wall clock",
        "goroutines are counted by stack inspection (created by github.com/mongodb/ftdc...) relative to the count before the run",
        "export errors of the matrix worker are not modelled; the per-chunk sample iterator is the streamer S of the document model"])


def replay(c, path):
    j = json.load(open(path))
    c.go_build()
    c.ocaml_build("sysreader_model", "c06_run.ml", "c06_run")
    case = j.get("case", "")
    line = case.split(" ", 2)[2].split(" :: ")[0] if case.startswith(("VIOL", "MISMATCH")) else case
    t = line.split()
    p = os.path.join(c.work, "replay.cases")
    if len(t) >= 7 and t[0] == "Q":
        rc, out = c.harness(["c06", p] + t[1:7], timeout=600)
    else:
        rc, out = c.harness(["c06", p], timeout=6000)
    rc, mout = c.model("c06_run", [p])
    viol = [l for l in mout.splitlines() if l.startswith(("VIOL", "MISMATCH"))]
    print("\n".join(x[:400] for x in viol[:5])); print(mout.strip().splitlines()[-1])
    raise SystemExit(1 if viol else 0)
