"""C16 — concurrent recorders neither deadlock nor lose updates (DESIGN.md section 8, C16)."""
import json, os, re, collections, subprocess
import verif

PROPS = "Props/C16.v"
GEN = os.path.join(verif.COQ, "Generated", "LockPaths.v")


def regenerate(c):
    """source facts: rewrite coq/Generated/LockPaths.v from the tree under test (only when changed)"""
    rc, out = c.harness(["lockpaths", verif.REPO, GEN], timeout=120)
    info = {"ok": rc == 0, "output": out.strip()[-600:]}
    m = re.search(r"lockpaths: (\d+) entries, (\w+)", out)
    if m:
        info["entries"], info["state"] = int(m.group(1)), m.group(2)
    return info


def classify(path):
    kinds, dist = collections.Counter(), collections.Counter()
    nontrivial, samples = set(), []
    evaluations = 0
    for l in open(path):
        t = l.split()
        if not t or t[0] == "SKIP":
            continue
        evaluations += 1
        kv = dict(x.split("=", 1) for x in t if "=" in x and not x.startswith("progs="))
        if t[0] == "SYS":
            kinds["SYS %s stall@%s %s" % (t[1], t[2], t[3])] += 1
            dist["sys stalled cycles=%s" % kv.get("stalled")] += 1
            # non-trivial: the flusher really was stalled across an EndTest/Reset
            if int(kv.get("stalled", "0")) >= 1:
                nontrivial.add(" ".join(t[:9]))
            if len([s for s in samples if s.startswith("SYS")]) < 4:
                samples.append(l.strip()[:300])
        elif t[0] == "STR":
            kinds["STR %s G=%s" % (t[1], t[2])] += 1
            ticks = int(kv.get("ticks", "0"))
            dist["stress ticks processed %s" % ("0" if ticks == 0 else "1-49" if ticks < 50 else ">=50")] += 1
            dist["stress cycles %s" % ("1" if kv.get("cycles") == "1" else ">1")] += 1
            # non-trivial: >= 2 goroutines and >= 1 tick processed (sync runs have no ticker: >= 2 goroutines
            # contending for the wrapper's mutex and >= 1000 persisted samples)
            if int(t[2]) >= 2 and (ticks >= 1 or (t[1] == "sync" and int(kv.get("nsamples", "0")) >= 1000)):
                nontrivial.add(verif.hashlib.sha1(l.encode()).hexdigest())
            if len([s for s in samples if s.startswith("STR")]) < 3:
                samples.append(l.strip()[:300])
    return evaluations, kinds, dist, nontrivial, samples


def run(c):
    saved = None
    if verif.REPO != "/repo" and os.path.exists(GEN):
        saved = open(GEN).read()      # a scratch tree is checked: put the committed table back afterwards
    try:
        _run(c)
    finally:
        if saved is not None and open(GEN).read() != saved:
            open(GEN, "w").write(saved)


def _run(c):
    okg, _ = c.go_build()
    gen = {"ok": False, "output": "harness did not build"}
    if okg:
        gen = regenerate(c)
        if not gen["ok"]:
            c.broken.append("source facts no longer extractable (lock paths): %s" % gen["output"])
    pr = c.coq_props(PROPS, extra_targets=["Generated/LockPaths.v", "Extract/ExSysInterval.v"])
    have_model = os.path.exists(os.path.join(verif.COQ, "sysinterval_model.ml"))
    okb, _ = c.ocaml_build("sysinterval_model", "c16_run.ml", "c16_run") if pr["ok"] or have_model else (False, "")
    cases = os.path.join(c.work, "c16.cases")
    rcases = os.path.join(c.work, "c16race.cases")
    cov = {"rule": "systematic: both interval recorders x {EndTest, Reset} x flusher stalled at its k-th fl.tick "
                   "(k=1..3, between tick and Lock) or fl.locked (k=1..2) across the call, two cycles each, every call "
                   "under a 2 s watchdog; stress: 50 us ticker, G in {2,4,8} goroutines in Begin/Inc/End loops with "
                   "racing EndTests from goroutine 0, synchronized(raw) likewise without flusher; the stress part is "
                   "repeated under the race detector. non-trivial = systematic run in which the flusher really was "
                   "stalled across an EndTest/Reset, or stress run with >= 2 goroutines and >= 1 tick processed "
                   "(sync: >= 1000 samples persisted under contention); distinct by case text",
           "evaluations": 0, "distinct_nontrivial": 0, "samples": [], "disagreements_checked": 0,
           "lock_paths": gen.get("entries"), "lock_paths_state": gen.get("state")}
    if okg and okb:
        rc, out = c.harness(["c16", cases, "all"], timeout=2400)
        if rc != 0:
            c.broken.append("harness c16 failed (rc=%d): %s" % (rc, out[-1500:]))
            c.violation({"kind": "implementation crashed or hung while being observed", "output": out[-3000:]},
                        no_input=True)
        else:
            rc, mout = c.model("c16_run", [cases], timeout=1800)
            mism, viol, summ, other = verif.parse_model_output(mout)
            evaluations, kinds, dist, nontrivial, samples = classify(cases)
            cov.update(evaluations=evaluations, distinct_nontrivial=len(nontrivial), samples=samples,
                       disagreements_checked=len(mism), input_distribution=dict(kinds), distribution=dict(dist),
                       oracle_violations=len(viol))
            if rc != 0 or "cases" not in summ:
                c.broken.append("model driver failed: %s" % mout[-1000:])
            for v in viol[:3]:
                c.violation({"kind": "oracle c16_ok false on the implementation's observation",
                             "case": v, "how_to_replay": "./check C16 --replay <this file>"})
            if mism and not viol:
                c.broken.append("correspondence model<->events recorders: %d disagreements, first: %s"
                                % (len(mism), mism[0][:500]))
        # ---- race detector pass (stress part only)
        okr, outr = c.go_build(race=True)
        if not okr:
            cov["race"] = {"covered": False, "why": "go build -race failed: " + outr[-300:]}
        else:
            rc, out = c.harness(["c16", rcases, "stress"], timeout=2400, race=True)
            races = out.count("WARNING: DATA RACE")
            cov["race"] = {"covered": True, "rc": rc, "data_race_reports": races}
            if races:
                first = out[out.find("WARNING: DATA RACE"):][:2500]
                c.violation({"kind": "race detector: WARNING: DATA RACE in the stress run",
                             "reports": races, "first_report": first,
                             "how_to_replay": "./check C16 --replay <this file>"}, tag="-race")
            elif rc != 0:
                c.broken.append("race harness failed (rc=%d): %s" % (rc, out[-800:]))
            if os.path.exists(rcases):
                rc2, mout = c.model("c16_run", [rcases], timeout=1800)
                mism, viol, summ, other = verif.parse_model_output(mout)
                ev2, kinds2, dist2, nt2, _ = classify(rcases)
                cov["race"].update(evaluations=ev2, distinct_nontrivial=len(nt2), oracle_violations=len(viol),
                                   disagreements=len(mism))
                if not races:
                    for v in viol[:2]:
                        c.violation({"kind": "oracle c16_ok false on the implementation's observation (race build)",
                                     "case": v}, tag="-racerun%d" % len(c.violations))
                    if mism and not viol:
                        c.broken.append("race build: %d model disagreements, first: %s" % (len(mism), mism[0][:400]))
    if c.broken and not c.violations:
        c.violation({"kind": "proof, source facts or correspondence no longer checks; no schedule violating C16 was found",
                     "broken": c.broken}, no_input=True)
    if c.tier == "thorough" and pr["ok"]:
        okc, outc = c.coqchk(PROPS)
        cov["coqchk"] = {"ok": okc, "tail": outc[-1200:]}
        if not okc:
            c.violation({"kind": "coqchk rejected the compiled development", "log": outc}, no_input=True)
    cov["trusted_base"] = [
        "Go runtime semantics of sync.Mutex / sync.RWMutex, context cancellation, select and time.Ticker as modelled by "
        "the transition system of Model/SysInterval.v (mutex with owner, non-reentrant; select arms as separate labels)",
        "source-facts translator harness/lockpaths.go (narrow pattern extractor; what it rejects/ignores is listed in its header); "
        "calls through other objects are assumed not to touch the receiver's mutex",
        "schedule-point hooks vpoint() of the events package (-tags verif) and harness/sched.go"]
    c.finish(cov, assumptions=[
        "data-race freedom as such cannot be exhibited by a Gallina model: carried by C16_mutual_exclusion + "
        "C16_lock_paths_balanced (every access of the modelled fields happens in a critical section) and supported by the "
        "race-detector run of the stress part (coverage.race)",
        "'no call blocks forever' is proved as: an enabled goroutine always exists, every critical section is at most three "
        "steps, user work is a decreasing measure; i.e. termination under every schedule that does not starve enabled goroutines",
        "the root context is never cancelled from outside; collector errors are not modelled (C15)",
        "EndTest persists nothing when the cycle was never stamped (stated explicitly in C16_sum); the harness stamps every cycle",
        "one counter (IncOperations) is modelled and observed; the other three counters are the same code shape "
        "(checked by C16_source_methods_lock_unlock)"])


def replay(c, path):
    j = json.load(open(path))
    okg, _ = c.go_build()
    c.ocaml_build("sysinterval_model", "c16_run.ml", "c16_run")
    p = os.path.join(c.work, "replay.cases")
    if "first_report" in j:
        c.go_build(race=True)
        rc, out = c.harness(["c16", p, "stress"], timeout=1200, race=True)
        n = out.count("WARNING: DATA RACE")
        print("race reports:", n)
        raise SystemExit(1 if n else 0)
    # a schedule is not replayable input-wise beyond re-running the same generator: same seed, same tier
    rc, out = c.harness(["c16", p, "all"], timeout=2400)
    rc, mout = c.model("c16_run", [p])
    lines = [l for l in mout.splitlines() if l.startswith(("VIOL", "MISMATCH", "SUMMARY"))]
    print("\n".join(l[:400] for l in lines))
    raise SystemExit(1 if "VIOL" in mout or "MISMATCH" in mout else 0)
