"""C11 — metadata travels with the chunks it describes (DESIGN.md section 8, C11)."""
import json, os, re, hashlib, collections
import verif, codec_common as cc

PROPS = "Props/C11.v"


WALLCLOCK_ID = re.compile(r"095f696400[0-9a-f]{16}")


def case_texts(path, start, end, ids, idcol=1):
    """hash the INPUT of the cases whose id is in ids: the case header without its id and, per line, the text left of
    ' => ' (operations with their documents; the stream bytes), with every datetime _id value (wall clock) blanked"""
    hashes, samples, cur, inp, keep = set(), [], [], [], False
    for l in open(path):
        t = l.split(" ", 3)
        if t[0] == start:
            keep = len(t) > idcol and t[idcol].strip() in ids
            cur = [" ".join(t[:idcol] + t[idcol + 1:]).strip()] if keep else []
            inp = [WALLCLOCK_ID.sub("095f696400" + "0" * 16, cur[0])] if keep else []
        elif keep:
            cur.append(l.strip())
            if " => " in l:
                inp.append(l.split(" => ", 1)[0].strip())
            if t[0].strip() == end:
                hashes.add(hashlib.sha1("\n".join(inp).encode()).hexdigest())
                if len(samples) < 2 and len(cur) >= 6:
                    samples.append([x[:200] for x in cur[:14]])
                keep = False
    return hashes, samples


def read_stats(path):
    """input distribution of read.cases: stream sources, outer-document classes"""
    src = collections.Counter()
    n = 0
    for l in open(path):
        if l.startswith("S "):
            n += 1
            sid = l.split(" ", 2)[1]
            src["history-output" if sid[0].isdigit() else ("exhaustive-composition" if sid[0] == "x" else "random-composition")] += 1
    return n, dict(src)


def run(c):
    pr = c.coq_props(PROPS, extra_targets=["Extract/ExMeta.v"])
    okb, _ = c.ocaml_build("meta_model", "c11_run.ml", "c11_run")
    okg, _ = c.go_build()
    cov = {"rule": "EMIT: every history of <= L operations over {Add schema A, Add schema B, Resolve, Reset, FlushCollector} (L=3 quick, 5 thorough) "
                   "on each of the 5 compressing collectors (chunk size 1/2) with SetMetadata inserted at every position, two SetMetadata "
                   "(different document / same document) at every pair of positions (histories <= 2 / <= 3), a final Resolve; sampled longer "
                   "ones; random long histories over all operations incl. unreadable Adds, type-changing Adds, Info, wrappers and writer "
                   "faults; each history is followed by its twin without the SetMetadata operations. READ: the stream produced by every second exhaustive history and every other history, "
                   "every composition of <= 3 (5 thorough) pieces from {chunk, two chunks, metadata+chunk, stray type-0 document in every numeric "
                   "representation, another type-0 document, unknown-type document, unreadable chunk, chunk typed int64/double 1}, random "
                   "compositions of up to 4 collector outputs (different / no metadata, set early or late) with stray documents inserted. "
                   "non-trivial = the outputs/stream hold >= 2 chunks and >= 1 metadata document, or two different metadata documents "
                   "(history) resp. chunks reporting different metadata (stream); distinct by the case's input (operations and documents resp. stream bytes with wall-clock _id values blanked)",
           "evaluations": 0, "distinct_nontrivial": 0, "samples": [], "disagreements_checked": 0}
    if okb and okg:
        rc, out = c.harness(["c11", c.work], timeout=3000)
        if rc != 0:
            c.broken.append("harness c11 failed rc=%d: %s" % (rc, out[-1500:]))
            c.violation({"kind": "implementation crashed or hung while being observed", "output": out[-3000:]}, no_input=True)
        else:
            hist, read = os.path.join(c.work, "hist.cases"), os.path.join(c.work, "read.cases")
            res = {}
            for mode, path in (("hist", hist), ("read", read)):
                rc, mout = c.model("c11_run", [mode, path], timeout=3000)
                mism, viol, summ, other = verif.parse_model_output(mout)
                if rc != 0 or "cases" not in summ:
                    c.broken.append("c11_run %s failed: %s" % (mode, mout[-800:]))
                nt = set(m.group(1) for m in (re.match(r"NONTRIV (?:case|stream)=(\S+)", l) for l in other) if m)
                res[mode] = (mism, viol, summ, nt)
            (m1, v1, s1, nt1), (m2, v2, s2, nt2) = res["hist"], res["read"]
            h1, samp1 = case_texts(hist, "CASE", "END", nt1)
            h2, samp2 = case_texts(read, "S", "ENDS", nt2)
            st = cc.hist_stats(hist)
            nstreams, src = read_stats(read)
            cov.update(evaluations=s1.get("cases", 0) + s2.get("cases", 0), distinct_nontrivial=len(h1) + len(h2),
                       distinct_nontrivial_histories=len(h1), distinct_nontrivial_streams=len(h2),
                       samples=samp1[:1] + samp2[:1], disagreements_checked=len(m1) + len(m2),
                       input_distribution={"history_kinds": st["kinds"], "history_ops": st["ops"], "stream_sources": src},
                       operations=s1.get("ops", 0), twins=s1.get("twins", 0), unparsable_streams=s2.get("unparsable_streams", 0),
                       oracle_violations=len(v1) + len(v2),
                       exhaustive_part="all histories of <= 3 (quick) / <= 5 (thorough) operations x all SetMetadata positions x 5 kinds; "
                                       "all compositions of <= 3 / <= 5 stream pieces over an 8-piece alphabet")
            for v in v1[:2]:
                sid = re.search(r"case=(\d+)", v)
                txt = cc.first_case_text(hist, sid.group(1)) if sid else None
                twin_of = re.search(r"with-metadata\(case (\d+)\)", v)
                c.violation({"kind": "emit-side oracle false on the implementation's outputs", "case": v[:4000], "history": txt,
                             "history_with_metadata": cc.first_case_text(hist, twin_of.group(1)) if twin_of else None})
            for v in v2[:2]:
                sid = re.search(r"stream=(\S+)", v)
                c.violation({"kind": "read-side oracle false on the implementation's observations", "case": v[:4000],
                             "stream": cc.first_case_text(read, sid.group(1), start="S", end="ENDS") if sid else None})
            if (m1 or m2) and not (v1 or v2):
                c.broken.append("correspondence model<->implementation: %d disagreements, first: %s" % (len(m1) + len(m2), (m1 + m2)[0][:700]))
    if c.broken and not c.violations:
        c.violation({"kind": "proof or correspondence no longer checks; no input violating C11 was found", "broken": c.broken}, no_input=True)
    if c.tier == "thorough" and pr["ok"]:
        okc, outc = c.coqchk(PROPS)
        if not okc and "Inconsistent assumptions" in outc:
            # the .vo closure was rebuilt by someone else while the cases ran: rebuild it and check again
            c.coq_build([PROPS])
            okc, outc = c.coqchk(PROPS)
        cov["coqchk"] = {"ok": okc, "tail": outc[-1200:]}
        if not okc:
            c.broken.append("coqchk rejected the compiled development: %s" % outc[-600:])
            c.violation({"kind": "coqchk rejected the compiled development", "log": outc}, no_input=True)
    c.finish(cov, assumptions=[
        "zlib is a parameter of the model; no property of it is needed for C11. The harness re-inflates the implementation's streams with "
        "compress/zlib before handing them to the model (trivial codec)",
        "birch's BSON encoding/decoding is modelled (Model/Bson.v); every exchanged document must re-encode to the same bytes",
        "wall-clock _id values (samples without a datetime leaf) are normalised to 0 on both sides before outputs are compared; the oracle "
        "itself compares the metadata document's _id with its chunk's _id on the raw values",
        "the iterator views are modelled sequentially (items in order, each with its chunk's metadata); goroutine scheduling of the workers "
        "is outside this model (C04/C05)",
        "a writer record cut short by an injected short write shows only a prefix of raw bytes: its content is not judged"])


def replay(c, path):
    j = json.load(open(path))
    print(json.dumps(j, indent=1)[:6000])
    raise SystemExit(1)
