"""C14 — the event collectors (cumulative, n-sampling, pass-through) write the right running
totals; nil events are refused; a Performance survives marshal/unmarshal (DESIGN.md section 8, C14)."""
import json, os, collections, hashlib
import verif

PROPS = "Props/C14.v"
MODEL, DRIVER, BIN = "events_model", "c14_run.ml", "c14_run"

RULE = ("cases (harness/c14.go, seeded): H = one history on an events collector (kinds cum/samp/pass, sampling "
        "n in 1..5) wrapping an ftdc collector (base with capacity 1000; batch, dyn, stream, sdyn with chunk sizes "
        "1..6): 0..25 operations N (fresh event), A:i (AddEvent of the i-th allocated event again, a third of them the "
        "first event = the running-total pointer), Z (nil); ids zero in half of the events, else -1, small, negative or "
        "extreme; counters/timers small, negative, random 64-bit or extreme (MaxInt64, MinInt64, +-2^62, ...) so that "
        "sums wrap; timestamps 1800..2200, a third with sub-millisecond digits; a fixed grid of every kind x every "
        "wrapped collector x n. Observed: the value of each event copied right before AddEvent, the error flags, all "
        "samples decoded with ftdc.ReadMetrics from (writer log ++ Resolve()), the final value of every event object. "
        "R = marshal/unmarshal round trip of a random event (MarshalDocument and MarshalBSON paths) into a zero or a "
        "random struct. distinct = distinct case text (sha1 of the input part of the line). non-trivial (H only) = at "
        "least 2 added events and (a repeated pointer, or an event with id 0 after an event with a non-zero id, or a "
        "counter/timer sum that leaves the int64 range, or sampling n >= 2); R cases are never counted as non-trivial")

I64MIN, I64MAX = -(1 << 63), (1 << 63) - 1


def parse_h(line):
    parts = line.split(" | ")
    hd = parts[0].split()
    ops = [] if parts[1].strip() in ("", "-") else parts[1].strip().split(";")
    added = [] if parts[2].strip() in ("", "-") else [list(map(int, p.split(","))) for p in parts[2].strip().split(";")]
    return hd, ops, added, parts


def wraps(added):
    """does a running int64 total of a counter/timer leave the int64 range?"""
    tot = [0] * 6
    for ev in added:
        for j in range(6):
            s = tot[j] + ev[2 + j]
            if s < I64MIN or s > I64MAX:
                return True
            tot[j] = s
    return False


def zero_after_nonzero(added):
    seen = False
    for ev in added:
        if ev[1] == 0 and seen:
            return True
        if ev[1] != 0:
            seen = True
    return False


def classify(cases_path):
    kinds, unders, opk, feats = collections.Counter(), collections.Counter(), collections.Counter(), collections.Counter()
    sampling_n = collections.Counter()
    seen, nontriv = set(), set()
    samples = []
    n_r = n_r_subms = 0
    for l in open(cases_path):
        l = l.rstrip("\n")
        if not l.strip():
            continue
        if l.startswith("H "):
            hd, ops, added, parts = parse_h(l)
            key = hashlib.sha1((parts[0] + " | " + parts[1]).encode()).digest()
            kinds[hd[1]] += 1
            unders[hd[3]] += 1
            if hd[1] == "samp":
                sampling_n[hd[2]] += 1
            for o in ops:
                opk[o[0]] += 1
            rep = any(o.startswith("A:") for o in ops)
            cur = any(o == "A:0" for o in ops)
            zid = zero_after_nonzero(added)
            wr = hd[1] != "pass" and wraps(added)
            sn = hd[1] == "samp" and int(hd[2]) >= 2
            for name, f in (("repeated_pointer", rep), ("running_total_pointer_again", cur and hd[1] != "pass"),
                            ("zero_id_after_nonzero", zid), ("wrapping_sum", wr), ("sampling_n_ge_2", sn),
                            ("nil_event", any(o == "Z" for o in ops))):
                if f:
                    feats[name] += 1
            if key in seen:
                continue
            seen.add(key)
            if len(added) >= 2 and (rep or zid or wr or sn):
                nontriv.add(key)
                if len(samples) < 3 and len(ops) <= 6 and rep and len(l) < 2500:
                    samples.append(l)
        elif l.startswith("R "):
            n_r += 1
            f = l.split(" | ")[0].split()
            if int(f[2]) % 1000000 != 0:
                n_r_subms += 1
            if n_r <= 2:
                samples.append(l)
    return dict(kinds=dict(kinds), wrapped_collectors=dict(unders), ops=dict(opk), features=dict(feats),
                sampling_n=dict(sampling_n), roundtrips=n_r, roundtrips_with_sub_ms=n_r_subms,
                distinct_histories=len(seen)), nontriv, samples


def run(c):
    pr = c.coq_props(PROPS, extra_targets=["Extract/ExEvents.v"])
    have_model = os.path.exists(os.path.join(verif.COQ, MODEL + ".ml"))
    okb, _ = c.ocaml_build(MODEL, DRIVER, BIN) if pr["ok"] or have_model else (False, "")
    okg, _ = c.go_build()
    cases = os.path.join(c.work, "c14.cases")
    first_mismatch = None
    cov = {"rule": RULE, "evaluations": 0, "distinct_nontrivial": 0, "samples": [], "disagreements_checked": 0}
    if okg and okb:
        rc, out = c.harness(["c14", cases], timeout=3000)
        if rc != 0:
            c.broken.append("harness c14 failed (rc=%d): %s" % (rc, out[-1500:]))
            c.violation({"kind": "implementation crashed or hung while being observed", "output": out[-3000:]}, no_input=True)
        else:
            rc, mout = c.model(BIN, [cases], timeout=3000)
            mism, viol, summ, other = verif.parse_model_output(mout)
            dist, nontriv, samples = classify(cases)
            cov.update(evaluations=summ.get("cases", 0), distinct_nontrivial=len(nontriv), samples=samples,
                       disagreements_checked=len(mism), input_distribution=dist, oracle_violations=len(viol))
            if rc != 0 or "cases" not in summ:
                c.broken.append("model driver failed: %s" % mout[-1000:])
            kf = {f["id"]: f for f in c.known_findings()}
            khits = [l for l in other if l.startswith("KNOWN caller-write")]
            cov["known_caller_write_cases"] = len(khits)
            if khits:
                if "C14-caller-write" in kf:
                    c.known(kf["C14-caller-write"])
                else:
                    c.violation({"kind": "a finding that KNOWN_FINDINGS.jsonl does not list", "lines": khits[:5]})
            for v in viol[:3]:
                body = v.split(" ", 2)[2]
                line, _, why = body.rpartition(" :: ")
                c.violation({"kind": "oracle c14_ok_* false on the implementation's observation", "why": why,
                             "case": line, "how_to_replay": "./check C14 --replay <this file>"})
            if mism and not viol:
                c.broken.append("correspondence model<->events: %d disagreements, first: %s" % (len(mism), mism[0][:1500]))
                first_mismatch = mism[0]
    if c.broken and not c.violations:
        obj = {"kind": "proof or correspondence no longer checks; no input violating C14 was found", "broken": c.broken}
        if first_mismatch:
            obj["case"] = first_mismatch   # lets --replay reproduce the disagreement
        c.violation(obj, no_input=True)
    if c.tier == "thorough" and pr["ok"]:
        okc, outc = c.coqchk(PROPS)
        cov["coqchk"] = {"ok": okc, "tail": outc[-1200:]}
        if not okc:
            c.violation({"kind": "coqchk rejected the compiled development", "log": outc}, no_input=True)
    c.finish(cov, assumptions=[
        "event objects are modelled as a store indexed by allocation order; the harness only adds pointers it "
        "allocated itself (no aliasing through other structures)",
        "the wrapped ftdc collector is observed, not modelled: what it was handed is read back with ftdc.ReadMetrics; "
        "the harness keeps timestamps in 1800..2200 because ftdc's epochMs goes through time.UnixNano (C01's domain)",
        "samplingCollector.count is a Go int: the sampling theorem assumes fewer than 2^63 operations; n >= 1 (n = 0 "
        "panics with an integer division by zero, modelled as RPanic and not exercised)",
        "timestamps are carried at millisecond precision (as marshalled); time.Time <-> ms conversion modelled by "
        "time_to_ms / ms_to_time and proved for |seconds| < 2^50",
        "AddEvent errors of the wrapped collector (e.g. an overfull base collector) are outside the model: the base "
        "collector is given capacity 1000"])


def replay(c, path):
    """re-run the stored case: its inputs on the implementation again, then the driver on the fresh
    observations; falls back to the stored observations when the harness cannot be run"""
    j = json.load(open(path))
    okg, _ = c.go_build()
    c.ocaml_build(MODEL, DRIVER, BIN)
    case = j.get("case", "")
    if case.startswith(("VIOL ", "MISMATCH ")):
        case = case.split(" ", 2)[2].rpartition(" :: ")[0]
    p = os.path.join(c.work, "replay.cases")
    rc = 1
    if okg and case:
        rc, out = c.harness(["c14replay", p, case], timeout=120)
    if rc != 0:
        with open(p, "w") as f:
            f.write(case + "\n")
    rc, mout = c.model(BIN, [p])
    print(open(p).read().strip()[:3000]); print(mout.strip()[:6000])
    raise SystemExit(1 if "VIOL" in mout or "MISMATCH" in mout else 0)
