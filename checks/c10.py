"""C10 — thread-safe wrappers lose nothing (DESIGN.md section 8, C10)."""
import json, os, re, collections
import verif

PROPS = "Props/C10.v"


def kv(line):
    t = line.split()
    return t[0], dict(x.split("=", 1) for x in t[1:] if "=" in x)


def classify(cases_path):
    """input distribution of the run file; non-trivial = at least 2 producers and real contention
    (a stall point was reached, or at least 100 Adds were issued)"""
    dist = collections.Counter()
    nontrivial, samples = set(), []
    n = 0
    for l in open(cases_path):
        if not l.strip():
            continue
        n += 1
        kind, h = kv(l)
        G, M = int(h.get("G", 0)), int(h.get("M", 0))
        if kind == "RUN":
            dist["mode=" + h["mode"]] += 1
            dist["inner=" + h["inner"]] += 1
            dist["G=%d" % G] += 1
            dist["M=%d" % M] += 1
            dist["procs=" + h["procs"]] += 1
            if h["mode"] == "buf":
                dist["size=" + h["size"]] += 1
                dist["cancel=" + h["cancel"] + ("@" + h["stall"].split(":")[0] if h["stall"] != "-" else "")] += 1
                dist["stall_reached"] += int(h["reached"])
                adds = [] if h["adds"] == "-" else h["adds"].split(",")
                dist["adds_nil_before_cancel"] += sum(1 for a in adds if a.endswith(".1.1"))
                dist["adds_nil_after_cancel"] += sum(1 for a in adds if a.endswith(".1.0"))
                dist["adds_ctx_error"] += sum(1 for a in adds if a.split(".")[2] == "0")
                dist["drainer_parked_in_range"] += int(h["leak"])
            elif h["inner"] == "base":
                dist["adds_rejected_by_inner"] += sum(1 for a in h["adds"].split(",") if a.split(".")[2] == "0")
            contention = h["reached"] == "1" or G * M >= 100
        else:
            dist["mode=catcher"] += 1
            contention = G * M >= 100
        if G >= 2 and contention:
            # distinct by configuration and outcome (schedules differ from run to run)
            nontrivial.add(re.sub(r"\b(id|seed)=\d+ ", "", l.strip()))
            if len(samples) < 4 and (kind == "CAT" or h["mode"] == "buf" or len(samples) < 1):
                samples.append(l.strip()[:700])
    return n, dist, nontrivial, samples


def verdict(c, mout, tag=""):
    mism, viol, summ, other = verif.parse_model_output(mout)
    for v in viol[:3]:
        c.violation({"kind": "oracle c10_ok false on what the implementation did" + tag,
                     "case": v, "how_to_replay": "./check C10 --replay <this file>"})
    if mism and not viol:
        c.broken.append("correspondence model<->implementation%s: %d disagreements, first: %s" % (tag, len(mism), mism[0][:1500]))
    return mism, viol, summ


def run(c):
    pr = c.coq_props(PROPS, extra_targets=["Extract/ExSysBuffered.v"])
    okb, _ = c.ocaml_build("sysbuffered_model", "c10_run.ml", "c10_run") if pr["ok"] or os.path.exists(
        os.path.join(verif.COQ, "sysbuffered_model.ml")) else (False, "")
    okg, _ = c.go_build()
    cases = os.path.join(c.work, "c10.cases")
    cov = {"rule": "runs: G in {2,4,8} producers x M in {1,50} samples each, GOMAXPROCS in {1,2,16}; synchronized collector over "
                   "dynamic/batch/base(with rejections) with Info/Resolve/SetMetadata observers; buffered collector sizes 0..3 over a "
                   "synchronized dynamic collector, cancel at the end / after k acks / after a random sleep / while the drainer is "
                   "stalled at bd.recv, a producer at bp.add, the drainer at bd.cancel; catcher with Len/HasErrors/Resolve readers. "
                   "non-trivial = at least 2 producers and (stall point reached or >= 100 Adds); distinct by configuration+outcome",
           "evaluations": 0, "distinct_nontrivial": 0, "samples": [], "disagreements_checked": 0}
    race_note = None
    if okg and okb:
        rc, out = c.harness(["c10", cases], timeout=1500)
        if rc != 0:
            c.broken.append("harness c10 failed (rc=%d): %s" % (rc, out[-1500:]))
            c.violation({"kind": "implementation crashed or hung while being observed", "output": out[-3000:]}, no_input=True)
        else:
            rc, mout = c.model("c10_run", [cases], timeout=1500)
            mism, viol, summ = verdict(c, mout)
            n, dist, nontrivial, samples = classify(cases)
            cov.update(evaluations=summ.get("cases", 0), distinct_nontrivial=len(nontrivial), samples=samples,
                       disagreements_checked=len(mism), input_distribution=dict(dist), oracle_violations=len(viol))
            if rc != 0 or "cases" not in summ:
                c.broken.append("model driver failed: %s" % mout[-1000:])
        if True:
            # the same runs under the race detector (needs cgo + a C compiler); the quick tier takes one repetition
            okr, outr = c.go_build(race=True)
            if not okr:
                c.broken.pop()  # not a defect of the library: recorded as a limitation instead
                race_note = "race-detector build impossible here: %s" % outr[-300:]
            else:
                rcases = os.path.join(c.work, "c10race.cases")
                rc, out = c.harness(["c10", rcases, "3" if c.tier == "thorough" else "1"], timeout=2400, race=True)
                races = out.count("WARNING: DATA RACE")
                cov["race_detector"] = {"runs": sum(1 for _ in open(rcases)) if os.path.exists(rcases) else 0,
                                        "data_races": races, "rc": rc}
                if races or rc == 66:
                    c.violation({"kind": "data race reported by the Go race detector", "report": out[:6000],
                                 "how_to_replay": "cd harness && CGO_ENABLED=1 go build -race -tags verif -o bin/ftdcverif-race . "
                                                  "&& bin/ftdcverif-race c10 /tmp/c10race.cases 3"}, tag="-race")
                elif rc != 0:
                    c.broken.append("race-instrumented harness failed (rc=%d): %s" % (rc, out[-1500:]))
                else:
                    rc, mout = c.model("c10_run", [rcases], timeout=1500)
                    mism, viol, summ = verdict(c, mout, " (race-instrumented build)")
                    cov["race_detector"].update(evaluations=summ.get("cases", 0), mismatches=len(mism), violations=len(viol))
    if c.broken and not c.violations:
        c.violation({"kind": "proof or correspondence no longer checks; no run violating C10 was found",
                     "broken": c.broken}, no_input=True)
    if c.tier == "thorough" and pr["ok"]:
        okc, outc = c.coqchk(PROPS)
        cov["coqchk"] = {"ok": okc, "tail": outc[-1200:]}
        if not okc:
            c.violation({"kind": "coqchk rejected the compiled development", "log": outc}, no_input=True)
    assumptions = [
        "Go runtime semantics of channels, select, sync.RWMutex and context are trusted and modelled: FIFO channel with capacity, "
        "rendezvous for capacity 0, select arms as separate transitions, RWMutex as writer slot + reader set (writer preference "
        "left out: the model has more interleavings, not fewer)",
        "the inner collector is an append-only log with an acceptance function of (log, sample) (its correctness is C07); "
        "the return of a method is merged with its Unlock step; catcher.Add/HasErrors are atomic inside the big system and "
        "modelled with their own mutex in the separate catcher LTS",
        "'no data races' itself is not a theorem about Go memory: it is supported by the lock-discipline theorem C10_progress "
        "(every access to the inner collector happens between Lock and Unlock of one mutex; the mutex is released on every path), "
        "by the harness's end-of-run probe that the mutex is free, and in the thorough tier by the Go race detector on the same runs",
        "the drainer goroutine never exits once it entered 'range c.pipe' (nobody closes the pipe): modelled (pc DRange), observed "
        "(leak=1) and compared on every run; outside the wording of C10",
        "catcher.add labels in the drainer's trace also come from catchers inside the inner collector; runs of that label are "
        "collapsed before the local automaton is applied",
    ]
    if race_note:
        assumptions.append(race_note)
    elif c.tier != "thorough":
        assumptions.append("race detector runs only in the thorough tier")
    c.finish(cov, assumptions=assumptions)


def replay(c, path):
    j = json.load(open(path))
    c.go_build()
    c.ocaml_build("sysbuffered_model", "c10_run.ml", "c10_run")
    case = j.get("case", "")
    # "VIOL <n> <line> :: why"
    line = case.split(" ", 2)[2].split(" :: ")[0] if case.startswith(("VIOL", "MISMATCH")) else case
    t = [x for x in line.split()[1:] if "=" in x and not x.startswith(("adds=", "decoded=", "trace=", "got="))]
    p = os.path.join(c.work, "replay.cases")
    # schedules are not reproducible: the reported configuration is repeated 40 times
    rc, out = c.harness(["c10one", p, "40"] + t, timeout=600)
    rc, mout = c.model("c10_run", [p])
    bad = [l for l in mout.splitlines() if l.startswith(("VIOL", "MISMATCH"))]
    for l in bad[:3]:
        print(l[:1200])
    print(mout.strip().splitlines()[-1] if mout.strip() else "no output")
    raise SystemExit(1 if bad else 0)
