"""C03 — wire-format conformance in both directions (DESIGN.md section 8, C03)."""
import collections, json, os, re
import verif, codec_common as cc

PROPS = "Props/C03.v"
FINDING_TS = "D1-timestamp-seconds-C03"
NT_FEATURES = ("split", "cross", "unk", "t64", "tdbl")


def run_driver(c, mode, casefile, what):
    rc, out = c.model("c03_run", [mode, casefile], timeout=1500)
    mism, viol, summ, other = verif.parse_model_output(out)
    known = [l for l in other if l.startswith("KNOWN")]
    nt = set(l.split()[1] for l in other if l.startswith("NT ") and len(l.split()) > 1)
    if rc != 0 or "cases" not in summ:
        c.broken.append("c03_run %s failed on %s: %s" % (mode, what, out[-800:]))
    return mism, viol, summ, known, nt


def stream_features(path):
    """distribution of the features of the generated streams and two sample lines"""
    feats, combos, n, samples = collections.Counter(), collections.Counter(), 0, []
    for l in open(path):
        t = l.split(" ", 4)
        if len(t) < 4 or t[0] != "G":
            continue
        n += 1
        fs = t[2].split(",")
        combos[t[2]] += 1
        for f in fs:
            feats[f] += 1
        if len(samples) < 2 and ("split" in fs and "cross" in fs):
            samples.append(l.strip()[:700])
    return n, dict(feats), len(combos), samples


def encode_sample(path):
    """one collector history with at least three samples, written out (lines cut)"""
    cur = []
    for l in open(path):
        t = l.split()
        if not t:
            continue
        if t[0] == "CASE":
            cur = []
        cur.append(l.strip()[:260])
        if t[0] == "END":
            if sum(1 for x in cur if x.startswith("A ")) >= 3:
                return cur[:10]
            cur = []
    return cur[:10]


def case_text(path, sid, first="S", last="ENDS"):
    """the lines of one stream of a read.cases / dec.cases file"""
    keep, out = False, []
    for l in open(path):
        t = l.split(" ", 2)
        if t[0] in ("F", first) and len(t) > 1 and t[1].strip() == str(sid):
            keep = True
        if keep:
            out.append(l.rstrip("\n")[:20000])
        if keep and l.startswith(last):
            break
    return out


def run(c):
    pr = c.coq_props(PROPS, extra_targets=["Extract/ExSpec.v"])
    okb1, _ = c.ocaml_build("spec_model", "c03_gen.ml", "c03_gen")
    okb2, _ = c.ocaml_build("spec_model", "c03_run.ml", "c03_run")
    okg, _ = c.go_build()
    cov = {"rule": "ENCODE: random schema trees (depth<=4, all 21 BSON types, timestamps with and without seconds) x same-schema value "
                   "sequences (random / small-step / boundary / constant) x 5 compressing constructors x wrapper stacks x N in "
                   "{1,2,3,4,7,10}, one in five with metadata, plus every {0,+1,-1} delta matrix up to the tier's bound; the emitted "
                   "bytes are decoded by the extracted SPECIFICATION decoder; non-trivial = some chunk with >=2 samples and a zero "
                   "delta (a zero run). DECODE: streams written by the extracted specification encoder (random reference documents "
                   "and sample tables, random choice lists cutting the zero stretches, int32/int64/double type fields, metadata and "
                   "unknown documents in between), deflated with Go's zlib and read by every reader of the library; non-trivial = "
                   "stream with a split run, a run crossing a metric boundary, an unknown document or a non-int32 type field. "
                   "distinct by the md5 of the stream bytes",
           "evaluations": 0, "distinct_nontrivial": 0, "samples": [], "disagreements_checked": 0}
    if okb1 and okb2 and okg:
        streams = os.path.join(c.work, "streams.txt")
        dec = os.path.join(c.work, "dec.cases")
        hist, read = os.path.join(c.work, "hist.cases"), os.path.join(c.work, "read.cases")
        rcg, outg = c.model("c03_gen", [str(c.seed), c.tier, streams], timeout=1500)
        if rcg != 0:
            c.broken.append("c03_gen failed rc=%d: %s" % (rcg, outg[-800:]))
        rc1, out1 = c.harness(["c03", c.work], timeout=1500)
        rc2, out2 = (c.harness(["c03read", streams, dec], timeout=1500) if rcg == 0 else (0, ""))
        if rc1 != 0 or rc2 != 0:
            c.broken.append("harness c03/c03read failed rc=%d/%d: %s" % (rc1, rc2, (out1 + out2)[-1500:]))
            c.violation({"kind": "implementation crashed or hung while being observed", "output": (out1 + out2)[-3000:]}, no_input=True)
        elif rcg == 0:
            m1, v1, s1, _, nt1 = run_driver(c, "enc", read, "collector output")
            m2, v2, s2, known, nt2 = run_driver(c, "dec", dec, "reader observations")
            st = cc.hist_stats(hist)
            ng, feats, ncombos, gsamples = stream_features(streams)
            cov.update(evaluations=s1.get("cases", 0) + s2.get("cases", 0),
                       distinct_nontrivial=len(nt1) + len(nt2),
                       distinct_nontrivial_encode=len(nt1), distinct_nontrivial_decode=len(nt2),
                       samples=[encode_sample(hist)] + gsamples,
                       disagreements_checked=len(m1) + len(m2),
                       input_distribution={"encode_kinds": st["kinds"], "encode_ops": st["ops"],
                                           "encode_chunks": s1.get("chunks"), "encode_samples": s1.get("samples"),
                                           "encode_metadata_docs": s1.get("metadata_docs"),
                                           "decode_streams": ng, "decode_stream_features": feats,
                                           "decode_feature_combinations": ncombos},
                       oracle_violations=len(v1) + len(v2), known_class_cases=len(known),
                       exhaustive_part="encode: all delta matrices with entries in {0,+1,-1}: 1x1,1x2,2x1,2x2,1x3,3x1,2x3 (quick); "
                                       "+ 3x2,3x3,2x4 (thorough)")
            kf = {f["id"]: f for f in c.known_findings()}
            if known:
                if FINDING_TS in kf:
                    c.known(kf[FINDING_TS])
                else:
                    c.violation({"kind": "timestamp seconds multiplied by 1000 on decode (not listed as known)", "case": known[0]})
            for v in v1[:2]:
                sid = re.search(r"stream=(\d+)", v)
                c.violation({"kind": "encode direction: C03 oracle false on the bytes the implementation emitted", "case": v[:6000],
                             "history": cc.first_case_text(hist, sid.group(1)) if sid else None})
            for v in v2[:2]:
                sid = re.search(r"stream=(\d+)", v)
                c.violation({"kind": "decode direction: a reader disagrees with the specification on a conformant stream", "case": v[:8000],
                             "observations": case_text(dec, sid.group(1)) if sid else None})
            if (m1 or m2) and not (v1 or v2):
                c.broken.append("correspondence specification<->implementation: %d disagreements, first: %s"
                                % (len(m1) + len(m2), (m1 + m2)[0][:600]))
    if c.broken and not c.violations:
        c.violation({"kind": "proof or correspondence no longer checks; no input violating C03 was found", "broken": c.broken}, no_input=True)
    if c.tier == "thorough" and pr["ok"]:
        okc, outc = c.coqchk(PROPS)
        cov["coqchk"] = {"ok": okc, "tail": outc[-1200:]}
    c.finish(cov, assumptions=[
        "zlib (compress/zlib) is a parameter with the hypothesis inflate(deflate p) = p (encode direction) / an arbitrary inflate "
        "(decode direction); the harness inflates the implementation's streams and deflates the specification's streams with Go's own "
        "compress/zlib; the extracted specification runs with a trivial codec",
        "the specification (Spec/FtdcSpec.v) is written from the description of the format and shares only bytes, varints and the "
        "BSON value type/encoder/decoder (Model/Bytes.v, Model/Bson.v) with the model of the library; the type field may be "
        "int32/int64/double (decimal128 is not covered)",
        "decode direction in scope: reference documents whose date leaves lie within Go's nanosecond range (|ms| <= 9223372036854) and "
        "without timestamp seconds (known finding D1); chunks within the reader's size bound (theorem C03_decode_complete_bounded; "
        "the library refuses more than 2^27 values per chunk)",
        "encode direction: hypotheses of C01 (one schema, representable values, documents below 2 GiB); the independent decoding "
        "part additionally needs payloads below 4 GiB (uint32 length prefix)",
        "wall-clock _id values are not pinned by the specification (any date)"])


def replay(c, path):
    j = json.load(open(path))
    print(json.dumps(j, indent=1)[:3000])
    raise SystemExit(1)
