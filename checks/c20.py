"""C20 — Genny translation (DESIGN.md section 8, C20).

Actor streams are built with the real events / FTDC collectors, TranslateGenny and
GetGennyTime are run on them, and the decoded output is compared with the extracted
Coq model (MISMATCH) and judged by the extracted oracle c20_ok_* (VIOL)."""
import json, os, collections, hashlib
import verif

PROPS = "Props/C20.v"
EXTRA = ["Extract/ExGenny.v"]


def parse_case(line):
    """inputs of a T line -> list of actors: dict(name, start, end, chunks=[[ts,...],...])"""
    t = line.split()
    p = 2
    nact = int(t[p]); p += 1
    actors = []
    for _ in range(nact):
        name, st, en, nch = int(t[p]), int(t[p + 1]), int(t[p + 2]), int(t[p + 3]); p += 4
        chunks = []
        custom = nokeys = False
        for _ in range(nch):
            nk = int(t[p]); p += 1
            kids = t[p:p + nk]; p += nk
            if kids != ['8', '9', '0', '1', '2', '3', '4', '5', '10', '6', '7']:
                custom = True
            if not set(kids) & set("01234567"):
                nokeys = True
            ns = int(t[p]); p += 1
            chunks.append([int(t[p + i * nk]) for i in range(ns)])
            p += ns * nk
        actors.append({"name": name, "start": st, "end": en, "chunks": chunks, "custom": custom, "nokeys": nokeys})
    assert t[p] == "=>"
    status = t[p + 1]
    nout = int(t[p + 2])
    gts = t[len(t) - 2 * nact:]
    for i, a in enumerate(actors):
        a["gtime"] = (int(gts[2 * i]), int(gts[2 * i + 1]))
    return actors, status, nout


def ceil_sec(ts):
    return -((-ts) // 1000)


def features(actors, nout):
    f = set()
    if len(actors) >= 2:
        f.add("multi_actor")
    for a in actors:
        ts = [x for ch in a["chunks"] for x in ch]
        secs = [ceil_sec(x) for x in ts]
        if len(a["chunks"]) >= 2:
            f.add("multi_chunk_input")
        if any(b - a_ >= 2 for a_, b in zip(secs, secs[1:])):
            f.add("gap_ge_2s")
        cnt = collections.Counter(secs)
        if cnt and max(cnt.values()) >= 3:
            f.add("ge3_samples_in_a_second")
        if a["custom"]:
            f.add("hand_built_documents")
        if a["nokeys"]:
            f.add("stream_without_selected_keys")
        if ts and ts[0] <= 0:
            f.add("timestamps_at_or_before_epoch")
        if ts and ts[0] > 7000000000000:
            f.add("timestamps_far_future")
        if (a["start"], a["end"]) != a["gtime"]:
            f.add("hand_chosen_start_end")
    if len(actors) >= 2:
        spans = sorted((a["chunks"][0][0], a["chunks"][-1][-1]) for a in actors)
        if any(s2[0] > s1[1] for s1, s2 in zip(spans, spans[1:])):
            f.add("disjoint_spans")
        else:
            f.add("overlapping_spans")
    if nout > 300:
        f.add("multi_chunk_output")
    return f


NONTRIVIAL = {"multi_actor", "gap_ge_2s", "ge3_samples_in_a_second", "multi_chunk_input"}


def classify(cases_path):
    dist = collections.Counter()
    nact = collections.Counter()
    nontrivial = set()
    samples = []
    total_out = 0
    for l in open(cases_path):
        if not l.startswith("T "):
            if l.strip():
                dist["empty_stream_panic_subprocess"] += 1
            continue
        actors, status, nout = parse_case(l)
        f = features(actors, nout)
        for x in f:
            dist[x] += 1
        nact[len(actors)] += 1
        total_out += nout
        if f & NONTRIVIAL:
            nontrivial.add(hashlib.sha1(l.split(" =>")[0].split(" ", 2)[2].encode()).hexdigest())
        if len(samples) < 3 and len(l) < 1500:
            samples.append(l.strip())
    if not samples:
        for l in open(cases_path):
            samples.append(l.strip()[:1500])
            break
    dist.update({"actors=%d" % k: v for k, v in nact.items()})
    return dist, len(nontrivial), samples, total_out


def shortest(lines, k=3):
    return sorted(lines, key=len)[:k]


def run(c):
    pr = c.coq_props(PROPS, extra_targets=EXTRA)
    have_model = os.path.exists(os.path.join(verif.COQ, "genny_model.ml"))
    okb, _ = c.ocaml_build("genny_model", "c20_run.ml", "c20_run") if pr["ok"] or have_model else (False, "")
    okg, _ = c.go_build()
    cases = os.path.join(c.work, "c20.cases")
    cov = {"rule": "1..4 actors, each a stream of 1..40 (long cases: 320..720) events.Performance values through "
                   "Basic/Passthrough collectors over Batch/Streaming FTDC collectors with chunk size in {1,2,7,50} "
                   "(or hand-built documents with unselected neighbour keys, rarely with none of the eight keys), timestamps with many samples per second, "
                   "exact-second ticks, duplicates and 2..6 s gaps; StartTime/EndTime from GetGennyTime or hand-chosen "
                   "(+-4 s); time axis at wall clock, around/before the epoch, two centuries ahead. "
                   "non-trivial = >= 2 actors or a gap >= 2 s or >= 3 samples in one second or multi-chunk input; "
                   "distinct by the text of the inputs",
           "evaluations": 0, "distinct_nontrivial": 0, "samples": [], "disagreements_checked": 0}
    if okg and okb:
        rc, out = c.harness(["c20", cases], timeout=1500)
        if rc != 0:
            c.broken.append("harness c20 failed (rc=%d): %s" % (rc, out[-1500:]))
            c.violation({"kind": "implementation crashed, exited (log.Fatal) or hung while being observed",
                         "output": out[-3000:]}, no_input=True)
        else:
            rc, mout = c.model("c20_run", [cases], timeout=1500)
            mism, viol, summ, other = verif.parse_model_output(mout)
            dist, nontriv, samples, total_out = classify(cases)
            cov.update(evaluations=summ.get("cases", 0), distinct_nontrivial=nontriv, samples=samples,
                       disagreements_checked=len(mism), input_distribution=dict(dist),
                       output_samples_compared=total_out, oracle_violations=len(viol))
            if rc != 0 or "cases" not in summ:
                c.broken.append("model driver failed: %s" % mout[-1000:])
            for v in shortest(viol):
                c.violation({"kind": "oracle c20_ok false on the implementation's observation",
                             "why": v.rsplit(" :: ", 1)[-1], "case": v,
                             "how_to_replay": "./check C20 --replay <this file>"})
            if mism and not viol:
                c.broken.append("correspondence model<->t2.go: %d disagreements, first: %s"
                                % (len(mism), shortest(mism, 1)[0][:900]))
    if c.broken and not c.violations:
        c.violation({"kind": "proof or correspondence no longer checks; no input violating C20 was found",
                     "broken": c.broken}, no_input=True)
    if c.tier == "thorough" and pr["ok"]:
        okc, outc = c.coqchk(PROPS)
        cov["coqchk"] = {"ok": okc, "tail": outc[-1200:]}
        if not okc:
            c.violation({"kind": "coqchk rejected the compiled development", "log": outc}, no_input=True)
    c.finish(cov, assumptions=[
        "chunks are modelled row-wise with key ids (0..7 = the eight selected keys); the key-string table, the "
        "transposition of Metric.Values and the equal-length check live in the Go harness",
        "int64(math.Ceil(float64(ts)/1000)) is modelled as (ts + 999) / 1000 (floor division): exact for "
        "|ts| < 2^43 * 1000; exercised at wall-clock values, around/before the epoch and year ~2198 (FTDC date metrics outside 1678..2262 overflow in epochMs/UnixNano, a collector matter outside C20, so larger values cannot be observed)",
        "ctx is never cancelled; collector errors (log.Fatal) need an output schema change, which streams carrying "
        "all eight keys cannot produce - not modelled, not driven",
        "an actor without any chunk panics (nil chunk): model outcome None, excluded from the theorems by has_chunks, "
        "observed once in a subprocess",
        "C20_selected_first needs keys_ok (every sample carries one of the eight keys): translateMetrics returns a "
        "nil slice otherwise and the loop treats the hit as a miss (modelled; driven by a few hand-built streams without any "
        "of the eight keys where the output schema stays constant)",
        "oracle: the 'previously selected second' starts at 0 as in the code, so a first sample whose ceiling second "
        "is 0 is never selected; c20_ok_time demands nothing outside its domain (first timestamp > 0, "
        "non-decreasing timestamps) - there GetGennyTime reports EndTime = ceil(max(0, ...))",
        "the output is observed through the library's own collector/reader (C01..C04 cover those)"])


def replay(c, path):
    j = json.load(open(path))
    okg, _ = c.go_build()
    c.ocaml_build("genny_model", "c20_run.ml", "c20_run")
    case = j.get("case", "")
    # "VIOL <n> <line> :: why"
    line = case.split(" ", 2)[2].rsplit(" :: ", 1)[0] if case.startswith(("VIOL", "MISMATCH")) else case
    src = os.path.join(c.work, "replay.in")
    with open(src, "w") as f:
        f.write(line.strip() + "\n")
    p = os.path.join(c.work, "replay.cases")
    rc, out = c.harness(["c20replay", p, src], timeout=300)
    if rc != 0:
        print(out[-2000:])
        raise SystemExit(1)
    rc, mout = c.model("c20_run", [p])
    print(open(p).read().strip()[:600])
    print("\n".join(l[:600] + (" ... :: " + l.rsplit(" :: ", 1)[-1] if len(l) > 600 else "") for l in mout.strip().splitlines()))
    raise SystemExit(1 if "VIOL" in mout or "MISMATCH" in mout else 0)
