"""C19 — metrics pipelines deliver every sample or fail loudly (DESIGN.md section 8, C19).

metrics.CollectJSONStream is run on generated line streams (reader, chunked reader, file, failing reader,
slow reader, source goroutine stalled at its send) and metrics.CollectRuntime on small valid interval sets
with cancellation at jittered times; the extracted Coq model (Model/JsonPipe.v) recomputes every observation
(MISMATCH) and the extracted oracles c19_ok_json / c19_ok_runtime judge the implementation's observations (VIOL).
The known finding D17 (the flush-timer arm returns the partial result with a nil error) is reported as
KNOWN-FINDING only when this run's own slow-reader / stalled-source witnesses reproduce it."""
import json, os, collections, hashlib
import verif

PROPS = "Props/C19.v"
EXTRA = ["Extract/ExJsonPipe.v"]
FINDING_TIMER = "D17-flush-timer-returns-early"


def read_cases(path):
    """-> list of (id, head line, all lines of the case)"""
    cases, cur = [], None
    for l in open(path):
        l = l.rstrip("\n")
        if l.startswith(("J ", "RT ", "V ", "LEAK")):
            if cur:
                cases.append(cur)
            t = l.split(" ", 2)
            cid = ("J" + t[1]) if l.startswith("J ") else ("RT" + t[1]) if l.startswith("RT ") else t[0]
            cur = [cid, l, [l]]
        elif cur and l:
            cur[2].append(l)
    if cur:
        cases.append(cur)
    return cases


def stats(path, nontrivial_ids):
    cases = read_cases(path)
    dist = collections.Counter()
    distinct, samples = set(), []
    for cid, head, lines in cases:
        if cid.startswith("J"):
            f = dict(x.split("=", 1) for x in head.split()[2:] if "=" in x)
            dist["json mode=" + f["mode"]] += 1
            dist["json SampleCount=" + f["n"]] += 1
            ls = [x.split() for x in lines if x.startswith("L ")]
            nl = len(ls)
            dist["json lines " + ("0" if nl == 0 else "1-2" if nl <= 2 else "3-5" if nl <= 5 else "6-10" if nl <= 10 else ">10")] += 1
            if any(x[-1] == "malformed" for x in ls):
                dist["json with a malformed line"] += 1
            if any(x[-1] == "toolong" for x in ls):
                dist["json with a line >= 65536 bytes"] += 1
            if any(int(x[1]) in (65534, 65535) for x in ls):
                dist["json with a line of 65534/65535 bytes"] += 1
            if f["rerr"] == "1":
                dist["json failing reader"] += 1
            raw = bytes.fromhex(f["input"])
            if raw and not raw.endswith(b"\n"):
                dist["json no trailing newline"] += 1
            if b"\r\n" in raw:
                dist["json with CRLF"] += 1
            r = [x for x in lines if x.startswith("R ")]
            if r:
                dist["json result " + ("error" if r[0].split()[1] == "1" else "nil error")] += 1
            key = hashlib.sha1((f["n"] + f["mode"] + f["rerr"] + f["input"]).encode()).hexdigest()
        elif cid.startswith("RT"):
            t = head.split()
            dist["runtime " + ("HANG" if t[-1] == "HANG" else "returned error" if t[-3] == "1" else "returned nil")] += 1
            nonempty = sum(1 for x in lines if x.startswith("F ") and "ids= " not in x)
            dist["runtime non-empty files " + (str(nonempty) if nonempty < 3 else ">=3")] += 1
            if t[8] == "1":
                dist["runtime RunParallelCollectors"] += 1
            key = hashlib.sha1("\n".join(lines).encode()).hexdigest()
        else:
            continue
        if cid in nontrivial_ids:
            distinct.add(key)
            if len(samples) < 4 and sum(len(x) for x in lines) < 1500:
                samples.append(lines)
    for cid, head, lines in cases:
        if cid.startswith("RT") and len(samples) < 6 and sum(len(x) for x in lines) < 1500 and len(lines) > 2:
            samples.append(lines)
            break
    return cases, dict(dist), len(distinct), samples


def run(c):
    pr = c.coq_props(PROPS, extra_targets=EXTRA)
    okb, _ = c.ocaml_build("jsonpipe_model", "c19_run.ml", "c19_run") if pr["ok"] or os.path.exists(
        os.path.join(verif.COQ, "jsonpipe_model.ml")) else (False, "")
    okg, _ = c.go_build()
    cases = os.path.join(c.work, "c19.cases")
    cov = {"rule": "JSON: fixed small streams (empty input, lone newline, CRLF, no trailing newline, empty line, int->double, trailing "
                   "garbage); a malformed line and an empty line at every position of streams of 1..4 (thorough 1..6) lines; random "
                   "streams over 1-3 random schemas (nested documents, arrays, $date, $numberLong, non-metric leaves) with schema changes "
                   "and sometimes a change of value type alone (two schemas of one stream never share their metric key string unless they have "
                   "the same shape: C08's hypothesis 'distinguishable'), through bytes.Reader / a reader delivering 1-7 bytes per Read / a file / "
                   "a reader failing after the data; lines of 65534, 65535, 65536, 65537 bytes x terminator (LF, CRLF, none) x position "
                   "in a 3-line stream, 70 KiB lines, a line at the limit carried by a long string; SampleCount in {1,2,5}; slow reader "
                   "and stalled source against a short and a long flush timer. Runtime: refused option sets; CollectionInterval 1-3 ms, "
                   "FlushInterval 10-40 ms, SampleCount 10-20, with/without a counting custom collector (sequential and parallel), "
                   "cancelled after 0-150 ms. non-trivial = JSON case with >= 3 lines and (a schema change or a bad line or a line "
                   "within 2 bytes of the token limit), or a runtime run with >= 2 non-empty files; distinct by (SampleCount, mode, "
                   "input bytes) / by the observed files",
           "evaluations": 0, "distinct_nontrivial": 0, "samples": [], "disagreements_checked": 0}
    if okg and okb:
        rc, out = c.harness(["c19", c.work], timeout=1500)
        if rc != 0:
            c.broken.append("harness c19 failed (rc=%d): %s" % (rc, out[-1500:]))
            c.violation({"kind": "implementation crashed or hung while being observed", "output": out[-3000:]}, no_input=True)
        else:
            rc, mout = c.model("c19_run", [cases], timeout=1500)
            mism, viol, summ, other = verif.parse_model_output(mout)
            known = [l for l in other if l.startswith("KNOWN flush-timer")]
            nt = set(l.split()[1] for l in other if l.startswith("NT "))
            info = [l for l in other if l.startswith("INFO")]
            allcases, dist, ndistinct, samples = stats(cases, nt)
            cov.update(evaluations=summ.get("cases", 0), distinct_nontrivial=ndistinct, samples=samples,
                       disagreements_checked=len(mism), input_distribution=dist, oracle_violations=len(viol),
                       known_class_cases=len(known), nil_error_results=summ.get("ok_results"),
                       errors_without_bad_line=summ.get("err_without_bad_line"),
                       parse_errors_caused_by_io_EOF=summ.get("eof_parse_errors"),
                       runtime_runs_with_2_or_more_nonempty_files=summ.get("runtime_multi_file"), info=info)
            if rc != 0 or "cases" not in summ:
                c.broken.append("model driver failed: %s" % mout[-1000:])
            kf = {f["id"]: f for f in c.known_findings()}
            if known:
                if FINDING_TIMER in kf:
                    c.known(kf[FINDING_TIMER])
                else:
                    c.violation({"kind": "flush timer returned a shortened result with a nil error (not listed as known)",
                                 "case": known[0]})
            tch = [l for l in other if l.startswith("KNOWN json-type-change")]
            cov["known_json_type_change_cases"] = len(tch)
            if tch:
                if "C19-json-type-change" in kf:
                    c.known(kf["C19-json-type-change"])
                else:
                    c.violation({"kind": "CollectJSONStream failed on a stream of well-formed JSON objects (not listed as known)", "case": tch[0]})
            byid = {cid: lines for cid, _, lines in allcases}
            for v in viol[:3]:
                cid = v.split("case=")[1].split()[0] if "case=" in v else ""
                c.violation({"kind": "oracle c19_ok_* false on the implementation's observation (or the call hung)",
                             "case": v[:3000], "case_lines": [l[:200000] for l in byid.get(cid, [])],
                             "how_to_replay": "./check C19 --replay <this file>"})
            if mism and not viol:
                c.broken.append("correspondence model<->metrics package: %d disagreements, first: %s" % (len(mism), mism[0][:600]))
    if c.broken and not c.violations:
        c.violation({"kind": "proof or correspondence no longer checks; no input violating C19 was found",
                     "broken": c.broken}, no_input=True)
    if c.tier == "thorough" and pr["ok"]:
        okc, outc = c.coqchk(PROPS)
        cov["coqchk"] = {"ok": okc, "tail": outc[-1200:]}
        if not okc:
            c.violation({"kind": "coqchk rejected the compiled development", "log": outc}, no_input=True)
    c.finish(cov, assumptions=[
        "timers, cancellation and the reader's speed are the event list of the transition systems; every theorem quantifies over "
        "all event lists; operating-system behaviour (timer jitter, files, scheduling) is observed by the harness, not modelled",
        "a failing reader fails with an error whose pkg/errors cause is not io.EOF (the select loop still treats such an error as "
        "the end of the input: C19_wrapped_eof_refuted); the harness's failing reader returns a plain error",
        "bufio.Scanner/ScanLines is modelled (Model/JsonPipe.v scan) with the token limit as a parameter; the correspondence check "
        "compares it with the real scanner on every input, including lengths 65534..65537 with LF/CRLF/no terminator at every "
        "position and readers that deliver 1..65535 bytes per Read: a raw line (CR included, LF not) of >= 65536 bytes is too long",
        "Extended JSON (bson.UnmarshalExtJSON) is a parameter: for every line the harness records the document the library built "
        "(or 'malformed'; lines for which the library's error is io.EOF itself, e.g. {\"a\":nu, are counted in "
        "parse_errors_caused_by_io_EOF and must yield an error like any other malformed line). Whatever the library accepts "
        "counts as well-formed: it accepts trailing garbage after the "
        "first object of a line ({\"a\":1} {\"b\":2} and {\"a\":1}xyz parse as {a:1})",
        "zlib is a parameter (inflate (deflate p) = Some p); the implementation's output is re-coded by an independent inflater",
        "only the InputSource and the FileName (non-follow) sources are exercised; the file source differs by an extra nil from "
        "f.Close() on errs, which the select loop treats like the closed channel; Follow mode (go-tail) is not covered",
        "streams keep their documents distinguishable for the dynamic collector (C08's hypothesis): two lines whose metric key "
        "strings and types coincide have the same shape. Observed otherwise (thorough run, before the generator was restricted): "
        "{\"ops\":null} after {\"x\":\"s\",\"k0\":[null]} (both without any numeric leaf) is stored in the same chunk and reads back as "
        "{k0: []} instead of {}: no numeric sample is lost, the empty containers of the chunk's reference document reappear",
        "C19_json uses C08's hypothesis docs_ok KDyn (representable documents, no change of value types alone); without it "
        "C19_json_refusal shows the only other outcome is the collector's refusal returned as an error (observed: int then double)",
        "C19_runtime: generate() is a parameter with the hypotheses 'representable' and 'same shape on every call'; SampleCount < 2^31; "
        "write errors of the file system are not modelled"])


def replay(c, path):
    j = json.load(open(path))
    okg, _ = c.go_build()
    c.ocaml_build("jsonpipe_model", "c19_run.ml", "c19_run")
    lines = j.get("case_lines") or []
    print(j.get("case", "")[:1000])
    if not lines:
        raise SystemExit(1)
    head = lines[0]
    p = os.path.join(c.work, "replay.cases")
    if head.startswith("J "):
        # re-run the implementation on the recorded input
        f = dict(x.split("=", 1) for x in head.split()[2:] if "=" in x)
        rc, out = c.harness(["c19replay", p, f["n"], f["mode"], f["flush_ns"], f["chunk"], f["delay_ns"], f["stall_at"], f["input"]],
                            timeout=120)
        if rc != 0:
            print(out[-2000:])
            raise SystemExit(1)
    else:
        open(p, "w").write("\n".join(lines) + "\n")   # runtime runs depend on real time: the recorded observation is re-judged
    rc, mout = c.model("c19_run", [p])
    print(mout.strip()[:3000])
    raise SystemExit(1 if "VIOL" in mout or "MISMATCH" in mout else 0)
