"""C02 — every chunk exposes one table (full unique dotted keys, normalised values per sample); the
flattened, per-chunk, matrix and series readers are exact projections of it (DESIGN.md section 8, C02)."""
import json, os, re, collections, tempfile
import verif, codec_common as cc

PROPS = "Props/C02.v"
FINDING_TS = "D1-timestamp-seconds-C02"
QUOTA_KEYS = ["depth_ge2", "depth_ge4", "siblings_at_depth_ge3", "siblings_at_depth_ge4", "array_in_doc_in_array",
              "array_of_documents", "array_with_metric", "timestamp_zero_seconds", "timestamp_nonzero_seconds",
              "all_metric_types", "five_plain_metric_types", "nonmetric_interleaved"]


def class_stats(path):
    """measured shape classes of the generated cases (harness/c02.go classify(), one Q line per case)"""
    q, kinds, ns = collections.Counter(), collections.Counter(), collections.Counter()
    n, samples, depth_hist, metrics = 0, 0, collections.Counter(), 0
    for l in open(path):
        t = l.split()
        if not t or t[0] != "Q":
            continue
        n += 1
        kinds[t[2]] += 1
        for kv in t[3:]:
            k, _, v = kv.partition("=")
            v = int(v)
            if k == "n":
                ns[v] += 1
            elif k == "samples":
                samples += v
            elif k == "metrics":
                metrics += v
            elif k == "maxdepth":
                depth_hist[min(v, 8)] += 1
            elif k != "known_class":
                q[k] += v
    return {"cases": n, "kinds": dict(kinds), "chunk_sizes": {str(k): v for k, v in sorted(ns.items())}, "input_samples": samples,
            "metric_leaves_total": metrics, "max_leaf_depth_histogram": {str(k): v for k, v in sorted(depth_hist.items())},
            "quotas": {k: q.get(k, 0) for k in QUOTA_KEYS},
            "quota_fractions": {k: round(q.get(k, 0) / max(n, 1), 3) for k in QUOTA_KEYS}}


def sample_cases(read, classes, want=2):
    """a few actual cases, written out: class line + input documents + the chunk view the implementation delivered"""
    cls = {}
    for l in open(classes):
        t = l.split(" ", 2)
        if len(t) == 3 and t[0] == "Q":
            cls[t[1]] = t[2].strip()
    wanted = ["7", "47", "48"][:want + 1]   # witness 2 (sibling sub-documents) via batch; the first random shape via batch, dyn
    out, cur = [], None
    for l in open(read):
        if l.startswith("S "):
            sid = l.split(" ", 2)[1]
            cur = {"id": sid, "classes": cls.get(sid, "")[:700]} if sid in wanted else None
        elif cur is not None:
            if l.startswith("IN "):
                cur["inputs_bson_hex"] = l.strip()[:1200]
            elif l.startswith("C "):
                cur.setdefault("chunks", []).append(l.strip()[:1200])
            elif l.startswith("RE "):
                cur["series_docs_hex"] = l.strip()[:600]
            elif l.startswith("ENDS"):
                out.append(cur)
                cur = None
                if len(out) >= len(wanted):
                    break
    return out


def foreign_streams(c, cov):
    """second stage: streams no collector of the library writes (the independent specification's encoder of C03: raw bool
    values other than 0/1, split zero runs, unknown documents, every numeric type for the type field, empty keys) through
    every reader view; each view has to be the projection of the one table the specification's decoder reads (keys, order,
    sample count, types, values; flattened documents included)"""
    okc, outc = c.coq_build(["Extract/ExSpec.v"])
    ok1, _ = c.ocaml_build("spec_model", "c03_gen.ml", "c03_gen")
    ok2, _ = c.ocaml_build("spec_model", "c03_run.ml", "c03_run")
    if not (okc and ok1 and ok2):
        c.broken.append("specification model / drivers of the foreign-stream stage do not build: %s" % outc[-400:])
        return
    streams, dec = os.path.join(c.work, "foreign.streams.txt"), os.path.join(c.work, "foreign.dec.cases")
    rcg, outg = c.model("c03_gen", [str(c.seed + 2), c.tier, streams], timeout=1500)
    if rcg != 0:
        c.broken.append("c03_gen failed rc=%d: %s" % (rcg, outg[-800:]))
        return
    rc, out = c.harness(["c03read", streams, dec], timeout=1500)
    if rc != 0:
        c.broken.append("harness c03read failed rc=%d: %s" % (rc, out[-1500:]))
        c.violation({"kind": "implementation crashed or hung while being observed", "output": out[-3000:]}, no_input=True)
        return
    rcm, mout = c.model("c03_run", ["dec", dec], timeout=1500)
    mism, viol, summ, other = verif.parse_model_output(mout)
    known = [l for l in other if l.startswith("KNOWN")]
    if rcm != 0 or "cases" not in summ:
        c.broken.append("c03_run dec failed on the foreign streams: %s" % mout[-800:])
    cov["foreign_streams"] = {"streams": summ.get("cases", 0), "views_disagreeing_with_the_table": len(viol) + len(mism),
                              "known_class_cases": len(known)}
    cov["evaluations"] = cov.get("evaluations", 0) + summ.get("cases", 0)
    kf = {f["id"]: f for f in c.known_findings()}
    if known and FINDING_TS in kf:
        c.known(kf[FINDING_TS])
    for v in (viol + mism)[:2]:
        c.violation({"kind": "a reader view is not the projection of the table the specification's decoder reads (foreign stream)",
                     "case": v[:6000]})


def run(c):
    pr = c.coq_props(PROPS, extra_targets=["Extract/ExViews.v"])
    okb, _ = c.ocaml_build("views_model", "c02_run.ml", "c02_run")
    okg, _ = c.go_build()
    cov = {"rule": "fixed witnesses of every class of the quantifier + random base schemas (depth<=4, all 21 BSON types) with grafted "
                   "sub-structures for a random subset of the classes {leaf at depth>=2, leaf at depth>=4, >=2 sibling sub-documents "
                   "under a parent at depth>=2, array inside document inside array, array of documents, timestamp, all six metric "
                   "leaf types, non-metric leaves between metric leaves}; each shape filled with 1..3N same-schema samples (random / "
                   "small-step / boundary / constant value modes) and run through ALL FIVE compressing collectors (x wrapper stacks, "
                   "N in {1,2,3,4,7,10}); every reader entry point (ReadChunks, Chunk.Iterator, Chunk.StructuredIterator, "
                   "ReadStructuredMetrics, ReadMetrics, ReadMatrix, ReadSeries) observed on the produced bytes. Quotas are MEASURED on "
                   "the generated trees. non-trivial = some metric leaf at path length >= 2 (a nested document or an array "
                   "container) and >= 2 samples; distinct by (input documents, chunk sizes)",
           "evaluations": 0, "distinct_nontrivial": 0, "samples": [], "disagreements_checked": 0}
    if okb and okg:
        rc, out = c.harness(["c02", c.work], timeout=1500)
        if rc != 0:
            c.broken.append("harness c02 failed rc=%d: %s" % (rc, out[-1500:]))
            c.violation({"kind": "implementation crashed or hung while being observed", "output": out[-3000:]}, no_input=True)
        else:
            read, classes = os.path.join(c.work, "read.cases"), os.path.join(c.work, "c02.classes")
            mism, viol, summ, known = cc.run_driver(c, "c02_run", read, "reader views / C02 oracle")
            st = class_stats(classes)
            cov.update(evaluations=summ.get("cases", 0), distinct_nontrivial=summ.get("nontrivial", 0),
                       samples=sample_cases(read, classes), disagreements_checked=len(mism),
                       comparisons_model_vs_impl=summ.get("cases", 0) * 8, oracle_runs=summ.get("oracle_runs", 0),
                       input_distribution=st["kinds"], chunk_sizes=st["chunk_sizes"], input_samples=summ.get("samples", 0),
                       chunks_read=summ.get("chunks", 0), series_checked=summ.get("series", 0),
                       metric_leaves_total=st["metric_leaves_total"], max_leaf_depth_histogram=st["max_leaf_depth_histogram"],
                       shape_class_quotas=st["quotas"], shape_class_fractions=st["quota_fractions"],
                       oracle_violations=len(viol), known_class_cases=len(known))
            kf = {f["id"]: f for f in c.known_findings()}
            if known:
                if FINDING_TS in kf:
                    c.known(kf[FINDING_TS])
                else:
                    c.violation({"kind": "timestamp seconds multiplied by 1000 on decode (not listed as known)", "case": known[0]})
            for v in viol[:3]:
                sid = re.search(r"stream=(\d+)", v)
                c.violation({"kind": "oracle c02_ok false on the implementation's observation", "case": v[:4000],
                             "classes": [l.strip() for l in open(classes) if sid and l.startswith("Q %s " % sid.group(1))],
                             "stream": cc.first_case_text(read, sid.group(1), start="S", end="ENDS") if sid else None})
            if mism and not viol:
                c.broken.append("correspondence model<->implementation: %d disagreements, first: %s" % (len(mism), mism[0][:600]))
        foreign_streams(c, cov)
    if c.broken and not c.violations:
        c.violation({"kind": "proof or correspondence no longer checks; no input violating C02 was found", "broken": c.broken}, no_input=True)
    if c.tier == "thorough" and pr["ok"]:
        okc, outc = c.coqchk(PROPS)
        cov["coqchk"] = {"ok": okc, "tail": outc[-1200:]}
    c.finish(cov, assumptions=[
        "zlib (compress/zlib) is a parameter of the model with the hypothesis inflate(deflate p) = p; the harness re-inflates the "
        "implementation's streams with Go's own compress/zlib before handing them to the model (which runs with a trivial codec)",
        "birch's BSON encoding/decoding of documents is modelled (Model/Bson.v); every document the readers deliver is decoded by the "
        "model's strict decoder and compared structurally, the first document of every view also byte for byte",
        "the oracle derives the metric types from the input documents and takes keys and columns from the implementation's own chunk view; "
        "input documents with a timestamp leaf whose seconds are non-zero are the class of the known finding D1 (reported, not judged)",
        "uniqueness of keys (C02_keys_unique) assumes field names without '.', distinct sibling names and arrays below 10^40 elements"])


def replay(c, path):
    """re-evaluate model and oracle on the recorded observation of the failing stream"""
    j = json.load(open(path))
    print(json.dumps({k: v for k, v in j.items() if k != "stream"}, indent=1)[:3000])
    lines = j.get("stream")
    if not lines:
        raise SystemExit(1)
    okb, _ = c.ocaml_build("views_model", "c02_run.ml", "c02_run")
    with tempfile.NamedTemporaryFile("w", suffix=".cases", delete=False) as f:
        f.write("\n".join(lines) + "\n")
    rc, out = c.model("c02_run", [f.name], timeout=600)
    os.unlink(f.name)
    print(out[-3000:])
    raise SystemExit(1 if ("VIOL" in out or "MISMATCH" in out or rc != 0) else 0)
