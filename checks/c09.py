"""C09 — streamed output is crash-consistent and survives writer faults (DESIGN.md section 8, C09).

Proof: Props/C09.v.  Harness `c09`: (a) every byte prefix of the log written by fault-free histories through
NewStreamingCollector / NewStreamingDynamicCollector / NewWriterCollector is read with ReadChunks (all reader
entry points near document boundaries); (b) every placement of one or two failing Write calls among the first
K calls, writer contents after every call, recovery, final flush, final log read back by the library's reader.
Driver ocaml/c09_run (model replay + oracles).  Known finding D18 (short write) is reported as KNOWN-FINDING
only when the two-write witness reproduces against the real code."""
import json, os, re, collections
import verif, codec_common as cc

PROPS = "Props/C09.v"
FINDING = "D18-short-write"
RULE = ("(a) crash points: for 3 streaming constructors (stream, sdyn, NewWriterCollector) x N in {1,2,3} x document shapes (one schema; "
        "schema change + metadata; thorough: nested/datetime, alternating schemas) plus one 7-sample history with metadata and two schema "
        "changes: EVERY byte offset 0..len of the concatenated writer log is a case (streams of <= 6 chunks). "
        "(b) faults: for the same constructors x N: a history of (K+1)*N+2 Adds with an explicit flush and a schema change, final flush; "
        "every single fault position i<K x {error, short 1, short 7, short 9999(all bytes consumed, error returned)} and every pair i<j<K x "
        "fault-type pairs (quick: 5 pairs for N<=2, 2 pairs for N=3 / writer collector; thorough: all 9, K=12); writer log, Resolve and Info "
        "observed after every call. non-trivial = crash point strictly inside a document, or history in which a scheduled fault is hit; "
        "distinct by case text")
ASSUME = [
    "decoding of writer contents for the per-operation oracle uses the model's document-level reader (C01/C02 tie it to the library's readers); "
    "the final log of every fault history is additionally read back with the library's own ReadStructuredMetrics",
    "zlib as in C01 (parameter; trivial codec in the executable model); a partially consumed write is compared only as 'incomplete record' "
    "because compressed lengths differ between zlib and the model's codec",
    "document boundaries of a written log are taken from its length prefixes (harness walkDocs) and cross-checked against the model's framing "
    "of the normalised log",
    "the writer is an in-memory io.Writer with an injected fault schedule: an error that consumes nothing, or a short count with an error; "
    "a writer that returns n < len(p) with a nil error is treated by FlushCollector like a short write (not exercised separately)",
]


def prefix_block(path, sid):
    keep, out = False, []
    for l in open(path, errors="replace"):
        if l.startswith("S "):
            keep = l.split()[1] == sid
        if keep:
            out.append(l.rstrip("\n")[:100000])
        if l.startswith("ENDK") and keep:
            break
    return out


def run(c):
    disagree = None
    pr = c.coq_props(PROPS, extra_targets=["Extract/ExFrame.v"])
    okb, _ = c.ocaml_build("frame_model", "c09_run.ml", "c09_run")
    okg, _ = c.go_build()
    cov = {"rule": RULE, "evaluations": 0, "distinct_nontrivial": 0, "samples": [], "disagreements_checked": 0}
    if okb and okg:
        rc, out = c.harness(["c09", c.work], timeout=3000)
        if rc != 0:
            c.broken.append("harness c09 failed rc=%d: %s" % (rc, out[-1500:]))
            c.violation({"kind": "implementation crashed or hung while being observed", "output": out[-3000:]}, no_input=True)
        else:
            hist, pref, logs = (os.path.join(c.work, x) for x in ("hist.cases", "prefix.cases", "logs.txt"))
            m1, v1, s1, k1 = cc.run_driver_sharded(c, "c09_run", hist, "fault histories", extra_args=("hist",), shards=14, end_marker="END")
            m2, v2, s2, _ = cc.run_driver_sharded(c, "c09_run", pref, "crash points", extra_args=("prefix", logs), shards=14, end_marker="ENDK")
            mh = re.search(r"logs=(\d+) prefixes=(\d+) fault_histories=(\d+) K=(\d+)", out)
            st = cc.hist_stats(hist)
            nlogs = sum(1 for _ in open(logs))
            witness = any("witness reproduced" in l for l in k1)
            cov.update(evaluations=s1.get("cases", 0) + s2.get("cases", 0),
                       distinct_nontrivial=min(st["distinct"], s1.get("fault_cases", 0)) + s2.get("inside_prefixes", 0),
                       samples=st["samples"][:1] + [l.strip()[:200] for l in open(pref) if l.startswith("S ")][40:42],
                       disagreements_checked=len(m1) + len(m2), oracle_violations=len(v1) + len(v2),
                       crash_points=s2.get("cases", 0), crash_points_at_boundary=s2.get("boundary_prefixes", 0),
                       crash_points_inside_document=s2.get("inside_prefixes", 0), logs=nlogs,
                       fault_histories=s1.get("fault_cases", 0), short_write_histories=s1.get("short_cases", 0),
                       known_class_cases=len(k1), witness_reproduced=witness, operations_observed=s1.get("ops", 0),
                       input_distribution=st["kinds"], K=int(mh.group(4)) if mh else None,
                       exhaustive=True,
                       exhaustive_bounds={"crash_points": "every byte offset of each of the %d logs (each <= 6 chunks)" % nlogs,
                                          "fault_placement": "every position / pair of positions among the first K Write calls",
                                          "fault_kinds": "error; short counts 1, 7, 9999; pairs over {error, short 7, short 9999}" +
                                                         ("" if c.tier == "thorough" else " reduced to 5 (N<=2) / 2 (N=3, writer collector) type pairs")})
            kf = {f["id"]: f for f in c.known_findings()}
            if k1:
                if FINDING in kf and witness:
                    c.known(kf[FINDING])
                else:
                    c.violation({"kind": "a write that consumed only part of the payload corrupts the stream (short write)" +
                                         (": not listed as an open finding" if FINDING not in kf else ": class hit but the witness did not reproduce"),
                                 "case": k1[0][:2000]})
            elif FINDING in kf:
                c.notes.append("finding %s is listed as open but neither its class nor its witness showed up in this run" % FINDING)
            for v in (v1 + v2)[:3]:
                ms, mc = re.search(r"stream=(\S+)", v), re.search(r"case=(\d+)", v)
                rep = {"kind": "C09 oracle false on the implementation's observations", "case": v[:3000]}
                if mc:
                    rep["history"] = cc.first_case_text(hist, mc.group(1))
                if ms:
                    rep["prefix_block"] = prefix_block(pref, ms.group(1))
                    hid = ms.group(1).split(".")[0]
                    rep["log_line"] = [l.strip() for l in open(logs) if l.split()[1] == hid][:1]
                c.violation(rep)
            if (m1 or m2) and not (v1 or v2):
                c.broken.append("correspondence model<->implementation: %d disagreements, first: %s" % (len(m1) + len(m2), (m1 + m2)[0][:600]))
                mc = re.search(r"case=(\d+)", (m1 + m2)[0])
                if m1 and mc:
                    disagree = cc.first_case_text(hist, mc.group(1))
    if c.broken and not c.violations:
        rep = {"kind": "proof or correspondence no longer checks; no history violating C09 was found", "broken": c.broken}
        if disagree:
            rep["history"] = disagree  # the history on which model and implementation differ (replayable)
        c.violation(rep, no_input=True)
    if c.tier == "thorough" and pr["ok"]:
        okc, outc = c.coqchk(PROPS)
        cov["coqchk"] = {"ok": okc, "tail": outc[-1200:]}
    c.finish(cov, assumptions=ASSUME)


def replay(c, path):
    j = json.load(open(path))
    c.ocaml_build("frame_model", "c09_run.ml", "c09_run")
    print("stored observations of the failing case are re-evaluated by the model driver (re-run the check to re-observe the implementation)")
    bad = False
    if j.get("history"):
        p = os.path.join(c.work, "replay.hist.cases")
        open(p, "w").write("\n".join(j["history"]) + "\n")
        rc, out = c.model("c09_run", [p, "hist"])
        print(out)
        bad = bad or "VIOL" in out or "MISMATCH" in out
    if j.get("prefix_block") and j.get("log_line"):
        p, lp = os.path.join(c.work, "replay.prefix.cases"), os.path.join(c.work, "replay.logs.txt")
        open(p, "w").write("\n".join(j["prefix_block"]) + "\n")
        open(lp, "w").write("\n".join(j["log_line"]) + "\n")
        rc, out = c.model("c09_run", [p, "prefix", lp])
        print(out)
        bad = bad or "VIOL" in out or "MISMATCH" in out
    if not j.get("history") and not j.get("prefix_block"):
        print(json.dumps(j, indent=1)[:3000])
        bad = True
    raise SystemExit(1 if bad else 0)
