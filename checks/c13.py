"""C13 — quantiles, merges, windows and snapshots of hdrhist agree with an exact oracle
(DESIGN.md section 8, C13)."""
import json, os, collections, hashlib, re
import verif

PROPS = "Props/C13.v"
MODEL, DRIVER, BIN = "hdrq_model", "c13_run.ml", "c13_run"

RULE = ("cases (harness/c13.go, seeded): Q/q = a value multiset (sizes 1..200: uniform, log-skewed, at bucket/sub-bucket "
        "boundaries, 1-4 value pools, all equal; every multiset of <= 3 (thorough 4) values of a 6-value pool; full 0.01 "
        "grid on some) x a dense quantile grid (0.01 steps, dyadics, exact rank quantiles, 100, 99.999, ...); the rank is "
        "computed with Go's float expression and exactly with math/big, quantiles within 1e-9 of a rounding tie or of "
        "rank < 1 are dropped and counted; M/m = merge of 2-4 operands (all splits of small multisets into 2 and 3 "
        "operands, random splits in both orders, different geometries with dropped > 0); W/w = record/rotate schedules of "
        "a windowed histogram with n = 1..4 (every schedule up to length 6, thorough 10, plus random ones with "
        "intermediate Merge() calls); X/x = Export/Import, BSON and JSON round trips. Upper-case kinds (s = 1..2) are "
        "evaluated by the extracted model and the oracle, lower-case kinds (s = 3..5) by the oracle only. "
        "distinct = distinct case text (sha1 of the line); non-trivial = Q/q with >= 2 values (two distinct ones or a "
        "duplicate) and >= 1 kept quantile; M/m with at least two non-empty operands; W/w with >= 1 rotation and >= 1 "
        "record; X/x with >= 1 value")


def _operands(t):
    """token list of an M line (after the kind) -> list of value counts per operand"""
    k = int(t[0]); i = 1; sizes = []
    for _ in range(k):
        n = int(t[i + 3]); sizes.append(n); i += 4 + n
    return sizes


def nontrivial(line):
    t = line.split()
    k = t[0].upper()
    inp = t[1:t.index("|")] if "|" in t else t[1:]
    obs = t[t.index("|") + 1:] if "|" in t else []
    if k == "Q":
        return int(inp[3]) >= 2 and len(obs) >= 7 and int(obs[6]) >= 1
    if k == "M":
        return sum(1 for n in _operands(inp) if n > 0) >= 2
    if k == "W":
        ops = inp[5:]
        return "R" in ops and any(o not in ("R", "m") for o in ops)
    if k == "X":
        return int(inp[3]) >= 1
    return False


def classify(cases_path):
    kinds = collections.Counter()
    seen, nontriv = set(), set()
    samples, per_kind = [], collections.Counter()
    extra = collections.Counter()
    for l in open(cases_path):
        l = l.strip()
        if not l:
            continue
        k = l.split(" ", 1)[0]
        kinds[k] += 1
        h = hashlib.sha1(l.encode()).digest()
        if h in seen:
            extra["duplicate_lines"] += 1
            continue
        seen.add(h)
        try:
            if nontrivial(l):
                nontriv.add(h)
        except (ValueError, IndexError):
            extra["unparsed_lines"] += 1
        if per_kind[k] < 1 and 60 < len(l) < 1500:
            per_kind[k] += 1
            samples.append(l[:600])
        if k in ("M", "m"):
            t = l.split()
            d = t[t.index("|") + 1:][:int(t[1]) - 1]
            if any(x != "0" for x in d):
                extra["merges_with_dropped"] += 1
    return kinds, len(seen), len(nontriv), samples, extra


def case_line(cases_path, out_line):
    """full case line for a 'VIOL <n> ...' / 'MISMATCH <n> ...' driver line"""
    try:
        n = int(out_line.split()[1])
        with open(cases_path) as f:
            for i, l in enumerate(f, 1):
                if i == n:
                    return l.strip()
    except (ValueError, IndexError, OSError):
        pass
    return ""


def run(c):
    pr = c.coq_props(PROPS, extra_targets=["Extract/ExHdrQuant.v"])
    okb, _ = c.ocaml_build(MODEL, DRIVER, BIN) if pr["ok"] or os.path.exists(os.path.join(verif.COQ, MODEL + ".ml")) else (False, "")
    okg, _ = c.go_build()
    cases = os.path.join(c.work, "c13.cases")
    cov = {"rule": RULE, "evaluations": 0, "distinct_nontrivial": 0, "samples": [], "disagreements_checked": 0}
    if okg and okb:
        rc, out = c.harness(["c13", cases], timeout=2400)
        if rc != 0:
            c.broken.append("harness c13 failed (rc=%d): %s" % (rc, out[-1500:]))
            c.violation({"kind": "implementation crashed or hung while being observed", "output": out[-3000:]}, no_input=True)
        else:
            stats = {}
            for m in re.finditer(r"(\w+)=(\d+)", " ".join(l for l in out.splitlines() if l.startswith("STATS"))):
                stats[m.group(1)] = int(m.group(2))
            rc, mout = c.model(BIN, [cases], timeout=2400)
            mism, viol, summ, other = verif.parse_model_output(mout)
            kinds, ndistinct, nnontriv, samples, extra = classify(cases)
            dist = dict(kinds)
            dist.update(quantiles_kept=stats.get("q_kept", 0), quantiles_dropped_rounding_tie=stats.get("q_dropped_tie", 0),
                        quantiles_dropped_rank_below_1=stats.get("q_dropped_rank_lt1", 0),
                        quantiles_float_rank_differs_from_exact=stats.get("q_rank_float_ne_exact", 0),
                        merges_with_dropped=extra.get("merges_with_dropped", 0),
                        duplicate_lines=extra.get("duplicate_lines", 0))
            cov.update(evaluations=summ.get("cases", 0), distinct_nontrivial=nnontriv, distinct_cases=ndistinct,
                       samples=samples, disagreements_checked=len(mism), input_distribution=dist,
                       quantile_evaluations=summ.get("quantiles", 0), model_evaluated_cases=summ.get("model_cases", 0),
                       oracle_only_cases=summ.get("cases", 0) - summ.get("model_cases", 0),
                       oracle_violations=len(viol))
            if rc != 0 or "cases" not in summ:
                c.broken.append("model driver failed: %s" % mout[-1000:])
            if summ.get("errors", 0):
                c.broken.append("model driver could not read %d case lines: %s" % (summ["errors"], "; ".join(other[:3])[:600]))
            kf = {f["id"]: f for f in c.known_findings()}
            for fid, prefix in (("C13-quantile-tie", "KNOWN quantile-tie"), ("C13-mean-overflow", "KNOWN mean-overflow")):
                hits = [l for l in other if l.startswith(prefix)]
                cov["known_%s_witnesses" % fid.split("-", 1)[1].replace("-", "_")] = len(hits)
                if hits:
                    if fid in kf:
                        c.known(kf[fid])
                    else:
                        c.violation({"kind": "a finding that KNOWN_FINDINGS.jsonl does not list", "lines": hits[:5]})
            for v in viol[:3]:
                c.violation({"kind": "oracle c13_ok false on the implementation's observation",
                             "why": v.rsplit(" :: ", 1)[-1], "driver_line": v[:500],
                             "case": case_line(cases, v),
                             "how_to_replay": "./check C13 --replay <this file>"})
            if mism and not viol:
                c.broken.append("correspondence model<->hdrhist: %d disagreements, first: %s" % (len(mism), mism[0][:600]))
                cov["first_disagreement_case"] = case_line(cases, mism[0])[:2000]
    if c.broken and not c.violations:
        c.violation({"kind": "proof or correspondence no longer checks; no input violating C13 was found",
                     "broken": c.broken, "case": cov.get("first_disagreement_case", "")}, no_input=True)
    if c.tier == "thorough" and pr["ok"]:
        okc, outc = c.coqchk(PROPS)
        cov["coqchk"] = {"ok": okc, "tail": outc[-1200:]}
        if not okc:
            c.violation({"kind": "coqchk rejected the compiled development", "log": outc}, no_input=True)
    c.finish(cov, assumptions=[
        "the float step of ValueAtQuantile, int64(q/100*float64(n)+0.5), is not modelled: the model takes the rank; the "
        "harness computes the rank with the same Go expression and exactly (math/big) and the oracle c13_ok_ranks "
        "requires them equal; quantiles within 1e-9 of a rounding tie are excluded (counted in input_distribution)",
        "Mean is compared as a float64: the model's mean_num / total divided in IEEE double by the OCaml driver; the "
        "oracle allows the sum of half range widths plus a relative 2^-52",
        "BSON (birch, mongo-driver) and JSON (encoding/json) libraries are trusted; their round trip is exercised and "
        "expected to behave like Export/Import",
        "theorems need hi < 2^62; values are in 0..hi (rejection of out-of-range values is C12); model evaluation "
        "restricted to s = 1..2, s = 3..5 checked by the point-function oracle only",
        "a Gallina model cannot exhibit memory effects of the Go slices (Import aliases Snapshot.Counts)"])


def replay(c, path):
    """re-observe the implementation on the inputs of the stored case line (falls back to the stored
    observations if the harness does not build) and evaluate oracle and model on it"""
    j = json.load(open(path))
    case = j.get("case", "")
    if not case:
        print("replay file has no case line (nothing to replay): %s" % j.get("kind", ""))
        raise SystemExit(1)
    okb, _ = c.ocaml_build(MODEL, DRIVER, BIN)
    okg, _ = c.go_build()
    stored = os.path.join(c.work, "replay.in")
    with open(stored, "w") as f:
        f.write(case.strip() + "\n")
    p = stored
    if okg:
        fresh = os.path.join(c.work, "replay.cases")
        rc, out = c.harness(["c13replay", fresh, stored], timeout=600)
        if rc == 0:
            p = fresh
        else:
            print("re-observation failed (rc=%d): %s; using the stored observations" % (rc, out[-500:]))
    rc, mout = c.model(BIN, [p], timeout=600)
    print(open(p).read().strip()[:800]); print(mout.strip()[:3000])
    bad = rc != 0 or "VIOL" in mout or "MISMATCH" in mout or "ERROR" in mout or "SUMMARY" not in mout
    raise SystemExit(1 if bad else 0)
