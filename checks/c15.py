"""C15 — every recorder hands to its collector exactly what its policy says (DESIGN.md section 8, C15,
and Appendix B)."""
import json, os, re, collections, hashlib
import verif

PROPS = "Props/C15.v"
MODEL, DRIVER, BIN = "recorder_model", "c15_run.ml", "c15_run"

RULE = ("cases (harness/c15.go, seeded): a recorder configuration = wrapper (none | synchronized | shim with a mock "
        "TimerManager) x constructor (raw, single, grouped, interval, histogram, histogram single, histogram grouped, "
        "histogram interval) x interval (grouped: 0 = gate always open, 1 h = gate closed except after Reset/EndTest; "
        "interval recorders: 1 h so that the real ticker never fires) x a collector that fails on chosen Add numbers; "
        "a history of calls of the Recorder interface (plus Begin/End of the shim). (a) exhaustive: every history of "
        "length <= 3 (quick) / 4 (thorough) over the 8 calls {BeginIteration, EndIteration(1500), IncOperations(3), "
        "SetDuration(2500), SetTotalDuration(4096), SetTime(T), EndTest, Reset} for 17 configurations (all 8 "
        "constructors, both intervals of the grouped ones, 3 synchronized, 4 shim); (b) random histories of length "
        "1..40 over all 16 interface calls with small, negative, boundary (HDR acceptance limits 262143/262144, "
        "2^36-1/2^36) and extreme (wrapping) arguments, random failure schedules; (c) tick cases: the two interval recorders (plain, synchronized, shim) with a 200 us "
        "ticker whose flusher goroutine is parked at the verif-tag schedule point fl.tick and released by the harness "
        "between two calls (call 'tick' = the flusher's body runs exactly there; only while a flusher is alive), a "
        "quarter of the ticks on an unstamped point; run one case at a time. Observed per call: every point "
        "handed to the collector (read DURING Add: a *Performance through the document it marshals to, a "
        "*PerformanceHDR through its struct fields and the non-zero counts of its six histograms), EndTest's error "
        "split into lines, the wall-clock readings before and after the call, finally the TimerManager counters. "
        "distinct = distinct input text (configuration, failure schedule, calls with arguments; clock readings "
        "removed). non-trivial = at least one point was handed to the collector AND the history has at least 2 calls")


def input_key(line):
    """the input part of a case line: header without the constructor's clock readings, calls without readings/observations"""
    chunks = line.strip().split(" ;; ")
    hd = chunks[0].split()
    key = [" ".join(hd[2:5] + hd[7:])]
    calls = []
    for ch in chunks[1:]:
        t = ch.split()
        if not t or t[0] == "T":
            continue
        calls.append(" ".join(t[:t.index("@")]) if "@" in t else t[0])
    return " ".join(key) + " | " + ";".join(calls), hd, calls, chunks


def classify(cases_path):
    kinds, wrappers, lengths, calls_hist = collections.Counter(), collections.Counter(), collections.Counter(), collections.Counter()
    feats = collections.Counter()
    seen, nontriv = set(), set()
    samples = []
    for l in open(cases_path):
        if not l.strip():
            continue
        key, hd, calls, chunks = input_key(l)
        h = hashlib.sha1(key.encode()).digest()
        kinds["%s/%s" % (hd[3], {"0": "0", "3600000000000": "1h", "200000": "200us"}.get(hd[4], hd[4]))] += 1
        wrappers[hd[2]] += 1
        n = len(calls)
        lengths["1-4" if n <= 4 else "5-10" if n <= 10 else "11-20" if n <= 20 else "21-40"] += 1
        for c in calls:
            calls_hist[c.split()[0]] += 1
        persisted = len(re.findall(r" [PH] \d", l))
        if persisted:
            feats["cases_with_persisted_points"] += 1
        if " tick @" in l:
            feats["cases_with_flusher_ticks"] += 1
            feats["flusher_ticks"] += l.count(" tick @")
        if " A:" in l:
            feats["cases_with_collector_error_returned"] += 1
        if " R:" in l:
            feats["cases_with_rejected_record_returned"] += 1
        if persisted and n >= 2 and h not in seen:
            nontriv.add(h)
        seen.add(h)
        if len(samples) < 3 and persisted and 3 <= n <= 6 and (len(samples) == 0 or hd[3] not in " ".join(samples)):
            samples.append(l.strip())
    return dict(kinds=dict(kinds), wrappers=dict(wrappers), lengths=dict(lengths), calls=dict(calls_hist),
                features=dict(feats), distinct=len(seen)), nontriv, samples


def case_of(vline):
    """'VIOL <n> <case line> :: why' -> (case line, why)"""
    body = vline.split(" ", 2)[2]
    line, _, why = body.partition(" :: ")
    return line, why


def run(c):
    pr = c.coq_props(PROPS, extra_targets=["Extract/ExRecorder.v"])
    have_model = os.path.exists(os.path.join(verif.COQ, MODEL + ".ml"))
    okb, _ = c.ocaml_build(MODEL, DRIVER, BIN) if (pr["ok"] or have_model) else (False, "")
    okg, _ = c.go_build()
    cases = os.path.join(c.work, "c15.cases")
    cov = {"rule": RULE, "evaluations": 0, "distinct_nontrivial": 0, "samples": [], "disagreements_checked": 0}
    if okg and okb:
        rc, out = c.harness(["c15", cases], timeout=1500)
        if rc != 0:
            c.broken.append("harness c15 failed (rc=%d): %s" % (rc, out[-1500:]))
            c.violation({"kind": "implementation crashed or hung while being observed", "output": out[-3000:]}, no_input=True)
        else:
            rc, mout = c.model(BIN, [cases], timeout=3000)
            mism, viol, summ, other = verif.parse_model_output(mout)
            dist, nontriv, samples = classify(cases)
            cov.update(evaluations=summ.get("cases", 0), distinct_nontrivial=len(nontriv), samples=samples,
                       disagreements_checked=len(mism), input_distribution=dist,
                       persisted_points_compared=summ.get("persisted_points", 0),
                       endtest_results_compared=summ.get("endtests", 0), oracle_violations=len(viol),
                       tick_cases_skipped=summ.get("skipped", 0),
                       exhaustive_part="all histories of length <= %d over 8 calls, 17 configurations"
                                       % (4 if c.tier == "thorough" else 3))
            if rc != 0 or "cases" not in summ:
                c.broken.append("model driver failed: %s" % mout[-1000:])
            for v in viol[:3]:
                line, why = case_of(v)
                c.violation({"kind": "oracle c15_ok_w false on the implementation's observation", "why": why,
                             "case": line, "how_to_replay": "./check C15 --replay <this file>"})
            if mism and not viol:
                line, why = case_of(mism[0])
                c.broken.append("correspondence model<->events recorders: %d disagreements, first: %s :: %s"
                                % (len(mism), line[:600], why[:600]))
    if c.broken and not c.violations:
        c.violation({"kind": "proof or correspondence no longer checks; no input violating C15 was found",
                     "broken": c.broken}, no_input=True)
    if c.tier == "thorough" and pr["ok"]:
        okc, outc = c.coqchk(PROPS)
        cov["coqchk"] = {"ok": okc, "tail": outc[-1200:]}
        if not okc:
            c.violation({"kind": "coqchk rejected the compiled development", "log": outc}, no_input=True)
    c.finish(cov, assumptions=[
        "time is an input of the model: one clock reading per call; the implementation reads the clock up to three "
        "times per call (time.Since(started), time.Since(lastCollected), time.Now). The oracle therefore checks "
        "clock-derived fields by bounds: timestamp within [reading before, reading after] of the call that stamped it "
        "(exact when set by SetTime), elapsed part of Total within [end-before - begin-after, end-after - begin-before] "
        "(histograms: sorted cell indices pairwise between those of the two extremes); everything else exactly",
        "the interval gate of the grouped recorders is exercised at intervals 0 and 1 h only, where the three readings "
        "of one call cannot disagree about it",
        "the flusher of the interval recorders (model operation Tick) is exercised only in the tick cases, where the "
        "harness decides through the schedule point fl.tick (events/verif_on.go) when the flusher's body runs; in all "
        "other cases the ticker period is 1 h and never fires. A tick case in which the flusher does not show up "
        "within 10 s is skipped and counted (tick_cases_skipped)",
        "a time.Time is modelled as its UnixNano with 0 for the zero time; the harness never passes time.Unix(0,0)",
        "a histogram is observed through Distribution() (non-zero bars mapped to counts indices by the verif-tag "
        "accessor VerifCountsIndexFor) and TotalCount(); RecordValue's acceptance is hdrhist's index computation of "
        "Model/Hdr.v (C12) for New(0,10000,5) and New(1000,60e9,5)",
        "EndTest's error is observed through its message (one line per collected error; Catcher.Resolve joins them)",
        "single-threaded histories only (concurrency is C16)"])


def replay(c, path):
    j = json.load(open(path))
    c.go_build()
    c.ocaml_build(MODEL, DRIVER, BIN)
    case = j.get("case", "")
    if case.startswith(("VIOL", "MISMATCH")):
        case = case_of(case)[0]
    src = os.path.join(c.work, "replay.in")
    p = os.path.join(c.work, "replay.cases")
    open(src, "w").write(case + "\n")
    rc, out = c.harness(["c15replay", p, src], timeout=300)
    if rc != 0:
        print(out)
        raise SystemExit(1)
    rc, mout = c.model(BIN, [p, "-v"])
    print(open(p).read().strip()[:3000])
    print(mout.strip()[:6000])
    raise SystemExit(1 if "VIOL" in mout or "MISMATCH" in mout else 0)
