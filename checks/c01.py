"""C01 — structured round trip is lossless (DESIGN.md section 8, C01)."""
import json, os, re
import verif, codec_common as cc

PROPS = "Props/C01.v"
FINDING_TS = "D1-timestamp-seconds"


def run(c):
    pr = c.coq_props(PROPS, extra_targets=["Extract/ExCodec.v"])
    ok = cc.build(c)
    cov = {"rule": "random schema trees (depth<=4, all 21 BSON types) x same-schema value sequences (random / small-step / boundary / "
                   "constant modes) x 5 compressing constructors x 3 wrapper stacks x N in {1,2,3,4,7,10}, plus every {0,+1,-1} delta "
                   "matrix up to the tier's bound; non-trivial = >=2 samples and >=1 metric; distinct by case text",
           "evaluations": 0, "distinct_nontrivial": 0, "samples": [], "disagreements_checked": 0}
    if ok:
        rc, out = c.harness(["c01", c.work], timeout=1500)
        if rc != 0:
            c.broken.append("harness c01 failed rc=%d: %s" % (rc, out[-1500:]))
            c.violation({"kind": "implementation crashed or hung while being observed", "output": out[-3000:]}, no_input=True)
        else:
            hist, read = os.path.join(c.work, "hist.cases"), os.path.join(c.work, "read.cases")
            m1, v1, s1, _ = cc.run_driver(c, "hist_run", hist, "collector histories")
            m2, v2, s2, known = cc.run_driver(c, "read_run", read, "reader views")
            st = cc.hist_stats(hist)
            cov.update(evaluations=s1.get("cases", 0) + s2.get("cases", 0), distinct_nontrivial=min(st["distinct"], s2.get("nontrivial", 0)),
                       samples=st["samples"], disagreements_checked=len(m1) + len(m2), input_distribution=st["kinds"],
                       ops=st["ops"], oracle_violations=len(v1) + len(v2), known_class_cases=len(known),
                       exhaustive_part="all delta matrices with entries in {0,+1,-1}: 1x1,1x2,2x1,2x2,1x3,3x1,2x3 (quick); + 3x2,3x3,2x4 (thorough)")
            kf = {f["id"]: f for f in c.known_findings()}
            if known:
                if FINDING_TS in kf:
                    c.known(kf[FINDING_TS])
                else:
                    c.violation({"kind": "timestamp seconds multiplied by 1000 on decode (not listed as known)", "case": known[0]})
            for v in (v1 + v2)[:3]:
                sid = re.search(r"(?:stream|case)=(\d+)", v)
                c.violation({"kind": "oracle false on the implementation's observation", "case": v[:4000],
                             "history": cc.first_case_text(hist, sid.group(1)) if sid else None})
            if (m1 or m2) and not (v1 or v2):
                c.broken.append("correspondence model<->implementation: %d disagreements, first: %s" % (len(m1) + len(m2), (m1 + m2)[0][:600]))
    if c.broken and not c.violations:
        c.violation({"kind": "proof or correspondence no longer checks; no input violating C01 was found", "broken": c.broken}, no_input=True)
    if c.tier == "thorough" and pr["ok"]:
        okc, outc = c.coqchk(PROPS)
        cov["coqchk"] = {"ok": okc, "tail": outc[-1200:]}
    c.finish(cov, assumptions=[
        "zlib (compress/zlib) is a parameter of the model with the hypothesis inflate(deflate p) = p; the harness re-inflates the "
        "implementation's streams with Go's own compress/zlib before handing them to the model (which runs with a trivial codec)",
        "birch's BSON encoding/decoding of documents is modelled (Model/Bson.v) and exercised on every exchanged document (decode then re-encode must reproduce the bytes)",
        "wall-clock _id values (documents without a datetime leaf) are normalised to 0 on both sides"])


def replay(c, path):
    j = json.load(open(path))
    print(json.dumps(j, indent=1)[:3000])
    raise SystemExit(1)
