"""C05 — a decoding error is never lost, whatever the schedule (DESIGN.md section 8, C05)."""
import json, os, collections
import verif

PROPS = "Props/C05.v"


def classify(path):
    entries, kinds, stalls, reached = collections.Counter(), collections.Counter(), collections.Counter(), collections.Counter()
    nontrivial, samples = set(), []
    e1_seen = perturbed = catcher = 0
    for l in open(path):
        t = l.split()
        if not t:
            continue
        if t[0] == "CATCHER":
            catcher += 1
            if catcher == 1:
                samples.append(l.strip())
            continue
        if t[0] != "R":
            continue
        entry, kind, k, label, occ = t[1:6]
        f = dict(x.split("=", 1) for x in t[6:] if "=" in x)
        entries[entry] += 1
        kinds[kind] += 1
        stalls[label] += 1
        if label == "-" and occ != "0":
            perturbed += 1
        if f.get("reached") == "1":
            reached[label] += 1
            nontrivial.add((entry, kind, k, label, occ))
            if len(samples) < 4 and kind != "good" and entry != "chunks":
                samples.append(l.strip()[:600])
        if f.get("e1") in ("0", "1"):
            e1_seen += 1
            if len(samples) < 6:
                samples.append(l.strip()[:600])
    return dict(entry_points=dict(entries), failure_kinds=dict(kinds), stall_labels_tried=dict(stalls),
                stall_labels_reached=dict(reached), perturbed_runs=perturbed, catcher_runs=catcher,
                runs_where_consumer_finished_while_a_goroutine_was_held=e1_seen), nontrivial, samples


def run(c):
    pr = c.coq_props(PROPS, extra_targets=["Extract/ExSysReader.v"])
    okb, _ = c.ocaml_build("sysreader_model", "c05_run.ml", "c05_run") if pr["ok"] or os.path.exists(os.path.join(verif.COQ, "sysreader_model.ml")) else (False, "")
    okg, _ = c.go_build()
    cases = os.path.join(c.work, "c05.cases")
    cov = {"rule": "every reader entry point x (good stream | k-th chunk payload corrupted | stream cut inside the k-th document | "
                   "I/O error after the k-th document) on a metadata+3-chunk stream x every vpoint label that occurs (occurrences 1..K, "
                   "catcher.add up to 6/40) as stall point, plus seeded perturbed schedules and the concurrent catcher test. "
                   "non-trivial = the stall point was actually reached before the consumer finished; distinct by "
                   "(entry, failure, location, label, occurrence)",
           "evaluations": 0, "distinct_nontrivial": 0, "samples": [], "disagreements_checked": 0}
    if okg and okb:
        rc, out = c.harness(["c05", cases], timeout=3000)
        if rc != 0:
            c.broken.append("harness c05 failed (rc=%d): %s" % (rc, out[-1500:]))
            c.violation({"kind": "implementation crashed or hung while being observed", "output": out[-3000:]}, no_input=True)
        else:
            rc, mout = c.model("c05_run", [cases], timeout=1500)
            mism, viol, summ, other = verif.parse_model_output(mout)
            dist, nontrivial, samples = classify(cases)
            cov.update(evaluations=summ.get("cases", 0), distinct_nontrivial=len(nontrivial), samples=samples,
                       disagreements_checked=len(mism), input_distribution=dist, oracle_violations=len(viol))
            if rc != 0 or "cases" not in summ:
                c.broken.append("model driver failed: %s" % mout[-1000:])
            # prefer a systematic (stall-point) run as the reported schedule: it replays deterministically
            viol.sort(key=lambda v: 0 if " reached=1 " in v and " e1=0 " in v else 1)
            for v in viol[:3]:
                c.violation({"kind": "oracle c05_ok false on the implementation's observation: Next() returned false and Err() was nil "
                                     "for a stream whose decoding fails (or Err() non-nil for a good stream)",
                             "case": v, "how_to_replay": "./check C05 --replay <this file>"})
            if mism and not viol:
                c.broken.append("correspondence model<->readers: %d disagreements, first: %s" % (len(mism), mism[0][:600]))
    if c.broken and not c.violations:
        c.violation({"kind": "proof or correspondence no longer checks; no input violating C05 was found",
                     "broken": c.broken}, no_input=True)
    if c.tier == "thorough" and pr["ok"]:
        okc, outc = c.coqchk(PROPS)
        cov["coqchk"] = {"ok": okc, "tail": outc[-1200:]}
        if not okc:
            c.violation({"kind": "coqchk rejected the compiled development", "log": outc}, no_input=True)
    c.finish(cov, assumptions=[
        "catcher.Add is one atomic step of the model (it appends under the catcher's mutex); the real catcher is exercised by "
        "concurrent adders/readers on every run (CATCHER lines)",
        "the Go runtime's channel, select and context semantics are trusted; the per-goroutine control flow is tied to the code by "
        "local-trace conformance (accepts_local) on every run and by the outcome under enumerated stall points",
        "input abstraction: a stream is a list of document outcomes (Meta | GoodChunk n | BadChunk | Other) ended by CleanEOF | ReadError; "
        "the theorems hold for every such list, every chunk size and every channel capacity",
        "C05_error_visible assumes no context was cancelled (a cancelled reader may stop before it reaches the failure)",
        "export errors of the matrix worker (chunk.export / bson.Marshal failing on a decoded chunk) are not modelled",
        "systematic schedules are single-stall schedules (one goroutine held at one point); the theorems cover all interleavings"])


def replay(c, path):
    j = json.load(open(path))
    c.go_build()
    c.ocaml_build("sysreader_model", "c05_run.ml", "c05_run")
    case = j.get("case", "")
    # "VIOL <n> R entry kind k label occ ... :: why"
    line = case.split(" ", 2)[2].split(" :: ")[0] if case.startswith(("VIOL", "MISMATCH")) else case
    t = line.split()
    p = os.path.join(c.work, "replay.cases")
    if len(t) >= 6 and t[0] == "R":
        rc, out = c.harness(["c05", p] + t[1:6], timeout=300)
    else:
        rc, out = c.harness(["c05", p], timeout=3000)
    rc, mout = c.model("c05_run", [p])
    viol = [l for l in mout.splitlines() if l.startswith(("VIOL", "MISMATCH"))]
    print("\n".join(x[:400] for x in viol[:5])); print(mout.strip().splitlines()[-1])
    raise SystemExit(1 if viol else 0)
