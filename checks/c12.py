"""C12 — HDR histogram precision and counting contract (DESIGN.md section 8, C12)."""
import json, os, collections
import verif

PROPS = "Props/C12.v"


def classify(cases_path):
    """input distribution of the case file"""
    kinds = collections.Counter()
    cfgs, nontrivial = set(), set()
    samples = []
    for l in open(cases_path):
        t = l.split()
        if not t:
            continue
        kinds[t[0]] += 1
        if t[0] == "G":
            cfgs.add(tuple(t[1:4]))
            if len(samples) < 2:
                samples.append(l.strip())
        elif t[0] == "V":
            lo, hi, s, v = map(int, t[1:5])
            # non-trivial: a value within 1 of the end of its equivalence range, or at/above hi
            if t[10:13] and (v in (int(t[11]), int(t[12]), int(t[11]) - 1, int(t[12]) + 1) or v >= hi):
                nontrivial.add((lo, hi, s, v))
            if len(samples) < 5 and v > 40:
                samples.append(l.strip())
        elif t[0] == "D":
            nontrivial.add(l[:300])
            if kinds["D"] <= 1:
                samples.append(l.strip()[:400])
    return kinds, cfgs, nontrivial, samples


def run(c):
    pr = c.coq_props(PROPS, extra_targets=["Extract/ExHdr.v"])
    okb, _ = c.ocaml_build("hdr_model", "c12_run.ml", "c12_run") if pr["ok"] or os.path.exists(os.path.join(verif.COQ, "hdr_model.ml")) else (False, "")
    okg, _ = c.go_build()
    cases = os.path.join(c.work, "c12.cases")
    cov = {"rule": "configs: grid of small (lo,hi,s) with every v in 0..hi*9/8+2 plus -1; random configs up to 2^41 "
                   "with values at bucket/sub-bucket boundaries +-1; record sequences with out-of-range values (runs of equal "
                   "neighbours through RecordValues); sequences of RecordCorrectedValue(v, e) calls with e dividing v exactly, by one more and "
                   "one less, e <= 0, v = e, v above the range and negative (oracle c12_ok_corr). "
                   "non-trivial = value within 1 of an end of its equivalence range or >= hi, or a record sequence; "
                   "distinct by (config, value) / sequence text",
           "evaluations": 0, "distinct_nontrivial": 0, "samples": [], "disagreements_checked": 0}
    if okg and okb:
        rc, out = c.harness(["c12", cases], timeout=1500)
        if rc != 0:
            c.broken.append("harness c12 failed (rc=%d): %s" % (rc, out[-1500:]))
            c.violation({"kind": "implementation crashed or hung while being observed", "output": out[-3000:]}, no_input=True)
        else:
            rc, mout = c.model("c12_run", [cases], timeout=1500)
            mism, viol, summ, other = verif.parse_model_output(mout)
            kinds, cfgs, nontrivial, samples = classify(cases)
            cov.update(evaluations=summ.get("cases", 0), distinct_nontrivial=len(nontrivial), samples=samples,
                       disagreements_checked=len(mism), input_distribution=dict(kinds), configurations=len(cfgs),
                       oracle_violations=len(viol))
            if rc != 0 or "cases" not in summ:
                c.broken.append("model driver failed: %s" % mout[-1000:])
            for v in viol[:3]:
                c.violation({"kind": "oracle c12_ok false on the implementation's observation",
                             "case": v, "how_to_replay": "./check C12 --replay <this file>"})
            if mism and not viol:
                c.broken.append("correspondence model<->hdrhist: %d disagreements, first: %s" % (len(mism), mism[0][:400]))
    if c.broken and not c.violations:
        c.violation({"kind": "proof or correspondence no longer checks; no input violating C12 was found",
                     "broken": c.broken}, no_input=True)
    if c.tier == "thorough" and pr["ok"]:
        okc, outc = c.coqchk(PROPS)
        cov["coqchk"] = {"ok": okc, "tail": outc[-1200:]}
        if not okc:
            c.violation({"kind": "coqchk rejected the compiled development", "log": outc}, no_input=True)
    c.finish(cov, assumptions=[
        "float64 steps of hdrhist.New (Log2/Pow) are replaced in the model by Z.log2 / Z.log2_up; tied by the "
        "correspondence of the derived geometry (verif-tag accessor) on every generated configuration",
        "theorems need hi < 2^62 (no int64 overflow); lo up to 2^41 exercised",
        "a Gallina model cannot exhibit memory effects of the Go slice; counts is modelled as a total function"])


def replay(c, path):
    j = json.load(open(path))
    okg, _ = c.go_build()
    c.ocaml_build("hdr_model", "c12_run.ml", "c12_run")
    case = j.get("case", "")
    # "VIOL <n> <line> :: why"
    line = case.split(" ", 2)[2].split(" :: ")[0] if case.startswith(("VIOL", "MISMATCH")) else case
    t = line.split()
    p = os.path.join(c.work, "replay.cases")
    rc, out = c.harness(["c12replay", p] + t[:5] if t and t[0] == "V" else ["c12replay", p], timeout=120)
    rc, mout = c.model("c12_run", [p])
    print(open(p).read().strip()[:500]); print(mout.strip())
    raise SystemExit(1 if "VIOL" in mout or "MISMATCH" in mout else 0)
