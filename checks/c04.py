"""C04 — readers are total on arbitrary bytes (DESIGN.md section 8, C04).

Proof: Props/C04.v (byte-level reader model, all byte strings).  Correspondence and search: harness `c04`
(mutants of valid seed streams, every reader entry point in a watchdogged worker) and ocaml/c04_run (byte-level
model on the same streams + the C04 oracle on the implementation's observations)."""
import json, os, re, collections, struct
import verif, codec_common as cc

PROPS = "Props/C04.v"
RULE = ("3 seed streams (base / batch+metadata / streaming with zero runs) x {every prefix; substitution (3 values quick, 8 thorough), "
        "insertion and deletion at every (quick: every 3rd) offset of the outer stream; 7 perturbations of every 32-bit window that looks "
        "like a length/count; every cut, 3 substitutions, deletion and insertion at every (quick: every 2nd) offset of each chunk's "
        "decompressed payload, re-compressed; count-field increment; 10 type codes on each outer field}; quick keeps all prefixes/cuts and "
        "65% of the rest; streams deduplicated by content. non-trivial = stream the model classifies as NOT a complete well-formed "
        "stream (damaged); distinct by stream bytes")
ASSUME = [
    "the theorems are about the byte-level model (Model/Frame.v, Model/Validate.v) for ALL byte strings; that the Go readers behave like the "
    "model on corrupt input is tied by the correspondence on the enumerated mutant classes (0 mismatches required), not proved",
    "zlib is a parameter of the model; the harness replaces the zlib stream of every well-framed data field by flag+inflated bytes using "
    "Go's compress/zlib; corruption inside the compressed bytes themselves is observed only as 'header rejected' / 'shorter payload'",
    "Go runtime panics of the reader path are modelled as partiality points (restore_doc / matrix_doc returning None); memory exhaustion and "
    "goroutine leaks are observed by the worker's watchdog (10 s without progress = HANG) and GOMEMLIMIT, not modelled",
    "chunks larger than the model's evaluation cap (200000 values) are skipped by the driver (counted as skipped_huge); the theorems use no cap",
    "a document with a binary subtype 0x06..0x7f is refused by the reader's validator (read.go) and is outside the model's well-formedness predicate doc_ok",
]


def walk_docs(b):
    """offsets (start, end) of the top-level documents of a byte string, by length prefix"""
    out, off = [], 0
    while len(b) - off >= 5:
        n = struct.unpack_from("<i", b, off)[0]
        if n < 5 or off + n > len(b):
            break
        out.append((off, off + n))
        off += n
    return out


def is_chunk_doc(d):
    """does the document carry type == 1 (int32/int64) at top level? (seed streams only: written by the collectors)"""
    p, end = 4, len(d) - 1
    sizes = {0x01: 8, 0x09: 8, 0x11: 8, 0x12: 8, 0x10: 4, 0x08: 1, 0x0A: 0, 0x06: 0, 0x07: 12, 0x13: 16}
    while p < end:
        t = d[p]
        z = d.find(b"\0", p + 1)
        if z < 0:
            return False
        key, p = d[p + 1:z], z + 1
        if t in sizes:
            n = sizes[t]
        elif t in (0x02, 0x0D, 0x0E):
            n = 4 + struct.unpack_from("<i", d, p)[0]
        elif t in (0x03, 0x04):
            n = struct.unpack_from("<i", d, p)[0]
        elif t == 0x05:
            n = 5 + struct.unpack_from("<i", d, p)[0]
        else:
            return False
        if key == b"type":
            if t == 0x10:
                return struct.unpack_from("<i", d, p)[0] == 1
            if t == 0x12:
                return struct.unpack_from("<q", d, p)[0] == 1
            return False
        p += n
    return False


def annotate(streams_path, cases_path, out_path, seeds_path):
    """add 'X => n' (chunks lying wholly before the first damaged byte) after every S line; write the seeds' chunk lines"""
    raw = {}
    order = []
    for l in open(streams_path):
        t = l.split()
        if len(t) == 2:
            raw[t[0]] = bytes.fromhex(t[1]); order.append(t[0])
        elif len(t) == 1:
            raw[t[0]] = b""; order.append(t[0])
    seeds = {}
    for sid, b in raw.items():
        m = re.match(r"(s\d+)\.prefix(\d+)$", sid)
        if m and (m.group(1) not in seeds or len(b) > len(seeds[m.group(1)][1])):
            seeds[m.group(1)] = (sid, b)
    chunk_ends = {}
    for k, (sid, b) in seeds.items():
        chunk_ends[k] = [e for (s, e) in walk_docs(b) if is_chunk_doc(b[s:e])]
    classes = collections.Counter()
    seed_lines = collections.defaultdict(list)
    cur_seed = None
    with open(out_path, "w") as out:
        for l in open(cases_path, errors="replace"):
            out.write(l)
            t = l.split(" ", 2)
            if t[0] == "S" and len(t) >= 2:
                sid = t[1].strip()
                k = sid.split(".", 1)[0]
                classes[re.match(r"[a-z]*", sid.split(".", 1)[1]).group(0) if "." in sid else "?"] += 1
                cur_seed = k if k in seeds and seeds[k][0] == sid else None
                n = 0
                if k in seeds and sid in raw:
                    a, b = seeds[k][1], raw[sid]
                    cp = 0
                    while cp < len(a) and cp < len(b) and a[cp] == b[cp]:
                        cp += 1
                    n = sum(1 for e in chunk_ends[k] if e <= cp)
                out.write("X => %d\n" % n)
            elif t[0] == "C" and cur_seed is not None:
                seed_lines[cur_seed].append(l.strip()[2:])
            elif t[0].strip() == "ENDS":
                cur_seed = None
    with open(seeds_path, "w") as f:
        for k, ls in seed_lines.items():
            for x in ls:
                f.write("SEEDC %s %s\n" % (k, x))
    return raw, order, seeds, dict(classes), {k: len(v) for k, v in chunk_ends.items()}


def recheck_hangs(c, streams_path, cases_path, limit=3, timeout=150):
    """the harness' watchdog reports HANG after 10 s without progress; a chunk close to the reader's size limit (2^27 values) legitimately
    takes longer through five readers. Up to `limit` reported hangs are re-run alone with a generous timeout: a stream that then completes
    is observed normally (and noted as slow), one that does not stays a HANG."""
    import time
    lines = open(cases_path, errors="replace").read().split("\n")
    all_streams = open(streams_path).read().split("\n")
    slow, done = [], 0
    i = 0
    while i < len(lines):
        m = re.match(r"HANG (\d+)\b", lines[i])
        if m and done < limit and int(m.group(1)) < len(all_streams):
            done += 1
            idx = int(m.group(1))
            sp, op = os.path.join(c.work, "recheck.streams.txt"), os.path.join(c.work, "recheck.cases")
            open(sp, "w").write(all_streams[idx] + "\n")
            if os.path.exists(op):
                os.remove(op)
            t0 = time.time()
            rc, _ = c.harness(["c04worker", sp, op, "0"], timeout=timeout)
            if rc == 0 and os.path.exists(op):
                blk = [l for l in open(op, errors="replace").read().split("\n") if l.strip() and not l.startswith("BEGIN")]
                if blk and blk[-1].strip() == "ENDS":
                    j = i + 1
                    while j < len(lines) and lines[j].strip() != "ENDS":
                        j += 1
                    lines[i:j + 1] = blk
                    slow.append({"stream": all_streams[idx].split(" ")[0], "seconds": round(time.time() - t0, 1)})
                    i += len(blk)
                    continue
        i += 1
    if slow:
        open(cases_path, "w").write("\n".join(lines))
    return slow


def run(c):
    pr = c.coq_props(PROPS, extra_targets=["Extract/ExFrame.v"])
    okb, _ = c.ocaml_build("frame_model", "c04_run.ml", "c04_run")
    okg, _ = c.go_build()
    cov = {"rule": RULE, "evaluations": 0, "distinct_nontrivial": 0, "samples": [], "disagreements_checked": 0,
           "proved": "for every byte string: termination (fuel), no view can panic on a delivered chunk, truncation, prefix preservation, "
                     "error iff not a complete well-formed stream; bridge to the document-level reader of C01-C11",
           "tied_by_correspondence": "that the Go readers are the model on the enumerated corruption classes (general arbitrary-corruption claim "
                                     "about the implementation rests on this tie)"}
    if okb and okg:
        rc, out = c.harness(["c04", c.work], timeout=3000)
        if rc != 0:
            c.broken.append("harness c04 failed rc=%d: %s" % (rc, out[-1500:]))
            c.violation({"kind": "harness failed while observing the implementation", "output": out[-3000:]}, no_input=True)
        else:
            streams, cases = os.path.join(c.work, "streams.txt"), os.path.join(c.work, "read.cases")
            slow = recheck_hangs(c, streams, cases)
            ann, seedsf = os.path.join(c.work, "read.annot.cases"), os.path.join(c.work, "seeds.txt")
            raw, order, seeds, classes, seed_chunks = annotate(streams, cases, ann, seedsf)
            mism, viol, summ, _ = cc.run_driver_sharded(c, "c04_run", ann, "malformed streams", extra_args=(seedsf,), shards=14)
            m = re.search(r"crashes_or_hangs=(\d+)", out)
            samples = [l.strip()[:200] for l in open(ann) if l.startswith(("S s0.sub", "S s1.pcut", "S s2.len"))][:3]
            cov.update(evaluations=summ.get("cases", 0), distinct_nontrivial=summ.get("damaged", 0), samples=samples,
                       disagreements_checked=len(mism), input_distribution=classes, oracle_violations=len(viol),
                       crashes_or_hangs=(int(m.group(1)) - len(slow)) if m else None, skipped_huge=summ.get("skipped_huge", 0),
                       slow_streams_rechecked=slow,
                       streams_with_chunks_before_damage=summ.get("with_chunks_before_damage", 0),
                       seeds={k: {"bytes": len(v[1]), "chunks": seed_chunks.get(k)} for k, v in seeds.items()},
                       reader_entry_points=["ReadChunks (+Chunk.Iterator, Chunk.StructuredIterator)", "ReadStructuredMetrics", "ReadMetrics",
                                            "ReadMatrix", "ReadSeries"],
                       exhaustive=False,
                       exhaustive_parts={"prefixes_of_each_seed": True, "payload_cuts_of_each_chunk": True,
                                         "single_byte_edits_at_every_offset": c.tier == "thorough"})
            viol.sort(key=lambda v: 0 if (" CRASH " in v or " HANG " in v) else 1)   # crashes and hangs first
            for v in viol[:3]:
                rep = {"kind": "C04 oracle false on the implementation's observation", "case": v[:3000]}
                mi = re.search(r"worker index (\d+)", v)
                ms = re.search(r"stream=(\S+)", v)
                if mi and int(mi.group(1)) < len(order):
                    sid = order[int(mi.group(1))]
                    rep.update(stream_id=sid, stream_hex=raw[sid].hex())
                elif ms and ms.group(1) in raw:
                    rep.update(stream_id=ms.group(1), stream_hex=raw[ms.group(1)].hex())
                rep["how_to_replay"] = "./check C04 --replay <this file>"
                c.violation(rep)
            for x in slow:
                c.notes.append("stream %s tripped the harness' 10 s watchdog but completed in %.0f s when re-run alone (a chunk close to the "
                               "reader's 2^27-value limit); observed normally" % (x["stream"], x["seconds"]))
            if mism and not viol:
                c.broken.append("correspondence model<->readers: %d disagreements, first: %s" % (len(mism), mism[0][:600]))
    if c.broken and not c.violations:
        c.violation({"kind": "proof or correspondence no longer checks; no input violating C04 was found", "broken": c.broken}, no_input=True)
    if c.tier == "thorough" and pr["ok"]:
        okc, outc = c.coqchk(PROPS)
        cov["coqchk"] = {"ok": okc, "tail": outc[-1200:]}
    c.finish(cov, assumptions=ASSUME)


def replay(c, path):
    """re-run every reader on the stored stream in the watchdogged worker and re-evaluate model and oracle"""
    j = json.load(open(path))
    print(json.dumps({k: (v if k != "stream_hex" else v[:400]) for k, v in j.items()}, indent=1)[:3000])
    if "stream_hex" not in j:
        raise SystemExit(1)
    c.ocaml_build("frame_model", "c04_run.ml", "c04_run")
    c.go_build()
    sp, op = os.path.join(c.work, "replay.streams.txt"), os.path.join(c.work, "replay.cases")
    open(sp, "w").write("%s %s\n" % (j.get("stream_id", "replay"), j["stream_hex"]))
    if os.path.exists(op):
        os.remove(op)
    rc, out = c.harness(["c04worker", sp, op, "0"], timeout=120)
    if rc != 0:
        print("the implementation crashed or hung on the stored stream (rc=%d): %s" % (rc, out[-1500:]))
        raise SystemExit(1)
    m = re.search(r"chunks_before_damage=(\d+)", j.get("case", ""))
    ann = op + ".annot"
    with open(ann, "w") as f:
        for l in open(op):
            f.write(l)
            if l.startswith("S "):
                f.write("X => %s\n" % (m.group(1) if m else "0"))
    rc, mout = c.model("c04_run", [ann])
    print(mout)
    raise SystemExit(1 if ("VIOL" in mout or "MISMATCH" in mout) else 0)
