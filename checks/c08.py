"""C08 — schema changes split chunks exactly (DESIGN.md section 8, C08)."""
import c07

RULE = ("schema pool A..F (field added / removed / renamed / reordered / nested) + G (type-only change) + Z (no metrics): every Add sequence of "
        "length <= 4 (quick: length 4 sampled 1/5; thorough <= 6 sampled) x N in {1,2,3} through the dynamic and streaming-dynamic collectors "
        "(oracle c08_ok: all accepted, decodes to the inputs, chunk sizes = change points U capacity points), sequences over {A,B,G,Z} through "
        "all five kinds (no mixing: decoded = accepted; refusal allowed), random sequences of 3..28 documents; Resolve/Info/writer observed after "
        "every operation. non-trivial = >= 2 accepted Adds and a rejected Add or flush; distinct by case text")


def run(c):
    c07.ORACLE = "c08"
    c07.run(c, props="Props/C08.v", profile="c08", oracle="c08", rule=RULE)


def replay(c, path):
    c07.ORACLE = "c08"
    c07.replay(c, path)
