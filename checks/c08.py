"""C08 — schema changes split chunks exactly (DESIGN.md section 8, C08)."""
import os, re
import c07, verif, codec_common as cc

RULE = ("schema pool A..F (field added / removed / renamed / reordered / nested) + G (type-only change) + Z (no metrics): every Add sequence of "
        "length <= 4 (quick: length 4 sampled 1/5; thorough <= 6 sampled) x N in {1,2,3} through the dynamic and streaming-dynamic collectors "
        "(oracle c08_ok: all accepted, decodes to the inputs, chunk sizes = change points U capacity points), sequences over {A,B,G,Z} through "
        "all five kinds (no mixing: decoded = accepted; refusal allowed), random sequences of 3..28 documents; Resolve/Info/writer observed after "
        "every operation. non-trivial = >= 2 accepted Adds and a rejected Add or flush; distinct by case text")


def uncompressed_stage(c, cov):
    """the collectors that are not schema-aware among the uncompressed ones (model and oracle of C17: Model/UncOk.v)"""
    okc, outc = c.coq_build(["Extract/ExUnc.v"])
    if not okc:
        c.broken.append("Extract/ExUnc.v does not build: %s" % outc[-600:])
        return
    okb, _ = c.ocaml_build("unc_model", "c17_run.ml", "c17_run")
    if not okb:
        return
    rc, out = c.harness(["c08u", c.work], timeout=900)
    if rc != 0:
        c.broken.append("harness c08u failed rc=%d: %s" % (rc, out[-1500:]))
        c.violation({"kind": "implementation crashed or hung while being observed", "output": out[-3000:]}, no_input=True)
        return
    cases = os.path.join(c.work, "c17.cases")
    rcm, mout = c.model("c17_run", [cases], timeout=900)
    mism, viol, summ, other = verif.parse_model_output(mout)
    if rcm != 0 or "cases" not in summ:
        c.broken.append("c17_run driver failed: %s" % mout[-800:])
    cov["uncompressed_not_schema_aware"] = {
        "rule": "4 uncompressed constructors that are not schema-aware x batch sizes 2,3 x every history up to length 4 over {Add A, Add B "
                "(fewer fields), Add A+ (one more field), Flush}; model and oracle of C17 (a refused document leaves the batch as it was, an "
                "accepted one is stored in a batch of its own field count)",
        "histories": summ.get("cases", 0), "operations": summ.get("ops", 0), "disagreements_checked": len(mism), "oracle_violations": len(viol)}
    cov["evaluations"] = cov.get("evaluations", 0) + summ.get("ops", 0)
    for v in viol[:2]:
        sid = re.search(r"case=(\d+)", v)
        c.violation({"kind": "oracle c17_step false on the implementation's observation (uncompressed collector, C08 stage)", "case": v[:3000],
                     "history": cc.first_case_text(cases, sid.group(1)) if sid else None})
    if mism and not viol:
        c.broken.append("correspondence model<->uncompressed collectors: %d disagreements, first: %s" % (len(mism), mism[0][:600]))


def run(c):
    c07.ORACLE = "c08"
    c07.run(c, props="Props/C08.v", profile="c08", oracle="c08", rule=RULE, extra_stage=uncompressed_stage)


def replay(c, path):
    c07.ORACLE = "c08"
    c07.replay(c, path)
