#!/bin/sh
# offline build of the whole framework from files on disk: Coq development (full .vo build),
# extraction + OCaml drivers, Go harness (warms the build cache against /repo).
set -e
cd "$(dirname "$0")"
export GOFLAGS=-mod=mod GOPROXY=off GOSUMDB=off GOTOOLCHAIN=local
mkdir -p work evidence replays
(cd coq && ./mkproject.sh && (timeout 3000 make -k -j16 || echo "warning: some Coq files did not build; each check rebuilds and reports its own closure"))
for spec in $(cat ocaml/drivers.txt | grep -v '^#' | tr ' ' ':'); do
  model=$(echo $spec | cut -d: -f1); driver=$(echo $spec | cut -d: -f2); out=$(echo $spec | cut -d: -f3)
  (cd ocaml && ./build.sh $model $driver $out) || echo "warning: driver $out not built (its check reports that itself)"
done
cp /repo/go.sum harness/go.sum 2>/dev/null || true
(cd harness && go build -tags verif -o bin/ftdcverif .)
echo setup ok
