(* C10 driver: reads the run file written by the Go harness (harness/c10.go).
   For every run
   - the extracted oracle (c10_ok_sync / c10_ok_buffered / c10_ok_catcher of Model/SysBuffered.v)
     is evaluated on what the IMPLEMENTATION did; false, a panic, a hang or a blocked mutex
     => "VIOL <n> <line> :: why";
   - the model has to EXPLAIN the observation: a witness schedule is built from the
     observation (decoded order = order of the drainer's / lock holders' inner Adds; results
     of every Add; the drainer's label trace) and executed with the extracted [step]; it must
     never hit a disabled transition, end in a quiescent model state (buffered runs), and
     reproduce the inner log, every Add's result and the set acknowledged before the cancel
     event. Where the model's outcome is determined (no cancellation: everything is delivered;
     catcher: exactly the non-nil errors; drainer goroutine left behind iff it entered
     "range pipe"; Info = number of samples) it is compared directly.
     Failure => "MISMATCH <n> <line> :: why" (the model says this outcome is impossible).
   Ends with SUMMARY cases=N mismatches=M violations=V. *)

exception Unexplained of string

let kv_of_line (line : string) : string * (string, string) Hashtbl.t =
  let toks = split_ws line in
  let h = Hashtbl.create 32 in
  (match toks with
   | [] -> ()
   | _ :: rest ->
       List.iter (fun t ->
         match String.index_opt t '=' with
         | Some i -> Hashtbl.replace h (String.sub t 0 i) (String.sub t (i + 1) (String.length t - i - 1))
         | None -> ()) rest);
  ((match toks with k :: _ -> k | [] -> ""), h)

let geti h k = try int_of_string (Hashtbl.find h k) with _ -> failwith ("missing int field " ^ k)
let gets h k = try Hashtbl.find h k with Not_found -> failwith ("missing field " ^ k)

let list_field (s : string) : string list = if s = "-" || s = "" then [] else String.split_on_char ',' s

let ints_of (s : string) : int list = List.map int_of_string (String.split_on_char '.' s)

(* small cache of unary naturals *)
let nat_tab = Array.init 4096 (fun _ -> O)
let () = for i = 1 to 4095 do nat_tab.(i) <- S nat_tab.(i - 1) done
let nat i = if i >= 0 && i < 4096 then nat_tab.(i) else nat_of_int i

let pair_nat (p, s) = (nat p, nat s)

(* re-tabulate the per-goroutine components so that lookups stay O(1) *)
let compact (g : int) (st : state) : state =
  let pr = Array.init g (fun i -> st.prog (nat i)) and pcs = Array.init g (fun i -> st.pc (nat i)) in
  let look a d n = let i = int_of_nat n in if i < g then a.(i) else d n in
  { st with prog = look pr st.prog; pc = look pcs st.pc }

let tid_name = function
  | P g -> Printf.sprintf "P%d" (int_of_nat g) | Pc g -> Printf.sprintf "Pc%d" (int_of_nat g)
  | D -> "D" | Dc -> "Dc" | Cancel -> "Cancel"

let show_pairs l = String.concat "," (List.map (fun (p, s) -> Printf.sprintf "%d.%d" (int_of_nat p) (int_of_nat s)) l)

(* ------------------------------------------------------------------ one RUN line *)
type addrec = { p : int; s : int; isnil : bool; pre : bool }

let parse_adds s = List.map (fun t -> match ints_of t with
  | [p; s; n; pr] -> { p; s; isnil = (n = 1); pre = (pr = 1) }
  | _ -> failwith "bad add") (list_field s)
let parse_pairs s = List.map (fun t -> match ints_of t with [p; s] -> (p, s) | _ -> failwith "bad pair") (list_field s)

(* collapse runs of catcher.add: the inner collector's own catchers log the same label *)
let labels_of_trace (t : string) : dlabel list =
  if t = "-" then [] else begin
    let out = ref [] and prev = ref ' ' in
    String.iter (fun c ->
      (match c with
       | 'r' -> out := LRecv :: !out
       | 'c' -> out := LCancel :: !out
       | 'a' -> if !prev <> 'a' then out := LCatch :: !out
       | _ -> raise (Unexplained "unknown label in the drainer's trace"));
      prev := c) t;
    List.rev !out
  end

let explain_run h (adds : addrec list) (decoded : (int * int) list) : unit =
  let g = geti h "G" and m = geti h "M" and size = geti h "size" and cap = geti h "cap" in
  let mode = gets h "mode" in
  let accepts : tsample list -> tsample -> bool =
    if cap = 0 then (fun _ _ -> true) else (fun l _ -> List.length l < cap) in
  let res = Array.make_matrix g m false and pre = Array.make_matrix g m false and seen = Array.make_matrix g m false in
  List.iter (fun a ->
    if a.p < 0 || a.p >= g || a.s < 0 || a.s >= m || seen.(a.p).(a.s) then raise (Unexplained "Add records are not G x M");
    seen.(a.p).(a.s) <- true; res.(a.p).(a.s) <- a.isnil; pre.(a.p).(a.s) <- a.pre) adds;
  if List.length adds <> g * m then raise (Unexplained "an Add did not return");
  let buf = (mode = "buf") in
  let progs = List.init g (fun _ -> List.init m (fun s -> if buf then OBAdd (nat s) else OAdd (nat s))) in
  let st = ref (init progs) in
  let steps = ref 0 in
  let app t =
    incr steps;
    match step accepts (nat size) !st t with
    | Some s' -> st := s'
    | None -> raise (Unexplained (Printf.sprintf "transition %s is not enabled in the model after %d steps" (tid_name t) !steps)) in
  let next p = m - List.length (!st.prog (nat p)) in
  let drainer_busy () = match !st.dp with DGot _ | DLocked _ | DApplied (_, _) | DCatch (_, _) -> true | _ -> false in
  if not buf then begin
    (* synchronized collector: the decoded order is the lock order of the successful Adds; an Add
       that returned an error took the lock when the inner collector was full, i.e. afterwards *)
    let one p = app (P (nat p)); app (P (nat p)); app (P (nat p)); st := compact g !st in
    List.iter (fun (p, s) ->
      if p < 0 || p >= g then raise (Unexplained "decoded sample of an unknown producer");
      while next p < s do one p done;
      if next p <> s then raise (Unexplained (Printf.sprintf "sample %d.%d decoded out of program order or twice" p s));
      one p) decoded;
    for p = 0 to g - 1 do while next p < m do one p done done
  end else begin
    let trace = gets h "trace" in
    let labels = labels_of_trace trace in
    if not (drainer_accepts labels) then raise (Unexplained "the drainer's label sequence is not a path of its automaton");
    let ci = try String.index trace 'c' with Not_found -> raise (Unexplained "the drainer never saw ctx.Done") in
    let nrecv = ref 0 in
    String.iteri (fun i c -> if c = 'r' && i < ci then incr nrecv) trace;
    let ranged = String.contains_from trace ci 'a' in
    let dec = Array.of_list decoded in
    let ndec = Array.length dec in
    let sent = ref 0 in (* dec.(0 .. sent-1) have been sent *)
    let cancelled () = !st.cancelled in
    let room () = List.length !st.pipe < size in
    let can_presend () =
      !sent < ndec && (let (p, s) = dec.(!sent) in p >= 0 && p < g && s < m && next p = s && res.(p).(s) && room ()) in
    (* the cancel event as late as possible, and everything that can be in the pipe by then is sent first
       (the observation only says "returned before cancel()", which implies "sent before the cancel event") *)
    let rec ensure_cancel () =
      if not (cancelled ()) then begin
        while can_presend () do (let (p, _) = dec.(!sent) in app (P (nat p)); incr sent) done;
        app Cancel end
    and advance p s =
      if p < 0 || p >= g then raise (Unexplained "decoded sample of an unknown producer");
      while next p < s do
        let k = next p in
        if res.(p).(k) then raise (Unexplained (Printf.sprintf "Add %d.%d returned nil, is not in the output, but the later %d.%d is (FIFO)" p k p s));
        ensure_cancel (); app (Pc (nat p))
      done;
      if next p <> s then raise (Unexplained (Printf.sprintf "sample %d.%d decoded out of program order or twice" p s));
      if not res.(p).(s) then raise (Unexplained (Printf.sprintf "sample %d.%d is in the output although its Add returned an error" p s)) in
    let send_next () = let (p, s) = dec.(!sent) in advance p s; app (P (nat p)); incr sent in
    let finish_item () = (* lock, inner Add, unlock, catcher.Add *)
      app D; app D; app D; app D; st := compact g !st in
    for i = 0 to ndec - 1 do
      if !sent <= i then send_next ();
      if ranged && i = !nrecv then begin
        (* the item that makes len(pipe) <> 0 when the drainer has taken the ctx.Done arm *)
        if drainer_busy () then raise (Unexplained "range over the pipe with a rendezvous channel");
        ensure_cancel (); app Dc; app D; app D; finish_item ()
      end else begin
        if not (drainer_busy ()) then app D; (* buffered: the drainer receives it *)
        finish_item ()
      end
    done;
    if ranged && ndec <= !nrecv then raise (Unexplained "drainer entered the range loop but nothing was drained there");
    if (not ranged) && ndec <> !nrecv then raise (Unexplained "number of bd.recv labels differs from the number of delivered samples");
    (* the drainer leaves (or is already parked in the range loop) *)
    ensure_cancel ();
    if not ranged then begin app Dc; app D end;
    for p = 0 to g - 1 do
      while next p < m do
        let k = next p in
        if res.(p).(k) then app (P (nat p)) (* accepted into the buffer after the drainer left: stays there *)
        else app (Pc (nat p));
        st := compact g !st
      done
    done;
    if not (quiescent_upto accepts (nat size) (nat g) !st) then
      raise (Unexplained "the witness ends in a state where a goroutine can still move (the observation claims quiescence)");
    (* everything observed as acknowledged before cancel() is acknowledged before the cancel event *)
    let mpre = !st.pre in
    List.iter (fun a ->
      if a.isnil && a.pre && not (List.exists (fun x -> ts_eqb x (pair_nat (a.p, a.s))) mpre) then
        raise (Unexplained (Printf.sprintf "Add %d.%d returned nil before cancel() but no witness acknowledges it before the cancel event" a.p a.s))) adds;
    (* goroutine left behind <=> the drainer is parked in the range loop *)
    let leak = geti h "leak" in
    let mleak = (match !st.dp with DDone -> 0 | _ -> 1) in
    if leak <> mleak then raise (Unexplained (Printf.sprintf "drainer goroutines left: %d, model: %d" leak mleak))
  end;
  let mlog = log !st in
  if List.map (fun (p, s) -> (int_of_nat p, int_of_nat s)) mlog <> decoded then
    raise (Unexplained ("model log " ^ show_pairs mlog));
  (* results of every Add *)
  List.iter (fun e ->
    let p = int_of_nat e.eg in
    match e.eo, e.er with
    | (OAdd v | OBAdd v), r ->
        let s = int_of_nat v in
        let ok = (match r with ROk -> true | _ -> false) in
        if res.(p).(s) <> ok then raise (Unexplained (Printf.sprintf "Add %d.%d returned %s, model: %s" p s
          (if res.(p).(s) then "nil" else "error") (if ok then "nil" else "error")))
    | _ -> ()) !st.ghist;
  (* Info().SampleCount at the end = number of samples in the log *)
  let info = geti h "info" in
  if info >= 0 && info <> List.length decoded then raise (Unexplained (Printf.sprintf "Info().SampleCount=%d" info));
  if geti h "snapok" <> 1 then raise (Unexplained "a Resolve snapshot is not a prefix of the final output or SampleCount decreased")

let check_run (ln : int) (line : string) h (viol : int ref) (mism : int ref) =
  let adds = parse_adds (gets h "adds") and decoded = parse_pairs (gets h "decoded") in
  let mode = gets h "mode" in
  (* buffered over an inner collector with a capacity: Add acknowledges when the sample is queued; the drainer's inner
     Add may refuse it later, and Resolve then reports that. An acknowledged sample that is not in the output counts as
     refused (not as lost) exactly when the inner collector is full and the final Resolve returned an error *)
  let cap = (try geti h "cap" with _ -> 0) in
  let reported_full = mode = "buf" && cap > 0 && geti h "reserr" = 1 && List.length decoded >= cap in
  let obs = List.map (fun a ->
      let refused = reported_full && a.isnil && not (List.mem (a.p, a.s) decoded) in
      { a_p = nat a.p; a_s = nat a.s; a_nil = a.isnil && not refused; a_pre = a.pre }) adds in
  let dec = List.map pair_nat decoded in
  let panics = geti h "panics" in
  let why = ref [] in
  if geti h "hung" <> 0 then why := "a goroutine did not return (deadlock)" :: !why;
  if geti h "probe" <> 1 then why := "the collector's mutex is still held after the run" :: !why;
  if geti h "decerr" <> 0 then why := "the output does not decode" :: !why;
  let ok = if mode = "sync" then c10_ok_sync obs dec (nat panics) else c10_ok_buffered obs dec (nat panics) in
  if not ok then why := (if mode = "sync" then "c10_ok_sync=false" else "c10_ok_buffered=false") :: !why;
  if !why <> [] then begin
    incr viol; Printf.printf "VIOL %d %s :: %s\n" ln line (String.concat "; " !why) end
  else if mode = "buf" && geti h "quiesced" <> 1 then begin
    incr mism; Printf.printf "MISMATCH %d %s :: not quiescent within 2 s\n" ln line end
  else if mode = "buf" && cap > 0 then ()   (* capped inner collector under the buffered one: the oracle above only (the
                                                 path reconstruction below assumes that every delivered sample is accepted) *)
  else
    (try explain_run h adds decoded
     with Unexplained w -> incr mism; Printf.printf "MISMATCH %d %s :: model cannot explain: %s\n" ln line w)

let check_cat (ln : int) (line : string) h (viol : int ref) (mism : int ref) =
  let want = parse_pairs (gets h "want") and got = parse_pairs (gets h "got") in
  let len = geti h "len" in
  let ok = c10_ok_catcher (List.map pair_nat want) (List.map pair_nat got) (nat len) (geti h "has" = 1) (geti h "res" = 1) in
  if not ok || geti h "mono" <> 1 || geti h "panics" <> 0 then begin
    incr viol; Printf.printf "VIOL %d %s :: %s\n" ln line
      (if not ok then "c10_ok_catcher=false" else "Len decreased / HasErrors inconsistent / panic") end
  else begin
    (* model: run the goroutines one after the other (the count is schedule independent: C10_catcher) *)
    let g = geti h "G" and m = geti h "M" in
    let wanted = Hashtbl.create 64 in
    List.iter (fun x -> Hashtbl.replace wanted x ()) want;
    let progs = List.init g (fun p -> List.init m (fun s -> if Hashtbl.mem wanted (p, s) then KAdd (Some (nat s)) else KAdd None)) in
    let sched = List.concat (List.init g (fun p -> List.concat (List.init m (fun s ->
      if Hashtbl.mem wanted (p, s) then [nat p; nat p; nat p] else [nat p])))) in
    match krun (kinit progs) sched with
    | Some st when List.length st.kerrs = len -> ()
    | Some st -> incr mism; Printf.printf "MISMATCH %d %s :: model keeps %d errors\n" ln line (List.length st.kerrs)
    | None -> incr mism; Printf.printf "MISMATCH %d %s :: model run stuck\n" ln line
  end

let () =
  let path = Sys.argv.(1) in
  let lines = read_lines path in
  let n = ref 0 and mism = ref 0 and viol = ref 0 in
  List.iteri (fun i line ->
    if String.trim line <> "" then begin
      let (kind, h) = kv_of_line line in
      match kind with
      | "RUN" -> incr n; check_run (i + 1) line h viol mism
      | "CAT" -> incr n; check_cat (i + 1) line h viol mism
      | _ -> failwith ("unknown line: " ^ line)
    end) lines;
  Printf.printf "SUMMARY cases=%d mismatches=%d violations=%d\n" !n !mism !viol
