(* C20 driver: reads the case file written by the Go harness (format: see
   harness/c20.go), recomputes the model's translation / chunk sizes /
   GetGennyTime, prints MISMATCH where implementation and model differ, and
   evaluates the extracted oracle c20_ok_* on the IMPLEMENTATION's observations,
   printing VIOL when it is false. *)
exception Bad of string

let () =
  let path = Sys.argv.(1) in
  let lines = read_lines path in
  let n = ref 0 and mism = ref 0 and viol = ref 0 in
  let show_vals (v : vals) = String.concat "," (List.map (fun (k, x) -> string_of_z k ^ ":" ^ string_of_z x) v) in
  let show_sample ((st, subs) : out_sample) =
    string_of_z st ^ "{" ^ String.concat " " (List.map (fun (nm, v) -> string_of_z nm ^ "=[" ^ show_vals v ^ "]") subs) ^ "}" in
  List.iteri (fun ln line ->
    let toks = Array.of_list (split_ws line) in
    if Array.length toks = 0 then ()
    else if toks.(0) = "P" then begin
      incr n;
      let m = translate [ { a_name = z_of_int 1; a_start = z_of_int 10; a_end = z_of_int 12; a_chunks = [] } ] in
      let ms = match m with None -> "panic" | Some _ -> "returned" in
      if ms <> toks.(1) then begin
        incr mism; Printf.printf "MISMATCH %d %s :: model=%s\n" (ln+1) line ms end
    end
    else if toks.(0) = "T" then begin
      incr n;
      let pos = ref 2 in
      let next () = if !pos >= Array.length toks then raise (Bad "short line") else (let t = toks.(!pos) in incr pos; t) in
      let nz () = z_of_string (next ()) in
      let ni () = int_of_string (next ()) in
      let rec times k f = if k <= 0 then [] else let x = f () in x :: times (k - 1) f in
      let nact = ni () in
      let actors = times nact (fun () ->
        let name = nz () in let st = nz () in let en = nz () in
        let nch = ni () in
        let chunks = times nch (fun () ->
          let nk = ni () in
          let kids = times nk nz in
          let ns = ni () in
          times ns (fun () ->
            let row = times nk nz in
            let ts = match row with v :: _ -> v | [] -> raise (Bad "chunk without metrics") in
            (ts, List.combine kids row))) in
        { a_name = name; a_start = st; a_end = en; a_chunks = chunks }) in
      if next () <> "=>" then raise (Bad "missing =>");
      let status = next () in
      let nout = ni () in
      let out : out_sample list = times nout (fun () ->
        let stamp = nz () in
        let nsub = ni () in
        let subs = times nsub (fun () ->
          let nm = nz () in
          let nv = ni () in
          let v = times nv (fun () -> let k = nz () in let x = nz () in (k, x)) in
          (nm, v)) in
        (stamp, subs)) in
      let nch = ni () in
      let sizes = times nch nz in
      let gts = times nact (fun () -> let a = nz () in let b = nz () in (a, b)) in
      let short = if String.length line > 300 then String.sub line 0 300 ^ "..." else line in
      let mismatch why =
        incr mism; Printf.printf "MISMATCH %d %s :: %s\n" (ln+1) short why in
      let violation why =
        incr viol; Printf.printf "VIOL %d %s :: %s\n" (ln+1) line why in
      (* ---- correspondence ---- *)
      (match model_out actors, status with
       | None, "panic" -> ()
       | None, s -> mismatch ("model=panic implementation=" ^ s)
       | Some mo, "ok" ->
           if mo <> out then begin
             let rec first_diff i a b = match a, b with
               | x :: r, y :: s -> if x = y then first_diff (i + 1) r s
                                   else Printf.sprintf "sample %d: model=%s implementation=%s" i (show_sample x) (show_sample y)
               | [], [] -> "equal"
               | [], y :: _ -> Printf.sprintf "sample %d: model has %d samples, implementation has more: %s" i i (show_sample y)
               | x :: _, [] -> Printf.sprintf "sample %d: implementation has %d samples, model has more: %s" i i (show_sample x) in
             mismatch ("translation differs at " ^ first_diff 0 mo out)
           end;
           let ms = model_chunk_sizes mo in
           if ms <> sizes then mismatch ("chunk sizes: model=" ^ join_z ms ^ " implementation=" ^ join_z sizes)
       | Some _, s -> mismatch ("model=ok implementation=" ^ s));
      List.iteri (fun i (a, (gs, ge)) ->
        match model_time a with
        | Some (ms, me) ->
            if ms <> gs || me <> ge then
              mismatch (Printf.sprintf "GetGennyTime actor %d: model=%s,%s implementation=%s,%s" (i+1)
                          (string_of_z ms) (string_of_z me) (string_of_z gs) (string_of_z ge))
        | None -> mismatch (Printf.sprintf "GetGennyTime actor %d: model=panic" (i+1)))
        (List.combine actors gts);
      (* ---- oracle on the implementation's observations ---- *)
      let ws = workload_start actors and we = workload_end actors in
      if status <> "ok" then violation ("TranslateGenny did not return normally: " ^ status)
      else begin
        if not (c20_ok_count actors ws we out) then
          violation (Printf.sprintf "c20_ok_count=false (span [%s,%s), %d samples)" (string_of_z ws) (string_of_z we) (List.length out))
        else if not (c20_ok_shape actors out) then violation "c20_ok_shape=false"
        else if not (c20_ok_own actors out) then violation "c20_ok_own=false"
        else if not (c20_ok_out actors out) then violation "c20_ok_out=false";
        if not (c20_ok_chunks sizes (z_of_int (List.length out))) then
          violation ("c20_ok_chunks=false sizes=" ^ join_z sizes)
      end;
      List.iteri (fun i (a, (gs, ge)) ->
        if not (c20_ok_time a gs ge) then
          violation (Printf.sprintf "c20_ok_time=false actor %d: GetGennyTime=%s,%s" (i+1) (string_of_z gs) (string_of_z ge)))
        (List.combine actors gts)
    end
    else raise (Bad ("unknown line: " ^ String.sub line 0 (min 80 (String.length line))))) lines;
  Printf.printf "SUMMARY cases=%d mismatches=%d violations=%d\n" !n !mism !viol
