(* C03 driver.
     c03_run enc <read.cases>   encode direction: the bytes the library's collectors emitted
                                ("S" line, zlib replaced by the trivial codec) and the documents
                                that were collected ("IN" line).  The bytes are decoded with the
                                extracted SPECIFICATION decoder (independent of the model of the
                                library) and the C03 oracle is evaluated:
                                  concatenation of BSON documents, no trailing bytes;
                                  every header field exact; recovered samples = metric vectors of
                                  the inputs; reference sample verbatim; payload and length prefix
                                  byte-identical to the canonical encoding.          -> VIOL
                                and the whole stream is re-encoded with the specification's
                                canonical encoder and compared byte for byte.         -> MISMATCH
     c03_run dec <dec.cases>    decode direction: observations of the library's readers on streams
                                produced by the specification's encoder ("F" features, "S" stream,
                                "IN" expected sample documents, then the reader observations).
                                A reader that disagrees with the specification on a conformant
                                stream -> VIOL (KNOWN for the timestamp class D1); plumbing
                                inconsistencies (the stream no longer decodes to the expected
                                documents with the specification's own decoder) -> MISMATCH. *)
let hexdoc (d : doc) : string = hex_of_bytes (enc_doc d)
let hexdocs (l : doc list) : string = String.concat " " (List.map hexdoc l)

let parse_doc_hex (h : string) : doc option =
  match dec_doc (bytes_of_hex h) with
  | Some (d, []) -> Some d
  | _ -> None

let parse_docs_hex (toks : string list) : doc list option =
  let rec go l acc = match l with
    | [] -> Some (List.rev acc)
    | h :: r -> (match parse_doc_hex h with Some d -> go r (d :: acc) | None -> None) in
  go toks []

(* the flattened view of a sample: one element per metric leaf, keyed by the dot-joined path (array items by their
   index), with the leaf's own type; None when the sample has a BSON timestamp leaf (two metrics; left to C02) *)
let dot = n_of_int 46
let digits (i : int) : n list = List.map (fun c -> n_of_int (Char.code c)) (List.of_seq (String.to_seq (string_of_int i)))
let rec has_ts (v : value) : bool =
  match v with
  | VTimestamp _ -> true
  | VDoc d -> List.exists (fun (_, x) -> has_ts x) d
  | VArr l -> List.exists has_ts l
  | _ -> false
let rec flat_value (key : n list) (v : value) : doc =
  match v with
  | VDoc d -> flat_doc (Some key) d
  | VArr l -> List.concat (List.mapi (fun i x -> flat_value (key @ [dot] @ digits i) x) l)
  | VDouble _ | VInt32 _ | VInt64 _ | VBool _ | VDateTime _ -> [(key, v)]
  | _ -> []
and flat_doc (prefix : n list option) (d : doc) : doc =
  List.concat_map (fun (k, v) ->
      let key = (match prefix with None -> k | Some p -> p @ [dot] @ k) in
      flat_value key v) d
(* keys and types come from the reference document (array indices count every item of the reference array, metric
   or not), values from the chunk's table; bool: anything but 0 is true *)
let retype (v : value) (x : z) : value =
  match v with
  | VDouble _ -> VDouble x | VInt32 _ -> VInt32 x | VInt64 _ -> VInt64 x | VDateTime _ -> VDateTime x
  | VBool _ -> VBool (x <> Z0)
  | _ -> v
let flat_expected_tables (tables : table list) : string option =
  if List.exists (fun (_, r) -> has_ts (VDoc r)) tables then None
  else
    let per_table (t : table) : doc list option =
      let (samples, r) = t in
      let leaves = flat_doc None r in
      let cols = table_columns t in
      if List.length leaves <> List.length cols then None
      else Some (List.mapi (fun i _ -> List.map2 (fun (k, v) col -> (k, retype v (List.nth col i))) leaves cols) samples) in
    let all = List.map per_table tables in
    if List.exists (fun x -> x = None) all then None
    else Some (hexdocs (List.concat_map (fun x -> match x with Some l -> l | None -> []) all))

let verdict_name = function
  | COk -> "ok" | CUndecodable -> "not-decodable-by-the-specification" | CHeader -> "header-field-not-exact"
  | CSamples -> "recovered-samples-differ-from-inputs" | CReference -> "reference-sample-not-verbatim"
  | CNotCanonical -> "payload-or-length-prefix-not-canonical"

let cut n s = if String.length s > n then String.sub s 0 n ^ "..." else s

(* ------------------------------------------------------------------ encode direction *)
let run_enc (path : string) =
  let ic = open_in path in
  let ncases = ref 0 and mism = ref 0 and viol = ref 0 and nontriv = ref 0 in
  let nchunks = ref 0 and nsamples = ref 0 and nmeta = ref 0 in
  let cur_id = ref "" and cur_hex = ref "" in
  let ln = ref 0 in
  let finish_case (inputs : doc list) =
    let h = !cur_hex in
    let viol_line why =
      incr viol;
      Printf.printf "VIOL stream=%s line=%d %s inputs=%s bytes=%s\n" !cur_id !ln why (cut 3000 (hexdocs inputs)) (cut 6000 h) in
    match dec_docs (bytes_of_hex h) with
    | None -> viol_line "not-a-concatenation-of-bson-documents-or-trailing-bytes"
    | Some ds ->
        if hex_of_bytes (List.concat_map enc_doc ds) <> String.lowercase_ascii h then viol_line "bson-not-canonical"
        else begin
          let v = c03_encode_verdict inputs ds in
          (match v with COk -> () | _ -> viol_line (verdict_name v));
          (* ... and every sample, read back as a document, is its input without the non-metric leaves (C03_oracle_docs_sound) *)
          if v = COk && not (c03_encode_docs_ok inputs ds) then viol_line "samples-as-documents-differ-from-the-inputs";
          (match x_spec_decode_stream ds with
           | Some tables ->
               nchunks := !nchunks + List.length tables;
               List.iter (fun (samples, r) ->
                   nsamples := !nsamples + List.length samples;
                   ()) tables;
               if List.exists (fun (samples, r) ->
                   List.length samples >= 2 &&
                   List.exists (fun d -> d = N0)
                     (spec_deltas (nat_of_int (List.length (spec_metrics_doc r))) samples)) tables
               then begin incr nontriv; Printf.printf "NT %s\n" (Digest.to_hex (Digest.string h)) end;
               (* re-encode everything with the specification's canonical encoder *)
               let tl_ = ref tables in
               let items = List.map (fun d ->
                   match spec_class d with
                   | SChunk ->
                       (match !tl_ with
                        | (samples, r) :: rest ->
                            tl_ := rest;
                            IChunk (chunk_id d, VInt32 (z_of_int 1), [], r, (match samples with _ :: t -> t | [] -> []))
                        | [] -> IOther d)
                   | SMeta ->
                       incr nmeta;
                       (match d with
                        | [_; _; (_, VDoc m)] -> IMeta (chunk_id d, VInt32 (z_of_int 0), m)
                        | _ -> IOther d)
                   | SSkip -> IOther d) ds in
               let re = hex_of_bytes (List.concat_map enc_doc (x_spec_encode items)) in
               if re <> String.lowercase_ascii h then begin
                 incr mism;
                 Printf.printf "MISMATCH stream=%s line=%d bytes-differ-from-the-specification-encoder impl=%s spec=%s\n"
                   !cur_id !ln (cut 600 h) (cut 600 re) end
           | None -> ())
        end in
  (try while true do
    let line = input_line ic in
    incr ln;
    let (lhs, rhs) = split_arrow line in
    match split_ws lhs with
    | ["S"; id; h] -> incr ncases; cur_id := id; cur_hex := h
    | ["S"; id] -> incr ncases; cur_id := id; cur_hex := ""
    | ["IN"] ->
        (match split_ws rhs with
         | _n :: toks ->
             (match parse_docs_hex toks with
              | Some ins -> finish_case ins
              | None -> incr mism; Printf.printf "MISMATCH stream=%s line=%d input-documents-unparsable\n" !cur_id !ln)
         | [] -> finish_case [])
    | _ -> ()
  done with End_of_file -> ());
  Printf.printf "SUMMARY cases=%d mismatches=%d violations=%d known=0 nontrivial=%d chunks=%d samples=%d metadata_docs=%d\n"
    !ncases !mism !viol !nontriv !nchunks !nsamples !nmeta

(* ------------------------------------------------------------------ decode direction *)
let run_dec (path : string) =
  let ic = open_in path in
  let ncases = ref 0 and mism = ref 0 and viol = ref 0 and known = ref 0 and nontriv = ref 0 in
  let cur_id = ref "" and feats = ref [] and tables : table list ref = ref [] and expected = ref [] in
  let pending = ref [] and bad = ref false and stream_hex = ref "" in
  let ln = ref 0 in
  let disagree what impl spec =
    if not !bad then begin
      bad := true;
      if List.mem "ts" !feats then begin
        incr known; Printf.printf "KNOWN ts-seconds stream=%s %s\n" !cur_id what end
      else begin
        incr viol;
        Printf.printf "VIOL stream=%s line=%d features=%s reader-disagrees-with-specification %s reader=%s specification=%s stream=%s\n"
          !cur_id !ln (String.concat "," !feats) what (cut 1500 impl) (cut 1500 spec) (cut 6000 !stream_hex) end end in
  let plumbing what =
    if not !bad then begin
      bad := true; incr mism;
      Printf.printf "MISMATCH stream=%s line=%d %s\n" !cur_id !ln what end in
  let exp_hex () = String.concat " " (List.map hexdoc !expected) in
  (try while true do
    let line = input_line ic in
    incr ln;
    let (lhs, rhs) = split_arrow line in
    match split_ws lhs with
    | ["F"; id; f] ->
        incr ncases; cur_id := id; feats := split_on ',' f; bad := false; tables := []; expected := []; pending := [];
        if List.exists (fun x -> List.mem x ["split"; "cross"; "unk"; "t64"; "tdbl"]) !feats then incr nontriv
    | ["S"; _; h] ->
        stream_hex := h;
        if List.exists (fun x -> List.mem x ["split"; "cross"; "unk"; "t64"; "tdbl"]) !feats then
          Printf.printf "NT %s\n" (Digest.to_hex (Digest.string h));
        (match x_spec_decode_bytes (bytes_of_hex h) with
         | Some t -> tables := t
         | None -> plumbing "the stream handed to the readers is not accepted by the specification's decoder")
    | ["S"; _] -> stream_hex := ""; tables := []
    | ["IN"] ->
        (match split_ws rhs with
         | _ :: toks ->
             (match parse_docs_hex toks with
              | Some ds -> expected := ds
              | None -> plumbing "expected documents unparsable")
         | [] -> expected := []);
        if hexdocs (List.concat_map table_docs !tables) <> exp_hex () then
          plumbing "the specification's decoding of the stream differs from the generator's expected documents"
    | ["RC"] ->
        (match split_ws rhs with
         | [e; n] ->
             if e <> "0" || int_of_string n <> List.length !tables then
               disagree "ReadChunks(err,chunks)" rhs (Printf.sprintf "0 %d" (List.length !tables));
             pending := !tables
         | _ -> failwith "bad RC")
    | "C" :: npoints :: nmetrics :: _meta :: ks ->
        (match !pending with
         | t :: r ->
             pending := r;
             let cols = table_columns t in
             let spec_cols = String.concat " " (List.map (fun c -> String.concat "," (List.map string_of_z c)) cols) in
             let impl_cols = String.concat " " (List.map (fun k ->
                 match String.split_on_char ':' k with
                 | [_; _; vs] -> vs
                 | _ -> "?") ks) in
             let (samples, _) = t in
             if int_of_string npoints <> List.length samples || int_of_string nmetrics <> List.length cols || impl_cols <> spec_cols then
               disagree "chunk-values" (npoints ^ " " ^ nmetrics ^ " " ^ impl_cols)
                 (Printf.sprintf "%d %d %s" (List.length samples) (List.length cols) spec_cols)
         | [] -> disagree "extra-chunk" line "")
    | ["CS"] ->
        let docs = (match split_ws rhs with _ :: d -> d | [] -> []) in
        if String.concat " " docs <> exp_hex () then disagree "Chunk.StructuredIterator" (String.concat " " docs) (exp_hex ())
    | ["RS"] ->
        (match split_ws rhs with
         | e :: _ :: docs ->
             if e <> "0" || String.concat " " docs <> exp_hex () then
               disagree "ReadStructuredMetrics" (e ^ " " ^ String.concat " " docs) ("0 " ^ exp_hex ())
         | _ -> disagree "ReadStructuredMetrics" rhs "")
    | ["CF"] ->
        (match split_ws rhs with
         | n :: docs ->
             if int_of_string n <> List.length !expected then disagree "Chunk.Iterator(count)" n (string_of_int (List.length !expected))
             else (match flat_expected_tables !tables with
                 | Some fe -> if String.concat " " docs <> fe then disagree "Chunk.Iterator(flattened documents)" (String.concat " " docs) fe
                 | None -> ())
         | [] -> ())
    | ["RF"] | ["RM"] | ["RE"] ->
        (match split_ws rhs with
         | e :: n :: docs ->
             let want = if String.trim lhs = "RF" then List.length !expected else List.length !tables in
             if e <> "0" || int_of_string n <> want then
               disagree (String.trim lhs ^ "(err,count)") (e ^ " " ^ n) (Printf.sprintf "0 %d" want)
             else if String.trim lhs = "RF" then
               (match flat_expected_tables !tables with
                | Some fe -> if String.concat " " docs <> fe then disagree "ReadMetrics(flattened documents)" (String.concat " " docs) fe
                | None -> ())
         | _ -> ())
    | ("CRASH" | "HANG") :: _ -> disagree "reader crashed or hung" line ""
    | _ -> ()
  done with End_of_file -> ());
  Printf.printf "SUMMARY cases=%d mismatches=%d violations=%d known=%d nontrivial=%d\n" !ncases !mism !viol !known !nontriv

let () =
  match Sys.argv.(1) with
  | "enc" -> run_enc Sys.argv.(2)
  | "dec" -> run_dec Sys.argv.(2)
  | m -> failwith ("unknown mode " ^ m)
