(* C04 driver: reader observations on malformed streams (harness/c04.go, read.go).
   Correspondence: the byte-level model reader (x_read_stream) decodes the same
   (normalised) stream; chunks, every view and every error flag are compared
   (MISMATCH).  Oracle (VIOL), evaluated on the implementation's observations:
   no crash / hang; if the stream is not a complete well-formed stream the error
   flag of ReadChunks AND of the four layered readers is set; at least the chunks
   lying wholly before the first damaged byte ("X => n", computed by checks/c04.py
   from the seed stream and the mutant's bytes) are delivered, and they are the
   chunks the implementation delivers for the undamaged seed (second argument: a
   file of "SEEDC <seed> <chunk line>" lines). *)
let hexdocs (l : doc list) : string = String.concat " " (List.map (fun d -> hex_of_bytes (enc_doc d)) l)

let parse_docs_hex (toks : string list) : doc list option =
  let rec go l acc = match l with
    | [] -> Some (List.rev acc)
    | h :: r -> (match dec_doc (bytes_of_hex h) with
                 | Some (d, []) -> go r (d :: acc)
                 | _ -> None) in
  go toks []

let seed_of_id (id : string) : string =
  match String.index_opt id '.' with Some i -> String.sub id 0 i | None -> id

let rec take_n_list n l = if n <= 0 then [] else match l with [] -> [] | x :: r -> x :: take_n_list (n - 1) r

let () =
  let path = Sys.argv.(1) in
  let ic = open_in path in
  let seeds : (string, string list) Hashtbl.t = Hashtbl.create 8 in
  (if Array.length Sys.argv > 2 then
     List.iter (fun l ->
         match split_ws l with
         | "SEEDC" :: sd :: rest ->
             let old = try Hashtbl.find seeds sd with Not_found -> [] in
             Hashtbl.replace seeds sd (old @ [String.concat " " rest])
         | _ -> ()) (read_lines Sys.argv.(2)));
  let min_chunks = ref 0 and errs = ref [] and impl_c = ref [] and delivered = ref 0 and have_s = ref false in
  let cur_hex = ref "" and huge_case = ref false and ndamaged = ref 0 and nprefix_chunks = ref 0 in
  let skipped = ref 0 in
  let nstreams = ref 0 and mism = ref 0 and viol = ref 0 and known = ref 0 and nontriv = ref 0 in
  let cur_id = ref "" in
  let chunks = ref [] and rerr = ref false and parse_ok = ref true in
  let inputs : doc list option ref = ref None in
  let pending_chunk_lines = ref [] in
  let bad = ref false in
  let ln = ref 0 in
  let mismatch what impl model =
    if not !bad then begin
      bad := true; incr mism;
      let cut s = if String.length s > 300 then String.sub s 0 300 ^ "..." else s in
      Printf.printf "MISMATCH stream=%s line=%d %s impl=%s model=%s\n" !cur_id !ln what (cut impl) (cut model) end in
  let chunk_line (c : chunk) : string =
    let ms = c.ck_metrics in
    Printf.sprintf "C %s %d %s%s" (string_of_z c.ck_npoints) (List.length ms)
      (match c.ck_meta with Some d -> hex_of_bytes (enc_doc d) | None -> "-")
      (String.concat "" (List.map (fun (m, vs) ->
           Printf.sprintf " K:%s:%s" (hex_of_bytes (metric_key m)) (String.concat "," (List.map string_of_z vs))) ms)) in
  (try while true do
    let line = input_line ic in
    incr ln;
    let (lhs, rhs) = split_arrow line in
    match split_ws lhs with
    | ["S"; id; h] | ["S"; id; h; _] ->
        min_chunks := 0; errs := []; impl_c := []; delivered := 0; have_s := true; cur_hex := h; huge_case := false;
        incr nstreams; cur_id := id; bad := false; inputs := None; pending_chunk_lines := [];
        (let ((cs, e), huge) = x_read_stream (bytes_of_hex h) in
         chunks := cs; rerr := e; parse_ok := true;
         if huge then begin bad := true; incr skipped; huge_case := true end)
    | ["X"] -> min_chunks := int_of_string (String.trim rhs)
    | ["S"; id] -> have_s := false; incr nstreams; cur_id := id; bad := false; inputs := None; chunks := []; rerr := false; parse_ok := true
    | ["IN"] ->
        (match split_ws rhs with
         | _n :: toks -> inputs := parse_docs_hex toks
         | [] -> inputs := Some [])
    | ["RC"] ->
        (match split_ws rhs with
         | [e; n] ->
             errs := (e = "1") :: !errs; delivered := int_of_string n;
             let me = if !rerr then "1" else "0" in
             if e <> me || int_of_string n <> List.length !chunks then
               mismatch "chunks" rhs (Printf.sprintf "%s %d" me (List.length !chunks));
             pending_chunk_lines := List.map chunk_line !chunks
         | _ -> failwith "bad RC")
    | "C" :: toks when (impl_c := !impl_c @ [String.concat " " toks]; false) -> ()
    | "C" :: toks ->
        (* the metadata document is compared through the model's decoder/encoder (array
           index keys are not part of the model's value type) *)
        let canon l = match l with
          | np :: nm :: meta :: rest when meta <> "-" ->
              (match dec_doc (bytes_of_hex meta) with
               | Some (d, []) -> String.concat " " ("C" :: np :: nm :: hex_of_bytes (enc_doc d) :: rest)
               | _ -> line)
          | _ -> line in
        (* a document that type confusion turned into a metadata document may carry a "data" binary: the
           harness rewrote its zlib stream for the model only (normalizeStream), so metadata documents are
           also compared with top-level "data" binaries removed *)
        let strip_data l = match l with
          | np :: nm :: meta :: rest when meta <> "-" ->
              (match dec_doc (bytes_of_hex meta) with
               | Some (d, []) ->
                   let d' = List.filter (fun (k, v) -> not (k = bytes_of_string "data" && (match v with VBinary (_, _) -> true | _ -> false))) d in
                   String.concat " " ("C" :: np :: nm :: hex_of_bytes (enc_doc d') :: rest)
               | _ -> String.concat " " ("C" :: l))
          | _ -> String.concat " " ("C" :: l) in
        (match !pending_chunk_lines with
         | m :: r -> pending_chunk_lines := r;
             if m <> line && m <> canon toks && strip_data (List.tl (split_ws m)) <> strip_data toks then mismatch "chunk" line m
         | [] -> mismatch "chunk-extra" line "")
    | ["CF"] | ["RF"] ->
        let toks = split_ws rhs in
        let docs = match lhs with "CF" -> (match toks with _ :: d -> d | [] -> []) | _ -> (match toks with _ :: _ :: d -> d | _ -> []) in
        let m = hexdocs (x_flat_all !chunks) in
        if String.concat " " docs <> m then mismatch (String.trim lhs) (String.concat " " docs) m;
        (if String.trim lhs = "RF" then match toks with e :: _ -> errs := (e = "1") :: !errs | [] -> ());
        (if String.trim lhs = "RF" then match toks with e :: _ -> if e <> (if !rerr then "1" else "0") then mismatch "RF-err" e "" | [] -> ())
    | ["CS"] | ["RS"] ->
        let toks = split_ws rhs in
        let isrs = (String.trim lhs = "RS") in
        let docs = if isrs then (match toks with _ :: _ :: d -> d | _ -> []) else (match toks with _ :: d -> d | [] -> []) in
        (match x_structured_all !chunks with
         | Some ds -> let m = hexdocs ds in
             if String.concat " " docs <> m then mismatch (String.trim lhs) (String.concat " " docs) m
         | None -> mismatch (String.trim lhs ^ "-model-panic") (String.concat " " docs) "");
        if isrs then begin
          (match toks with e :: _ -> errs := (e = "1") :: !errs | [] -> ());
          (match toks with e :: _ -> if e <> (if !rerr then "1" else "0") then mismatch "RS-err" e "" | [] -> ());
          (* C01 oracle on the implementation's own output *)
          match !inputs with
          | Some ins ->
              let nontrivial = List.length ins >= 2 && ins <> [] && List.exists (fun d -> flatten_doc d <> []) ins in
              if nontrivial then incr nontriv;
              (match parse_docs_hex docs with
               | Some dec ->
                   let e = (match toks with e :: _ -> e | [] -> "1") in
                   if not (c01_ok ins dec && e = "0") then begin
                     if List.exists doc_has_ts_seconds ins then begin
                       incr known;
                       Printf.printf "KNOWN ts-seconds stream=%s\n" !cur_id end
                     else begin
                       incr viol;
                       Printf.printf "VIOL stream=%s line=%d c01_ok=false err=%s inputs=%s decoded=%s\n" !cur_id !ln e
                         (hexdocs ins) (String.concat " " docs) end end
               | None -> incr viol; Printf.printf "VIOL stream=%s line=%d decoded-docs-unparsable\n" !cur_id !ln)
          | None -> ()
        end
    | ["RM"] | ["RE"] ->
        let toks = split_ws rhs in
        let docs = (match toks with _ :: _ :: d -> d | _ -> []) in
        let m = if String.trim lhs = "RM" then
            (let l = List.map matrix_doc !chunks in
             if List.exists (fun x -> x = None) l then "MODEL-PANIC"
             else hexdocs (List.map (fun x -> match x with Some d -> d | None -> []) l))
          else hexdocs (List.map series_doc !chunks) in
        if String.concat " " docs <> m then mismatch (String.trim lhs) (String.concat " " docs) m;
        (match toks with e :: _ -> errs := (e = "1") :: !errs | [] -> ());
        (match toks with e :: _ -> if e <> (if !rerr then "1" else "0") then mismatch (String.trim lhs ^ "-err") e "" | [] -> ())
    | ["RSM"] | ["RFM"] | ["RMM"] | ["REM"] -> ()
    | ["ENDS"] ->
        if !have_s && not !huge_case then begin
          have_s := false;
          (* the C04 oracle on the implementation's observations of this stream *)
          (* damaged = fst (c04_damaged bytes) = the error flag x_read_stream computed at the S line *)
          let damaged = !rerr in
          if damaged then incr ndamaged;
          if !min_chunks > 0 then incr nprefix_chunks;
          let seedc = try Some (Hashtbl.find seeds (seed_of_id !cur_id)) with Not_found -> None in
          let intact = match seedc with
            | Some sc -> take_n_list !min_chunks !impl_c = take_n_list !min_chunks sc && List.length sc >= !min_chunks
            | None -> true in
          if not (c04_ok damaged !errs (nat_of_int !min_chunks) (nat_of_int !delivered) intact) then begin
            incr viol;
            Printf.printf "VIOL stream=%s line=%d c04_ok=false damaged=%b errs(RE,RM,RF,RS,RC)=%s chunks_before_damage=%d delivered=%d intact=%b hex=%s\n"
              !cur_id !ln damaged (String.concat "" (List.map (fun b -> if b then "1" else "0") !errs))
              !min_chunks !delivered intact !cur_hex end
        end;
        have_s := false
    | "BEGIN" :: _ -> ()
    | ("CRASH" | "HANG") :: idx :: msg ->
        incr viol;
        Printf.printf "VIOL stream=index%s line=%d implementation %s (worker index %s; the stream is line %s of streams.txt, counted from 0): %s\n" idx !ln (List.hd (split_ws lhs)) idx idx (String.concat " " msg)
    | [] -> ()
    | _ -> failwith ("unknown line: " ^ (if String.length line > 80 then String.sub line 0 80 else line))
  done with End_of_file -> ());
  Printf.printf "SUMMARY cases=%d mismatches=%d violations=%d known=%d nontrivial=%d skipped_huge=%d damaged=%d with_chunks_before_damage=%d\n" !nstreams !mism !viol !known !nontriv !skipped !ndamaged !nprefix_chunks
