(* C17 driver: histories on the six uncompressed collector kinds (harness/c17.go).
   For every case the model collector of the same kind replays the operations; every
   observation of the implementation is compared with the model's (MISMATCH), and the
   extracted oracle c17_step (Model/UncOk.v) is evaluated on the implementation's own
   observations after every operation (VIOL).
   JSON flavour: the model cannot render Extended JSON. Texts are compared with the
   library's rendering of the input documents recorded by the harness when it generated
   them (the <hextext> field of A / M lines); the documents the harness obtained by parsing
   every output line back are handed to the oracle, which compares them with the samples
   whenever the sample survives relaxed Extended JSON unchanged (json_stable). *)
let kind_of_string = function
  | "uncb" -> KUncB | "uncj" -> KUncJ | "streamuncb" -> KStreamUncB | "streamuncj" -> KStreamUncJ
  | "sdynuncb" -> KSDynUncB | "sdynuncj" -> KSDynUncJ | s -> failwith ("kind " ^ s)

let ares_string = function
  | ROk -> "ok" | RFull -> "full" | RCount -> "count" | RTypes -> "types" | RFlush -> "flush" | RNoWriter -> "other"

let viol_string = function
  | XFlavour -> "flavour" | XTrailing -> "trailing-bytes" | XContent -> "content" | XUnparseable -> "json-line-not-parseable-to-sample"
  | XBatch -> "batch-size-exceeded" | XEmpty -> "output-without-samples" | XMissing -> "resolve-fails-with-pending-samples"
  | XInfo -> "info-sample-count" | XRewritten -> "earlier-writer-record-changed"

(* documents are parsed (and re-encoded: the model's decoder and encoder must reproduce the
   bytes exchanged) once per distinct hex string of a case; the hex of a document value the
   model hands back is found by physical identity *)
let parse_cache : (string, doc option) Hashtbl.t = Hashtbl.create 256
let hex_cache : (doc * string) list ref = ref []
let parse_doc (h : string) : doc option =
  match Hashtbl.find_opt parse_cache h with
  | Some r -> r
  | None ->
      let b = bytes_of_hex h in
      let r = (match dec_doc b with
               | Some (d, []) -> if hex_of_bytes (enc_doc d) = String.lowercase_ascii h then Some d else None
               | _ -> None) in
      Hashtbl.replace parse_cache h r;
      (match r with Some d -> hex_cache := (d, String.lowercase_ascii h) :: !hex_cache | None -> ());
      r
let hex_of_doc (d : doc) : string =
  match List.find_opt (fun (d', _) -> d' == d) !hex_cache with
  | Some (_, h) -> h
  | None -> hex_of_bytes (enc_doc d)

let starts_with (p : string) (s : string) = String.length s >= String.length p && String.sub s 0 (String.length p) = p
let drop (k : int) (s : string) = String.sub s k (String.length s - k)
let clip s = if String.length s > 300 then String.sub s 0 300 ^ "..." else s

let parse_faults (s : string) : fault list =
  let s = if String.length s > 0 && s.[String.length s - 1] = '-' then String.sub s 0 (String.length s - 1) else s in
  List.map (fun t -> if t = "n" then FNone else if t = "e" then FError
             else FShort (nat_of_int (int_of_string (drop 1 t))))
    (split_on ',' s)

(* the implementation's rendering of one output -> view for the oracle *)
let parse_view (s : string) : oview =
  if starts_with "b:" s then VFtdc
  else if starts_with "d:" s then begin
    let parts = split_on ',' (drop 2 s) in
    let trail = List.exists (starts_with "TRAIL") parts in
    let docs = List.map parse_doc (List.filter (fun p -> not (starts_with "TRAIL" p)) parts) in
    if List.exists (fun d -> d = None) docs then VBad
    else VDocs (List.filter_map (fun d -> d) docs, trail)
  end else if starts_with "j:" s then begin
    match String.index_opt s '|' with
    | None -> VBad
    | Some i ->
        let text = bytes_of_hex (String.sub s 2 (i - 2)) in
        let parsed = List.map (fun p -> if p = "x" then None else parse_doc p) (split_on ',' (drop (i + 1) s)) in
        VText (text, parsed)
  end else if String.length s > 0 && s.[0] = 'p' then VPartial
  else VBad

let () =
  let path = Sys.argv.(1) in
  let ic = open_in path in
  let ncases = ref 0 and nops = ref 0 and mism = ref 0 and viol = ref 0 in
  let nontrivial = ref 0 and json_lines = ref 0 and json_stable_docs = ref 0 and case_partials = ref 0 in
  let sdyn_refusals = ref 0 and mixed_counts = ref 0 and partials = ref 0 in
  let texts : (string, n list) Hashtbl.t = Hashtbl.create 64 in
  let st = ref None and os = ref ost0 in
  let case_id = ref "" and case_kind = ref "" and case_n = ref Z0 and json = ref false in
  let case_bad = ref false and case_viol = ref false in
  let pending_op = ref (KInfo, false, ([], [])) and pending_name = ref "" in
  let last_r = ref None and last_info = ref Z0 in
  let accepted = ref 0 and writes = ref 0 and changes = ref 0 and resets = ref 0 and last_sig = ref None in
  let ln = ref 0 in
  let mismatch what impl model =
    if not !case_bad then begin
      incr mism; case_bad := true;
      Printf.printf "MISMATCH case=%s line=%d %s impl=%s model=%s\n" !case_id !ln what (clip impl) (clip model) end in
  let text_of (d : doc) : n list = try Hashtbl.find texts (hex_of_doc d) with Not_found -> bytes_of_string "?no-text?" in
  (* the model's output in the harness's notation; for JSON only the raw text part *)
  let render_model (o : outp) : string =
    match o with
    | OFtdc _ -> "b:"
    | ODocs (false, ds) -> "d:" ^ String.concat "," (List.map hex_of_doc ds)
    | ODocs (true, ds) -> "j:" ^ hex_of_bytes (List.concat_map (fun d -> text_of d @ [n_of_int 10]) ds) in
  let impl_cmp (s : string) : string =  (* strip the parsed-back part of a JSON output *)
    if starts_with "j:" s then (match String.index_opt s '|' with Some i -> String.sub s 0 i | None -> s) else s in
  let rec take k l = if k <= 0 then [] else match l with [] -> [] | x :: r -> x :: take (k - 1) r in
  let render_model_rec (r : wrec) : string =
    match r with
    | WFull o -> render_model o
    | WPart (k, o) ->
        let full = (match o with
                    | ODocs (true, ds) -> List.concat_map (fun d -> text_of d @ [n_of_int 10]) ds
                    | _ -> outp_bytes o) in
        let pre = take (int_of_nat k) full in
        Printf.sprintf "p%d:%s" (List.length pre) (hex_of_bytes pre) in
  (try while true do
    let line = input_line ic in
    incr ln;
    let (lhs, rhs) = split_arrow line in
    match split_ws lhs with
    | "CASE" :: id :: kind :: n :: rest ->
        incr ncases; case_id := id; case_bad := false; case_viol := false; case_kind := kind;
        case_n := z_of_string n; json := kind_json (kind_of_string kind);
        Hashtbl.reset texts; Hashtbl.reset parse_cache; hex_cache := []; os := ost0; last_r := None; last_info := Z0;
        accepted := 0; writes := 0; changes := 0; resets := 0; last_sig := None; case_partials := 0;
        let faults = match rest with f :: _ -> parse_faults f | [] -> [] in
        st := Some (x_new (kind_of_string kind) !case_n, empty_writer faults)
    | ["END"] ->
        if !accepted >= 2 && (!writes > 0 || !changes > 0 || !resets > 0) then begin
          incr nontrivial; Printf.printf "NT %s\n" !case_id end;
        partials := !partials + !case_partials;
        st := None
    | "NOTE" :: what :: _ ->
        incr viol; Printf.printf "VIOL case=%s line=%d %s\n" !case_id !ln what
    | tag :: args ->
        (match !st with
         | None -> ()
         | Some s ->
             let do_step o = let (s', ob) = x_step s o in st := Some s'; ob in
             let sample_of h t =
               match parse_doc h with
               | None -> mismatch "input-doc-unparsable-by-model" h ""; None
               | Some d ->
                   let txt = if t = "-" then [] else bytes_of_hex (String.sub t 0 (String.length t - 1)) in
                   if t <> "-" then Hashtbl.replace texts (hex_of_doc d) txt;
                   Some (d, txt) in
             (match tag, args with
              | "A", [h; t] ->
                  incr nops; pending_name := "Add";
                  (match sample_of h t with
                   | None -> pending_op := (KAdd, rhs = "ok", ([], []))
                   | Some (d, txt) ->
                       pending_op := (KAdd, rhs = "ok", (d, txt));
                       if rhs = "ok" then begin
                         incr accepted;
                         if !json && json_stable d then incr json_stable_docs;
                         let sg = (schema_sig d, List.length d) in
                         (match !last_sig with Some sg' when sg' <> sg -> incr changes | _ -> ());
                         last_sig := Some sg end;
                       if rhs = "count" && starts_with "sdyn" !case_kind then incr sdyn_refusals;
                       (match do_step (OAdd (d, Z0)) with
                        | BAdd r ->
                            (* rejection kinds are recognised by message text (harness addClass); an unrecognised wording
                               ("other") is accepted as any rejection the model predicts: rewording an error is not a difference *)
                            let reworded = rhs = "other" && (match r with ROk -> false | _ -> true) in
                            if ares_string r <> rhs && not reworded then mismatch "add" rhs (ares_string r)
                        | _ -> ()))
              | "B", [_] ->
                  incr nops; pending_name := "Add(unreadable)"; pending_op := (KAdd, rhs = "ok", ([], []));
                  (match do_step OAddBad with
                   | BAdd r -> let m = (match r with RFlush -> "flush" | _ -> "other") in
                       if rhs <> m && rhs <> "other" then mismatch "add-unreadable" rhs m
                   | _ -> ())
              | "M", [h; t] ->
                  incr nops; pending_name := "SetMetadata";
                  (match sample_of h t with
                   | None -> pending_op := (KSetMeta, false, ([], []))
                   | Some (d, txt) ->
                       pending_op := (KSetMeta, rhs = "ok", (d, txt));
                       ignore (do_step (OSetMeta (Some d)));
                       if rhs <> "ok" then mismatch "setmeta" rhs "ok")
              | "N", [] ->
                  (* SetMetadata with a value that is not a document: refused, the slot keeps what it held *)
                  incr nops; pending_name := "SetMetadata"; pending_op := (KSetMeta, false, ([], []));
                  if rhs = "ok" then mismatch "setmeta-unreadable" rhs "err"
              | ("R" | "r"), [] ->
                  if tag = "R" then begin incr nops; pending_name := "Resolve"; pending_op := (KResolve, false, ([], [])) end
                  else last_r := (if rhs = "none" then None else Some (parse_view rhs));
                  (match do_step OResolve with
                   | BResolve None -> if rhs <> "none" then mismatch "resolve" rhs "none"
                   | BResolve (Some o) -> let m = render_model o in if impl_cmp rhs <> m then mismatch "resolve" (impl_cmp rhs) m
                   | _ -> ())
              | "X", [] -> incr nops; incr resets; last_sig := None; pending_name := "Reset"; pending_op := (KReset, false, ([], [])); ignore (do_step OReset)
              | "F", [] ->
                  incr nops; pending_name := "Flush"; pending_op := (KFlush, false, ([], []));
                  (match do_step OFlush with
                   | BFlush ok -> if (if ok then "ok" else "err") <> rhs then mismatch "flush" rhs (if ok then "ok" else "err")
                   | _ -> ())
              | ("I" | "i"), [] ->
                  if tag = "I" then begin incr nops; pending_name := "Info"; pending_op := (KInfo, false, ([], [])) end
                  else (match split_ws rhs with [_; sc] -> last_info := z_of_string sc | _ -> ());
                  (match do_step OInfo with
                   | BInfo (m, sc) -> let ms = string_of_z m ^ " " ^ string_of_z sc in if ms <> rhs then mismatch "info" rhs ms
                   | _ -> ())
              | "W", [] ->
                  let (_, w) = s in
                  let impl_recs = match split_ws rhs with _calls :: l -> l | [] -> [] in
                  let mw = List.map render_model_rec w.w_log in
                  let iw = List.map impl_cmp impl_recs in
                  if mw <> iw then mismatch "writer-log" (String.concat " " iw) (String.concat " " mw);
                  (* the oracle on the implementation's observations *)
                  let views = List.map parse_view impl_recs in
                  let nfull = List.length (List.filter (fun v -> v <> VPartial) views) in
                  if nfull > !writes then writes := nfull;
                  if List.length views - nfull > !case_partials then case_partials := List.length views - nfull;
                  let (k, okflag, x) = !pending_op in
                  let (os', vs) = c17_step !json !case_n !os k okflag x views !last_r !last_info in
                  (* statistics: what was compared *)
                  List.iter (fun v -> match v with
                      | VText (_, ps) -> json_lines := !json_lines + List.length ps
                      | _ -> ()) (match !last_r with Some v -> [v] | None -> []);
                  (match !last_r with
                   | Some (VDocs (ds, _)) when not (starts_with "sdyn" !case_kind) ->
                       let body = (match !os.o_meta, ds with Some _, _ :: r -> r | _, _ -> ds) in
                       let lens = List.sort_uniq compare (List.map List.length body) in
                       if List.length lens > 1 then incr mixed_counts
                   | _ -> ());
                  os := os';
                  if vs <> [] && not !case_viol then begin
                    case_viol := true; incr viol;
                    Printf.printf "VIOL case=%s kind=%s n=%s line=%d after=%s c17_step: %s; resolve=%s writer=%s\n"
                      !case_id !case_kind (string_of_z !case_n) !ln !pending_name
                      (String.concat "," (List.sort_uniq compare (List.map viol_string vs)))
                      (clip (match !last_r with None -> "none" | Some _ -> "some")) (clip rhs) end;
                  pending_op := (KInfo, false, ([], []))
              | _ -> failwith ("bad op line: " ^ line)))
    | [] -> ()
  done with End_of_file -> ());
  Printf.printf "SUMMARY cases=%d ops=%d mismatches=%d violations=%d nontrivial=%d json_lines_parsed_back=%d json_samples_compared_as_bson=%d sdyn_count_refusals=%d mixed_field_counts=%d partial_writes=%d\n"
    !ncases !nops !mism !viol !nontrivial !json_lines !json_stable_docs !sdyn_refusals !mixed_counts !partials
