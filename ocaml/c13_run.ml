(* C13 driver: reads the case file written by the Go harness (harness/c13.go documents the
   line formats), evaluates the extracted oracles c13_ok_* on the implementation's
   observations and, for the upper-case kinds, re-computes the observations with the
   extracted model.
   Output:  MISMATCH <lineno> <line> :: model=<...> impl=<...>
            VIOL <lineno> <line> :: <names of the oracles that are false>
            ERROR <lineno> <message>            (unreadable case line)
            SUMMARY cases=N mismatches=M violations=V errors=E quantiles=Q model_cases=K *)

let rec take k l acc =
  if k <= 0 then (List.rev acc, l)
  else match l with x :: r -> take (k - 1) r (x :: acc) | [] -> failwith "short case line"

let split_bar toks =
  let rec go acc = function
    | "|" :: r -> (List.rev acc, r)
    | x :: r -> go (x :: acc) r
    | [] -> failwith "no | in case line" in
  go [] toks

let zs = z_of_string

let parse_cfg = function
  | lo :: hi :: s :: r -> ((zs lo, zs hi, zs s), r)
  | _ -> failwith "short configuration"

let parse_values = function
  | n :: r -> let (vs, r) = take (int_of_string n) r [] in (List.map zs vs, r)
  | [] -> failwith "short value list"

let rec pairs_of = function
  | i :: c :: r -> (zs i, zs c) :: pairs_of r
  | [] -> []
  | _ -> failwith "odd sparse counts"

let show_pairs l = String.concat " " (List.map (fun (i, c) -> string_of_z i ^ ":" ^ string_of_z c) l)
let clip n s = if String.length s <= n then s else String.sub s 0 n ^ "..."

(* a float64 given by its bits as (m, e) with value m * 2^e; None if not finite *)
let decompose_float (bits : int64) : (z * z) option =
  let x = Int64.float_of_bits bits in
  match classify_float x with
  | FP_nan | FP_infinite -> None
  | FP_zero -> Some (Z0, Z0)
  | _ -> let (fr, ex) = frexp x in
         Some (z_of_i64 (Int64.of_float (ldexp fr 53)), z_of_int (ex - 53))

let i64_of_z (x : z) : int64 =
  match x with Z0 -> 0L | Zpos p -> u64_of_pos p 0 | Zneg p -> Int64.neg (u64_of_pos p 0)

let () =
  let path = Sys.argv.(1) in
  let lines = read_lines path in
  let n = ref 0 and mism = ref 0 and viol = ref 0 and errs = ref 0 and nq = ref 0 and nmodel = ref 0 in
  List.iteri (fun ln line ->
    let report_viol why =
      incr viol; Printf.printf "VIOL %d %s :: %s\n" (ln + 1) (clip 300 line) (String.concat "," why) in
    let report_mism ms is =
      incr mism; Printf.printf "MISMATCH %d %s :: model=%s impl=%s\n" (ln + 1) (clip 300 line) (clip 400 ms) (clip 400 is) in
    try
      match split_ws line with
      | [] -> ()
      | kind :: rest when kind = "Q" || kind = "q" ->
          incr n;
          let (inp, obs) = split_bar rest in
          let ((lo, hi, s), r) = parse_cfg inp in
          let (vs, _) = parse_values r in
          if vs = [] || not (c13_valid lo hi s vs) then failwith "case outside the domain of the property";
          (match obs with
           | total :: mn :: mx :: meanbits :: _ntie :: _nlt1 :: nkept :: quads ->
               let total = zs total and mn = zs mn and mx = zs mx in
               let bits = Int64.of_string ("0u" ^ meanbits) in
               let rec quad = function
                 | _q :: g :: e :: v :: r -> (zs g, zs e, zs v) :: quad r
                 | [] -> []
                 | _ -> failwith "bad quantile list" in
               let qs = quad quads in
               if List.length qs <> int_of_string nkept then failwith "quantile count";
               nq := !nq + List.length qs;
               let why = ref [] in
               if not (c13_ok_ranks (List.map (fun (g, e, _) -> (g, e)) qs)) then why := "c13_ok_ranks" :: !why;
               if not (c13_ok_quant lo hi s vs (List.map (fun (_, e, v) -> (e, v)) qs)) then why := "c13_ok_quant" :: !why;
               (match decompose_float bits with
                | None -> why := "mean_not_finite" :: !why
                | Some (mm, me) ->
                    if not (c13_ok_stats lo hi s vs total mn mx mm me) then why := "c13_ok_stats" :: !why);
               if !why <> [] then report_viol (List.rev !why);
               if kind = "Q" then begin
                 incr nmodel;
                 let m = model_obs_q lo hi s vs (List.map (fun (_, e, _) -> e) qs) in
                 let mmean = if m.oq_total = Z0 then 0.0
                   else Int64.to_float (i64_of_z m.oq_mean_num) /. Int64.to_float (i64_of_z m.oq_total) in
                 let ms = Printf.sprintf "%s %s %s %Lu %s" (string_of_z m.oq_total) (string_of_z m.oq_min)
                     (string_of_z m.oq_max) (Int64.bits_of_float mmean) (join_z m.oq_vals) in
                 let is = Printf.sprintf "%s %s %s %Lu %s" (string_of_z total) (string_of_z mn) (string_of_z mx)
                     bits (join_z (List.map (fun (_, _, v) -> v) qs)) in
                 if ms <> is then report_mism ms is
               end
           | _ -> failwith "bad Q observations")
      | kind :: k :: rest when kind = "M" || kind = "m" ->
          incr n;
          let (inp, obs) = split_bar rest in
          let k = int_of_string k in
          let rec operands i toks =
            if i = 0 then [] else
              let ((lo, hi, s), r) = parse_cfg toks in
              let (vs, r) = parse_values r in
              { op_lo = lo; op_hi = hi; op_s = s; op_vs = vs } :: operands (i - 1) r in
          let ops = operands k inp in
          if k < 1 || not (List.for_all op_valid ops) then failwith "case outside the domain of the property";
          let t = List.hd ops and srcs = List.tl ops in
          let (dropped, r) = take (k - 1) obs [] in
          let dropped = List.map zs dropped in
          (match r with
           | total :: _nnz :: prs ->
               let total = zs total and counts = pairs_of prs in
               if not (c13_ok_merge t srcs dropped total counts) then report_viol ["c13_ok_merge"];
               if kind = "M" then begin
                 incr nmodel;
                 let ((md, mt), mc) = model_merge t srcs in
                 let ms = Printf.sprintf "%s | %s | %s" (join_z md) (string_of_z mt) (show_pairs mc) in
                 let is = Printf.sprintf "%s | %s | %s" (join_z dropped) (string_of_z total) (show_pairs counts) in
                 if ms <> is then report_mism ms is
               end
           | _ -> failwith "bad M observations")
      | kind :: wn :: rest when kind = "W" || kind = "w" ->
          incr n;
          let (inp, obs) = split_bar rest in
          let wn = int_of_string wn in
          let ((lo, hi, s), r) = parse_cfg inp in
          let ops = (match r with
            | nops :: r -> let (o, _) = take (int_of_string nops) r [] in
                List.concat (List.map (fun x -> if x = "R" then [WRot] else if x = "m" then [] else [WRec (zs x)]) o)
            | [] -> failwith "short W line") in
          if wn < 1 || not (c13_valid lo hi s []) || not (List.for_all (wop_valid hi) ops) then
            failwith "case outside the domain of the property";
          (match obs with
           | total :: _nnz :: prs ->
               let total = zs total and counts = pairs_of prs in
               if not (c13_ok_window (nat_of_int wn) lo hi s ops total counts) then report_viol ["c13_ok_window"];
               if kind = "W" then begin
                 incr nmodel;
                 let (mt, mc) = model_window (nat_of_int wn) lo hi s ops in
                 let ms = Printf.sprintf "%s | %s" (string_of_z mt) (show_pairs mc) in
                 let is = Printf.sprintf "%s | %s" (string_of_z total) (show_pairs counts) in
                 if ms <> is then report_mism ms is
               end
           | _ -> failwith "bad W observations")
      | kind :: rest when kind = "X" || kind = "x" ->
          incr n;
          let (inp, obs) = split_bar rest in
          let ((lo, hi, s), r) = parse_cfg inp in
          let (vs, _) = parse_values r in
          if not (c13_valid lo hi s vs) then failwith "case outside the domain of the property";
          (match obs with
           | [e1; t1; e2; t2; e3; t3] ->
               let o = [(e1 = "1", zs t1); (e2 = "1", zs t2); (e3 = "1", zs t3)] in
               if not (c13_ok_snapshot vs o) then report_viol ["c13_ok_snapshot"];
               if kind = "X" then begin
                 incr nmodel;
                 let (meq, mt) = model_snapshot lo hi s vs in
                 (* the model has no codec: BSON and JSON are expected to behave like Export/Import *)
                 let one = Printf.sprintf "%s %s" (if meq then "1" else "0") (string_of_z mt) in
                 let ms = String.concat " " [one; one; one] in
                 let is = String.concat " " obs in
                 if ms <> is then report_mism ms is
               end
           | _ -> failwith "bad X observations")
      | "T" :: lo :: hi :: s :: nv :: _q :: g :: e :: v :: tie :: [] ->
          (* values 1..n and one quantile whose exact rank ends in one half: the exact order statistic decides *)
          incr n;
          let n_ = int_of_string nv in
          let vs = List.init n_ (fun i -> z_of_int (i + 1)) in
          if not (c13_ok_quant (zs lo) (zs hi) (zs s) vs [(zs e, zs v)]) then begin
            if tie = "1" && g <> e then
              Printf.printf "KNOWN quantile-tie n=%s q=%s: rank computed %s, exact rank %s, value %s\n" nv _q g e v
            else report_viol ["c13_ok_quant (witness line)"] end
      | "U" :: lo :: _hi :: s :: v :: count :: meanbits :: total :: [] ->
          (* count occurrences of one value: the mean is that value's median equivalent, within the precision bound *)
          incr n;
          let bits = Int64.of_string ("0u" ^ meanbits) in
          let mean = Int64.float_of_bits bits in
          let vf = Int64.to_float (Int64.of_string v) in
          let bound = vf /. (10.0 ** float_of_string s) +. Int64.to_float (Int64.of_string lo) +. 1.0 in
          if total <> count then report_viol ["total count of the witness"]
          else if Float.abs (mean -. vf) > bound then begin
            (* count * value beyond 2^63: the recorded finding; anything else is a violation *)
            if Int64.to_float (Int64.of_string count) *. vf >= 9.2e18 then
              Printf.printf "KNOWN mean-overflow value=%s count=%s: Mean() = %g\n" v count mean
            else report_viol ["mean of the witness"] end
      | _ -> failwith "unknown case kind"
    with
    | Failure msg -> incr errs; Printf.printf "ERROR %d %s :: %s\n" (ln + 1) msg (clip 200 line)
    | Too_big -> incr errs; Printf.printf "ERROR %d number out of range :: %s\n" (ln + 1) (clip 200 line)
    | Not_found | Invalid_argument _ -> incr errs; Printf.printf "ERROR %d malformed :: %s\n" (ln + 1) (clip 200 line)
  ) lines;
  Printf.printf "SUMMARY cases=%d mismatches=%d violations=%d errors=%d quantiles=%d model_cases=%d\n"
    !n !mism !viol !errs !nq !nmodel
