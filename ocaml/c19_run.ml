(* Driver for C19 (harness/c19.go).  For every CollectJSONStream case the model
   scans the same input bytes with its own scanner, parses tokens by looking them
   up in the table of the library's parses, runs the select loop (calm schedule,
   or "k documents then the timer" for the slow-reader cases) and its result is
   compared with what the implementation returned (error flag, decoded samples,
   chunk sizes).  The oracle c19_ok_json is evaluated on the implementation's
   observation only.  For every CollectRuntime case the schedule is read off the
   observed files, the model is run on it and the files are compared; the oracle
   c19_ok_runtime is evaluated on the observation. *)
let limit = n_of_int 65536

exception Missing_token of string

let kv (toks : string list) (k : string) : string =
  let p = k ^ "=" in
  let pl = String.length p in
  match List.find_opt (fun t -> String.length t >= pl && String.sub t 0 pl = p) toks with
  | Some t -> String.sub t pl (String.length t - pl)
  | None -> failwith ("missing field " ^ k)

let hexdocs (l : doc list) : string = String.concat " " (List.map (fun d -> hex_of_bytes (enc_doc d)) l)

let parse_doc_hex (h : string) : doc option =
  match dec_doc (bytes_of_hex h) with Some (d, []) -> Some d | _ -> None

let cut s = if String.length s > 400 then String.sub s 0 400 ^ "..." else s

let string_of_srcerr = function SParse -> "parse" | STooLong -> "too-long" | SRead b -> if b then "read(eof-caused)" else "read"
let string_of_jerr = function
  | JInvalid -> "invalid-options" | JAbort -> "aborted" | JSrc k -> "source:" ^ string_of_srcerr k
  | JAdd _ -> "add-refused" | JResolve -> "resolve"

let ints_of_csv (s : string) : int list =
  if s = "" then [] else List.map int_of_string (String.split_on_char ',' s)

type jcase = {
  jid : string; jn : int; jmode : string; jflush : string; jreader : string; jrerr : bool; jinput : string;
  mutable jlines : (int * string * string) list;   (* rawlen, token hex, parse *)
  mutable jr : string list;                        (* R line tokens *)
  mutable jo : string;                             (* O hex *)
  jline : string;
}

let () =
  let path = Sys.argv.(1) in
  let ic = open_in path in
  let ncases = ref 0 and mism = ref 0 and viol = ref 0 and known = ref 0 in
  let nontriv = ref 0 and errs_no_bad = ref 0 and eof_parse = ref 0 and oks = ref 0 and rt_multi = ref 0 in
  let mismatch id what impl model =
    incr mism; Printf.printf "MISMATCH case=%s %s impl=%s model=%s\n" id what (cut impl) (cut model) in

  (* ---------------------------------------------------------------- JSON *)
  let finish_j (c : jcase) =
    incr ncases;
    let id = "J" ^ c.jid in
    let lines = List.rev c.jlines in
    let tbl : (string, pres) Hashtbl.t = Hashtbl.create 16 in
    let bad_table = ref false in
    List.iter (fun (_, tok, p) ->
        if tok <> "-" then
          let v = match p with
            | "malformed" -> PBad
            | "eoferr" -> incr eof_parse; PBad   (* the library's error is io.EOF; the source sends a new error all the same *)
            | h -> (match parse_doc_hex h with Some d -> PDoc d | None -> bad_table := true; PBad) in
          Hashtbl.replace tbl tok v) lines;
    let parse (tok : bytes) : pres =
      let h = hex_of_bytes tok in
      match Hashtbl.find_opt tbl h with Some v -> v | None -> raise (Missing_token h) in
    let olines = List.map (fun (len, _, p) ->
        (n_of_int len, (match p with "malformed" | "eoferr" | "toolong" -> None | h -> parse_doc_hex h))) lines in
    (* observation *)
    let (res_err, hang, ndocs, iter_err, docs_hex) = match c.jr with
      | e :: h :: n :: ie :: d -> (e = "1", h = "1", int_of_string n, ie = "1", d)
      | _ -> failwith "bad R line" in
    if !bad_table then mismatch id "library document not decodable by the model's BSON reader" "" "";
    if hang then begin
      incr viol; Printf.printf "VIOL case=%s CollectJSONStream did not return within the watchdog :: %s\n" id (cut c.jline) end
    else begin
      let decoded = List.map parse_doc_hex docs_hex in
      let decoded_ok = List.for_all (fun x -> x <> None) decoded && not iter_err in
      let decoded_docs = List.filter_map (fun x -> x) decoded in
      (* the model *)
      (try
         let items = x_json_items parse limit (bytes_of_hex c.jinput) c.jrerr in
         let timerish = (c.jmode = "slow" || c.jmode = "stall") in
         let all_docs = List.for_all item_is_doc items in
         let model =
           if timerish && not res_err && ndocs < List.length (List.filter item_is_doc items)
           then x_json_timer (z_of_int c.jn) items (nat_of_int ndocs)
           else x_json_calm true (z_of_int c.jn) items in
         (match model with
          | JObsOk (mdocs, msizes) ->
              if res_err then mismatch id "result" "error" ("ok " ^ hexdocs mdocs)
              else begin
                if hexdocs mdocs <> String.concat " " docs_hex || not decoded_ok then
                  mismatch id "decoded samples" (String.concat " " docs_hex) (hexdocs mdocs);
                (* chunk sizes: the model's reader on the implementation's bytes *)
                let ((cs, rerr), huge) = x_read_stream (bytes_of_hex c.jo) in
                if not huge then begin
                  let isz = join_z (List.map (fun ck -> ck.ck_npoints) cs) in
                  if rerr || isz <> join_z msizes then mismatch id "chunk sizes" (isz ^ (if rerr then " (reader error)" else "")) (join_z msizes);
                  (match x_structured_all cs with
                   | Some ds -> if hexdocs ds <> String.concat " " docs_hex then
                         mismatch id "model reader on returned bytes" (String.concat " " docs_hex) (hexdocs ds)
                   | None -> mismatch id "model reader on returned bytes" "" "panic")
                end
              end
          | JObsErr e ->
              if not res_err then mismatch id "result" ("ok " ^ String.concat " " docs_hex) ("error " ^ string_of_jerr e)
              else if all_docs && c.jrerr = false then begin
                (* every line is a JSON object, the source delivered them all, and the call failed (the model says so too:
                   the dynamic collector behind it refuses a value whose numeric type changed): known finding *)
                incr errs_no_bad;
                Printf.printf "KNOWN json-type-change case=%s error on a stream of %d well-formed lines (%s)\n" id (List.length lines) (string_of_jerr e) end
          | JObsUnreadable -> mismatch id "model output unreadable by model reader" "" ""
          | JObsStuck -> mismatch id "model schedule stuck" "" "")
       with Missing_token h ->
         mismatch id "model scanner produced a token the harness did not list" "" (cut h));
      (* the property, on the implementation's observation *)
      let ok = c19_ok_json limit olines c.jrerr (not res_err) decoded_docs && (res_err || decoded_ok) in
      if not res_err then incr oks;
      if not ok then begin
        if c19_timer_class (z_of_string c.jflush) (z_of_string c.jreader) then begin
          incr known;
          Printf.printf "KNOWN flush-timer case=%s nil error with %d of %d lines (flush_ns=%s reader_ns=%s)\n"
            id ndocs (List.length lines) c.jflush c.jreader end
        else begin
          incr viol;
          Printf.printf "VIOL case=%s c19_ok_json=false err=%b decoded=%d lines=%d :: %s\n" id res_err ndocs (List.length lines) (cut c.jline) end
      end;
      (* non-trivial: >= 3 lines and (a schema change or a bad line or a line at the limit) *)
      let nl = List.length lines in
      let badline = List.exists (line_bad limit) olines in
      let boundary = List.exists (fun (len, _, _) -> len >= 65534) lines in
      let schema_change =
        let sk = List.filter_map (fun (_, d) -> match d with Some d -> Some (hex_of_bytes (enc_doc (List.map (fun (k, _) -> (k, VNull)) (strip_doc d)))) | None -> None) olines in
        (match sk with [] -> false | h :: r -> List.exists (fun x -> x <> h) r) in
      if nl >= 3 && (badline || boundary || schema_change) then begin incr nontriv; Printf.printf "NT %s\n" id end
    end in

  (* ---------------------------------------------------------------- runtime *)
  let finish_rt (line : string) (files : (int * bool * int list option * int list) list) =
    incr ncases;
    let (lhs, rhs) = split_arrow line in
    match split_ws lhs, split_ws rhs with
    | ["RS"; id; _; _; _; _; _; _; _; _; _], [e; gen; _nf] ->
        (* the custom collector's document changes shape inside a chunk: CollectRuntime either returns an error (the
           files then hold a gap-free prefix of the samples) or delivers every sample, in order *)
        let files = List.rev files in
        let impl_err = (e = "1") in
        let obs = List.map (fun (_, derr, ids, _) ->
            (not derr, match ids with Some l -> List.map (fun i -> Some (z_of_int i)) l | None -> [None])) files in
        let g = int_of_string gen in
        if not (c19_ok_runtime obs (if impl_err || g < 0 then None else Some (z_of_int g))) then begin
          incr viol;
          Printf.printf "VIOL case=RS%s c19_ok_runtime=false err=%b generated=%s: samples are missing although no error was returned, or the files hold a gap :: %s\n"
            id impl_err gen line end
    | [_; id; fl; co; sa; sg; ss; sp; par; nc; _cancel], rhs_toks ->
        let id = "RT" ^ id in
        let o = { ro_flush = z_of_string fl; ro_collect = z_of_string co; ro_samples = z_of_string sa;
                  ro_skip_go = (sg = "1"); ro_skip_sys = (ss = "1"); ro_skip_proc = (sp = "1");
                  ro_parallel = (par = "1"); ro_ncoll = z_of_string nc } in
        (match rhs_toks with
         | ["HANG"] ->
             incr viol; Printf.printf "VIOL case=%s CollectRuntime did not return after cancellation :: %s\n" id line
         | [e; gen; nf] ->
             let files = List.rev files in
             let impl_err = (e = "1") in
             if not (rt_valid o) then begin
               if not impl_err || int_of_string nf <> 0 then
                 mismatch id "invalid option set" (Printf.sprintf "err=%s files=%s" e nf) "err=1 files=0"
             end else begin
               let counts = List.map (fun (_, _, ids, _) -> match ids with Some l -> List.length l | None -> 0) files in
               (match x_runtime o (r_schedule (List.map nat_of_int counts)) with
                | None -> mismatch id "model run stuck" "" ""
                | Some ob ->
                    let show_i (ids, sizes) = Printf.sprintf "[%s|%s]" (String.concat "," (List.map string_of_int ids)) (String.concat "," (List.map string_of_int sizes)) in
                    let impl_s = String.concat " " (List.map (fun (_, derr, ids, sizes) ->
                        if derr then "ERR" else match ids with Some l -> show_i (l, sizes) | None -> "NOID") files) in
                    let model_s = String.concat " " (List.map (fun f -> match f with
                        | None -> "ERR"
                        | Some (ids, sizes) ->
                            if List.exists (fun x -> x = None) ids then "NOID"
                            else show_i (List.map (fun x -> match x with Some z -> int_of_z z | None -> 0) ids, List.map int_of_z sizes)) ob.rb_files) in
                    if impl_s <> model_s then mismatch id "files" impl_s model_s;
                    (match ob.rb_res with
                     | Some RDone -> if impl_err then mismatch id "result" "error" "nil"
                     | _ -> mismatch id "model result" "" "not done"))
             end;
             (* the property *)
             if rt_valid o then begin
               let obs = List.map (fun (_, derr, ids, _) ->
                   (not derr, match ids with Some l -> List.map (fun i -> Some (z_of_int i)) l | None -> [None])) files in
               let g = int_of_string gen in
               let ok = c19_ok_runtime obs (if g >= 0 then Some (z_of_int g) else None) && not impl_err in
               if not ok then begin
                 incr viol;
                 Printf.printf "VIOL case=%s c19_ok_runtime=false err=%b generated=%s files=%s :: %s\n" id impl_err gen
                   (String.concat " " (List.map (fun (_, derr, ids, _) -> (if derr then "ERR" else "") ^
                       (match ids with Some l -> "[" ^ String.concat "," (List.map string_of_int l) ^ "]" | None -> "[?]")) files)) line end;
               if List.length (List.filter (fun (_, _, ids, _) -> match ids with Some (_ :: _) -> true | _ -> false) files) >= 2 then begin
                 incr rt_multi; incr nontriv; Printf.printf "NT %s\n" id end
             end
         | _ -> failwith "bad RT rhs")
    | _ -> failwith "bad RT line" in

  let cur_j : jcase option ref = ref None in
  let cur_rt : (string * (int * bool * int list option * int list) list) option ref = ref None in
  let flush_cur () =
    (match !cur_j with Some c -> finish_j c; cur_j := None | None -> ());
    (match !cur_rt with Some (l, fs) -> finish_rt l fs; cur_rt := None | None -> ()) in
  (try while true do
    let line = input_line ic in
    match split_ws (if String.length line > 200 then String.sub line 0 200 else line) with
    | "V" :: _ ->
        flush_cur (); incr ncases;
        (match split_ws line with
         | [_; a; b; f; _; e] ->
             let valid = json_valid (a = "1") (b = "1") (f = "1") in
             (* with valid options the call may still fail (file does not exist); only "invalid => error" is compared *)
             if not valid && e <> "1" then mismatch ("V" ^ a ^ b ^ f) "validation" e "1";
             if not valid && e <> "1" then begin incr viol; Printf.printf "VIOL case=V invalid options accepted :: %s\n" line end
         | _ -> failwith "bad V line")
    | "J" :: id :: _ ->
        flush_cur ();
        let toks = split_ws line in
        cur_j := Some { jid = id; jn = int_of_string (kv toks "n"); jmode = kv toks "mode"; jflush = kv toks "flush_ns";
                        jreader = kv toks "reader_ns"; jrerr = (kv toks "rerr" = "1"); jinput = kv toks "input";
                        jlines = []; jr = []; jo = ""; jline = line }
    | "L" :: _ ->
        (match !cur_j, split_ws line with
         | Some c, [_; len; tok; p] -> c.jlines <- (int_of_string len, tok, p) :: c.jlines
         | Some c, [_; len; p] -> c.jlines <- (int_of_string len, "", p) :: c.jlines   (* empty token *)
         | _ -> failwith "bad L line")
    | "R" :: _ -> (match !cur_j with Some c -> c.jr <- List.tl (split_ws line) | None -> failwith "R without J")
    | "O" :: _ -> (match !cur_j with Some c -> c.jo <- (match split_ws line with [_; h] -> h | _ -> "") | None -> failwith "O without J")
    | ("RT" | "RS") :: _ -> flush_cur (); cur_rt := Some (line, [])
    | "F" :: _ ->
        (match !cur_rt, split_ws line with
         | Some (l, fs), (_ :: idx :: derr :: rest) ->
             let toks = rest in
             let ids_s = kv toks "ids" and sizes_s = kv toks "sizes" in
             let ids = if ids_s = "" then Some [] else
                 let parts = String.split_on_char ',' ids_s in
                 if List.mem "x" parts then None else Some (List.map int_of_string parts) in
             cur_rt := Some (l, (int_of_string idx, derr = "1", ids, ints_of_csv sizes_s) :: fs)
         | _ -> failwith "bad F line")
    | "LEAK" :: n :: _ -> flush_cur (); Printf.printf "INFO leaked-source-goroutines=%s\n" n
    | [] -> ()
    | _ -> failwith ("unknown line: " ^ (if String.length line > 80 then String.sub line 0 80 else line))
  done with End_of_file -> ());
  flush_cur ();
  Printf.printf "SUMMARY cases=%d mismatches=%d violations=%d known=%d nontrivial=%d ok_results=%d err_without_bad_line=%d eof_parse_errors=%d runtime_multi_file=%d\n"
    !ncases !mism !viol !known !nontriv !oks !errs_no_bad !eof_parse !rt_multi
