(* C02 driver. Reads read.cases (harness/read.go: S / IN / RC / C / CF / CS / RS /
   RF / RM / RE / ENDS lines).  Per stream:
   - correspondence: the model reader decodes the same (normalised) stream; its chunk
     view and every view document are compared with the implementation's (MISMATCH);
   - oracle: c02_check on the IMPLEMENTATION's observations and the accepted input
     documents (VIOL; KNOWN when an input document is in the class of finding D1). *)
let hexdocs (l : doc list) : string list = List.map (fun d -> hex_of_bytes (enc_doc d)) l

let parse_docs_hex (toks : string list) : doc list option =
  let rec go l acc = match l with
    | [] -> Some (List.rev acc)
    | h :: r -> (match dec_doc (bytes_of_hex h) with
                 | Some (d, []) -> go r (d :: acc)
                 | _ -> None) in
  go toks []

(* "C <size> <nmetrics> <meta> K:<hexkey>:<v,v,...> ..." *)
let parse_chunk_line (line : string) : (cobs * int) option =
  match split_ws line with
  | "C" :: size :: nm :: _meta :: ks ->
      (try
        let series = List.map (fun k ->
          match String.split_on_char ':' k with
          | ["K"; hk; vs] -> (bytes_of_hex hk, List.map z_of_string (split_on ',' vs))
          | _ -> failwith "bad K") ks in
        Some ({ co_npoints = z_of_string size; co_series = series }, int_of_string nm)
      with _ -> None)
  | _ -> None

let cobs_string (c : cobs) : string =
  Printf.sprintf "C %s %d%s" (string_of_z c.co_npoints) (List.length c.co_series)
    (String.concat "" (List.map (fun (k, vs) ->
         Printf.sprintf " K:%s:%s" (hex_of_bytes k) (String.concat "," (List.map string_of_z vs))) c.co_series))

let rec max_path_len (ps : bytes list list) : int =
  match ps with [] -> 0 | p :: r -> max (List.length p) (max_path_len r)

let cut s = if String.length s > 400 then String.sub s 0 400 ^ "..." else s

let () =
  let path = Sys.argv.(1) in
  let ic = open_in path in
  let nstreams = ref 0 and mism = ref 0 and viol = ref 0 and known = ref 0 and oracle_runs = ref 0 in
  let nontriv = Hashtbl.create 1024 in
  let samples_total = ref 0 and chunks_total = ref 0 and metrics_total = ref 0 in
  let ln = ref 0 in
  (* per-stream state *)
  let cur_id = ref "" in
  let model_chunks = ref [] and model_err = ref false in
  let inputs : doc list option ref = ref None and in_text = ref "" in
  let err_any = ref false in
  let chunks : cobs list ref = ref [] and chunk_bad = ref false in
  let views : (string, string list) Hashtbl.t = Hashtbl.create 8 in
  let bad = ref false in
  let mismatch what impl model =
    if not !bad then begin
      bad := true; incr mism;
      Printf.printf "MISMATCH stream=%s line=%d %s impl=%s model=%s\n" !cur_id !ln what (cut impl) (cut model) end in
  let finish () =
    if !cur_id <> "" then begin
      let get k = try Hashtbl.find views k with Not_found -> [] in
      let impl_chunks = List.rev !chunks in
      (* the delivered documents, decoded by the strict BSON decoder; CF/RF and CS/RS are
         usually the same text and then decoded once *)
      let pd tag = parse_docs_hex (get tag) in
      let p_cf = pd "CF" and p_cs = pd "CS" and p_rm = pd "RM" and p_re = pd "RE" in
      let p_rf = if get "RF" = get "CF" then p_cf else pd "RF" in
      let p_rs = if get "RS" = get "CS" then p_cs else pd "RS" in
      (* ---- correspondence with the model ---- *)
      (match model_sobs !model_chunks !model_err with
       | None -> mismatch "model-predicts-panic" "" ""
       | Some m ->
           if m.so_err <> !err_any then mismatch "err" (string_of_bool !err_any) (string_of_bool m.so_err);
           let ic_s = List.map cobs_string impl_chunks and mc_s = List.map cobs_string m.so_chunks in
           if ic_s <> mc_s then mismatch "chunks" (String.concat " | " ic_s) (String.concat " | " mc_s);
           List.iter (fun (tag, md, parsed) ->
               let same = (match parsed with
                 | Some idocs ->
                     sdocs_eqb idocs md &&
                     (* byte-level tie on the first document of the view *)
                     (match md, get tag with
                      | d :: _, h :: _ -> hex_of_bytes (enc_doc d) = h
                      | [], [] -> true
                      | _ -> false)
                 | None -> false) in
               if not same then mismatch tag (String.concat " " (get tag)) (String.concat " " (hexdocs md)))
             [("CF", m.so_cf, p_cf); ("CS", m.so_cs, p_cs); ("RS", m.so_rs, p_rs); ("RF", m.so_rf, p_rf);
              ("RM", m.so_rm, p_rm); ("RE", m.so_re, p_re)]);
      (* ---- oracle on the implementation's observations ---- *)
      (match !inputs with
       | None -> ()
       | Some ins ->
           incr oracle_runs;
           samples_total := !samples_total + List.length ins;
           chunks_total := !chunks_total + List.length impl_chunks;
           List.iter (fun c -> metrics_total := !metrics_total + List.length c.co_series) impl_chunks;
           let deep = List.exists (fun d -> max_path_len (lpaths_doc [] d) >= 2) ins in
           if deep && List.length ins >= 2 then
             Hashtbl.replace nontriv (Digest.string (!in_text ^ String.concat "," (List.map (fun c -> string_of_z c.co_npoints) impl_chunks))) ();
           (match p_cf, p_cs, p_rs, p_rf, p_rm, p_re with
            | Some cf, Some cs, Some rs, Some rf, Some rm, Some re when not !chunk_bad ->
                let o = { so_err = !err_any; so_chunks = impl_chunks; so_cf = cf; so_cs = cs; so_rs = rs;
                          so_rf = rf; so_rm = rm; so_re = re } in
                let p = c02_check ins o in
                if not (parts_all p) then begin
                  let failed = String.concat "," (List.filter_map (fun (n, b) -> if b then None else Some n)
                    [("noerr", p.p_noerr); ("slices", p.p_slices); ("keys", p.p_keys); ("values", p.p_values);
                     ("types", p.p_types); ("CF", p.p_cf); ("RF", p.p_rf); ("CS", p.p_cs); ("RS", p.p_rs);
                     ("RM", p.p_rm); ("RE", p.p_re)]) in
                  (* distinct leaves whose dotted names coincide ("a.b" next to a:{b}, a repeated field name): the keys
                     cannot be distinct, which C02_keys_unique and C02_oracle_sound exclude by doc_keys_good; everything
                     else (one series per leaf, every view a projection of the same table) is still demanded *)
                  let inherent_dup = failed = "keys" &&
                    (match ins with d :: _ -> not (nodupb (spec_keys d)) | [] -> false) &&
                    List.for_all (fun c -> (match ins with d :: _ -> keys_eqb (List.map fst c.co_series) (spec_keys d) | [] -> false)) impl_chunks in
                  if inherent_dup then Printf.printf "INFO stream=%s keys coincide by construction of the input (dotted or repeated field names)\n" !cur_id
                  else if List.exists doc_has_ts_seconds ins then begin
                    incr known; Printf.printf "KNOWN ts-seconds stream=%s failed=%s\n" !cur_id failed end
                  else begin
                    incr viol;
                    let keys_impl = String.concat " | " (List.map (fun c ->
                        String.concat "," (List.map (fun (k, _) -> hex_of_bytes k) c.co_series)) impl_chunks) in
                    let keys_spec = (match ins with d :: _ -> String.concat "," (List.map hex_of_bytes (spec_keys d)) | [] -> "") in
                    Printf.printf "VIOL stream=%s line=%d c02_ok=false failed=%s inputs=%s impl_keys=%s spec_keys_first_doc=%s\n"
                      !cur_id !ln failed (cut (String.concat " " (hexdocs ins))) (cut keys_impl) (cut keys_spec) end end
            | _ ->
                incr viol;
                Printf.printf "VIOL stream=%s line=%d observation-unparsable (a delivered document is not canonical BSON, or a malformed chunk line)\n" !cur_id !ln))
    end in
  (try while true do
    let line = input_line ic in
    incr ln;
    let (lhs, rhs) = split_arrow line in
    let views_set tag skip =
      let toks = split_ws rhs in
      let rec drop n l = if n = 0 then l else (match l with _ :: r -> drop (n - 1) r | [] -> []) in
      (if skip = 2 then match toks with e :: _ -> if e <> "0" then err_any := true | [] -> ());
      Hashtbl.replace views tag (drop skip toks) in
    match split_ws lhs with
    | "S" :: id :: rest ->
        incr nstreams; cur_id := id; bad := false; inputs := None; in_text := ""; err_any := false;
        chunks := []; chunk_bad := false; Hashtbl.reset views;
        (match rest with
         | h :: _ ->
             (match dec_docs (bytes_of_hex h) with
              | Some ds -> let (cs, e) = x_read ds in model_chunks := cs; model_err := (e <> None)
              | None -> model_chunks := []; model_err := true)
         | [] -> model_chunks := []; model_err := false)
    | ["IN"] ->
        in_text := rhs;
        (match split_ws rhs with
         | _n :: toks -> inputs := parse_docs_hex toks
         | [] -> inputs := Some [])
    | ["RC"] ->
        (match split_ws rhs with
         | e :: _ -> if e <> "0" then err_any := true
         | [] -> ())
    | "C" :: _ ->
        (match parse_chunk_line line with
         | Some (c, nm) -> chunks := c :: !chunks; if nm <> List.length c.co_series then chunk_bad := true
         | None -> chunk_bad := true)
    | ["CF"] -> views_set "CF" 1
    | ["CS"] -> views_set "CS" 1
    | ["RS"] -> views_set "RS" 2
    | ["RF"] -> views_set "RF" 2
    | ["RM"] -> views_set "RM" 2
    | ["RE"] -> views_set "RE" 2
    | ["RSM"] | ["RFM"] | ["RMM"] | ["REM"] -> ()
    | ["ENDS"] -> finish (); cur_id := ""
    | [] -> ()
    | _ -> failwith ("unknown line: " ^ (if String.length line > 80 then String.sub line 0 80 else line))
  done with End_of_file -> ());
  Printf.printf "SUMMARY cases=%d mismatches=%d violations=%d known=%d nontrivial=%d oracle_runs=%d samples=%d chunks=%d series=%d\n"
    !nstreams !mism !viol !known (Hashtbl.length nontriv) !oracle_runs !samples_total !chunks_total !metrics_total
