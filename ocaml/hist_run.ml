(* Driver for collector operation histories (harness/hist.go). For every case the
   model collector of the same kind replays the operations; each observation of the
   implementation is compared with the model's. Input documents are re-encoded to
   check that the model's BSON decoder/encoder agree with the bytes exchanged.
   Output: MISMATCH / VIOL lines and a SUMMARY. *)
let kind_of_string = function
  | "base" -> KBase | "batch" -> KBatch | "dyn" -> KDyn | "stream" -> KStream | "sdyn" -> KSDyn
  | "uncb" -> KUncB | "uncj" -> KUncJ | "streamuncb" -> KStreamUncB | "streamuncj" -> KStreamUncJ
  | "sdynuncb" -> KSDynUncB | "sdynuncj" -> KSDynUncJ | s -> failwith ("kind " ^ s)

let ares_string = function
  | ROk -> "ok" | RFull -> "full" | RCount -> "count" | RTypes -> "types" | RFlush -> "flush" | RNoWriter -> "other"

let parse_doc (h : string) : doc option =
  let b = bytes_of_hex h in
  match dec_doc b with
  | Some (d, []) -> if hex_of_bytes (enc_doc d) = String.lowercase_ascii h then Some d else None
  | _ -> None

(* canonical text of an output: FTDC bytes are parsed, _id-normalised and re-encoded *)
let norm_bytes_hex (b : n list) : string =
  match dec_docs b with
  | Some ds ->
      let re = List.concat_map enc_doc ds in
      if hex_of_bytes re <> hex_of_bytes b then "NONCANONICAL:" ^ hex_of_bytes b
      else hex_of_bytes (List.concat_map enc_doc (norm_ids ds))
  | None -> "UNPARSABLE:" ^ hex_of_bytes b

let render_model_out (o : outp) : string =
  match o with
  | OFtdc ds -> "b:" ^ norm_bytes_hex (enc_stream ds)
  | ODocs (json, ds) -> (if json then "J:" else "d:") ^ String.concat "," (List.map (fun d -> hex_of_bytes (enc_doc d)) ds)

let norm_impl_out (s : string) : string =
  if String.length s >= 2 && String.sub s 0 2 = "b:" then
    "b:" ^ norm_bytes_hex (bytes_of_hex (String.sub s 2 (String.length s - 2)))
  else s

let parse_faults (s : string) : fault list =
  let s = if String.length s > 0 && s.[String.length s - 1] = '-' then String.sub s 0 (String.length s - 1) else s in
  List.map (fun t -> if t = "n" then FNone else if t = "e" then FError
             else FShort (nat_of_int (int_of_string (String.sub t 1 (String.length t - 1)))))
    (split_on ',' s)

let () =
  let path = Sys.argv.(1) in
  let ic = open_in path in
  let ncases = ref 0 and nops = ref 0 and mism = ref 0 and viol = ref 0 in
  let oracle = ref (if Array.length Sys.argv > 2 then Sys.argv.(2) else "none") in
  let last_r = ref "" and last_info = ref "" and last_op = ref ("", "", "") in
  let total = ref [] and cap = ref Z0 and case_viol = ref false and compressing_case = ref false in
  let accepted_all_docs = ref [] in
  let prev_wsizes = ref [] in
  let case_tag = ref "-" in
  let accepted = ref [] and all_accepted = ref true and last_wd = ref None and case_kind = ref "" in
  let st = ref None in
  let case_id = ref "" in
  let json_kind = ref false in
  let sampling_long = ref false and sampling_used = ref false in
  let case_bad = ref false in
  let ln = ref 0 in
  let mismatch what impl model =
    if not !case_bad then begin
      incr mism; case_bad := true;
      Printf.printf "MISMATCH case=%s line=%d %s impl=%s model=%s\n" !case_id !ln what
        (if String.length impl > 300 then String.sub impl 0 300 ^ "..." else impl)
        (if String.length model > 300 then String.sub model 0 300 ^ "..." else model) end in
  (try while true do
    let line = input_line ic in
    incr ln;
    let (lhs, rhs) = split_arrow line in
    match split_ws lhs with
    | "CASE" :: id :: kind :: n :: wrapper :: rest ->
        (* NewSamplingCollector with a long minimum interval: the first Add goes through, every later one returns nil
           without reaching the wrapped collector (the documented policy of that wrapper) *)
        sampling_long := (wrapper = "sample1h-" || wrapper = "syncsample1h-"); sampling_used := false;
        incr ncases; case_id := id; case_bad := false;
        last_r := ""; last_info := ""; last_op := ("", "", ""); total := []; case_viol := false;
        accepted := []; all_accepted := true; last_wd := None; case_kind := kind; accepted_all_docs := []; prev_wsizes := [];
        compressing_case := List.mem kind ["base"; "batch"; "dyn"; "stream"; "sdyn"];
        cap := (if kind = "base" then zadd (z_of_string n) (z_of_int 1) else z_of_string n);
        json_kind := (String.length kind >= 4 && String.sub kind (String.length kind - 4) 4 = "uncj");
        let faults = match rest with f :: _ -> parse_faults f | [] -> [] in
        case_tag := (match rest with _ :: t :: _ -> t | _ -> "-");
        st := Some (x_new (kind_of_string kind) (z_of_string n), empty_writer faults)
    | ["END"] ->
        (if !oracle = "c08" && !case_tag = "acceptall-" && (!case_kind = "dyn" || !case_kind = "sdyn") && not !case_viol then
           match !last_wd with
           | Some wd ->
               if not (c08_ok !cap !accepted_all_docs !all_accepted wd) then begin
                 incr viol;
                 Printf.printf "VIOL case=%s c08_ok=false accepted_all=%b sizes=%s expected=%s\n" !case_id !all_accepted
                   (join_z wd.dc_sizes) (join_z (expected_sizes !cap !accepted_all_docs)) end
           | None -> ());
        st := None
    | "NOTE" :: what :: _ ->
        incr viol; Printf.printf "VIOL case=%s line=%d %s\n" !case_id !ln what
    | tag :: args ->
        (match !st with
         | None -> ()
         | Some s ->
             incr nops;
             let do_step o = let (s', ob) = x_step s o in st := Some s'; ob in
             (match tag, args with
              | ("A" | "B"), [_] when !sampling_long && !sampling_used ->
                  last_op := ("I", "", "");
                  if rhs <> "ok" then mismatch "add-skipped-by-the-sampling-wrapper" rhs "ok"
              | "A", [h] ->
                  sampling_used := true;
                  last_op := ("A", h, rhs);
                  (match parse_doc h with Some d -> accepted_all_docs := !accepted_all_docs @ [d] | None -> ());
                  all_accepted := !all_accepted && rhs = "ok";
                  (match parse_doc h with
                   | None -> mismatch "input-doc-unparsable-by-model" h ""
                   | Some d ->
                       (match do_step (OAdd (d, Z0)) with
                        | BAdd r ->
                            (* the implementation's rejection kinds are recognised by their message text (harness addClass);
                               an unrecognised wording ("other") is accepted as any rejection the model predicts, so that a
                               reworded error message is not reported as a difference *)
                            let reworded = rhs = "other" && (match r with ROk -> false | _ -> true) in
                            if ares_string r <> rhs && not reworded then mismatch "add" rhs (ares_string r)
                        | _ -> ()))
              | "B", [_] -> (* unreadable input: rejected, state unchanged *)
                  sampling_used := true;
                  last_op := ("B", "", rhs);
                  (match do_step OAddBad with
                   | BAdd r -> let m = (match r with RFlush -> "flush" | _ -> "other") in
                       (* a refusal is a refusal, whichever test of the collector the unreadable input failed first; what
                          must agree is that it was refused and whether a flush was attempted and failed *)
                       if rhs = "ok" || ((rhs = "flush") <> (m = "flush")) then mismatch "add-unreadable" rhs m
                   | _ -> ())
              | ("R" | "r"), [] ->
                  last_r := rhs;
                  (match do_step OResolve with
                   | BResolve None -> if rhs <> "none" then mismatch "resolve" rhs "none"
                   | BResolve (Some o) ->
                       let m = render_model_out o in
                       if String.length m > 0 && m.[0] = 'J' then
                         (if not (String.length rhs > 2 && String.sub rhs 0 2 = "j:") then mismatch "resolve-flavour" rhs m)
                       else if norm_impl_out rhs <> m then mismatch "resolve" (norm_impl_out rhs) m
                   | _ -> ())
              | "X", [] -> last_op := ("X", "", ""); ignore (do_step OReset)
              | "F", [] ->
                  last_op := ("F", "", rhs);
                  (match do_step OFlush with
                   | BFlush ok -> if (if ok then "ok" else "err") <> rhs then mismatch "flush" rhs (if ok then "ok" else "err")
                   | _ -> ())
              | "M", [h] ->
                  last_op := ("M", h, rhs);
                  (match parse_doc h with
                   | None -> mismatch "meta-doc-unparsable-by-model" h ""
                   | Some d -> ignore (do_step (OSetMeta (Some d))); if rhs <> "ok" then mismatch "setmeta" rhs "ok")
              | "N", [] ->
                  (* SetMetadata with a value that cannot be read as a document: refused, nothing changes *)
                  last_op := ("N", "", rhs);
                  if rhs = "ok" then mismatch "setmeta-unreadable" rhs "err"
              | ("I" | "i"), [] ->
                  (match split_ws rhs with [_; sc] -> last_info := sc | _ -> ());
                  (match do_step OInfo with
                   | BInfo (m, sc) ->
                       let ms = string_of_z m ^ " " ^ string_of_z sc in
                       if ms <> rhs then mismatch "info" rhs ms
                   | _ -> ())
              | "W", [] ->
                  let (_, w) = s in
                  let render_rec r = match r with
                    | WFull o -> render_model_out o
                    | WPart (_, _) -> "b:PART:" ^ hex_of_bytes (wrec_bytes r) in
                  let mw = List.map render_rec w.w_log in
                  let iw = match split_ws rhs with _calls :: l -> List.map norm_impl_out l | [] -> [] in
                  let mw' = List.map (fun m -> if String.length m > 0 && m.[0] = 'J' then "J" else m) mw in
                  let iw' = List.map (fun m -> if String.length m > 1 && String.sub m 0 2 = "j:" then "J" else m) iw in
                  if mw' <> iw' then mismatch "writer-log" (String.concat " " iw') (String.concat " " mw');
                  if !oracle <> "none" && !compressing_case then begin
                    (* decode the implementation's own outputs with the model reader *)
                    let dec_impl (outs : string list) : decoded option =
                      let decode_ftdc = x_decode_ftdc in
                      let docs = List.concat_map (fun o ->
                          if String.length o > 2 && String.sub o 0 2 = "b:" then
                            (match dec_docs (bytes_of_hex (String.sub o 2 (String.length o - 2))) with
                             | Some ds -> ds | None -> raise Exit)
                          else raise Exit) outs in
                      decode_ftdc docs in
                    let impl_w = match split_ws rhs with _ :: l -> l | [] -> [] in
                    let wd = (try dec_impl impl_w with Exit -> None) in
                    let rd = if !last_r = "none" || !last_r = "" then Some { dc_docs = []; dc_sizes = []; dc_metas = [] }
                      else (try dec_impl [!last_r] with Exit -> None) in
                    (match wd, rd with
                     | Some wd, Some rd ->
                         let (opn, h, res) = !last_op in
                         let (k, addok, d) = match opn with
                           | "A" -> (KAdd, res = "ok", (match parse_doc h with Some d -> d | None -> []))
                           | "B" -> (KAdd, false, [])
                           | "X" -> (KReset, false, []) | "F" -> (KFlush, false, []) | "M" -> (KSetMeta, false, [])
                           | _ -> (KInfo, false, []) in
                         if opn = "A" && res = "ok" then accepted := !accepted @ [d];
                         if opn = "X" then accepted := [];
                         let (total', ok) = c07_step !cap !total k addok d wd rd (z_of_string (if !last_info = "" then "0" else !last_info)) in
                         total := total';
                         (* only the last chunk may hold fewer *)
                         let nz = (match !cap with c -> if !case_kind = "base" then zadd c (z_of_int (-1)) else c) in
                         let prev_w = !prev_wsizes in
                         let new_w = (let rec dropn l k = if k = 0 then l else match l with [] -> [] | _ :: r -> dropn r (k-1) in
                                      dropn wd.dc_sizes (List.length prev_w)) in
                         let sizes_ok =
                           (if !case_kind = "batch" then all_but_last_full nz rd.dc_sizes else true)
                           && (if !case_kind = "stream" && (opn = "A" || opn = "B") then all_full nz new_w else true) in
                         prev_wsizes := wd.dc_sizes;
                         if not sizes_ok && not !case_viol then begin
                           case_viol := true; incr viol;
                           Printf.printf "VIOL case=%s line=%d c07 chunk sizes: a chunk that is not the last holds fewer than %s samples after op %s: resolve=%s new-writer-records=%s\n"
                             !case_id !ln (string_of_z nz) opn (join_z rd.dc_sizes) (join_z new_w) end;
                         if not ok && not !case_viol && !case_tag = "renamed-" then begin
                           (* known finding C07-same-types-other-keys: fixed histories in which a collector that is not
                              schema-aware is given a document with the metric types of its chunk and other key names *)
                           case_viol := true;
                           Printf.printf "KNOWN c07-renamed case=%s line=%d c07_ok=false after op %s (the sample decodes under the chunk's key names)\n" !case_id !ln opn end;
                         if not ok && not !case_viol then begin
                           case_viol := true; incr viol;
                           Printf.printf "VIOL case=%s line=%d c07_ok=false after op %s: decoded(writer)=%d docs, decoded(resolve)=%d docs, expected total=%d, info=%s sizes=%s cap=%s\n"
                             !case_id !ln opn (List.length wd.dc_docs) (List.length rd.dc_docs) (List.length total') !last_info
                             (join_z (wd.dc_sizes @ rd.dc_sizes)) (string_of_z !cap) end;
                         last_wd := Some wd;
                         last_op := ("-", "", "")
                     | _ ->
                         if not !case_viol then begin
                           case_viol := true; incr viol;
                           Printf.printf "VIOL case=%s line=%d implementation output not decodable\n" !case_id !ln end)
                  end
              | _ -> failwith ("bad op line: " ^ line)))
    | [] -> ()
  done with End_of_file -> ());
  Printf.printf "SUMMARY cases=%d ops=%d mismatches=%d violations=%d\n" !ncases !nops !mism !viol
