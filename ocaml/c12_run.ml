(* C12 driver: reads the case file written by the Go harness, evaluates the
   extracted model and the extracted oracle c12_ok_* on every case.
   Output, one line per case:  OK | MISMATCH <line> :: model=<...> | VIOL <line> :: <why> *)
let () =
  let path = Sys.argv.(1) in
  let lines = read_lines path in
  let n = ref 0 and mism = ref 0 and viol = ref 0 in
  List.iteri (fun ln line ->
    match split_ws line with
    | "G" :: rest ->
        incr n;
        (match zs_of_strings rest with
         | lo :: hi :: s :: obs ->
             let g = geometry lo hi s in
             if join_z g <> join_z obs then begin
               incr mism; Printf.printf "MISMATCH %d %s :: model=%s\n" (ln+1) line (join_z g) end
         | _ -> failwith "bad G line")
    | "V" :: rest0 ->
        incr n;
        let na = List.mem "NA" rest0 in
        let m0 = if na then (match rest0 with lo :: hi :: s :: v :: _ ->
                   model_obs_v (z_of_string lo) (z_of_string hi) (z_of_string s) (z_of_string v) | _ -> failwith "bad V") 
                 else { ov_rejected = false; ov_total = Z0; ov_min = Z0; ov_max = Z0; ov_q100 = Z0 } in
        (* NA = Min/Max/quantile not observed for this case: substitute the model's values *)
        let rest = if not na then rest0 else
          List.mapi (fun i x -> if x <> "NA" then x else
                       string_of_z (if i = 6 then m0.ov_min else if i = 7 then m0.ov_max else m0.ov_q100)) rest0 in
        (match zs_of_strings rest with
         | [lo; hi; s; v; rej; total; mn; mx; q100; idx; le; he; sz] ->
             let rejb = (string_of_z rej = "1") in
             let o = { ov_rejected = rejb; ov_total = total; ov_min = mn; ov_max = mx; ov_q100 = q100 } in
             if not (c12_ok_v lo hi s v o) then begin
               incr viol; Printf.printf "VIOL %d %s :: c12_ok_v=false\n" (ln+1) line end;
             let m = model_obs_v lo hi s v in
             let pf = if zltb v Z0 then [Z0;Z0;Z0;Z0] else point_fns lo hi s v in
             let ms = Printf.sprintf "%s %s %s %s %s %s" (if m.ov_rejected then "1" else "0")
                 (string_of_z m.ov_total) (string_of_z m.ov_min) (string_of_z m.ov_max) (string_of_z m.ov_q100) (join_z pf) in
             let is = Printf.sprintf "%s %s %s %s %s %s" (string_of_z rej) (string_of_z total)
                 (if rejb then "0" else string_of_z mn) (if rejb then "0" else string_of_z mx)
                 (if rejb then "0" else string_of_z q100) (join_z [idx; le; he; sz]) in
             if ms <> is then begin
               incr mism; Printf.printf "MISMATCH %d %s :: model=%s\n" (ln+1) line ms end
         | _ -> failwith "bad V line")
    | "D" :: rest ->
        incr n;
        (* D lo hi s nv v1..vn nrej total nb from to count ... *)
        (match zs_of_strings rest with
         | lo :: hi :: s :: nv :: tl ->
             let k = int_of_z nv in
             let rec take i l acc = if i = 0 then (List.rev acc, l) else
                 match l with x :: r -> take (i-1) r (x :: acc) | [] -> failwith "short D" in
             let (vs, tl) = take k tl [] in
             (match tl with
              | nrej :: total :: nb :: bl ->
                  let rec bars l acc = match l with
                    | f :: t :: c :: r -> bars r ({ b_from = f; b_to = t; b_count = c } :: acc)
                    | [] -> List.rev acc | _ -> failwith "bad bars" in
                  let ibars = bars bl [] in
                  ignore nb;
                  if not (c12_ok_seq nv nrej total ibars) then begin
                    incr viol; Printf.printf "VIOL %d %s :: c12_ok_seq=false\n" (ln+1) line end;
                  let ((mrej, mtot), mbars) = model_obs_seq lo hi s vs in
                  let show_b l = String.concat ";" (List.map (fun b -> join_z [b.b_from; b.b_to; b.b_count]) l) in
                  let ms = Printf.sprintf "%s %s %s" (string_of_z mrej) (string_of_z mtot) (show_b mbars) in
                  let is = Printf.sprintf "%s %s %s" (string_of_z nrej) (string_of_z total) (show_b ibars) in
                  if ms <> is then begin
                    incr mism; Printf.printf "MISMATCH %d %s :: model=%s\n" (ln+1) (String.sub line 0 (min 200 (String.length line))) ms end
              | _ -> failwith "bad D tail")
         | _ -> failwith "bad D line")
    | "K" :: rest ->
        incr n;
        (* K lo hi s nops (v e)* ok* total nb (from to count)* : RecordCorrectedValue calls on a fresh histogram *)
        (match zs_of_strings rest with
         | lo :: hi :: s :: nops :: tl ->
             let k = int_of_z nops in
             let rec take i l acc = if i = 0 then (List.rev acc, l) else
                 match l with x :: r -> take (i-1) r (x :: acc) | [] -> failwith "short K" in
             let (flat, tl) = take (2 * k) tl [] in
             let rec pairs l = match l with v :: e :: r -> (v, e) :: pairs r | _ -> [] in
             let ops = pairs flat in
             let (okz, tl) = take k tl [] in
             let oks = List.map (fun z -> string_of_z z = "1") okz in
             (match tl with
              | total :: _nb :: bl ->
                  let rec bars l acc = match l with
                    | f :: t :: c :: r -> bars r ({ b_from = f; b_to = t; b_count = c } :: acc)
                    | [] -> List.rev acc | _ -> failwith "bad bars" in
                  let ibars = bars bl [] in
                  if not (c12_ok_corr ops oks total ibars) then begin
                    incr viol; Printf.printf "VIOL %d %s :: c12_ok_corr=false (the total is not the number of values the accepted calls stand for, or not the sum of the bars)\n" (ln+1) line end;
                  let ((moks, mtot), mbars) = model_obs_corr lo hi s ops in
                  let show_b l = String.concat ";" (List.map (fun b -> join_z [b.b_from; b.b_to; b.b_count]) l) in
                  let show_o l = String.concat "" (List.map (fun b -> if b then "1" else "0") l) in
                  let ms = Printf.sprintf "%s %s %s" (show_o moks) (string_of_z mtot) (show_b mbars) in
                  let is = Printf.sprintf "%s %s %s" (show_o oks) (string_of_z total) (show_b ibars) in
                  if ms <> is then begin
                    incr mism; Printf.printf "MISMATCH %d %s :: model=%s\n" (ln+1) (String.sub line 0 (min 200 (String.length line))) ms end
              | _ -> failwith "bad K tail")
         | _ -> failwith "bad K line")
    | [] -> ()
    | _ -> failwith ("unknown line: " ^ line)) lines;
  Printf.printf "SUMMARY cases=%d mismatches=%d violations=%d\n" !n !mism !viol
