#!/bin/sh
# build one driver: ./build.sh <model_module_basename> <driver.ml> <outname>
# e.g. ./build.sh hdr_model c12_run.ml c12_run
set -e
cd "$(dirname "$0")"
mkdir -p gen bin
model=$1; driver=$2; out=$3
# up to date? (the binary is newer than the extracted model, the glue, the driver and this script)
if [ -x bin/$out ] && [ bin/$out -nt ../coq/$model.ml ] && [ bin/$out -nt ../coq/$model.mli ] && [ bin/$out -nt zglue.ml ] \
   && [ bin/$out -nt bglue.ml ] && [ bin/$out -nt "$driver" ] && [ bin/$out -nt build.sh ]; then
  exit 0
fi
# every driver is compiled in a directory of its own and moved into place in one step, so that checks running side by
# side neither read half-written files of each other nor execute a binary that is being rewritten
d=gen/$out.$$
mkdir -p $d
trap 'rm -rf "$PWD/$d"' EXIT
cp ../coq/$model.ml ../coq/$model.mli $d/
cp ../coq/$model.ml ../coq/$model.mli gen/
mod=$(echo "$model" | sed 's/^\(.\)/\U\1/')
{ echo "open $mod"; cat zglue.ml; cat bglue.ml; cat "$driver"; } > $d/${out}_main.ml
cp $d/${out}_main.ml gen/${out}_main.ml
here=$PWD
cd $d
ocamlfind ocamlopt -O3 -unboxed-types 2>/dev/null -w -a -package str -linkpkg $model.mli $model.ml ${out}_main.ml -o $out.new 2>/dev/null || \
ocamlfind ocamlopt -w -a -package str -linkpkg $model.mli $model.ml ${out}_main.ml -o $out.new
mv -f $out.new $here/bin/$out
