#!/bin/sh
# build one driver: ./build.sh <model_module_basename> <driver.ml> <outname>
# e.g. ./build.sh hdr_model c12_run.ml c12_run
set -e
cd "$(dirname "$0")"
mkdir -p gen bin
model=$1; driver=$2; out=$3
cp ../coq/$model.ml ../coq/$model.mli gen/
mod=$(echo "$model" | sed 's/^\(.\)/\U\1/')
{ echo "open $mod"; cat zglue.ml; cat bglue.ml; cat "$driver"; } > gen/${out}_main.ml
cd gen
ocamlfind ocamlopt -O3 -unboxed-types 2>/dev/null -w -a -package str -linkpkg $model.mli $model.ml ${out}_main.ml -o ../bin/$out 2>/dev/null || \
ocamlfind ocamlopt -w -a -package str -linkpkg $model.mli $model.ml ${out}_main.ml -o ../bin/$out
