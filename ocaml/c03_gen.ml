(* C03, decode direction: generator of spec-conformant FTDC streams.
   usage: c03_gen <seed> <tier> <outfile>
   Every stream is produced by the EXTRACTED specification encoder (Spec/FtdcSpec.v:
   spec_encode with a choice list that decides how stretches of zeros are cut into
   pairs) from a random reference document and sample table, with random encodings of
   the type field, interleaved metadata and unknown documents.  One line per stream:
     G <id> <features> <stream, trivial codec, hex> <n> <expected sample documents, hex BSON>...
   features: comma separated subset of
     split (some stretch of zeros is cut into several pairs), cross (a pair crosses a
     metric boundary), unk (unknown document), t64 / tdbl (type given as int64 / double),
     meta (metadata document), ts (reference document with non-zero timestamp seconds:
     class of the known finding D1), plain (none of the above). *)

let state = ref 0L
let next_u64 () =
  state := Int64.add !state 0x9E3779B97F4A7C15L;
  let z = !state in
  let z = Int64.mul (Int64.logxor z (Int64.shift_right_logical z 30)) 0xBF58476D1CE4E5B9L in
  let z = Int64.mul (Int64.logxor z (Int64.shift_right_logical z 27)) 0x94D049BB133111EBL in
  Int64.logxor z (Int64.shift_right_logical z 31)
let intn n = if n <= 0 then 0 else Int64.to_int (Int64.unsigned_rem (next_u64 ()) (Int64.of_int n))
let chance a b = intn b < a
let pick (a : 'a array) : 'a = a.(intn (Array.length a))

type kind = KD | KI32 | KI64 | KB | KDate | KTsT | KTsI

let date_lim = 9223372036854L

let boundary64 = [| 0L; 1L; -1L; 2L; Int64.max_int; Int64.min_int; Int64.pred Int64.max_int; Int64.succ Int64.min_int;
                    2147483648L; -2147483648L; 2147483647L; 4294967296L; 127L; 128L; 16383L; 16384L;
                    4611686018427387904L; -4611686018427387904L |]
let boundary_dbl = [| 0L; Int64.min_int; 0x7FF0000000000000L; 0xFFF0000000000000L; 0x7FF8000000000001L;
                      0x3FF0000000000000L; 1L; 0x7FEFFFFFFFFFFFFFL; -1L |]

let clamp (k : kind) (ts_class : bool) (x : int64) : int64 =
  match k with
  | KD | KI64 -> x
  | KI32 -> Int64.of_int32 (Int64.to_int32 x)
  | KB -> Int64.sub (Int64.logand x 3L) 1L   (* later samples of a boolean series: -1, 0, 1, 2 (a foreign encoder may write any value; anything but 0 is true) *)
  | KDate -> Int64.rem x date_lim
  | KTsT -> if ts_class then Int64.logand x 0xFFFFFFFFL else 0L
  | KTsI -> Int64.logand x 0xFFFFFFFFL

let random_value (k : kind) (ts_class : bool) : int64 =
  let raw = match intn 4 with
    | 0 -> next_u64 ()
    | 1 -> Int64.of_int (intn (1 lsl 20))
    | 2 -> Int64.neg (Int64.of_int (intn (1 lsl 20)))
    | _ -> if k = KD then pick boundary_dbl else pick boundary64 in
  clamp k ts_class raw

(* ---- reference documents ---- *)
let key_pool = [| "a"; "b"; "c"; "x"; "y"; "ts"; "n"; "ops"; "val"; "k0"; "long_key_name"; "_u"; "A"; "0"; "17"; "" |]
let bs = bytes_of_string

let non_metric_leaf () : value =
  match intn 9 with
  | 0 -> VString (bs (pick [| ""; "s"; "hello"; "with.dot" |]))
  | 1 -> VBinary (n_of_int (intn 6), List.init (intn 5) (fun _ -> n_of_int (intn 256)))
  | 2 -> VUndefined
  | 3 -> VObjectID (List.init 12 (fun _ -> n_of_int (intn 256)))
  | 4 -> VNull
  | 5 -> VRegex (bs "a+b", bs "i")
  | 6 -> VJavaScript (bs "f()")
  | 7 -> VMinKey
  | _ -> VDecimal128 (List.init 16 (fun _ -> n_of_int (intn 256)))

let metric_leaf (allow_ts : bool) (ts_class : bool) : value =
  let v k = z_of_i64 (random_value k ts_class) in
  match intn (if allow_ts then 8 else 7) with
  | 0 -> VDouble (v KD)
  | 1 -> VBool (chance 1 2)
  | 2 -> VDateTime (v KDate)
  | 3 -> VInt32 (v KI32)
  | 4 | 5 | 6 -> VInt64 (v KI64)
  | _ -> VTimestamp (v KTsT, v KTsI)

let rec gen_value (depth : int) (allow_ts : bool) (ts_class : bool) : value =
  let c = intn 12 in
  if c < 2 && depth < 2 then VDoc (gen_elems (depth + 1) allow_ts ts_class (intn 4))
  else if c < 3 && depth < 2 then VArr (List.init (intn 4) (fun _ -> gen_value (depth + 1) allow_ts ts_class))
  else if c < 5 then non_metric_leaf ()
  else metric_leaf allow_ts ts_class
and gen_elems depth allow_ts ts_class (n : int) : doc =
  let used = Hashtbl.create 8 in
  let rec key tries =
    let k = pick key_pool in
    let k = if tries > 20 then k ^ string_of_int tries else k in
    if Hashtbl.mem used k then key (tries + 1) else (Hashtbl.add used k (); k) in
  List.init n (fun _ -> let k = key 0 in (bs k, gen_value depth allow_ts ts_class))

let rec kinds_of (v : value) : kind list =
  match v with
  | VDouble _ -> [KD] | VInt32 _ -> [KI32] | VInt64 _ -> [KI64] | VBool _ -> [KB] | VDateTime _ -> [KDate]
  | VTimestamp _ -> [KTsT; KTsI]
  | VDoc d -> List.concat_map (fun (_, x) -> kinds_of x) d
  | VArr a -> List.concat_map kinds_of a
  | _ -> []

let i64_of_z (x : z) : int64 =
  match x with Z0 -> 0L | Zpos p -> u64_of_pos p 0 | Zneg p -> Int64.neg (u64_of_pos p 0)

(* ---- sample tables ---- *)
type mode = Constant | Mostly | Small | Random | Boundary

let next_row (mode : mode) (ts_class : bool) (kinds : kind list) (prev : int64 list) : int64 list =
  List.map2 (fun k p ->
      match mode with
      | Constant -> p
      | Mostly -> if chance 5 6 then p else clamp k ts_class (Int64.add p (Int64.of_int (intn 5 - 2)))
      | Small -> clamp k ts_class (Int64.add p (Int64.of_int (intn 3 - 1)))
      | Random -> random_value k ts_class
      | Boundary -> clamp k ts_class (if k = KD then pick boundary_dbl else pick boundary64)) kinds prev

let gen_choice () : n list =
  match intn 5 with
  | 0 -> []
  | 1 -> List.init (1 + intn 24) (fun _ -> N0)                    (* pairs of a single zero *)
  | 2 -> List.init (intn 12) (fun _ -> n_of_int (intn 4))
  | 3 -> List.init (1 + intn 3) (fun _ -> n_of_int (intn 3))      (* a few cuts, then maximal *)
  | _ -> List.init (intn 12) (fun _ -> n_of_int (intn 1000))

let dbl_one = z_of_i64 0x3FF0000000000000L
let dbl_zero = Z0
let dbl_negzero = z_of_i64 Int64.min_int
let zi (i : int) : z = z_of_int i

let gen_date () : z = z_of_i64 (Int64.rem (next_u64 ()) date_lim)

let unknown_doc () : doc =
  if intn 12 = 0 then [] else   (* the five-byte empty document: no type field, so it is skipped *)
  let tail = match intn 3 with
    | 0 -> [(bs "doc", VDoc [(bs "k", VInt32 (zi 1))])]
    | 1 -> [(bs "x", VString (bs "payload"))]
    | _ -> [] in
  let ty = match intn 10 with
    | 0 -> Some (VInt32 (zi 2)) | 1 -> Some (VInt64 (zi (-1))) | 2 -> Some (VDouble (z_of_i64 0x4000000000000000L))
    | 3 -> Some (VString (bs "1")) | 4 -> Some (VBool true) | 5 -> Some VNull | 6 -> Some (VInt32 (zi 100))
    | 7 -> Some (VDouble (z_of_i64 0x3FE0000000000000L)) | 8 -> Some (VDouble (z_of_i64 0x7FF8000000000001L))
    | _ -> None in
  [(bs "_id", VDateTime (gen_date ()))] @ (match ty with Some t -> [(bs "type", t)] | None -> []) @ tail

let () =
  let seed = Int64.of_string Sys.argv.(1) and tier = Sys.argv.(2) and path = Sys.argv.(3) in
  state := Int64.add (Int64.mul seed 0x9E3779B97F4A7C15L) 0xC03C03L;
  let nstreams = if tier = "thorough" then 30000 else 1500 in
  let oc = open_out path in
  let maxnd = if tier = "thorough" then 12 else 8 in
  for id = 1 to nstreams do
    let feats = Hashtbl.create 8 in
    let feat f = Hashtbl.replace feats f () in
    let allow_ts = chance 1 4 in
    let ts_class = allow_ts && chance 1 3 in
    let gen_chunk () : item =
      let ref_doc =
        let rec try_doc k =
          let d = gen_elems 0 allow_ts ts_class (1 + intn 4) in
          if kinds_of (VDoc d) = [] && k < 5 && chance 9 10 then try_doc (k + 1) else d in
        try_doc 0 in
      let kinds = kinds_of (VDoc ref_doc) in
      let row0 = List.map i64_of_z (spec_metrics_doc ref_doc) in
      let nd = intn (maxnd + 1) in
      let mode0 = pick [| Constant; Mostly; Mostly; Small; Random; Boundary |] in
      let rec rows k prev acc =
        if k = 0 then List.rev acc
        else
          let m = if chance 1 5 then pick [| Constant; Mostly; Small; Random; Boundary |] else mode0 in
          let r = next_row m ts_class kinds prev in rows (k - 1) r (r :: acc) in
      let rest = rows nd row0 [] in
      let restz = List.map (List.map z_of_i64) rest in
      let choice = gen_choice () in
      let ty = match intn 4 with
        | 0 | 1 -> VInt32 (zi 1)
        | 2 -> feat "t64"; VInt64 (zi 1)
        | _ -> feat "tdbl"; VDouble dbl_one in
      (* features of the delta section *)
      let nm = List.length kinds in
      let deltas = spec_deltas (nat_of_int nm) (spec_metrics_doc ref_doc :: restz) in
      let toks = spec_tokens (nat_of_int (List.length deltas)) choice deltas in
      if not (maximal_runs toks) then feat "split";
      (let pos = ref 0 in
       List.iter (fun t -> match t with
           | TVal _ -> incr pos
           | TRun k -> let len = int_of_n k + 1 in
               if nd > 0 && !pos / nd <> (!pos + len - 1) / nd then feat "cross";
               pos := !pos + len) toks);
      if spec_doc_has_ts_seconds ref_doc then feat "ts";
      IChunk (gen_date (), ty, choice, ref_doc, restz) in
    let gen_meta () : item =
      feat "meta";
      let ty = match intn 5 with
        | 0 | 1 -> VInt32 (zi 0)
        | 2 -> feat "t64"; VInt64 (zi 0)
        | 3 -> feat "tdbl"; VDouble dbl_zero
        | _ -> feat "tdbl"; VDouble dbl_negzero in
      IMeta (gen_date (), ty, [(bs "host", VString (bs "h1")); (bs "n", VInt32 (zi (intn 100)))]) in
    (* decoys: a well-formed chunk or metadata document whose type is a non-integral double (1.5, 1.25, 0.5, -0.75):
       neither 0 nor 1, so it is an unknown document; a reader that truncates the type takes it for the real thing *)
    let retype (x : int64) (d : doc) : doc =
      List.map (fun (k, v) -> if k = bs "type" then (k, VDouble (z_of_i64 x)) else (k, v)) d in
    let gen_decoy () : item =
      feat "unk"; feat "decoy";
      let src = if chance 1 2 then gen_chunk () else gen_meta () in
      let x = (match src with
          | IChunk _ -> pick [| 0x3FF8000000000000L; 0x3FF4000000000000L; 0x3FFFFFFFFFFFFFFFL |]
          | _ -> pick [| 0x3FE0000000000000L; 0xBFE8000000000000L; 0x3FEFFFFFFFFFFFFFL |]) in
      (match x_spec_encode [src] with
       | [d] -> IOther (retype x d)
       | _ -> IOther (unknown_doc ())) in
    let gen_other () : item = if chance 1 3 then gen_decoy () else (feat "unk"; IOther (unknown_doc ())) in
    let extras () : item list =
      List.concat (List.init (intn 3) (fun _ ->
          if chance 1 4 then [gen_meta ()] else if chance 1 3 then [gen_other ()] else [])) in
    let nchunks = 1 + intn 3 in
    let items = List.concat (List.init nchunks (fun _ -> let e = extras () in e @ [gen_chunk ()])) @ extras () in
    let docs = x_spec_encode items in
    let tables = item_tables items in
    (* self check of the generator against the specification's own decoder *)
    (match x_spec_decode_stream docs with
     | Some t when t = tables -> ()
     | _ -> prerr_endline ("c03_gen: generated stream " ^ string_of_int id ^ " is not accepted by the specification"); exit 2);
    List.iter (fun it -> match it with
        | IOther d -> (match spec_class d with SSkip -> () | _ -> prerr_endline "c03_gen: unknown document is not unknown"; exit 2)
        | _ -> ()) items;
    let stream = List.concat_map enc_doc docs in
    let expected = List.concat_map table_docs tables in
    let fl = Hashtbl.fold (fun k () acc -> k :: acc) feats [] in
    let fl = if fl = [] then ["plain"] else List.sort compare fl in
    Printf.fprintf oc "G %d %s %s %d%s\n" id (String.concat "," fl) (hex_of_bytes stream) (List.length expected)
      (String.concat "" (List.map (fun d -> " " ^ hex_of_bytes (enc_doc d)) expected))
  done;
  close_out oc
