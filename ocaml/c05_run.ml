(* C05 driver: for every run of harness/c05.go
   - recompute the model's prediction from the abstract input (must-have-error flag has_failureb; the fair
     execution of the LTS must agree with it) and compare with what the harness expected  -> MISMATCH
   - check every per-goroutine label sequence against the goroutine automata (accepts_local)  -> MISMATCH
   - evaluate the oracle c05_ok on the implementation's three Err() observations            -> VIOL   *)
let label_of_string = function
  | "catcher.add" -> Some L_add
  | "rd.readend" -> Some L_rd_readend | "rd.send" -> Some L_rd_send | "rd.cancelled" -> Some L_rd_cancelled
  | "rd.added" -> Some L_rd_added
  | "rc.recv" -> Some L_rc_recv | "rc.send" -> Some L_rc_send | "rc.cancelled" -> Some L_rc_cancelled
  | "rc.added" -> Some L_rc_added
  | "cw.chunk" -> Some L_cw_chunk | "cw.send" -> Some L_cw_send | "cw.aborted" -> Some L_cw_aborted
  | "cw.done" -> Some L_cw_done
  | "mw.chunk" -> Some L_mw_chunk | "mw.send" -> Some L_mw_send | "mw.aborted" -> Some L_mw_aborted
  | "ss.send" -> Some L_ss_send
  | _ -> None

let kind_of_entry = function
  | "chunks" -> KChunk | "metrics" | "structured" -> KDoc | "matrix" | "series" -> KMatrix
  | e -> failwith ("entry " ^ e)

(* "M,G3,B,O:E" *)
let input_of_string (s : string) : input =
  match String.split_on_char ':' s with
  | [items; e] ->
      let it x =
        if x = "M" then Meta else if x = "B" then BadChunk else if x = "O" then Other
        else if String.length x >= 2 && x.[0] = 'G' then
          GoodChunk (nat_of_int (int_of_string (String.sub x 1 (String.length x - 1))))
        else failwith ("item " ^ x) in
      let docs = if items = "-" then [] else List.map it (String.split_on_char ',' items) in
      { i_docs = docs; i_fin = (if e = "E" then ReadError else CleanEOF) }
  | _ -> failwith ("input " ^ s)

let kv (t : string) : string * string =
  match String.index_opt t '=' with
  | Some i -> (String.sub t 0 i, String.sub t (i + 1) (String.length t - i - 1))
  | None -> (t, "")

(* traces "a,b,c;d,e" ; returns the list of offending traces *)
let bad_traces (s : string) : string list =
  if s = "-" || s = "" then [] else
  List.filter (fun tr ->
      let ls = List.map label_of_string (List.filter (fun x -> x <> "") (String.split_on_char ',' tr)) in
      if List.exists (fun x -> x = None) ls then true
      else not (accepted_by_some_role (List.map (function Some l -> l | None -> assert false) ls)))
    (String.split_on_char ';' s)

let () =
  let lines = read_lines Sys.argv.(1) in
  let n = ref 0 and mism = ref 0 and viol = ref 0 in
  let cache = Hashtbl.create 97 in
  List.iteri (fun ln line ->
    match split_ws line with
    | "R" :: entry :: fkind :: k :: label :: occ :: rest ->
        incr n;
        let f = List.map kv rest in
        let get x = try List.assoc x f with Not_found -> failwith ("missing " ^ x) in
        let short = String.concat " " ["R"; entry; fkind; k; label; occ;
                                       "reached=" ^ get "reached"; "e1=" ^ get "e1"; "e2=" ^ get "e2"; "e3=" ^ get "e3";
                                       "expect=" ^ get "expect"; "left=" ^ get "left"; "in=" ^ get "in"] in
        let c = cfg_of (kind_of_entry entry) in
        let key = entry ^ " " ^ get "in" in
        let (must, (m_end, m_err)) =
          match Hashtbl.find_opt cache key with
          | Some v -> v
          | None -> let i = input_of_string (get "in") in
                    let v = (has_failureb i, c05_model c i) in Hashtbl.add cache key v; v in
        let why = ref [] in
        if m_err <> must || not m_end then
          why := "model: fair execution disagrees with has_failure" :: !why;
        if (get "expect" = "1") <> must then
          why := (Printf.sprintf "model predicts must-fail=%b, harness expected %s" must (get "expect")) :: !why;
        (match bad_traces (get "traces") with
         | [] -> ()
         | tr :: _ -> why := ("local trace not a path of any goroutine automaton: " ^ tr) :: !why);
        let obs = List.map (fun x -> match get x with "-1" -> None | "1" -> Some true | _ -> Some false) ["e1"; "e2"; "e3"] in
        if get "e2" = "-2" then why := "consumer did not finish (model: it reaches the end)" :: !why;
        if get "left" <> "0" then why := "goroutines left after Close (model: none)" :: !why;
        if get "e2" <> "-2" && not (c05_ok must obs) then begin
          incr viol;
          Printf.printf "VIOL %d %s :: c05_ok=false (error expected=%b, Err observations e1/e2/e3; replay: entry kind k stall-label occurrence)\n"
            (ln + 1) short must end;
        if !why <> [] then begin
          incr mism; Printf.printf "MISMATCH %d %s :: %s\n" (ln + 1) short (String.concat " | " !why) end
    | "CATCHER" :: rest ->
        incr n;
        let f = List.map kv rest in
        let gi x = nat_of_int (int_of_string (List.assoc x f)) and gb x = List.assoc x f = "1" in
        if not (c05_catcher_ok (gi "g") (gi "m") (gi "len") (gi "errors") (gb "has") (gb "resolve") (gb "monotone")) then begin
          incr viol; Printf.printf "VIOL %d %s :: c05_catcher_ok=false (concurrently added errors were not all retained)\n" (ln + 1) line end
    | [] -> ()
    | _ -> failwith ("unknown line: " ^ line)) lines;
  Printf.printf "SUMMARY cases=%d mismatches=%d violations=%d\n" !n !mism !viol
