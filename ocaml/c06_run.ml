(* C06 driver: for every run of harness/c06.go
   - model prediction (c06_model: read k items, the caller's cancel actions, goroutines run to quiescence,
     once preferring the ctx arms and once the send arms): all goroutines gone, buffered <= capacity, items read
     before = what the harness read  -> MISMATCH where model and implementation differ
   - oracle c06_ok on the implementation's observation: no goroutine left, further Next()=true (counted after
     quiescence) <= the capacity proved in C06_next_after_close (2 chunks / 100 documents / 25 matrix documents /
     100 samples for a per-chunk iterator), no watchdog expiry  -> VIOL *)
let kind_of_entry = function
  | "chunks" -> Some KChunk | "metrics" | "structured" -> Some KDoc | "matrix" | "series" -> Some KMatrix
  | "sample" | "ssample" -> None
  | e -> failwith ("entry " ^ e)

let input_of_string (s : string) : input =
  match String.split_on_char ':' s with
  | [items; e] ->
      let it x =
        if x = "M" then Meta else if x = "B" then BadChunk else if x = "O" then Other
        else if String.length x >= 2 && x.[0] = 'G' then
          GoodChunk (nat_of_int (int_of_string (String.sub x 1 (String.length x - 1))))
        else failwith ("item " ^ x) in
      let docs = if items = "-" then [] else List.map it (String.split_on_char ',' items) in
      { i_docs = docs; i_fin = (if e = "E" then ReadError else CleanEOF) }
  | _ -> failwith ("input " ^ s)

let kv (t : string) : string * string =
  match String.index_opt t '=' with
  | Some i -> (String.sub t 0 i, String.sub t (i + 1) (String.length t - i - 1))
  | None -> (t, "")

let acts_of_mode m =
  let strip suf m = let ls = String.length suf and lm = String.length m in
    if lm >= ls && String.sub m (lm - ls) ls = suf then String.sub m 0 (lm - ls) else m in
  let m = strip "@q" (strip "~" (strip "^" m)) in
  match m with
  | "close" -> [T_Close] | "cancel" -> [T_Cancel] | "both" -> [T_Close; T_Cancel] | "close2" -> [T_Close; T_Close]
  | _ -> failwith ("mode " ^ m)

let () =
  let lines = read_lines Sys.argv.(1) in
  let n = ref 0 and mism = ref 0 and viol = ref 0 in
  let cache = Hashtbl.create 997 in
  (* capacities: when the producers have gone quiet before the cancel (mode ...@q) and more items are unread than
     the pipeline can hold, exactly `capacity` items are buffered; entry -> (bound, max further seen, runs) *)
  let full = Hashtbl.create 7 in
  List.iteri (fun ln line ->
    match split_ws line with
    | "Q" :: entry :: nc :: ns :: k :: mode :: rest ->
        incr n;
        let f = List.map kv rest in
        let get x = try List.assoc x f with Not_found -> failwith ("missing " ^ x) in
        let gi x = int_of_string (get x) in
        let short = String.concat " " (["Q"; entry; nc; ns; k; mode] @
                                       List.map (fun x -> x ^ "=" ^ get x) ["stall"; "read"; "total"; "leaked"; "further"; "watchdog"; "us"]) in
        let why = ref [] in
        let bound =
          match kind_of_entry entry with
          | None -> 100   (* c_scap: the sample channel of a per-chunk iterator *)
          | Some kd ->
              let c = cfg_of kd in
              let key = String.concat " " [entry; nc; ns; k; mode] in
              let ((d1, (b1, g1)), (d2, (b2, _))) =
                match Hashtbl.find_opt cache key with
                | Some v -> v
                | None ->
                    let i = input_of_string (get "in") in
                    let acts = acts_of_mode mode in
                    let v = (c06_model c i (nat_of_int (int_of_string k)) acts true,
                             c06_model c i (nat_of_int (int_of_string k)) acts false) in
                    Hashtbl.add cache key v; v in
              let capn = int_of_nat (cap c) in
              if not (d1 && d2) then why := "model: goroutines left after cancellation" :: !why;
              if int_of_nat b1 > capn || int_of_nat b2 > capn then why := "model: more items buffered than the capacity" :: !why;
              if get "watchdog" = "0" && int_of_nat g1 <> gi "read" then
                why := Printf.sprintf "items read before cancelling: model %d, implementation %d" (int_of_nat g1) (gi "read") :: !why;
              capn in
        let lm = String.length mode in
        if lm > 2 && String.sub mode (lm - 2) 2 = "@q" && get "stall" = "-" && gi "total" - gi "read" >= bound + 8
           && get "leaked" = "0" && get "watchdog" = "0" then begin
          let (_, mx, cnt) = try Hashtbl.find full entry with Not_found -> (bound, 0, 0) in
          Hashtbl.replace full entry (bound, max mx (gi "further"), cnt + 1) end;
        if gi "read" + gi "further" > gi "total" then why := "more items delivered than the stream holds" :: !why;
        if not (c06_ok (nat_of_int (gi "leaked")) (nat_of_int (gi "further")) (nat_of_int bound) (get "watchdog" = "1")) then begin
          incr viol;
          Printf.printf "VIOL %d %s :: c06_ok=false (goroutines left=%d, further items=%d > bound %d?, watchdog=%s; replay: entry nchunks nsamples k mode stall)\n"
            (ln + 1) short (gi "leaked") (gi "further") bound (get "watchdog") end;
        if !why <> [] then begin
          incr mism; Printf.printf "MISMATCH %d %s :: %s\n" (ln + 1) short (String.concat " | " !why) end
    | "STOP" :: _ -> Printf.printf "note: %s (the harness gave up enumerating)\n" line
    | [] -> ()
    | _ -> failwith ("unknown line: " ^ line)) lines;
  Hashtbl.iter (fun entry (bound, mx, cnt) ->
      if mx <> bound then begin
        incr mism;
        Printf.printf "MISMATCH 0 capacity %s :: the model's capacity is %d, but with full buffers at most %d further items were delivered in %d runs\n"
          entry bound mx cnt end) full;
  Printf.printf "SUMMARY cases=%d mismatches=%d violations=%d\n" !n !mism !viol
