(* C16 driver: reads the run file written by `ftdcverif c16`, recomputes the model's
   prediction for every run (no blocked call, no live flusher after the closing EndTest,
   persisted counters) and evaluates the extracted oracles c16_ok_sys / c16_ok_stress on the
   IMPLEMENTATION's observations.
     MISMATCH <n> <line> :: model=...   implementation and model differ
     VIOL <n> <line> :: why             the oracle is false on the implementation's observation *)
let kv (toks : string list) : (string * string) list =
  List.filter_map (fun t -> match String.index_opt t '=' with
    | Some i -> Some (String.sub t 0 i, String.sub t (i+1) (String.length t - i - 1))
    | None -> None) toks

let csv (s : string) : z list =
  if s = "-" || s = "" then [] else List.map z_of_string (String.split_on_char ',' s)

let parse_call (t : string) : call =
  match t with
  | "B" -> Begin | "E" -> End | "T" -> EndTest | "R" -> Reset
  | _ when String.length t > 1 && t.[0] = 'I' -> Inc (z_of_string (String.sub t 1 (String.length t - 1)))
  | _ when String.length t > 1 && t.[0] = 'G' -> SetGauge (z_of_string (String.sub t 1 (String.length t - 1)))
  | _ -> failwith ("bad call token: " ^ t)

(* tail-recursive (fuel values reach 10^6) *)
let nat_big (n : int) : nat = let rec go i acc = if i <= 0 then acc else go (i - 1) (S acc) in go n O

let short (line : string) = if String.length line > 320 then String.sub line 0 320 ^ "..." else line
let bs b = if b then "1" else "0"

let () =
  let path = Sys.argv.(1) in
  let lines = read_lines path in
  let n = ref 0 and mism = ref 0 and viol = ref 0 in
  let cfg_fl = { flusher_unlocks_on_cancel = true; with_flusher = true } in
  let cfg_sync = { flusher_unlocks_on_cancel = true; with_flusher = false } in
  List.iteri (fun ln line ->
    match split_ws line with
    | "SYS" :: kind :: stall :: op :: k :: a :: b :: a2 :: b2 :: "::" :: rest ->
        incr n;
        let m = kv rest in
        let get key = try List.assoc key m with Not_found -> failwith ("missing " ^ key) in
        let at_tick = (stall = "tick") and use_reset = (op = "reset") in
        let za = z_of_string a and zb = z_of_string b and za2 = z_of_string a2 and zb2 = z_of_string b2 in
        let o = { o_blocked = (get "blocked" = "1");
                  o_live = nat_of_int (int_of_string (get "live"));
                  o_late = nat_of_int (int_of_string (get "late"));
                  o_flushers = nat_of_int (int_of_string (get "flushers"));
                  o_samples = csv (get "samples"); o_end = csv (get "end") } in
        let prog = sys_prog use_reset za zb za2 zb2 in
        let note = get "note" in
        if not (c16_ok_sys (nat_of_int 2) prog o) then begin
          incr viol;
          Printf.printf "VIOL %d %s :: c16_ok_sys=false (%s; expected EndTest samples %s)\n" (ln+1) (short line) note
            (join_z (spec_end_samples false Z0 prog)) end
        else if note = "no-exclusion" then begin
          incr viol;
          Printf.printf "VIOL %d %s :: a call entered its critical section while the flusher held the mutex\n" (ln+1) (short line) end;
        let mo = model_obs_sys cfg_fl at_tick use_reset (nat_of_int (int_of_string k)) za zb za2 zb2 in
        let show (x : sys_obs) = Printf.sprintf "blocked=%s live=%d flushers=%d samples=%s end=%s" (bs x.o_blocked)
            (int_of_nat x.o_live) (int_of_nat x.o_flushers) (join_z x.o_samples) (join_z x.o_end) in
        let harness_trouble = note = "not-stalled" || (String.length note >= 8 && String.sub note 0 8 = "harness:") in
        if show mo <> show o || harness_trouble then begin
          incr mism; Printf.printf "MISMATCH %d %s :: model: %s\n" (ln+1) (short line) (show mo) end
    | "LNG" :: kind :: _wrapped :: "::" :: rest ->
        (* one goroutine's program against an interval recorder whose interval never elapses (harness c16Long), bare or
           behind the synchronized wrapper: the systematic oracle with the number of flushers the program calls for
           (one per BeginIteration that follows the start, an EndTest or a Reset) *)
        incr n;
        let m = kv rest in
        let get key = try List.assoc key m with Not_found -> failwith ("missing " ^ key) in
        let prog = List.map parse_call (String.split_on_char ',' (get "prog")) in
        let (cycles, _) = List.fold_left (fun (c, running) call -> match call with
            | Begin -> if running then (c, true) else (c + 1, true)
            | EndTest | Reset -> (c, false)
            | _ -> (c, running)) (0, false) prog in
        let o = { o_blocked = (get "blocked" = "1");
                  o_live = nat_of_int (int_of_string (get "live"));
                  o_late = nat_of_int 0;
                  o_flushers = nat_of_int (int_of_string (get "flushers"));
                  o_samples = csv (get "end"); o_end = csv (get "end") } in
        let note = get "note" in
        if not (c16_ok_sys (nat_of_int cycles) prog o) then begin
          incr viol;
          Printf.printf "VIOL %d %s :: c16_ok_sys=false (%s; expected %d flushers, none left, EndTest samples %s)\n" (ln+1) (short line) note
            cycles (join_z (spec_end_samples false Z0 prog)) end;
        (* the transition system on the same program, round-robin: flushers left and the sum persisted by EndTest *)
        let mo = model_obs_stress cfg_fl (nat_big (8 * List.length prog + 100)) [prog] [] in
        let total = wrap64 (sumZ o.o_end) in
        if int_of_nat mo.so_live <> int_of_nat o.o_live || string_of_z mo.so_total <> string_of_z total || mo.so_blocked <> o.o_blocked
           || (String.length note >= 8 && String.sub note 0 8 = "harness:") then begin
          incr mism; Printf.printf "MISMATCH %d %s :: model: blocked=%s live=%d total=%s\n" (ln+1) (short line) (bs mo.so_blocked)
            (int_of_nat mo.so_live) (string_of_z mo.so_total) end;
        ignore kind
    | "SER" :: _inner :: _g :: "::" :: rest ->
        (* NewSynchronizedRecorder over one of the recorders: calls observed inside the wrapped recorder's collector at
           once, minus one, is the overlap; the stress oracle's overlap clause (no two calls inside at once) decides *)
        incr n;
        let m = kv rest in
        let get key = try List.assoc key m with Not_found -> failwith ("missing " ^ key) in
        if (try get "meta" with _ -> "1") = "0" then begin
          incr viol; Printf.printf "VIOL %d %s :: a call through the synchronized events collector (AddEvent or SetMetadata) did not reach the collector behind it\n" (ln+1) (short line) end
        else if get "blocked" = "1" then begin
          incr viol; Printf.printf "VIOL %d %s :: the synchronized recorder blocked for more than 20 s\n" (ln+1) (short line) end
        else begin
          let o = { so_blocked = false; so_live = nat_of_int 0; so_late = nat_of_int 0;
                    so_overlap = nat_of_int (int_of_string (get "overlap")); so_total = z_of_int 0 } in
          if not (c16_ok_stress [] (nat_of_int 0) (nat_of_int 0) o) then begin
            incr viol;
            Printf.printf "VIOL %d %s :: c16_ok_stress=false: two goroutines were inside the wrapped recorder at once\n" (ln+1) (short line) end
        end
    | "STR" :: kind :: g :: "::" :: rest ->
        incr n;
        let m = kv rest in
        let get key = try List.assoc key m with Not_found -> failwith ("missing " ^ key) in
        let blocked = (get "blocked" = "1") in
        let progs_s = get "progs" in
        let toks = if progs_s = "-" then [] else
            List.map (fun p -> if p = "" then [] else String.split_on_char ',' p) (String.split_on_char '|' progs_s) in
        (* "Q" in goroutine 0's program: the other goroutines were joined at this point *)
        let rec split_q acc l = match l with
          | [] -> (List.rev acc, []) | "Q" :: r -> (List.rev acc, r) | x :: r -> split_q (x :: acc) r in
        let (g0pre, g0post) = match toks with t0 :: _ -> split_q [] t0 | [] -> ([], []) in
        let closing = List.map parse_call g0post in
        let progs1 = match toks with _ :: rest -> List.map parse_call g0pre :: List.map (List.map parse_call) rest | [] -> [] in
        let progs = match progs1 with p0 :: rest -> (p0 @ closing) :: rest | [] -> [] in
        let incs = List.concat_map (fun p -> List.filter_map (fun c -> match c with Inc k -> Some k | _ -> None) p) progs in
        let o = { so_blocked = blocked;
                  so_live = nat_of_int (int_of_string (get "live"));
                  so_late = nat_of_int (int_of_string (get "late"));
                  so_overlap = nat_of_int (int_of_string (get "overlap"));
                  so_total = z_of_string (get "total") } in
        let cycles = nat_of_int (int_of_string (get "cycles")) and fl = nat_of_int (int_of_string (get "flushers")) in
        let note = get "note" in
        if blocked then begin
          incr viol; Printf.printf "VIOL %d %s :: a call blocked for more than 2 s (%s)\n" (ln+1) (short line) note end
        else begin
          if not (c16_ok_stress incs cycles fl o) then begin
            incr viol;
            Printf.printf "VIOL %d %s :: c16_ok_stress=false (sum of increments issued = %s)\n" (ln+1) (short line)
              (string_of_z (wrap64 (sumZ incs))) end
          else if get "mono" = "0" then begin
            incr viol;
            Printf.printf "VIOL %d %s :: a flusher sample is smaller than an earlier one of the same cycle\n" (ln+1) (short line) end;
          let ncalls = List.fold_left (fun acc p -> acc + List.length p) 0 progs in
          let cfg = if kind = "sync" then cfg_sync else cfg_fl in
          let mo = model_obs_stress cfg (nat_big (8 * ncalls + 100)) progs1 closing in
          let show (x : stress_obs) = Printf.sprintf "blocked=%s live=%d total=%s" (bs x.so_blocked)
              (int_of_nat x.so_live) (string_of_z x.so_total) in
          if show mo <> show o || (String.length note >= 8 && String.sub note 0 8 = "harness:") then begin
            incr mism; Printf.printf "MISMATCH %d %s :: model: %s\n" (ln+1) (short line) (show mo) end
        end;
        ignore g
    | "SKIP" :: _ -> ()
    | [] -> ()
    | _ -> failwith ("unknown line: " ^ short line)) lines;
  Printf.printf "SUMMARY cases=%d mismatches=%d violations=%d\n" !n !mism !viol
