(* C14 driver: reads the case file written by harness/c14.go, replays every history on
   the extracted model (MISMATCH where the implementation's observations differ from the
   model's) and applies the extracted oracles c14_ok_* to the implementation's
   observations (VIOL when false).
   Output: MISMATCH <ln> <line> :: <what> | VIOL <ln> <line> :: <why>, then SUMMARY. *)

let split_bar (line : string) : string list = Str.split_delim (Str.regexp_string " | ") line

let perf_of_zs (l : z list) : perf =
  match l with
  | [ts; id; n; ops; size; errors; dur; total; state; workers; failed] ->
      { p_ts = ts; p_id = id; p_n = n; p_ops = ops; p_size = size; p_errors = errors; p_dur = dur;
        p_total = total; p_state = state; p_workers = workers; p_failed = (string_of_z failed <> "0") }
  | _ -> failwith "bad perf"

let perf_of_string (s : string) : perf = perf_of_zs (List.map z_of_string (String.split_on_char ',' s))

let string_of_perf (p : perf) : string =
  String.concat "," (List.map string_of_z [p.p_ts; p.p_id; p.p_n; p.p_ops; p.p_size; p.p_errors; p.p_dur; p.p_total;
                                          p.p_state; p.p_workers]) ^ (if p.p_failed then ",1" else ",0")

let perfs_of_string (s : string) : perf list =
  let s = String.trim s in
  if s = "" || s = "-" then [] else List.map perf_of_string (String.split_on_char ';' s)

let string_of_perfs (l : perf list) : string = String.concat ";" (List.map string_of_perf l)

let op_of_string (s : string) : op =
  if s = "Z" then EvNil
  else if String.length s > 2 && s.[0] = 'N' then EvNew (perf_of_string (String.sub s 2 (String.length s - 2)))
  else if String.length s > 2 && s.[0] = 'A' then EvAgain (nat_of_int (int_of_string (String.sub s 2 (String.length s - 2))))
  else failwith ("bad op " ^ s)

let string_of_key (k : n list) : string =
  String.concat "" (List.map (fun b -> String.make 1 (Char.chr (int_of_n b land 255))) k)

let flat_key_names : string list = List.map string_of_key model_flat_keys

exception Bad_sample of string

(* "ts=..,id=..,counters.n=..,...,gauges.failed=true" -> perf; the keys must be exactly the
   flattened keys of the model's marshal, in order *)
let sample_of_string (s : string) : perf =
  let kvs = List.map (fun kv -> match String.index_opt kv '=' with
      | Some i -> (String.sub kv 0 i, String.sub kv (i + 1) (String.length kv - i - 1))
      | None -> raise (Bad_sample ("no '=' in " ^ kv))) (String.split_on_char ',' s) in
  let keys = List.map fst kvs in
  if keys <> flat_key_names then
    raise (Bad_sample ("keys " ^ String.concat "," keys ^ " expected " ^ String.concat "," flat_key_names));
  let num v = (try z_of_string v with _ -> raise (Bad_sample ("not an int64: " ^ v))) in
  let is_num v = v <> "" && (match v.[0] with '0'..'9' | '-' -> true | _ -> false) in
  match List.map snd kvs with
  | [ts; id; n; ops; size; errors; dur; total; state; workers; failed] ->
      List.iter (fun v -> if not (is_num v) then raise (Bad_sample ("not an int64: " ^ v)))
        [ts; id; n; ops; size; errors; dur; total; state; workers];
      let fb = (match failed with "true" -> true | "false" -> false
                                  | v -> raise (Bad_sample ("gauges.failed is not a bool: " ^ v))) in
      { p_ts = num ts; p_id = num id; p_n = num n; p_ops = num ops; p_size = num size; p_errors = num errors;
        p_dur = num dur; p_total = num total; p_state = num state; p_workers = num workers; p_failed = fb }
  | _ -> raise (Bad_sample "wrong number of fields")

let z63 = z_of_string "9223372036854775807"

let () =
  let path = Sys.argv.(1) in
  let lines = read_lines path in
  let n = ref 0 and mism = ref 0 and viol = ref 0 in
  List.iteri (fun ln line ->
    let mismatch what = incr mism; Printf.printf "MISMATCH %d %s :: %s\n" (ln + 1) line what in
    let violation why = incr viol; Printf.printf "VIOL %d %s :: %s\n" (ln + 1) line why in
    if String.length line > 2 && line.[0] = 'H' then begin
      incr n;
      match split_bar line with
      | [hd; opss; addeds; errs; decs; finals] ->
          (* "cum@ival0", "cum@rand101", "samp@ivalmax": other constructors at parameter values where they behave like the
             collector named before the '@' (harness c14NewEvents) *)
          let base_kind k = (match String.index_opt k '@' with Some i -> String.sub k 0 i | None -> k) in
          let (kind, nsamp) = (match split_ws hd with
              | ["H"; k0; k; _; _] ->
                  (match base_kind k0 with
                   | "cum" -> (KCumulative, Z0)
                   | "samp" -> (KSampling (z_of_string k), z_of_string k)
                   | "pass" -> (KPassthrough, Z0)
                   | _ -> failwith "bad H kind")
              | _ -> failwith "bad H head") in
          (* "dyn!0,3": the wrapped collector refuses its 0th and 3rd Add call (harness c14Flaky). What the event
             collector hands over does not depend on it (the model's RWritten = "Collector.Add was called with d");
             the refused ones are missing from what is decoded and their AddEvent returns the error *)
          let failing = (match split_ws hd with
              | [_; _; _; under; _] ->
                  (match String.index_opt under '!' with
                   | Some i -> List.map int_of_string (String.split_on_char ',' (String.sub under (i + 1) (String.length under - i - 1)))
                   | None -> [])
              | _ -> []) in
          let flaky = failing <> [] in
          (* "X" (Resolve + Reset of the wrapped collector by the caller) is not an operation of the event collector's
             model: the running totals, ids and the sampling cadence go on as if nothing had happened, and what was
             taken out is part of the decoded stream *)
          (* "W:i:perf": the caller writes perf into object i and adds it again: a write on the model's heap
             (Model/EventsAlias.v caller_write) followed by EvAgain i *)
          let toks = if String.trim opss = "" || String.trim opss = "-" then []
            else List.filter (fun t -> t <> "X") (String.split_on_char ';' (String.trim opss)) in
          let parse_w t = (match String.index_from_opt t 2 ':' with
              | Some j -> (nat_of_int (int_of_string (String.sub t 2 (j - 2))), perf_of_string (String.sub t (j + 1) (String.length t - j - 1)))
              | None -> failwith ("bad W op " ^ t)) in
          let xops = List.map (fun t -> if String.length t > 2 && t.[0] = 'W' then (let (i, p) = parse_w t in (EvAgain i, Some (i, p)))
                                 else (op_of_string t, None)) toks in
          let ops = List.map fst xops in
          let has_write = List.exists (fun (_, w) -> w <> None) xops in
          let i_added = perfs_of_string addeds in
          let errs = if String.trim errs = "-" then "" else String.concat "" (String.split_on_char 'x' (String.trim errs)) in
          let (decerr, decstr) = (match String.index_opt (String.trim decs) ' ' with
              | Some i -> let d = String.trim decs in (String.sub d 0 i, String.sub d (i + 1) (String.length d - i - 1))
              | None -> (String.trim decs, "")) in
          let i_final = perfs_of_string finals in
          (* ---- the oracle on the implementation's observations ---- *)
          let why = ref [] in
          let add w = why := w :: !why in
          if decerr <> "0" then add "the written bytes do not decode (iterator error)";
          let i_written = (try Some (if String.trim decstr = "" || String.trim decstr = "-" then []
                                     else List.map sample_of_string (String.split_on_char ';' (String.trim decstr)))
                           with Bad_sample m -> add ("a written sample is not a performance event: " ^ m); None) in
          let is_nil = List.map (fun o -> match o with EvNil -> true | _ -> false) ops in
          let errflags = (try Some (List.init (String.length errs) (fun i -> match errs.[i] with
              | '0' -> false | '1' -> true | _ -> raise Exit)) with Exit -> add "Resolve failed"; None) in
          (match errflags with
           | Some f -> if not flaky && not (c14_ok_errors is_nil f) then add "c14_ok_errors=false (nil events, and only those, must be refused)"
           | None -> ());
          (match i_written with
           | Some _ when flaky -> ()   (* part of the written samples were refused by the wrapped collector: correspondence only *)
           | Some w ->
               (match kind with
                | KCumulative -> if not (c14_ok_cumulative i_added w) then add "c14_ok_cumulative=false"
                | KSampling k -> if not (c14_ok_sampling k i_added w) then add "c14_ok_sampling=false"
                | KPassthrough -> if not (c14_ok_passthrough i_added w) then add "c14_ok_passthrough=false")
           | None -> ());
          (* known finding C14-caller-write: the history re-uses an object the caller had added before, and the collector
             is one that keeps the first object as its accumulator *)
          let known_class = has_write && (match kind with KPassthrough -> false | _ -> true) in
          if !why <> [] then begin
            if known_class && List.for_all (fun w -> String.length w >= 7 && String.sub w 0 7 = "c14_ok_") !why then
              Printf.printf "KNOWN caller-write %d %s :: %s\n" (ln + 1) (if String.length line > 300 then String.sub line 0 300 else line) (String.concat "; " (List.rev !why))
            else violation (String.concat "; " (List.rev !why)) end;
          (* ---- correspondence with the model ---- *)
          (* the collectors behind "cum@ival0", "cum@rand101", "samp@ivalmax" are evaluated through their OWN model
             (Model/EventsMore.v: run_interval, run_rand) at the parameter values the harness uses, with a clock that
             stands still (the real clock is not observed; it does not go backwards and 1000 hours do not elapse during a
             run) and without coins (none is drawn at 101 percent). Props/C14.v section 11 proves that this is the trace
             of the kind named before the '@' (C14_interval_zero_is_cumulative, C14_interval_long_is_first_only,
             C14_rand_over_100_is_cumulative); the two are compared below as well *)
          let raw_kind = (match split_ws hd with _ :: k0 :: _ -> k0 | _ -> "") in
          let still = List.map (fun _ -> Z0) ops in
          let (st_k, tr_k) =
            if not has_write then model_obs_run kind ops
            else begin
              let (stf, trf) = List.fold_left (fun (st, acc) (o, w) ->
                  let (st', ob) = (match w with
                      | Some (i, p) -> step_write kind st i p
                      | None -> step kind st o) in
                  (st', ob :: acc)) (init, []) xops in
              (stf, List.rev trf) end in
          let (st, tr) = (match raw_kind with
              | "cum@ival0" -> let (ist, t) = run_interval Z0 still ops in (ist.i_base, t)
              | "samp@ivalmax" -> let (ist, t) = run_interval (z_of_string "3600000000000000") still ops in (ist.i_base, t)
              | "cum@rand101" -> run_rand (z_of_string "101") [] ops
              | _ -> (st_k, tr_k)) in
          let m_added = added_of tr in
          let calls = ref 0 in
          let refused_call () = let k = !calls in incr calls; List.mem k failing in
          let marks = List.map (fun o -> match o.o_res with
              | RWritten d -> if refused_call () then ("1", None) else ("0", Some d)
              | RRefused -> ("1", None) | RSkipped -> ("0", None) | RPanic -> ("P", None) | RNoObject -> ("?", None)) tr in
          let m_errs = String.concat "" (List.map fst marks) in
          let m_written = List.filter_map snd marks in
          let diffs = ref [] in
          if tr <> tr_k || st.s_store <> st_k.s_store || st.s_current <> st_k.s_current then
            diffs := ("the model of " ^ raw_kind ^ " (EventsMore) and the kind it is mapped to disagree") :: !diffs;
          if string_of_perfs m_added <> string_of_perfs i_added then
            diffs := ("added model=" ^ string_of_perfs m_added) :: !diffs;
          if m_errs <> errs then diffs := ("errs model=" ^ m_errs) :: !diffs;
          (match i_written with
           | Some w -> if string_of_perfs m_written <> string_of_perfs w then
                 diffs := ("written model=" ^ string_of_perfs m_written) :: !diffs
           | None -> diffs := "written: undecodable" :: !diffs);
          if string_of_perfs st.s_store <> string_of_perfs i_final then
            diffs := ("final model=" ^ string_of_perfs st.s_store) :: !diffs;
          if decerr <> "0" then diffs := "decode error" :: !diffs;
          ignore nsamp;
          if !diffs <> [] then mismatch (String.concat " ;; " (List.rev !diffs))
      | _ -> failwith ("bad H line " ^ string_of_int (ln + 1))
    end
    else if String.length line > 2 && line.[0] = 'R' then begin
      incr n;
      match split_bar line with
      | [hd; q0s; ds; bs] ->
          let f = (match split_ws hd with "R" :: r -> zs_of_strings r | _ -> failwith "bad R head") in
          let (sec, nsec, rest) = (match f with s :: ns :: r when List.length r = 10 -> (s, ns, r) | _ -> failwith "bad R fields") in
          let p = perf_of_zs (Z0 :: rest) in
          let q0 = perf_of_string (String.trim q0s) in
          let obs_of l = (match l with
              | pan :: s :: ns :: r when List.length r = 10 ->
                  (pan <> "0", z_of_string s, z_of_string ns, perf_of_zs (Z0 :: List.map z_of_string r))
              | _ -> failwith "bad R observation") in
          let (dpan, dsec, dnsec, dq) = (match split_ws ds with "D" :: r -> obs_of r | _ -> failwith "bad D") in
          let (bhex, (bpan, bsec, bnsec, bq)) = (match split_ws bs with
              | "B" :: h :: r when (match r with _ :: _ :: _ :: t -> List.length t = 10 | _ -> false) -> (h, obs_of r)
              | "B" :: r -> ("", obs_of r)
              | _ -> failwith "bad B") in
          (* oracle *)
          let why = ref [] in
          let chk tag pan s ns q =
            if pan then why := (tag ^ ": unmarshal panicked or failed") :: !why
            else if not (c14_ok_roundtrip sec nsec p s ns q) then why := (tag ^ ": c14_ok_roundtrip=false") :: !why in
          chk "MarshalDocument" dpan dsec dnsec dq;
          chk "MarshalBSON" bpan bsec bnsec bq;
          if !why <> [] then violation (String.concat "; " (List.rev !why));
          (* model *)
          let show pan s ns q = if pan then "panic" else
              Printf.sprintf "%s %s %s" (string_of_z s) (string_of_z ns) (string_of_perf { q with p_ts = Z0 }) in
          let ms = time_to_ms sec nsec in
          let m = (match model_obs_roundtrip sec nsec p q0 with
              | Some ((s', n'), q) -> show false s' n' q
              | None -> "panic") in
          let diffs = ref [] in
          if m <> show dpan dsec dnsec dq then diffs := ("D model=" ^ m) :: !diffs;
          if m <> show bpan bsec bnsec bq then diffs := ("B model=" ^ m) :: !diffs;
          let mb = hex_of_bytes (enc_doc (marshal { p with p_ts = ms })) in
          if mb <> String.lowercase_ascii bhex then diffs := ("bytes model=" ^ mb) :: !diffs;
          if !diffs <> [] then mismatch (String.concat " ;; " (List.rev !diffs))
      | _ -> failwith ("bad R line " ^ string_of_int (ln + 1))
    end
    else if String.trim line = "" then ()
    else failwith ("unknown line: " ^ line)) lines;
  ignore z63;
  Printf.printf "SUMMARY cases=%d mismatches=%d violations=%d\n" !n !mism !viol
