(* C15 driver: reads the case file written by harness/c15.go (format described there),
   recomputes the model's observations (extracted [model_obs], clock input = the harness's
   reading BEFORE each call) and compares every field that does not depend on the clock
   (MISMATCH), and evaluates the extracted oracle [c15_ok_w] on the implementation's
   observations with the before/after readings (VIOL).
   Output: MISMATCH <n> <line> :: <why> | VIOL <n> <line> :: <why> | SUMMARY ... *)

exception Bad of string

let split_chunks (line : string) : string list = Str.split_delim (Str.regexp_string " ;; ") line

let kind_of = function
  | "raw" -> KRaw | "single" -> KSingle | "grouped" -> KGrouped | "interval" -> KInterval
  | "hist" -> KHist | "histsingle" -> KHistSingle | "histgrouped" -> KHistGrouped
  | "histinterval" -> KHistInterval | s -> raise (Bad ("kind " ^ s))
let wrapper_of = function
  | "none" -> WNone | "sync" -> WSync | "shim" -> WShim | s -> raise (Bad ("wrapper " ^ s))

let zb s = z_of_string s <> Z0

(* one call with a clock reading *)
let wop_of (name : string) (args : string list) (now : z) : wop =
  let a () = match args with x :: _ -> z_of_string x | [] -> raise (Bad ("missing argument of " ^ name)) in
  match name with
  | "incit" -> Plain (IncIterations (a ())) | "incops" -> Plain (IncOperations (a ()))
  | "incerr" -> Plain (IncError (a ())) | "incsize" -> Plain (IncSize (a ()))
  | "workers" -> Plain (SetWorkers (a ())) | "state" -> Plain (SetState (a ()))
  | "failed" -> Plain (SetFailed (zb (List.hd args)))
  | "begin" -> Plain (BeginIteration now) | "end" -> Plain (EndIteration (a (), now))
  | "settime" -> Plain (SetTime (a ())) | "setid" -> Plain (SetID (a ()))
  | "setdur" -> Plain (SetDuration (a ())) | "settotal" -> Plain (SetTotalDuration (a ()))
  | "endtest" -> Plain (EndTest now) | "reset" -> Plain Reset
  | "tick" -> Plain (Tick now)
  | "sbegin" -> ShimBegin now | "send" -> ShimEnd (a (), now)
  | s -> raise (Bad ("call " ^ s))

let parse_hist (s : string) : (z * z) list =
  match String.index_opt s '=' with
  | None -> raise (Bad ("histogram " ^ s))
  | Some i ->
      let v = String.sub s (i + 1) (String.length s - i - 1) in
      if v = "-" then []
      else if String.contains v '!' then [ (Zneg XH, Z0) ]   (* sum of counts <> TotalCount *)
      else List.map (fun ic -> match String.split_on_char ':' ic with
          | [a; b] -> (z_of_string a, z_of_string b) | _ -> raise (Bad ("pair " ^ ic)))
          (String.split_on_char ',' v)

let zero_pt = { op_ts = Z0; op_id = Z0; op_n = Z0; op_ops = Z0; op_size = Z0; op_errs = Z0; op_dur = Z0;
                op_total = Z0; op_hn = []; op_hops = []; op_hsize = []; op_herrs = []; op_hdur = [];
                op_htotal = []; op_g = { g_state = Z0; g_workers = Z0; g_failed = false } }

(* observation tokens of one call -> oout *)
let rec parse_obs (toks : string list) (pts : opoint list) (ret : err list option) : oout =
  match toks with
  | [] -> { oo_persisted = List.rev pts; oo_ret = ret }
  | "-" :: r -> parse_obs r pts ret
  | "P" :: ts :: id :: n :: ops :: size :: errs :: dur :: total :: st :: wk :: fl :: r ->
      let p = { zero_pt with op_ts = z_of_string ts; op_id = z_of_string id; op_n = z_of_string n;
                op_ops = z_of_string ops; op_size = z_of_string size; op_errs = z_of_string errs;
                op_dur = z_of_string dur; op_total = z_of_string total;
                op_g = { g_state = z_of_string st; g_workers = z_of_string wk; g_failed = zb fl } } in
      parse_obs r (p :: pts) ret
  | "H" :: ts :: id :: st :: wk :: fl :: hn :: hops :: hsize :: herrs :: hdur :: htotal :: r ->
      let p = { zero_pt with op_ts = z_of_string ts; op_id = z_of_string id;
                op_g = { g_state = z_of_string st; g_workers = z_of_string wk; g_failed = zb fl };
                op_hn = parse_hist hn; op_hops = parse_hist hops; op_hsize = parse_hist hsize;
                op_herrs = parse_hist herrs; op_hdur = parse_hist hdur; op_htotal = parse_hist htotal } in
      parse_obs r (p :: pts) ret
  | "R" :: n :: r ->
      let k = int_of_string n in
      let rec take i l acc = if i = 0 then (List.rev acc, l) else
          match l with x :: t -> take (i - 1) t (x :: acc) | [] -> raise (Bad "short error list") in
      let (es, rest) = take k r [] in
      let e_of s =
        if String.length s > 2 && s.[0] = 'A' && s.[1] = ':' then ErrAdd (z_of_string (String.sub s 2 (String.length s - 2)))
        else if String.length s > 2 && s.[0] = 'R' && s.[1] = ':' then ErrRec (z_of_string (String.sub s 2 (String.length s - 2)))
        else ErrAdd (Zneg XH) (* unknown message: matches nothing the policy can produce *) in
      parse_obs rest pts (Some (List.map e_of es))
  | t :: _ -> raise (Bad ("observation token " ^ t))

type case = { w : wrapper; k : kind; iv : z; l0b : z; fl : z list;
              hb : wop list; ha : wop list; obs : oout list; tm : timers }

let parse_case (line : string) : case =
  match split_chunks line with
  | [] -> raise (Bad "empty")
  | hd :: chunks ->
      (match split_ws hd with
       | "C" :: _id :: w :: k :: iv :: l0b :: _l0a :: "F" :: _n :: fl ->
           let hb = ref [] and ha = ref [] and obs = ref [] and tm = ref { t_reset = Z0; t_start = Z0; t_stop = Z0 } in
           List.iter (fun ch ->
               match split_ws ch with
               | [ "T"; a; b; c ] -> tm := { t_reset = z_of_string a; t_start = z_of_string b; t_stop = z_of_string c }
               | name :: rest ->
                   let rec cut l acc = match l with
                     | "@" :: b :: a :: ">" :: o -> (List.rev acc, z_of_string b, z_of_string a, o)
                     | x :: t -> cut t (x :: acc) | [] -> raise (Bad ("no readings in " ^ ch)) in
                   let (args, b, a, o) = cut rest [] in
                   hb := wop_of name args b :: !hb; ha := wop_of name args a :: !ha;
                   obs := parse_obs o [] None :: !obs
               | [] -> ()) chunks;
           { w = wrapper_of w; k = kind_of k; iv = z_of_string iv; l0b = z_of_string l0b; fl = zs_of_strings fl;
             hb = List.rev !hb; ha = List.rev !ha; obs = List.rev !obs; tm = !tm }
       | _ -> raise (Bad "header"))

(* ---- printing (for the explanations) ---- *)
let show_pairs l = if l = [] then "-" else String.concat "," (List.map (fun (i, c) -> string_of_z i ^ ":" ^ string_of_z c) l)
let show_g g = Printf.sprintf "%s %s %d" (string_of_z g.g_state) (string_of_z g.g_workers) (if g.g_failed then 1 else 0)
(* the fields compared exactly between model and implementation: everything except the
   timestamp, the Total timer (scalar) and the cells of the Total histogram (its total count is compared) *)
let total_count l = List.fold_left (fun a (_, c) -> zadd a c) Z0 l
let show_exact (p : opoint) : string =
  Printf.sprintf "id=%s n=%s ops=%s size=%s errs=%s dur=%s g=%s hn=%s hops=%s hsize=%s herrs=%s hdur=%s #htotal=%s"
    (string_of_z p.op_id) (string_of_z p.op_n) (string_of_z p.op_ops) (string_of_z p.op_size) (string_of_z p.op_errs)
    (string_of_z p.op_dur) (show_g p.op_g) (show_pairs p.op_hn) (show_pairs p.op_hops) (show_pairs p.op_hsize)
    (show_pairs p.op_herrs) (show_pairs p.op_hdur) (string_of_z (total_count p.op_htotal))
let show_err = function ErrAdd k -> "A:" ^ string_of_z k | ErrRec v -> "R:" ^ string_of_z v
let show_ret = function None -> "" | Some l -> " R[" ^ String.concat " " (List.map show_err l) ^ "]"
let show_out (o : oout) : string =
  (if o.oo_persisted = [] then "-" else String.concat " | " (List.map show_exact o.oo_persisted)) ^ show_ret o.oo_ret
let show_full (p : opoint) : string =
  Printf.sprintf "ts=%s total=%s htotal=%s %s" (string_of_z p.op_ts) (string_of_z p.op_total) (show_pairs p.op_htotal) (show_exact p)

let clip s = s

let () =
  let path = Sys.argv.(1) in
  let verbose = Array.length Sys.argv > 2 && Sys.argv.(2) = "-v" in
  let lines = read_lines path in
  let n = ref 0 and mism = ref 0 and viol = ref 0 and persisted = ref 0 and endtests = ref 0 and skipped = ref 0 in
  List.iteri (fun ln line ->
      (* "S ...": a tick case in which the flusher did not show up in time; nothing was observed *)
      if String.length line > 1 && line.[0] = 'S' && line.[1] = ' ' then incr skipped
      else if String.trim line <> "" then begin
        incr n;
        match (try Ok (parse_case line) with Bad m -> Error m | Failure m -> Error m | Not_found -> Error "parse") with
        | Error m ->
            (* the harness could not read what the recorder handed to the collector, or crashed *)
            incr viol; Printf.printf "VIOL %d %s :: unreadable observation (%s)\n" (ln + 1) (clip line) m
        | Ok c ->
            let (mouts, mtm) = model_obs c.w c.k c.iv c.l0b c.fl c.hb in
            List.iter (fun o -> if o.oo_persisted <> [] then incr persisted; if o.oo_ret <> None then incr endtests) c.obs;
            (* 1. correspondence model <-> implementation *)
            let why = ref "" in
            if List.length mouts <> List.length c.obs then why := "number of calls"
            else begin
              List.iteri (fun i (m, o) ->
                  if !why = "" && show_out m <> show_out o then
                    why := Printf.sprintf "call %d: impl {%s} model {%s}" i (show_out o) (show_out m))
                (List.combine mouts c.obs);
              if !why = "" && (mtm.t_reset, mtm.t_start, mtm.t_stop) <> (c.tm.t_reset, c.tm.t_start, c.tm.t_stop) then
                why := Printf.sprintf "timer calls: model %s %s %s" (string_of_z mtm.t_reset) (string_of_z mtm.t_start) (string_of_z mtm.t_stop)
            end;
            if !why <> "" then begin
              incr mism; Printf.printf "MISMATCH %d %s :: %s\n" (ln + 1) (clip line) !why end;
            (* 2. the oracle on the implementation's observations *)
            if not (c15_ok_w c.w c.k c.iv c.l0b c.fl c.hb c.ha c.obs c.tm) then begin
              incr viol;
              (* explanation: first call at which the policy (before-readings) and the observation differ *)
              let sp = List.map observe_out (spec_outs c.k c.iv c.l0b (fun k -> List.exists (fun x -> zeqb x k) c.fl) (erase c.w c.hb)) in
              let expl = ref "clock-derived field out of bounds or timers" in
              (try List.iteri (fun i (s, o) ->
                   if show_out s <> show_out o then begin
                     expl := Printf.sprintf "call %d: impl {%s} policy {%s}" i (show_out o) (show_out s); raise Exit end)
                   (List.combine sp c.obs) with Exit -> () | Invalid_argument _ -> expl := "number of calls");
              if verbose then
                List.iteri (fun i o -> List.iter (fun p -> Printf.printf "  obs %d: %s\n" i (show_full p)) o.oo_persisted) c.obs;
              Printf.printf "VIOL %d %s :: c15_ok_w=false; %s\n" (ln + 1) (clip line) !expl end
      end) lines;
  Printf.printf "SUMMARY cases=%d mismatches=%d violations=%d persisted_points=%d endtests=%d skipped=%d\n" !n !mism !viol !persisted !endtests !skipped
