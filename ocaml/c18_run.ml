(* Driver for C18 (harness/c18.go): per case the model reads the same source
   stream, recomputes WriteCSV / DumpCSV / ConvertFromCSV + ReadChunks and every
   difference to the implementation's observation is a MISMATCH; the oracles of
   Model/CsvOk.v are evaluated on the implementation's own outputs (VIOL, or
   KNOWN <class> for the documented classes). *)
let unhex (s : string) : n list = if s = "-" then [] else bytes_of_hex s

let chunk_line (c : chunk) : string =
  let ms = c.ck_metrics in
  Printf.sprintf "C %s %d%s" (string_of_z c.ck_npoints) (List.length ms)
    (String.concat "" (List.map (fun (m, vs) ->
         let k = metric_key m in
         Printf.sprintf " K:%s:%s" (if k = [] then "-" else hex_of_bytes k)
           (String.concat "," (List.map string_of_z vs))) ms))

(* "C npoints nmetrics K:hexkey:v,v ..." -> (keys, rows) as observed *)
let parse_chunk_line (l : string) : n list list * z list list =
  match split_ws l with
  | "C" :: np :: _nm :: ks ->
      let cols = List.map (fun t ->
          match String.split_on_char ':' t with
          | ["K"; k; vs] -> (unhex k, List.map z_of_string (split_on ',' vs))
          | _ -> failwith ("bad K token " ^ t)) ks in
      let n = int_of_string np in
      let rows = List.init n (fun i -> List.map (fun (_, vs) -> try List.nth vs i with _ -> Z0) cols) in
      (List.map fst cols, rows)
  | _ -> failwith ("bad chunk line " ^ l)

let cut s = if String.length s > 400 then String.sub s 0 400 ^ "..." else s
let b2s b = if b then "1" else "0"

let is_meta (k : n list) : bool =
  List.exists (fun b -> let i = int_of_n b in i = 44 || i = 34 || i = 10 || i = 13) k
  || (match k with b :: _ -> int_of_n b = 32 | [] -> true)

let extreme (z : z) : bool =
  match z with
  | Zneg _ -> true
  | Zpos p -> pos_bits p > 62
  | Z0 -> false

let () =
  let path = Sys.argv.(1) in
  let ic = open_in path in
  let ncases = ref 0 and mism = ref 0 and viol = ref 0 and known = ref 0 and skipped = ref 0 in
  let nontriv = ref 0 and rt_cases = ref 0 and ln = ref 0 in
  let cur_id = ref "" and cur_tag = ref "" in
  let chunks : chunk list ref = ref [] in
  let src_ok = ref true in
  let text : n list ref = ref [] in
  let bad = ref false in
  (* chunk lines still expected, what they belong to, and what to do when they are complete *)
  let pending : string list ref = ref [] in
  let pending_what = ref "" in
  let got : string list ref = ref [] in
  let expect_n = ref 0 in
  let on_done : (string list -> unit) ref = ref (fun _ -> ()) in
  let mismatch what impl model =
    if not !bad then begin
      bad := true; incr mism;
      Printf.printf "MISMATCH case=%s tag=%s line=%d %s impl=%s model=%s\n" !cur_id !cur_tag !ln what (cut impl) (cut model) end in
  let verdict (agrees : bool) (okv : bool) (what : string) (detail : string) =
    if not okv then begin
      let cls =
        if not agrees then None
        else if class_lone_empty_key !chunks then Some "lone-empty-key"
        else if class_key_crlf !chunks then Some "key-crlf"
        else None in
      match cls with
      | Some c -> incr known; Printf.printf "KNOWN %s case=%s oracle=%s %s\n" c !cur_id what (cut detail)
      | None -> incr viol; Printf.printf "VIOL case=%s tag=%s line=%d oracle=%s %s\n" !cur_id !cur_tag !ln what (cut detail)
    end in
  let start_chunks what n (model_lines : string list) (k : string list -> unit) =
    pending := model_lines; pending_what := what; got := []; expect_n := n; on_done := k;
    if n = 0 then begin
      (if model_lines <> [] then mismatch (what ^ "-count") "0" (string_of_int (List.length model_lines)));
      k [] end in
  (try while true do
    let line = input_line ic in
    incr ln;
    let (lhs, rhs) = split_arrow line in
    match split_ws lhs with
    | ["CASE"; id; tag] ->
        incr ncases; cur_id := id; cur_tag := tag; bad := false; chunks := []; src_ok := true; text := [];
        pending := []; expect_n := 0
    | ["S"; h] ->
        let ((cs, e), huge) = x_read_stream (unhex h) in
        chunks := cs; src_ok := not e;
        if huge then begin bad := true; incr skipped end;
        let nt = List.length cs >= 2
                 || List.exists (fun c -> List.exists is_meta (field_names c)) cs
                 || List.exists (fun r -> List.exists extreme r) (int_rows cs) in
        if nt then begin incr nontriv; Printf.printf "NT %s\n" !cur_id end
    | ["T"; h] -> text := unhex h; chunks := []
    | ["SRC"] ->
        (match split_ws rhs with
         | [e; n] ->
             if e <> b2s (not !src_ok) then mismatch "src-err" e (b2s (not !src_ok));
             let ml = List.map chunk_line !chunks in
             if int_of_string n <> List.length ml then mismatch "src-count" n (string_of_int (List.length ml));
             start_chunks "src-chunk" (int_of_string n) ml (fun _ -> ())
         | _ -> failwith "bad SRC")
    | "C" :: _ ->
        (match !pending with
         | m :: r -> pending := r; if m <> line then mismatch !pending_what line m
         | [] -> mismatch (!pending_what ^ "-extra") line "");
        got := line :: !got;
        if List.length !got = !expect_n then begin
          (if !pending <> [] then mismatch (!pending_what ^ "-missing") "" (List.hd !pending));
          !on_done (List.rev !got) end
    | ["W"] ->
        (match split_ws rhs with
         | [e; h] ->
             let t = unhex h in
             text := t;
             let (mt, me) = model_obs_write !chunks in
             if e <> b2s me then mismatch "write-err" e (b2s me)
             else if t <> mt then mismatch "write-text" h (hex_of_bytes mt);
             verdict (e = b2s me && t = mt) (c18_ok_write !chunks t (e = "1")) "c18_ok_write" (Printf.sprintf "err=%s text=%s" e h)
         | _ -> failwith "bad W")
    | ["D"] ->
        (match split_ws rhs with
         | e :: _n :: fs ->
             let mf = model_obs_dump !chunks in
             if List.exists (fun f -> String.length f > 5 && String.sub f 0 6 = "EXTRA:") fs then begin
               mismatch "dump-extra-files" (String.concat " " fs) "";
               verdict false false "c18_ok_dump" ("unexpected files " ^ String.concat " " fs) end
             else begin
               let files = List.map unhex fs in
               if e <> "0" then mismatch "dump-err" e "0"
               else if files <> mf then mismatch "dump-files" (String.concat " " fs) (String.concat " " (List.map hex_of_bytes mf));
               verdict (e = "0" && files = mf) (c18_ok_dump !chunks files (e = "1")) "c18_ok_dump" (Printf.sprintf "err=%s files=%s" e (String.concat " " fs))
             end
         | _ -> failwith "bad D")
    | ["V"; b] ->
        (* the RR line that follows carries the rest; remember the conversion error *)
        let bucket = z_of_int (int_of_string b) in
        let ((mcs, me), mre) = model_obs_convert !text bucket in
        let conv_err = String.trim rhs in
        if conv_err <> b2s me then mismatch ("convert-err bucket=" ^ b) conv_err (b2s me);
        let is_stream = (!cur_tag <> "text") in
        let cs0 = !chunks in
        on_done := (fun _ -> ());
        (* stash for RR *)
        let ml = List.map chunk_line mcs in
        pending := ml; pending_what := "reread-chunk bucket=" ^ b; got := [];
        expect_n := -1;
        on_done := (fun lines ->
            if is_stream then begin
              let back = List.map parse_chunk_line lines in
              if rt_applies cs0 then incr rt_cases;
              verdict (lines = ml && conv_err = b2s me) (c18_ok_roundtrip cs0 back (conv_err = "1") false) ("c18_ok_roundtrip bucket=" ^ b)
                (Printf.sprintf "conv_err=%s reread=%s" conv_err (String.concat " | " lines)) end);
        ignore mre
    | ["RR"; b] ->
        (match split_ws rhs with
         | [e; n] ->
             let ml = !pending in
             let k = !on_done in
             if e <> "0" then begin
               mismatch ("reread-err bucket=" ^ b) e "0";
               if !cur_tag <> "text" then verdict false (not (rt_applies !chunks)) ("c18_ok_roundtrip bucket=" ^ b) "ReadChunks reports an error on the converted stream" end;
             if int_of_string n <> List.length ml then mismatch ("reread-count bucket=" ^ b) n (string_of_int (List.length ml));
             start_chunks ("reread-chunk bucket=" ^ b) (int_of_string n) ml k
         | _ -> failwith "bad RR")
    | ["VF"; b] ->
        (match split_ws rhs with
         | [e; _w] ->
             let me = model_obs_convert_failing !text (z_of_int (int_of_string b)) (nat_of_int 64) in
             if e <> b2s me then mismatch ("convert-failing-writer bucket=" ^ b) e (b2s me)
         | _ -> failwith "bad VF")
    | ["END"] -> ()
    | [] -> ()
    | _ -> failwith ("unknown line: " ^ cut line)
  done with End_of_file -> ());
  Printf.printf "SUMMARY cases=%d mismatches=%d violations=%d known=%d nontrivial=%d roundtrip_evaluations=%d skipped_huge=%d\n"
    !ncases !mism !viol !known !nontriv !rt_cases !skipped
