(* Shared glue, textually appended after "open <Model>" in every driver.
   Conversions between OCaml native values and the extracted positive / z. *)
let rec pos_of_u64 (n : int64) : positive =
  if Int64.equal n 1L then XH
  else
    let rest = Int64.shift_right_logical n 1 in
    if Int64.equal (Int64.logand n 1L) 0L then XO (pos_of_u64 rest) else XI (pos_of_u64 rest)

(* signed 64-bit -> z *)
let z_of_i64 (n : int64) : z =
  if Int64.equal n 0L then Z0
  else if Int64.compare n 0L > 0 then Zpos (pos_of_u64 n)
  else Zneg (pos_of_u64 (Int64.neg n)) (* neg min_int = min_int = 2^63 unsigned *)

let z_of_u64 (n : int64) : z = if Int64.equal n 0L then Z0 else Zpos (pos_of_u64 n)
let z_of_int (n : int) : z = z_of_i64 (Int64.of_int n)

(* decimal string (optionally signed, magnitude < 2^64) -> z *)
let z_of_string (s : string) : z =
  let s = String.trim s in
  if String.length s > 0 && s.[0] = '-' then
    let m = Int64.of_string ("0u" ^ String.sub s 1 (String.length s - 1)) in
    (match z_of_u64 m with Z0 -> Z0 | Zpos p -> Zneg p | Zneg p -> Zneg p)
  else z_of_u64 (Int64.of_string ("0u" ^ s))

exception Too_big
let rec u64_of_pos (p : positive) (depth : int) : int64 =
  if depth > 64 then raise Too_big else
  match p with
  | XH -> 1L
  | XO q -> Int64.shift_left (u64_of_pos q (depth + 1)) 1
  | XI q -> Int64.logor (Int64.shift_left (u64_of_pos q (depth + 1)) 1) 1L

let rec pos_bits (p : positive) : int = match p with XH -> 1 | XO q | XI q -> 1 + pos_bits q

let string_of_pos (p : positive) : string =
  if pos_bits p > 64 then "BIG" ^ string_of_int (pos_bits p) else Printf.sprintf "%Lu" (u64_of_pos p 0)

let string_of_z (x : z) : string =
  match x with Z0 -> "0" | Zpos p -> string_of_pos p | Zneg p -> "-" ^ string_of_pos p

let int_of_z (x : z) : int =
  match x with Z0 -> 0 | Zpos p -> Int64.to_int (u64_of_pos p 0) | Zneg p -> - (Int64.to_int (u64_of_pos p 0))

let rec nat_of_int (n : int) : nat = if n <= 0 then O else S (nat_of_int (n - 1))
let rec int_of_nat (n : nat) : int = match n with O -> 0 | S m -> 1 + int_of_nat m

let split_ws (s : string) : string list =
  List.filter (fun x -> x <> "") (String.split_on_char ' ' (String.trim s))

let zs_of_strings l = List.map z_of_string l
let join_z l = String.concat " " (List.map string_of_z l)

let read_lines (path : string) : string list =
  let ic = open_in path in
  let rec go acc = match input_line ic with
    | l -> go (l :: acc)
    | exception End_of_file -> close_in ic; List.rev acc in
  go []
