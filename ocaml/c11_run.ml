(* C11 driver.  Two modes:
     c11_run hist <hist.cases>   collector histories (harness/hist.go format, W line after every operation)
     c11_run read <read.cases>   reader observations with per-item metadata (harness/read.go, withMeta=true)
   hist: the model collector replays every history (MISMATCH where an observation differs);
         the emit-side oracle [event_okb]/[slot_next] is evaluated on the IMPLEMENTATION's
         outputs (VIOL); a case tagged "twin" is the previous history without its SetMetadata
         operations: its outputs must equal the previous outputs with the metadata documents
         dropped ([c11_twin_ok], VIOL).
   read: the model reader predicts chunk metadata and the per-item metadata of the four
         iterator views (MISMATCH); the oracles c11_chunks_ok / c11_chunks_pos_ok /
         c11_samples_ok / c11_perchunk_ok are evaluated on what the implementation reported
         against [spec_metas] of the stream's outer documents (VIOL).
   Output: MISMATCH / VIOL / NONTRIV lines and a SUMMARY. *)

let kind_of_string = function
  | "base" -> KBase | "batch" -> KBatch | "dyn" -> KDyn | "stream" -> KStream | "sdyn" -> KSDyn
  | s -> failwith ("kind " ^ s)

let ares_string = function
  | ROk -> "ok" | RFull -> "full" | RCount -> "count" | RTypes -> "types" | RFlush -> "flush" | RNoWriter -> "other"

let parse_doc (h : string) : doc option =
  let b = bytes_of_hex h in
  match dec_doc b with
  | Some (d, []) -> if hex_of_bytes (enc_doc d) = String.lowercase_ascii h then Some d else None
  | _ -> None

let cut s = if String.length s > 400 then String.sub s 0 400 ^ "..." else s

(* canonical text of an output: FTDC bytes are parsed, _id-normalised and re-encoded *)
let norm_bytes_hex (b : n list) : string =
  match dec_docs b with
  | Some ds ->
      let re = List.concat_map enc_doc ds in
      if hex_of_bytes re <> hex_of_bytes b then "NONCANONICAL:" ^ hex_of_bytes b
      else hex_of_bytes (List.concat_map enc_doc (norm_ids ds))
  | None -> "UNPARSABLE:" ^ hex_of_bytes b

let render_model_out (o : outp) : string =
  match o with
  | OFtdc ds -> "b:" ^ norm_bytes_hex (enc_stream ds)
  | ODocs (_, ds) -> "d:" ^ String.concat "," (List.map (fun d -> hex_of_bytes (enc_doc d)) ds)

let is_b s = String.length s >= 2 && String.sub s 0 2 = "b:"
let body s = String.sub s 2 (String.length s - 2)

let norm_impl_out (s : string) : string = if is_b s then "b:" ^ norm_bytes_hex (bytes_of_hex (body s)) else s

(* the outer documents of an implementation output, if it is a whole canonical document sequence *)
let docs_of_out (s : string) : doc list option =
  if not (is_b s) then None else
  let b = bytes_of_hex (body s) in
  match dec_docs b with
  | Some ds -> if hex_of_bytes (List.concat_map enc_doc ds) = hex_of_bytes b then Some ds else None
  | None -> None

let parse_faults (s : string) : fault list =
  let s = if String.length s > 0 && s.[String.length s - 1] = '-' then String.sub s 0 (String.length s - 1) else s in
  List.map (fun t -> if t = "n" then FNone else if t = "e" then FError
             else FShort (nat_of_int (int_of_string (String.sub t 1 (String.length t - 1)))))
    (split_on ',' s)

let odoc_hex = function Some d -> hex_of_bytes (enc_doc d) | None -> "-"

let rec drop n l = if n <= 0 then l else match l with [] -> [] | _ :: r -> drop (n - 1) r

(* ------------------------------------------------------------------ histories *)
let run_hist (path : string) =
  let ic = open_in path in
  let ncases = ref 0 and nops = ref 0 and mism = ref 0 and viol = ref 0 and nontriv = ref 0 and ntwins = ref 0 in
  let st = ref None and case_id = ref "" and case_kind = ref KBase and case_bad = ref false and case_viol = ref false in
  let case_tag = ref "-" in
  let slot : doc option ref = ref None in
  let nrecs = ref 0 and ncalls = ref 0 and case_faults : fault array ref = ref [||] in
  let pend_op : op ref = ref OInfo and pend_res : outp option ref = ref None and pend_flush_ok = ref true in
  let pend_txt = ref "" in
  (* outputs of the current case / of the previous one (twin comparison) *)
  let cur_res : string list ref = ref [] and cur_w : string list ref = ref [] in
  let prev_res : string list ref = ref [] and prev_w : string list ref = ref [] and prev_id = ref "" in
  let ln = ref 0 in
  let mismatch what impl model =
    if not !case_bad then begin
      incr mism; case_bad := true;
      Printf.printf "MISMATCH case=%s line=%d %s impl=%s model=%s\n" !case_id !ln what (cut impl) (cut model) end in
  let violation what =
    if not !case_viol then begin
      case_viol := true; incr viol;
      Printf.printf "VIOL case=%s line=%d %s\n" !case_id !ln what end in
  (try while true do
    let line = input_line ic in
    incr ln;
    let (lhs, rhs) = split_arrow line in
    match split_ws lhs with
    | "CASE" :: id :: kind :: n :: _wrapper :: rest ->
        incr ncases; case_id := id; case_bad := false; case_viol := false;
        case_kind := kind_of_string kind; slot := None; nrecs := 0; ncalls := 0;
        pend_op := OInfo; pend_res := None; pend_flush_ok := true; pend_txt := "";
        cur_res := []; cur_w := [];
        let faults = match rest with f :: _ -> parse_faults f | [] -> [] in
        case_tag := (match rest with _ :: t :: _ -> t | _ -> "-");
        case_faults := Array.of_list faults;
        st := Some (x_new !case_kind (z_of_string n), empty_writer faults)
    | ["END"] ->
        (* non-triviality: >= 2 chunks and >= 1 metadata document over all outputs, or two different metadata documents *)
        let all_docs = List.concat_map (fun o -> match docs_of_out o with Some ds -> ds | None -> []) (List.rev !cur_res @ !cur_w) in
        let nchunks = List.length (List.filter is_chunkd all_docs) in
        let metas = List.sort_uniq compare (List.map (fun d -> hex_of_bytes (enc_doc (match lookup k_doc d with Some (VDoc m) -> m | _ -> d)))
                                             (List.filter is_meta all_docs)) in
        if (nchunks >= 2 && metas <> []) || List.length metas >= 2 then begin
          incr nontriv; Printf.printf "NONTRIV case=%s\n" !case_id end;
        if !case_tag = "twin-" then begin
          incr ntwins;
          let cmp what (a : string list) (b : string list) =
            if List.length a <> List.length b then
              violation (Printf.sprintf "twin: %s count differs with-metadata(case %s)=%d without=%d" what !prev_id (List.length a) (List.length b))
            else List.iteri (fun i (x, y) ->
                if x = "none" || y = "none" then
                  (if x <> y then violation (Printf.sprintf "twin: %s #%d with-metadata(case %s)=%s without=%s" what i !prev_id (cut x) (cut y)))
                else match docs_of_out x, docs_of_out y with
                  | Some dx, Some dy ->
                      if not (c11_twin_ok (norm_ids dx) (norm_ids dy)) then
                        violation (Printf.sprintf "twin: %s #%d differs beyond the metadata documents: with-metadata(case %s)=%s without=%s"
                                     what i !prev_id (cut x) (cut y))
                  | _, _ -> ()) (List.combine a b) in
          cmp "resolve-output" (List.rev !prev_res) (List.rev !cur_res);
          cmp "writer-record" !prev_w !cur_w
        end;
        prev_res := !cur_res; prev_w := !cur_w; prev_id := !case_id;
        st := None
    | "NOTE" :: what :: _ -> violation what
    | tag :: args ->
        (match !st with
         | None -> ()
         | Some s ->
             let do_step o = let (s', ob) = x_step s o in st := Some s'; ob in
             (match tag, args with
              | "A", [h] ->
                  incr nops; pend_txt := "A"; pend_res := None;
                  (match parse_doc h with
                   | None -> mismatch "input-doc-unparsable-by-model" h ""; pend_op := OInfo
                   | Some d ->
                       pend_op := OAdd (d, Z0);
                       (match do_step (OAdd (d, Z0)) with
                        | BAdd r ->
                            (* rejection kinds are recognised by message text (harness addClass); an unrecognised wording
                               ("other") is accepted as any rejection the model predicts: rewording an error is not a difference *)
                            let reworded = rhs = "other" && (match r with ROk -> false | _ -> true) in
                            if ares_string r <> rhs && not reworded then mismatch "add" rhs (ares_string r)
                        | _ -> ()))
              | "B", [_] ->
                  incr nops; pend_txt := "B"; pend_res := None; pend_op := OAddBad;
                  (match do_step OAddBad with
                   | BAdd r -> let m = (match r with RFlush -> "flush" | _ -> "other") in
                       if rhs <> m && rhs <> "other" then mismatch "add-unreadable" rhs m
                   | _ -> ())
              | "R", [] ->
                  incr nops; pend_txt := "R"; pend_op := OResolve;
                  cur_res := rhs :: !cur_res;
                  pend_res := (if rhs = "none" then None else
                                 match docs_of_out rhs with
                                 | Some ds -> Some (OFtdc ds)
                                 | None -> Some (ODocs (false, [])));   (* not a document sequence: the oracle rejects it *)
                  (match do_step OResolve with
                   | BResolve None -> if rhs <> "none" then mismatch "resolve" rhs "none"
                   | BResolve (Some o) ->
                       let m = render_model_out o in
                       if norm_impl_out rhs <> m then mismatch "resolve" (norm_impl_out rhs) m
                   | _ -> ())
              | "X", [] -> incr nops; pend_txt := "X"; pend_res := None; pend_op := OReset; ignore (do_step OReset)
              | "F", [] ->
                  incr nops; pend_txt := "F"; pend_res := None; pend_op := OFlush; pend_flush_ok := (rhs = "ok");
                  (match do_step OFlush with
                   | BFlush ok -> if (if ok then "ok" else "err") <> rhs then mismatch "flush" rhs (if ok then "ok" else "err")
                   | _ -> ())
              | "M", [h] ->
                  incr nops; pend_txt := "M " ^ h; pend_res := None;
                  (match parse_doc h with
                   | None -> mismatch "meta-doc-unparsable-by-model" h ""; pend_op := OInfo
                   | Some d ->
                       (* a refused SetMetadata leaves the slot alone *)
                       pend_op := (if rhs = "ok" then OSetMeta (Some d) else OInfo);
                       ignore (do_step (OSetMeta (Some d)));
                       if rhs <> "ok" then mismatch "setmeta" rhs "ok")
              | "N", [] ->
                  (* SetMetadata with a value that cannot be read as a document: refused, the slot keeps what it held *)
                  incr nops; pend_txt := "N"; pend_res := None; pend_op := OInfo;
                  if rhs = "ok" then mismatch "setmeta-unreadable" rhs "err"
              | "I", [] ->
                  incr nops; pend_txt := "I"; pend_res := None; pend_op := OInfo;
                  (match do_step OInfo with
                   | BInfo (m, sc) ->
                       let ms = string_of_z m ^ " " ^ string_of_z sc in
                       if ms <> rhs then mismatch "info" rhs ms
                   | _ -> ())
              | "W", [] ->
                  let (_, w) = s in
                  let render_rec r = match r with
                    | WFull o -> render_model_out o
                    | WPart (_, _) -> "b:PART:" ^ hex_of_bytes (wrec_bytes r) in
                  let mw = List.map render_rec w.w_log in
                  let impl_raw = match split_ws rhs with _calls :: l -> l | [] -> [] in
                  let iw = List.map norm_impl_out impl_raw in
                  (* a partial record holds a prefix of raw (wall-clock _id, still compressed) bytes: only its presence is compared *)
                  let same = List.length mw = List.length iw &&
                             List.for_all2 (fun r i -> match r with WFull o -> render_model_out o = i | WPart (_, _) -> true) w.w_log iw in
                  if not same then mismatch "writer-log" (String.concat " " iw) (String.concat " " mw);
                  cur_w := impl_raw;
                  (* the emit-side oracle on the implementation's own outputs *)
                  let fresh = drop !nrecs impl_raw in
                  nrecs := List.length impl_raw;
                  (* which Write calls happened during this operation, and what the injected fault schedule (an input of
                     the case) did to each: error = nothing recorded, short = a prefix recorded, none = a complete record *)
                  let calls = (match split_ws rhs with c :: _ -> int_of_string c | [] -> !ncalls) in
                  let kinds = List.filter_map (fun i ->
                      match (if i < Array.length !case_faults then !case_faults.(i) else FNone) with
                      | FError -> None | FShort _ -> Some false | FNone -> Some true)
                      (List.init (max 0 (calls - !ncalls)) (fun j -> !ncalls + j)) in
                  ncalls := calls;
                  if List.length kinds <> List.length fresh then
                    mismatch "writer-calls" (string_of_int (List.length fresh)) (string_of_int (List.length kinds));
                  let recs = List.mapi (fun i o ->
                      let full = (match List.nth_opt kinds i with Some b -> b | None -> true) in
                      if not full then WPart (O, OFtdc [])
                      else match docs_of_out o with
                        | Some ds -> WFull (OFtdc ds)
                        | None -> WFull (ODocs (false, []))) fresh in   (* complete record that is no document sequence *)
                  let e = { ev_op = !pend_op; ev_resolve = !pend_res; ev_recs = recs } in
                  if not (event_okb !case_kind !slot e) then
                    violation (Printf.sprintf "c11 emit: output of operation [%s] does not have the shape required by the metadata slot=%s : resolve=%s new-writer-records=%s"
                                 !pend_txt (odoc_hex !slot)
                                 (match !pend_res with Some (OFtdc ds) -> hex_of_bytes (enc_stream ds) | Some _ -> "NOT-A-DOCUMENT-SEQUENCE" | None -> "-")
                                 (cut (String.concat " " fresh)));
                  slot := slot_next !case_kind !slot e;
                  pend_op := OInfo; pend_res := None; pend_flush_ok := true
              | _ -> failwith ("bad op line: " ^ line)))
    | [] -> ()
  done with End_of_file -> ());
  Printf.printf "SUMMARY cases=%d ops=%d mismatches=%d violations=%d nontrivial=%d twins=%d\n" !ncases !nops !mism !viol !nontriv !ntwins

(* ------------------------------------------------------------------ reader observations *)
let run_read (path : string) =
  let ic = open_in path in
  let nstreams = ref 0 and mism = ref 0 and viol = ref 0 and nontriv = ref 0 and skipped = ref 0 in
  let cur_id = ref "" in
  let docs : doc list option ref = ref None in
  let chunks = ref [] and rerr = ref false in
  let impl_cmetas : doc option list ref = ref [] and impl_sizes : z list ref = ref [] and impl_cbad = ref false in
  let impl_nchunks = ref 0 in
  let pending = ref [] in
  let bad = ref false and vbad = ref false in
  let ln = ref 0 in
  let mismatch what impl model =
    if not !bad then begin
      bad := true; incr mism;
      Printf.printf "MISMATCH stream=%s line=%d %s impl=%s model=%s\n" !cur_id !ln what (cut impl) (cut model) end in
  let violation what =
    if not !vbad then begin
      vbad := true; incr viol;
      Printf.printf "VIOL stream=%s line=%d %s\n" !cur_id !ln what end in
  let parse_meta (t : string) : doc option option =   (* None = unparsable *)
    if t = "-" then Some None else
    match (try dec_doc (bytes_of_hex t) with _ -> None) with
    | Some (d, []) -> Some (Some d)
    | _ -> None in
  let parse_metas (toks : string list) : doc option list option =
    let rec go l acc = match l with
      | [] -> Some (List.rev acc)
      | t :: r -> (match parse_meta t with Some m -> go r (m :: acc) | None -> None) in
    go toks [] in
  let metas_txt l = String.concat " " (List.map odoc_hex l) in
  let chunk_line (c : chunk) : string =
    let ms = c.ck_metrics in
    Printf.sprintf "C %s %d %s%s" (string_of_z c.ck_npoints) (List.length ms) (odoc_hex c.ck_meta)
      (String.concat "" (List.map (fun (m, vs) ->
           Printf.sprintf " K:%s:%s" (hex_of_bytes (metric_key m)) (String.concat "," (List.map string_of_z vs))) ms)) in
  let ndocs_of rhs = match split_ws rhs with _ :: n :: _ -> int_of_string n | _ -> -1 in
  let last_count = ref 0 in
  (try while true do
    let line = input_line ic in
    incr ln;
    let (lhs, rhs) = split_arrow line in
    match split_ws lhs with
    | ["S"; id; h] | ["S"; id; h; _] ->
        incr nstreams; cur_id := id; bad := false; vbad := false; pending := [];
        impl_cmetas := []; impl_sizes := []; impl_cbad := false; impl_nchunks := 0;
        (* a stream holding a partial write is not a document sequence: no prediction, no oracle *)
        (match (try dec_docs (bytes_of_hex h) with Stack_overflow -> None) with
         | Some ds -> docs := Some ds; let (cs, e) = x_read ds in chunks := cs; rerr := (e <> None)
         | None -> docs := None; chunks := []; rerr := true; incr skipped)
    | ["S"; id] ->
        incr nstreams; cur_id := id; bad := false; vbad := false; pending := []; docs := Some []; chunks := []; rerr := false;
        impl_cmetas := []; impl_sizes := []; impl_cbad := false; impl_nchunks := 0
    | ["IN"] -> ()
    | ["RC"] ->
        (match split_ws rhs with
         | [e; n] ->
             impl_nchunks := int_of_string n;
             if !docs <> None then begin
               let me = if !rerr then "1" else "0" in
               if e <> me || int_of_string n <> List.length !chunks then
                 mismatch "chunks" rhs (Printf.sprintf "%s %d" me (List.length !chunks));
               pending := List.map chunk_line !chunks end
         | _ -> failwith "bad RC")
    | "C" :: np :: _nm :: meta :: _ ->
        (match parse_meta meta with
         | Some m -> impl_cmetas := !impl_cmetas @ [m]
         | None -> impl_cbad := true; violation ("chunk metadata is not a document: " ^ cut meta));
        impl_sizes := !impl_sizes @ [z_of_string np];
        if !docs <> None then
          (match !pending with
           | m :: r -> pending := r; if m <> line then mismatch "chunk" line m
           | [] -> mismatch "chunk-extra" line "")
    | ["CF"] | ["CS"] ->
        (* all C lines are in: the chunk-level oracles *)
        if String.trim lhs = "CF" then
          (match !docs with
           | Some ds when not !impl_cbad ->
               let cm = !impl_cmetas in
               if not (c11_chunks_ok ds cm) then
                 violation (Printf.sprintf "c11 read: chunk metadata %s is not the most recent type-0 document before each chunk (spec_metas = %s)"
                              (cut (metas_txt cm)) (cut (metas_txt (spec_metas None ds))))
               else if not (c11_chunks_pos_ok ds cm) then
                 violation (Printf.sprintf "c11 read (positional): chunk metadata %s, nil must mean no type-0 document precedes the chunk" (cut (metas_txt cm)));
               (* non-trivial: >= 2 chunks and a metadata document, or a metadata change between chunks *)
               let distinct = List.sort_uniq compare (List.map odoc_hex cm) in
               if (List.length cm >= 2 && List.exists is_meta ds) || List.length distinct >= 2 then begin
                 incr nontriv; Printf.printf "NONTRIV stream=%s\n" !cur_id end
           | _ -> ())
    | ["RS"] | ["RF"] | ["RM"] | ["RE"] ->
        last_count := ndocs_of rhs;
        (match split_ws rhs, !docs with
         | e :: n :: _, Some _ ->
             let tagn = String.trim lhs in
             let mn = (match tagn with
                 | "RS" -> List.length (structured_items !chunks)
                 | "RF" -> List.length (flat_items !chunks)
                 | "RM" -> List.length (matrix_items !chunks)
                 | _ -> List.length (series_items !chunks)) in
             if int_of_string n <> mn then mismatch (tagn ^ "-count") n (string_of_int mn);
             let merr = !rerr || (tagn = "RM" && mn < List.length !chunks) in
             if e <> (if merr then "1" else "0") then mismatch (tagn ^ "-err") e (if merr then "1" else "0")
         | _ -> ())
    | ["RSM"] | ["RFM"] | ["RMM"] | ["REM"] ->
        let tagn = String.trim lhs in
        let toks = split_ws rhs in
        if List.length toks <> !last_count then
          mismatch (tagn ^ "-length") (string_of_int (List.length toks)) (string_of_int !last_count);
        (match parse_metas toks, !docs with
         | None, _ -> violation (tagn ^ ": iterator metadata is not a document: " ^ cut rhs)
         | Some _, None -> ()
         | Some im, Some ds ->
             (* model prediction *)
             let mm = (match tagn with
                 | "RSM" -> List.map fst (structured_items !chunks)
                 | "RFM" -> List.map fst (flat_items !chunks)
                 | "RMM" -> List.map fst (matrix_items !chunks)
                 | _ -> List.map fst (series_items !chunks)) in
             if metas_txt im <> metas_txt mm then mismatch tagn (metas_txt im) (metas_txt mm);
             (* oracle on the implementation's observations *)
             if not !impl_cbad then begin
               let ok = (match tagn with
                   | "RSM" | "RFM" -> c11_samples_ok ds !impl_sizes im
                   | _ -> c11_perchunk_ok ds (nat_of_int !impl_nchunks) im) in
               if not ok then
                 violation (Printf.sprintf "c11 items (%s): per-item metadata %s is not the metadata of the chunk each item came from; chunk sizes=%s spec_metas=%s"
                              tagn (cut (metas_txt im)) (join_z !impl_sizes) (cut (metas_txt (spec_metas None ds))))
             end)
    | ["ENDS"] -> ()
    | [] -> ()
    | _ -> failwith ("unknown line: " ^ (if String.length line > 80 then String.sub line 0 80 else line))
  done with End_of_file -> ());
  Printf.printf "SUMMARY cases=%d mismatches=%d violations=%d nontrivial=%d unparsable_streams=%d\n" !nstreams !mism !viol !nontriv !skipped

let () =
  match Array.to_list Sys.argv with
  | _ :: "hist" :: p :: _ -> run_hist p
  | _ :: "read" :: p :: _ -> run_read p
  | _ -> prerr_endline "usage: c11_run hist|read <file>"; exit 2
