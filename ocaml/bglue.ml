(* byte-string glue: hex <-> n list (N below 256). Appended after zglue.ml when the
   model uses Bytes. *)
let n_of_int (i : int) : n = if i = 0 then N0 else Npos (pos_of_u64 (Int64.of_int i))
let int_of_n (x : n) : int = match x with N0 -> 0 | Npos p -> Int64.to_int (u64_of_pos p 0)

let byte_table : n array = Array.init 256 n_of_int

let hexval c = match c with
  | '0'..'9' -> Char.code c - 48 | 'a'..'f' -> Char.code c - 87 | 'A'..'F' -> Char.code c - 55
  | _ -> failwith "bad hex"

let bytes_of_hex (s : string) : n list =
  let len = String.length s / 2 in
  let rec go i acc = if i < 0 then acc else
      go (i - 1) (byte_table.(hexval s.[2*i] * 16 + hexval s.[2*i+1]) :: acc) in
  go (len - 1) []

let hex_of_bytes (l : n list) : string =
  let b = Buffer.create 64 in
  List.iter (fun x -> Buffer.add_string b (Printf.sprintf "%02x" (int_of_n x land 255))) l;
  Buffer.contents b

let bytes_of_string (s : string) : n list =
  List.init (String.length s) (fun i -> byte_table.(Char.code s.[i]))

let split_on (c : char) (s : string) : string list =
  if s = "" then [] else String.split_on_char c s

(* "lhs => rhs" *)
let split_arrow (line : string) : string * string =
  match Str.bounded_split_delim (Str.regexp_string " => ") line 2 with
  | [a; b] -> (a, b)
  | [a] -> (a, "")
  | _ -> (line, "")
