(* C09 driver (harness/c09.go).
   c09_run <hist.cases> hist            histories on a writer with a fault schedule: the model collector
       and model writer (same schedule) replay the operations, every observation is compared (MISMATCH);
       oracle on the implementation's observations (VIOL): an operation during which a Write failed
       returned an error; after every operation decoded(writer) ++ decoded(Resolve) = accepted samples
       (c07_step); durability count; after recovery and the final flush the log read back by the library's
       reader ("FINAL") is the accepted samples once each in order.  For schedules containing a short
       write a failure is the known finding D18 (KNOWN line).
   c09_run <prefix.cases> prefix <logs.txt>   every byte prefix of a written log: the byte-level model
       reads the same prefix (MISMATCH); oracle (VIOL): exactly the chunks of the documents wholly inside,
       error iff the prefix does not end at a document boundary (boundaries from the full log). *)
let all_full (nz : z) (l : z list) : bool = List.for_all (fun x -> zeqb x nz) l
let all_but_last_full (nz : z) (l : z list) : bool =
  match List.rev l with [] -> true | _ :: r -> List.for_all (fun x -> zeqb x nz) r

let kind_of_string = function
  | "base" -> KBase | "batch" -> KBatch | "dyn" -> KDyn | "stream" -> KStream | "sdyn" -> KSDyn
  | "uncb" -> KUncB | "uncj" -> KUncJ | "streamuncb" -> KStreamUncB | "streamuncj" -> KStreamUncJ
  | "sdynuncb" -> KSDynUncB | "sdynuncj" -> KSDynUncJ | s -> failwith ("kind " ^ s)

let ares_string = function
  | ROk -> "ok" | RFull -> "full" | RCount -> "count" | RTypes -> "types" | RFlush -> "flush" | RNoWriter -> "other"

let parse_doc (h : string) : doc option =
  let b = bytes_of_hex h in
  match dec_doc b with
  | Some (d, []) -> if hex_of_bytes (enc_doc d) = String.lowercase_ascii h then Some d else None
  | _ -> None

(* canonical text of an output: FTDC bytes are parsed, _id-normalised and re-encoded *)
let norm_bytes_hex (b : n list) : string =
  match dec_docs b with
  | Some ds ->
      let re = List.concat_map enc_doc ds in
      if hex_of_bytes re <> hex_of_bytes b then "NONCANONICAL:" ^ hex_of_bytes b
      else hex_of_bytes (List.concat_map enc_doc (norm_ids ds))
  | None -> "UNPARSABLE:" ^ hex_of_bytes b

let render_model_out (o : outp) : string =
  match o with
  | OFtdc ds -> "b:" ^ norm_bytes_hex (enc_stream ds)
  | ODocs (json, ds) -> (if json then "J:" else "d:") ^ String.concat "," (List.map (fun d -> hex_of_bytes (enc_doc d)) ds)

let norm_impl_out (s : string) : string =
  if String.length s >= 2 && String.sub s 0 2 = "b:" then
    "b:" ^ norm_bytes_hex (bytes_of_hex (String.sub s 2 (String.length s - 2)))
  else s

let parse_faults (s : string) : fault list =
  let s = if String.length s > 0 && s.[String.length s - 1] = '-' then String.sub s 0 (String.length s - 1) else s in
  List.map (fun t -> if t = "n" then FNone else if t = "e" then FError
             else FShort (nat_of_int (int_of_string (String.sub t 1 (String.length t - 1)))))
    (split_on ',' s)

let run_hist (path : string) =
  let ic = open_in path in
  let ncases = ref 0 and nops = ref 0 and mism = ref 0 and viol = ref 0 in
  let oracle = ref "c09" in
  let case_faults = ref [] and prev_calls = ref 0 and known = ref 0 and case_known = ref false in
  let is_wcoll = ref false and naccepted = ref 0 and last_res = ref "" and nfault_cases = ref 0 and nshort_cases = ref 0 in
  let witness = ref false in
  let last_r = ref "" and last_info = ref "" and last_op = ref ("", "", "") in
  let total = ref [] and cap = ref Z0 and case_viol = ref false and compressing_case = ref false in
  let accepted_all_docs = ref [] in
  let prev_wsizes = ref [] in
  let case_tag = ref "-" in
  let accepted = ref [] and all_accepted = ref true and last_wd = ref None and case_kind = ref "" in
  let st = ref None in
  let case_id = ref "" in
  let json_kind = ref false in
  let case_bad = ref false in
  let ln = ref 0 in
  let mismatch what impl model =
    if not !case_bad then begin
      incr mism; case_bad := true;
      Printf.printf "MISMATCH case=%s line=%d %s impl=%s model=%s\n" !case_id !ln what
        (if String.length impl > 300 then String.sub impl 0 300 ^ "..." else impl)
        (if String.length model > 300 then String.sub model 0 300 ^ "..." else model) end in
  (try while true do
    let line = input_line ic in
    incr ln;
    let (lhs, rhs) = split_arrow line in
    match split_ws lhs with
    | "CASE" :: id :: kind :: n :: wrapper :: rest ->
        is_wcoll := (wrapper = "wcoll-"); prev_calls := 0; case_known := false; naccepted := 0; last_res := "";
        incr ncases; case_id := id; case_bad := false;
        last_r := ""; last_info := ""; last_op := ("", "", ""); total := []; case_viol := false;
        accepted := []; all_accepted := true; last_wd := None; case_kind := kind; accepted_all_docs := []; prev_wsizes := [];
        compressing_case := List.mem kind ["base"; "batch"; "dyn"; "stream"; "sdyn"];
        cap := (if kind = "base" then zadd (z_of_string n) (z_of_int 1) else z_of_string n);
        json_kind := (String.length kind >= 4 && String.sub kind (String.length kind - 4) 4 = "uncj");
        let faults = match rest with f :: _ -> parse_faults f | [] -> [] in
        case_faults := faults;
        if List.exists (fun f -> f <> FNone) faults then incr nfault_cases;
        if has_short faults then incr nshort_cases;
        case_tag := (match rest with _ :: t :: _ -> t | _ -> "-");
        st := Some (x_new (kind_of_string kind) (z_of_string n), empty_writer faults)
    | ["END"] ->
        (if !oracle = "c08" && !case_tag = "acceptall-" && (!case_kind = "dyn" || !case_kind = "sdyn") && not !case_viol then
           match !last_wd with
           | Some wd ->
               if not (c08_ok !cap !accepted_all_docs !all_accepted wd) then begin
                 incr viol;
                 Printf.printf "VIOL case=%s c08_ok=false accepted_all=%b sizes=%s expected=%s\n" !case_id !all_accepted
                   (join_z wd.dc_sizes) (join_z (expected_sizes !cap !accepted_all_docs)) end
           | None -> ());
        st := None
    | "NOTE" :: what :: _ ->
        incr viol; Printf.printf "VIOL case=%s line=%d %s\n" !case_id !ln what
    | tag :: args ->
        (match !st with
         | None -> ()
         | Some s ->
             incr nops;
             let do_step o = let (s', ob) = x_step s o in st := Some s'; ob in
             (match tag, args with
              | "A", [h] ->
                  last_op := ("A", h, rhs); last_res := rhs;
                  if rhs = "ok" then begin incr naccepted; (match parse_doc h with Some d -> accepted := !accepted @ [d] | None -> ()) end;
                  (match parse_doc h with Some d -> accepted_all_docs := !accepted_all_docs @ [d] | None -> ());
                  all_accepted := !all_accepted && rhs = "ok";
                  (match parse_doc h with
                   | None -> mismatch "input-doc-unparsable-by-model" h ""
                   | Some d ->
                       (match do_step (OAdd (d, Z0)) with
                        | BAdd r ->
                            (* rejection kinds are recognised by message text (harness addClass); an unrecognised wording
                               ("other") is accepted as any rejection the model predicts: rewording an error is not a difference *)
                            let reworded = rhs = "other" && (match r with ROk -> false | _ -> true) in
                            if ares_string r <> rhs && not reworded then mismatch "add" rhs (ares_string r)
                        | _ -> ()))
              | "B", [_] -> (* unreadable input: rejected, state unchanged *)
                  last_op := ("B", "", rhs);
                  (match do_step OAddBad with
                   | BAdd r -> let m = (match r with RFlush -> "flush" | _ -> "other") in
                       if rhs <> m && rhs <> "other" then mismatch "add-unreadable" rhs m
                   | _ -> ())
              | ("R" | "r"), [] ->
                  last_r := rhs;
                  (match do_step OResolve with
                   | BResolve None -> if rhs <> "none" then mismatch "resolve" rhs "none"
                   | BResolve (Some o) ->
                       let m = render_model_out o in
                       if String.length m > 0 && m.[0] = 'J' then
                         (if not (String.length rhs > 2 && String.sub rhs 0 2 = "j:") then mismatch "resolve-flavour" rhs m)
                       else if norm_impl_out rhs <> m then mismatch "resolve" (norm_impl_out rhs) m
                   | _ -> ())
              | "X", [] -> last_op := ("X", "", ""); ignore (do_step OReset)
              | "F", [] ->
                  last_op := ("F", "", rhs); last_res := "F" ^ rhs;
                  (match do_step OFlush with
                   | BFlush ok -> if (if ok then "ok" else "err") <> rhs then mismatch "flush" rhs (if ok then "ok" else "err")
                   | _ -> ())
              | "M", [h] ->
                  last_op := ("M", h, rhs);
                  (match parse_doc h with
                   | None -> mismatch "meta-doc-unparsable-by-model" h ""
                   | Some d -> ignore (do_step (OSetMeta (Some d))); if rhs <> "ok" then mismatch "setmeta" rhs "ok")
              | ("I" | "i"), [] ->
                  (match split_ws rhs with [_; sc] -> last_info := sc | _ -> ());
                  (match do_step OInfo with
                   | BInfo (m, sc) ->
                       let ms = string_of_z m ^ " " ^ string_of_z sc in
                       if ms <> rhs then mismatch "info" rhs ms
                   | _ -> ())
              | "W", [] ->
                  let (_, w) = s in
                  (* a partially consumed write: the model's payload (trivial codec) and the implementation's (zlib)
                     differ in length, so only the fact that the record is incomplete is compared; a "short" write
                     that consumed everything is compared as a complete record *)
                  let partial s = String.length s >= 13 && (String.sub s 0 13 = "b:UNPARSABLE:" || String.sub s 0 13 = "b:NONCANONICA") in
                  let render_rec r = match r with
                    | WFull o -> render_model_out o
                    | WPart (_, o) -> let m = "b:" ^ norm_bytes_hex (wrec_bytes r) in if partial m then "PART" else m in
                  let mw = List.map render_rec w.w_log in
                  let iw = match split_ws rhs with _calls :: l -> List.map (fun x -> let m = norm_impl_out x in if partial m then "PART" else m) l | [] -> [] in
                  (* an operation during which a Write failed must have returned an error *)
                  let calls = (match split_ws rhs with c :: _ -> int_of_string c | [] -> !prev_calls) in
                  (let (opn, _, res) = !last_op in
                   let returned_error = (opn = "A" && res <> "ok") || (opn = "B") || (opn = "F" && res <> "ok") in
                   for i = !prev_calls to calls - 1 do
                     let f = (try List.nth !case_faults i with _ -> FNone) in
                     if not (c09_fail_ok f returned_error) && not !case_viol then begin
                       case_viol := true; incr viol;
                       Printf.printf "VIOL case=%s line=%d write call %d failed (fault %s) but the operation %s returned %s\n"
                         !case_id !ln i (match f with FError -> "error" | FShort _ -> "short" | FNone -> "none") opn res end
                   done);
                  prev_calls := calls;
                  let mw' = List.map (fun m -> if String.length m > 0 && m.[0] = 'J' then "J" else m) mw in
                  let iw' = List.map (fun m -> if String.length m > 1 && String.sub m 0 2 = "j:" then "J" else m) iw in
                  if mw' <> iw' then mismatch "writer-log" (String.concat " " iw') (String.concat " " mw');
                  if !oracle <> "none" && !compressing_case && not !is_wcoll then begin
                    (* decode the implementation's own outputs with the model reader *)
                    let dec_impl (outs : string list) : decoded option =
                      let decode_ftdc = x_decode_ftdc in
                      let docs = List.concat_map (fun o ->
                          if String.length o > 2 && String.sub o 0 2 = "b:" then
                            (match dec_docs (bytes_of_hex (String.sub o 2 (String.length o - 2))) with
                             | Some ds -> ds | None -> raise Exit)
                          else raise Exit) outs in
                      decode_ftdc docs in
                    let impl_w = match split_ws rhs with _ :: l -> l | [] -> [] in
                    let wd = (try dec_impl impl_w with Exit -> None) in
                    let rd = if !last_r = "none" || !last_r = "" then Some { dc_docs = []; dc_sizes = []; dc_metas = [] }
                      else (try dec_impl [!last_r] with Exit -> None) in
                    (match wd, rd with
                     | Some wd, Some rd ->
                         let (opn, h, res) = !last_op in
                         let (k, addok, d) = match opn with
                           | "A" -> (KAdd, res = "ok", (match parse_doc h with Some d -> d | None -> []))
                           | "B" -> (KAdd, false, [])
                           | "X" -> (KReset, false, []) | "F" -> (KFlush, false, []) | "M" -> (KSetMeta, false, [])
                           | _ -> (KInfo, false, []) in
                         (* durability: a pure Add sequence of one schema *)
                         if !case_tag = "durable-" && opn = "A" && not !case_viol then begin
                           let inw = z_of_int (List.length wd.dc_docs) in
                           if not (c09_durable_ok (match !cap with c -> c) (z_of_int !naccepted) inw) then begin
                             case_viol := true; incr viol;
                             Printf.printf "VIOL case=%s line=%d durability: %d samples accepted, chunk size %s, only %d in the writer\n"
                               !case_id !ln !naccepted (string_of_z !cap) (List.length wd.dc_docs) end end;
                         if opn = "X" then accepted := [];
                         let (total', ok) = c07_step !cap !total k addok d wd rd (z_of_string (if !last_info = "" then "0" else !last_info)) in
                         total := total';
                         (* only the last chunk may hold fewer *)
                         let nz = (match !cap with c -> if !case_kind = "base" then zadd c (z_of_int (-1)) else c) in
                         let prev_w = !prev_wsizes in
                         let new_w = (let rec dropn l k = if k = 0 then l else match l with [] -> [] | _ :: r -> dropn r (k-1) in
                                      dropn wd.dc_sizes (List.length prev_w)) in
                         let sizes_ok =
                           (if !case_kind = "batch" then all_but_last_full nz rd.dc_sizes else true)
                           && (if !case_kind = "stream" && (opn = "A" || opn = "B") then all_full nz new_w else true) in
                         prev_wsizes := wd.dc_sizes;
                         if not sizes_ok && not !case_viol then begin
                           case_viol := true; incr viol;
                           Printf.printf "VIOL case=%s line=%d c07 chunk sizes: a chunk that is not the last holds fewer than %s samples after op %s: resolve=%s new-writer-records=%s\n"
                             !case_id !ln (string_of_z nz) opn (join_z rd.dc_sizes) (join_z new_w) end;
                         if not ok && not !case_viol && has_short !case_faults then begin
                           case_viol := true;
                           if not !case_known then begin case_known := true; incr known;
                             Printf.printf "KNOWN D18-short-write case=%s line=%d faults=%s accepted samples are not the decoded contents after op %s\n"
                               !case_id !ln (String.concat "," (List.map (fun f -> match f with FNone -> "n" | FError -> "e" | FShort _ -> "s") !case_faults)) opn end end;
                         if not ok && not !case_viol then begin
                           case_viol := true; incr viol;
                           Printf.printf "VIOL case=%s line=%d c07_ok=false after op %s: decoded(writer)=%d docs, decoded(resolve)=%d docs, expected total=%d, info=%s sizes=%s cap=%s\n"
                             !case_id !ln opn (List.length wd.dc_docs) (List.length rd.dc_docs) (List.length total') !last_info
                             (join_z (wd.dc_sizes @ rd.dc_sizes)) (string_of_z !cap) end;
                         last_wd := Some wd;
                         last_op := ("-", "", "")
                     | _ ->
                         if not !case_viol && has_short !case_faults then begin
                           case_viol := true;
                           if not !case_known then begin case_known := true; incr known;
                             Printf.printf "KNOWN D18-short-write case=%s line=%d the writer's contents are not decodable (partial write left in the stream)\n" !case_id !ln end end;
                         if not !case_viol then begin
                           case_viol := true; incr viol;
                           Printf.printf "VIOL case=%s line=%d implementation output not decodable\n" !case_id !ln end)
                  end
              | "FINAL", [] ->
                  decr nops;
                  (* the log read back by the library's reader after recovery and the final flush *)
                  (match split_ws rhs with
                   | e :: _n :: docs ->
                       let decoded = List.filter_map (fun hx -> match dec_doc (bytes_of_hex hx) with Some (d, []) -> Some d | _ -> None) docs in
                       let okfinal = (e = "0") && List.length decoded = List.length docs && c09_final_ok !accepted decoded in
                       if !case_tag = "d18witness-" then begin
                         if not okfinal then begin witness := true; incr known;
                           Printf.printf "KNOWN D18-short-write witness reproduced case=%s err=%s samples_read=%d accepted=%d\n" !case_id e (List.length docs) (List.length !accepted) end
                         else Printf.printf "NOTE D18 witness did not reproduce: case=%s\n" !case_id end
                       else if !last_res = "Fok" && not okfinal then begin
                         if has_short !case_faults then begin
                           if not !case_known then begin case_known := true; incr known;
                             Printf.printf "KNOWN D18-short-write case=%s final log: err=%s samples_read=%d accepted=%d\n" !case_id e (List.length docs) (List.length !accepted) end end
                         else if not !case_viol then begin
                           case_viol := true; incr viol;
                           Printf.printf "VIOL case=%s line=%d after recovery and a successful flush the log read back is not the accepted samples: err=%s samples_read=%d accepted=%d\n"
                             !case_id !ln e (List.length docs) (List.length !accepted) end end
                   | _ -> failwith "bad FINAL")
              | _ -> failwith ("bad op line: " ^ line)))
    | [] -> ()
  done with End_of_file -> ());
  Printf.printf "SUMMARY cases=%d ops=%d mismatches=%d violations=%d known=%d fault_cases=%d short_cases=%d witness=%d\n"
    !ncases !nops !mism !viol !known !nfault_cases !nshort_cases (if !witness then 1 else 0)

let hexdocs (l : doc list) : string = String.concat " " (List.map (fun d -> hex_of_bytes (enc_doc d)) l)

let parse_docs_hex (toks : string list) : doc list option =
  let rec go l acc = match l with
    | [] -> Some (List.rev acc)
    | h :: r -> (match dec_doc (bytes_of_hex h) with
                 | Some (d, []) -> go r (d :: acc)
                 | _ -> None) in
  go toks []

let seed_of_id (id : string) : string =
  match String.index_opt id '.' with Some i -> String.sub id 0 i | None -> id

let rec take_n_list n l = if n <= 0 then [] else match l with [] -> [] | x :: r -> x :: take_n_list (n - 1) r

let run_prefix (path : string) (logs_path : string) =
  let ic = open_in path in
  (* id -> (documents of the full log as the model reads them, raw document lengths, well-formed) *)
  let logs : (string, doc list * nat list * bool) Hashtbl.t = Hashtbl.create 16 in
  List.iter (fun l ->
      match split_ws l with
      | ["LOG"; id; _kind; _n; hx; lens] ->
          let toks = List.filter (fun x -> x <> "") (String.split_on_char ',' lens) in
          let wf = List.for_all (fun t -> String.length t < 4 || String.sub t 0 4 <> "REST") toks in
          let ls = if wf then List.map (fun t -> nat_of_int (int_of_string t)) toks else [] in
          let (ds, e) = read_docs (bytes_of_hex hx) in
          Hashtbl.replace logs id (ds, ls, wf && e = None && List.length ds = List.length ls)
      | _ -> ()) (read_lines logs_path);
  let seeds : (string, string list) Hashtbl.t = Hashtbl.create 8 in
  let nboundary = ref 0 and ninside = ref 0 in
  let min_chunks = ref 0 and errs = ref [] and impl_c = ref [] and delivered = ref 0 and have_s = ref false in
  let cur_hex = ref "" and huge_case = ref false and ndamaged = ref 0 and nprefix_chunks = ref 0 in
  let skipped = ref 0 in
  let nstreams = ref 0 and mism = ref 0 and viol = ref 0 and known = ref 0 and nontriv = ref 0 in
  let cur_id = ref "" in
  let chunks = ref [] and rerr = ref false and parse_ok = ref true in
  let inputs : doc list option ref = ref None in
  let pending_chunk_lines = ref [] in
  let bad = ref false in
  let ln = ref 0 in
  let mismatch what impl model =
    if not !bad then begin
      bad := true; incr mism;
      let cut s = if String.length s > 300 then String.sub s 0 300 ^ "..." else s in
      Printf.printf "MISMATCH stream=%s line=%d %s impl=%s model=%s\n" !cur_id !ln what (cut impl) (cut model) end in
  let chunk_line (c : chunk) : string =
    let ms = c.ck_metrics in
    Printf.sprintf "C %s %d %s%s" (string_of_z c.ck_npoints) (List.length ms)
      (match c.ck_meta with Some d -> hex_of_bytes (enc_doc d) | None -> "-")
      (String.concat "" (List.map (fun (m, vs) ->
           Printf.sprintf " K:%s:%s" (hex_of_bytes (metric_key m)) (String.concat "," (List.map string_of_z vs))) ms)) in
  (try while true do
    let line = input_line ic in
    incr ln;
    let (lhs, rhs) = split_arrow line in
    match split_ws lhs with
    | ["S"; id; h] | ["S"; id; h; _] ->
        min_chunks := 0; errs := []; impl_c := []; delivered := 0; have_s := true; cur_hex := h; huge_case := false;
        incr nstreams; cur_id := id; bad := false; inputs := None; pending_chunk_lines := [];
        (let ((cs, e), huge) = x_read_stream (bytes_of_hex h) in
         chunks := cs; rerr := e; parse_ok := true;
         if huge then begin bad := true; incr skipped; huge_case := true end)
    | ["X"] -> min_chunks := int_of_string (String.trim rhs)
    | ["ENDK"] -> ()
    | ["K"; id] ->
        let k = int_of_string (String.trim rhs) in
        let hid = seed_of_id id in
        (match (try Some (Hashtbl.find logs hid) with Not_found -> None) with
         | None -> incr viol; Printf.printf "VIOL stream=%s no LOG line for %s\n" id hid
         | Some (_, _, false) -> incr viol; Printf.printf "VIOL stream=%s the complete writer log %s is not a sequence of complete documents\n" id hid
         | Some (ds, lens, true) ->
             let j = int_of_nat (within (nat_of_int k) lens) in
             let (ecs, _) = x_read (take_n_list j ds) in
             let expected = List.map chunk_line ecs in
             let canon_line l = match split_ws l with
               | "C" :: np :: nm :: meta :: rest when meta <> "-" ->
                   (match dec_doc (bytes_of_hex meta) with
                    | Some (d, []) -> String.concat " " ("C" :: np :: nm :: hex_of_bytes (enc_doc d) :: rest)
                    | _ -> l)
               | _ -> l in
             let impl = List.map (fun l -> "C " ^ l) !impl_c in
             let same = (impl = expected) || (List.map canon_line impl = List.map canon_line expected) in
             let err = (match !errs with [] -> false | l -> List.nth l (List.length l - 1)) in
             if at_boundary (nat_of_int k) lens then incr nboundary else incr ninside;
             if not (c09_prefix_ok lens (nat_of_int k) (nat_of_int (List.length expected)) (nat_of_int !delivered) same err) then begin
               incr viol;
               Printf.printf "VIOL stream=%s crash point %d of log %s: documents wholly inside=%d expected chunks=%d delivered=%d same=%b err=%b boundary=%b hex=%s\n"
                 id k hid j (List.length expected) !delivered same err (at_boundary (nat_of_int k) lens) !cur_hex end)
    | ["S"; id] -> have_s := false; min_chunks := 0; errs := []; impl_c := []; delivered := 0; cur_hex := ""; incr nstreams; cur_id := id; bad := false; inputs := None; chunks := []; rerr := false; parse_ok := true
    | ["IN"] ->
        (match split_ws rhs with
         | _n :: toks -> inputs := parse_docs_hex toks
         | [] -> inputs := Some [])
    | ["RC"] ->
        (match split_ws rhs with
         | [e; n] ->
             errs := (e = "1") :: !errs; delivered := int_of_string n;
             let me = if !rerr then "1" else "0" in
             if e <> me || int_of_string n <> List.length !chunks then
               mismatch "chunks" rhs (Printf.sprintf "%s %d" me (List.length !chunks));
             pending_chunk_lines := List.map chunk_line !chunks
         | _ -> failwith "bad RC")
    | "C" :: toks when (impl_c := !impl_c @ [String.concat " " toks]; false) -> ()
    | "C" :: toks ->
        (* the metadata document is compared through the model's decoder/encoder (array
           index keys are not part of the model's value type) *)
        let canon l = match l with
          | np :: nm :: meta :: rest when meta <> "-" ->
              (match dec_doc (bytes_of_hex meta) with
               | Some (d, []) -> String.concat " " ("C" :: np :: nm :: hex_of_bytes (enc_doc d) :: rest)
               | _ -> line)
          | _ -> line in
        (* a document that type confusion turned into a metadata document may carry a "data" binary: the
           harness rewrote its zlib stream for the model only (normalizeStream), so metadata documents are
           also compared with top-level "data" binaries removed *)
        let strip_data l = match l with
          | np :: nm :: meta :: rest when meta <> "-" ->
              (match dec_doc (bytes_of_hex meta) with
               | Some (d, []) ->
                   let d' = List.filter (fun (k, v) -> not (k = bytes_of_string "data" && (match v with VBinary (_, _) -> true | _ -> false))) d in
                   String.concat " " ("C" :: np :: nm :: hex_of_bytes (enc_doc d') :: rest)
               | _ -> String.concat " " ("C" :: l))
          | _ -> String.concat " " ("C" :: l) in
        (match !pending_chunk_lines with
         | m :: r -> pending_chunk_lines := r;
             if m <> line && m <> canon toks && strip_data (List.tl (split_ws m)) <> strip_data toks then mismatch "chunk" line m
         | [] -> mismatch "chunk-extra" line "")
    | ["CF"] | ["RF"] ->
        let toks = split_ws rhs in
        let docs = match lhs with "CF" -> (match toks with _ :: d -> d | [] -> []) | _ -> (match toks with _ :: _ :: d -> d | _ -> []) in
        let m = hexdocs (x_flat_all !chunks) in
        if String.concat " " docs <> m then mismatch (String.trim lhs) (String.concat " " docs) m;
        (if String.trim lhs = "RF" then match toks with e :: _ -> errs := (e = "1") :: !errs | [] -> ());
        (if String.trim lhs = "RF" then match toks with e :: _ -> if e <> (if !rerr then "1" else "0") then mismatch "RF-err" e "" | [] -> ())
    | ["CS"] | ["RS"] ->
        let toks = split_ws rhs in
        let isrs = (String.trim lhs = "RS") in
        let docs = if isrs then (match toks with _ :: _ :: d -> d | _ -> []) else (match toks with _ :: d -> d | [] -> []) in
        (match x_structured_all !chunks with
         | Some ds -> let m = hexdocs ds in
             if String.concat " " docs <> m then mismatch (String.trim lhs) (String.concat " " docs) m
         | None -> mismatch (String.trim lhs ^ "-model-panic") (String.concat " " docs) "");
        if isrs then begin
          (match toks with e :: _ -> errs := (e = "1") :: !errs | [] -> ());
          (match toks with e :: _ -> if e <> (if !rerr then "1" else "0") then mismatch "RS-err" e "" | [] -> ());
          (* C01 oracle on the implementation's own output *)
          match !inputs with
          | Some ins ->
              let nontrivial = List.length ins >= 2 && ins <> [] && List.exists (fun d -> flatten_doc d <> []) ins in
              if nontrivial then incr nontriv;
              (match parse_docs_hex docs with
               | Some dec ->
                   let e = (match toks with e :: _ -> e | [] -> "1") in
                   if not (c01_ok ins dec && e = "0") then begin
                     if List.exists doc_has_ts_seconds ins then begin
                       incr known;
                       Printf.printf "KNOWN ts-seconds stream=%s\n" !cur_id end
                     else begin
                       incr viol;
                       Printf.printf "VIOL stream=%s line=%d c01_ok=false err=%s inputs=%s decoded=%s\n" !cur_id !ln e
                         (hexdocs ins) (String.concat " " docs) end end
               | None -> incr viol; Printf.printf "VIOL stream=%s line=%d decoded-docs-unparsable\n" !cur_id !ln)
          | None -> ()
        end
    | ["RM"] | ["RE"] ->
        let toks = split_ws rhs in
        let docs = (match toks with _ :: _ :: d -> d | _ -> []) in
        let m = if String.trim lhs = "RM" then
            (let l = List.map matrix_doc !chunks in
             if List.exists (fun x -> x = None) l then "MODEL-PANIC"
             else hexdocs (List.map (fun x -> match x with Some d -> d | None -> []) l))
          else hexdocs (List.map series_doc !chunks) in
        if String.concat " " docs <> m then mismatch (String.trim lhs) (String.concat " " docs) m;
        (match toks with e :: _ -> errs := (e = "1") :: !errs | [] -> ());
        (match toks with e :: _ -> if e <> (if !rerr then "1" else "0") then mismatch (String.trim lhs ^ "-err") e "" | [] -> ())
    | ["RSM"] | ["RFM"] | ["RMM"] | ["REM"] -> ()
    | ["ENDS"] ->
        if false then begin
          have_s := false;
          (* the C04 oracle on the implementation's observations of this stream *)
          (* damaged = fst (c04_damaged bytes) = the error flag x_read_stream computed at the S line *)
          let damaged = !rerr in
          if damaged then incr ndamaged;
          if !min_chunks > 0 then incr nprefix_chunks;
          let seedc = try Some (Hashtbl.find seeds (seed_of_id !cur_id)) with Not_found -> None in
          let intact = match seedc with
            | Some sc -> take_n_list !min_chunks !impl_c = take_n_list !min_chunks sc && List.length sc >= !min_chunks
            | None -> true in
          if not (c04_ok damaged !errs (nat_of_int !min_chunks) (nat_of_int !delivered) intact) then begin
            incr viol;
            Printf.printf "VIOL stream=%s line=%d c04_ok=false damaged=%b errs(RE,RM,RF,RS,RC)=%s chunks_before_damage=%d delivered=%d intact=%b hex=%s\n"
              !cur_id !ln damaged (String.concat "" (List.map (fun b -> if b then "1" else "0") !errs))
              !min_chunks !delivered intact !cur_hex end
        end;
        have_s := false
    | "BEGIN" :: _ -> ()
    | ("CRASH" | "HANG") :: idx :: msg ->
        incr viol;
        Printf.printf "VIOL stream=%s line=%d implementation %s (worker index %s): %s\n" !cur_id !ln (List.hd (split_ws lhs)) idx (String.concat " " msg)
    | [] -> ()
    | _ -> failwith ("unknown line: " ^ (if String.length line > 80 then String.sub line 0 80 else line))
  done with End_of_file -> ());
  Printf.printf "SUMMARY cases=%d mismatches=%d violations=%d skipped_huge=%d boundary_prefixes=%d inside_prefixes=%d\n" !nstreams !mism !viol !skipped !nboundary !ninside


let () =
  match Array.to_list Sys.argv with
  | _ :: path :: "hist" :: _ -> run_hist path
  | _ :: path :: "prefix" :: logs :: _ -> run_prefix path logs
  | _ -> prerr_endline "usage: c09_run <cases> hist | c09_run <cases> prefix <logs.txt>"; exit 2
