package main

// C02 case generation: document shapes that stress the key/path construction and
// the projections of the per-chunk table (deep nesting, sibling sub-documents,
// arrays inside documents inside arrays, arrays of documents, timestamps, every
// metric leaf type, non-metric leaves between metric leaves), filled with
// same-schema value sequences, through every compressing collector, then every
// reader entry point over the produced stream (read.go).  The shape classes of
// every case are MEASURED on the generated tree (classify) and written to
// c02.classes for the evidence.

import (
	"errors"
	"fmt"
	"path/filepath"
	"sort"
	"strings"
)

// ---------------------------------------------------------------- shape construction

// c02Leaf: a metric leaf of a given BSON type
func c02Leaf(t byte) *val { return &val{T: t} }

var metricTypes = []byte{0x01, 0x08, 0x09, 0x10, 0x12, 0x11}

func (r *rng) anyMetricLeaf() *val { return c02Leaf(metricTypes[r.intn(len(metricTypes))]) }

// freshKeys hands out distinct keys of one document
type keyer struct {
	r    *rng
	used map[string]bool
}

func (r *rng) keyer() *keyer { return &keyer{r: r, used: map[string]bool{}} }
func (k *keyer) next() string {
	return k.r.key(k.used, schemaOpts{numericKey: k.r.chance(1, 6)})
}

// filler: 0..2 random elements (leaves, small containers, non-metric leaves)
func (r *rng) filler(k *keyer, o schemaOpts) []elem {
	n := r.intn(3)
	out := []elem{}
	for i := 0; i < n; i++ {
		out = append(out, elem{k.next(), r.node(o.maxDepth-1, o)})
	}
	return out
}

// shuffleInsert places extra elements at random positions of a document
func (r *rng) insertAt(d []elem, e elem) []elem {
	p := r.intn(len(d) + 1)
	out := make([]elem, 0, len(d)+1)
	out = append(out, d[:p]...)
	out = append(out, e)
	return append(out, d[p:]...)
}

// wrap puts v under `levels` further container levels (documents, sometimes arrays)
func (r *rng) wrap(v *val, levels int, o schemaOpts, arrays bool) *val {
	for i := 0; i < levels; i++ {
		if arrays && r.chance(1, 3) {
			a := []*val{}
			pre := r.intn(3)
			for j := 0; j < pre; j++ {
				a = append(a, r.node(o.maxDepth, o)) // leaves only (depth == maxDepth)
			}
			a = append(a, v)
			if r.chance(1, 2) {
				a = append(a, r.node(o.maxDepth, o))
			}
			v = &val{T: 0x04, Arr: a}
		} else {
			k := r.keyer()
			d := r.filler(k, o)
			d = r.insertAt(d, elem{k.next(), v})
			v = &val{T: 0x03, Doc: d}
		}
	}
	return v
}

// leafDoc: a small document with 1..3 metric leaves (and sometimes a non-metric one)
func (r *rng) leafDoc(o schemaOpts) *val {
	k := r.keyer()
	n := 1 + r.intn(3)
	d := []elem{}
	for i := 0; i < n; i++ {
		d = append(d, elem{k.next(), r.metricLeaf(o)})
	}
	if o.nonMetric && r.chance(1, 3) {
		d = r.insertAt(d, elem{k.next(), r.nonMetricLeaf()})
	}
	return &val{T: 0x03, Doc: d}
}

// graft kinds
const (
	gDeep2     = iota // leaf at path length >= 2
	gDeep4            // leaf at path length >= 4
	gSib              // >= 2 sibling sub-documents under a parent at path length >= 2
	gADA              // array inside document inside array
	gAOD              // array of documents
	gTS               // timestamp leaf
	gAllTypes         // every metric leaf type
	gNonMetric        // non-metric leaves between metric leaves
	gCount
)

func (r *rng) graft(kind int, o schemaOpts) *val {
	switch kind {
	case gDeep2:
		return r.wrap(r.anyLeafOrTs(o), 1+r.intn(2), o, true)
	case gDeep4:
		return r.wrap(r.anyLeafOrTs(o), 3+r.intn(3), o, true)
	case gSib:
		k := r.keyer()
		n := 2 + r.intn(3)
		d := []elem{}
		for i := 0; i < n; i++ {
			d = append(d, elem{k.next(), r.leafDoc(o)})
		}
		if r.chance(1, 2) {
			d = r.insertAt(d, elem{k.next(), r.metricLeaf(o)})
		}
		parent := &val{T: 0x03, Doc: d}
		// the parent itself must sit at path length >= 2: one level is the graft's own key
		return r.wrap(parent, 1+r.intn(3), o, r.chance(1, 3))
	case gADA:
		inner := []*val{}
		n := 1 + r.intn(3)
		for i := 0; i < n; i++ {
			if r.chance(1, 4) {
				inner = append(inner, r.leafDoc(o))
			} else {
				inner = append(inner, r.metricLeaf(o))
			}
		}
		k := r.keyer()
		d := r.filler(k, o)
		d = r.insertAt(d, elem{k.next(), &val{T: 0x04, Arr: inner}})
		mid := &val{T: 0x03, Doc: d}
		if r.chance(1, 3) {
			mid = r.wrap(mid, 1, o, false)
		}
		outer := []*val{}
		pre := r.intn(3)
		for j := 0; j < pre; j++ {
			outer = append(outer, r.node(o.maxDepth, o))
		}
		outer = append(outer, mid)
		if r.chance(1, 2) {
			outer = append(outer, r.metricLeaf(o))
		}
		return &val{T: 0x04, Arr: outer}
	case gAOD:
		n := 1 + r.intn(4)
		a := []*val{}
		for i := 0; i < n; i++ {
			a = append(a, r.leafDoc(o))
			if r.chance(1, 4) {
				a = append(a, r.metricLeaf(o))
			}
		}
		return &val{T: 0x04, Arr: a}
	case gTS:
		if r.chance(1, 2) {
			return c02Leaf(0x11)
		}
		return r.wrap(c02Leaf(0x11), 1+r.intn(3), o, true)
	case gAllTypes:
		k := r.keyer()
		d := []elem{}
		perm := append([]byte{}, metricTypes...)
		for i := len(perm) - 1; i > 0; i-- {
			j := r.intn(i + 1)
			perm[i], perm[j] = perm[j], perm[i]
		}
		for _, t := range perm {
			d = append(d, elem{k.next(), c02Leaf(t)})
		}
		v := &val{T: 0x03, Doc: d}
		if r.chance(1, 2) {
			v = r.wrap(v, r.intn(3), o, true)
		}
		return v
	default: // gNonMetric
		k := r.keyer()
		d := []elem{{k.next(), r.metricLeaf(o)}}
		n := 1 + r.intn(3)
		for i := 0; i < n; i++ {
			d = append(d, elem{k.next(), r.nonMetricLeaf()})
			d = append(d, elem{k.next(), r.metricLeaf(o)})
		}
		v := &val{T: 0x03, Doc: d}
		if r.chance(1, 2) {
			arr := []*val{r.metricLeaf(o), r.nonMetricLeaf(), r.metricLeaf(o)}
			v.Doc = r.insertAt(v.Doc, elem{k.next(), &val{T: 0x04, Arr: arr}})
		}
		return v
	}
}

func (r *rng) anyLeafOrTs(o schemaOpts) *val {
	if r.chance(1, 6) {
		return r.leafDoc(o)
	}
	return r.metricLeaf(o)
}

// c02Shape: a random base document with the requested grafts inserted at random
// positions of the top level
func (r *rng) c02Shape(want []int, o schemaOpts) []elem {
	base := r.schema(0, o)
	used := map[string]bool{}
	for _, e := range base {
		used[e.K] = true
	}
	k := &keyer{r: r, used: used}
	for _, g := range want {
		base = r.insertAt(base, elem{k.next(), r.graft(g, o)})
	}
	return base
}

// ---------------------------------------------------------------- measured shape classes

type shapeClass struct {
	maxDepth    int // longest metric-leaf path (field names and array indices)
	sib3, sib4  bool
	ada, aod    bool
	arr         bool // some array holds a metric leaf
	ts          bool
	types       map[byte]bool
	nmInter     bool
	metrics     int
	lastMetric  bool // a metric leaf was seen before (document order)
	pendingNonM bool // a non-metric leaf was seen after a metric leaf
}

// anc: the container kinds from the root down to (excluding) the node, 'd' / 'a'
func (c *shapeClass) walk(v *val, depth int, anc string) {
	switch v.T {
	case 0x03:
		subdocs := 0
		for _, e := range v.Doc {
			if e.V.T == 0x03 && countMetricsVal(e.V) > 0 {
				subdocs++
			}
		}
		if subdocs >= 2 && depth >= 2 {
			c.sib3 = true
		}
		if subdocs >= 2 && depth >= 3 {
			c.sib4 = true
		}
		for _, e := range v.Doc {
			c.walk(e.V, depth+1, anc+"d")
		}
	case 0x04:
		if countMetricsVal(v) > 0 {
			c.arr = true
			// array inside a document inside an array
			if i := strings.Index(anc, "a"); i >= 0 && strings.Contains(anc[i:], "d") {
				c.ada = true
			}
			for _, x := range v.Arr {
				if x.T == 0x03 && countMetricsVal(x) > 0 {
					c.aod = true
				}
			}
		}
		for _, x := range v.Arr {
			c.walk(x, depth+1, anc+"a")
		}
	default:
		if isMetricType(v.T) {
			c.metrics += countMetricsVal(v)
			c.types[v.T] = true
			if v.T == 0x11 {
				c.ts = true
			}
			if depth > c.maxDepth {
				c.maxDepth = depth
			}
			if c.pendingNonM {
				c.nmInter = true
			}
			c.lastMetric = true
		} else if c.lastMetric {
			c.pendingNonM = true
		}
	}
}

func classify(d []elem) *shapeClass {
	c := &shapeClass{types: map[byte]bool{}}
	c.walk(&val{T: 0x03, Doc: d}, 0, "")
	return c
}

func (c *shapeClass) flags() map[string]bool {
	return map[string]bool{
		"depth_ge2":               c.maxDepth >= 2,
		"depth_ge4":               c.maxDepth >= 4,
		"siblings_at_depth_ge3":   c.sib3,
		"siblings_at_depth_ge4":   c.sib4,
		"array_in_doc_in_array":   c.ada,
		"array_of_documents":      c.aod,
		"array_with_metric":       c.arr,
		"timestamp_zero_seconds":  c.ts,
		"all_metric_types":        len(c.types) == 6,
		"nonmetric_interleaved":   c.nmInter,
		"five_plain_metric_types": c.types[0x01] && c.types[0x08] && c.types[0x09] && c.types[0x10] && c.types[0x12],
	}
}

func c02Docs(r *rng, shape []elem, count int) [][]elem {
	docs := make([][]elem, 0, count)
	var prev []elem
	mode := valueMode(r.intn(4))
	for i := 0; i < count; i++ {
		m := mode
		if r.chance(1, 5) {
			m = valueMode(r.intn(4))
		}
		d := r.fill(shape, prev, m)
		docs = append(docs, d)
		prev = d
	}
	return docs
}

func init() {
	commands["c02"] = func(args []string) error {
		if len(args) < 1 {
			return errors.New("usage: c02 <outdir>")
		}
		ho, err := newOut(filepath.Join(args[0], "hist.cases"))
		if err != nil {
			return err
		}
		ro, err := newOut(filepath.Join(args[0], "read.cases"))
		if err != nil {
			return err
		}
		qo, err := newOut(filepath.Join(args[0], "c02.classes"))
		if err != nil {
			return err
		}
		r := newRng(envSeed())
		nshapes := 220
		if envTier() == "thorough" {
			nshapes = 4400
		}
		id := 0
		emit := func(shape []elem, knownClass bool) {
			cl := classify(shape)
			fl := cl.flags()
			// a timestamp leaf counts for the zero-seconds class only when its seconds are zero
			fl["timestamp_nonzero_seconds"] = knownClass
			if knownClass {
				fl["timestamp_zero_seconds"] = false
			}
			names := make([]string, 0, len(fl))
			for k := range fl {
				names = append(names, k)
			}
			sort.Strings(names)
			fs := make([]string, 0, len(names))
			for _, k := range names {
				fs = append(fs, fmt.Sprintf("%s=%d", k, b2i(fl[k])))
			}
			n := []int{1, 2, 3, 4, 7, 10}[r.intn(6)]
			count := 1 + r.intn(3*n)
			docs := c02Docs(r, shape, count)
			// the same sample sequence through all five compressing collectors (the base
			// collector refuses more than n+1 samples: it gets a prefix)
			for _, kind := range compressingKinds {
				ds := docs
				if kind == "base" && len(ds) > n+1 {
					ds = ds[:n+1]
				}
				id++
				qo.printf("Q %d %s n=%d samples=%d metrics=%d maxdepth=%d known_class=%d %s\n", id, kind, n, len(ds),
					cl.metrics, cl.maxDepth, b2i(knownClass), strings.Join(fs, " "))
				runAndRead(ho, ro, id, sameSchemaCase(kind, pickWrapper(r, kind), n, ds), false)
			}
		}
		// 1. fixed witnesses of the classes of the property's quantifier
		leaf := func(t byte) *val { return c02Leaf(t) }
		doc := func(es ...elem) *val { return &val{T: 0x03, Doc: es} }
		arr := func(vs ...*val) *val { return &val{T: 0x04, Arr: vs} }
		fixed := [][]elem{
			{{"a", doc(elem{"b", doc(elem{"c", leaf(0x12)})})}},
			{{"a", doc(elem{"b", doc(elem{"s1", doc(elem{"x", leaf(0x10)})}, elem{"s2", doc(elem{"x", leaf(0x10)})})})}},
			{{"a", doc(elem{"b", doc(elem{"c", doc(elem{"s1", doc(elem{"x", leaf(0x01)})}, elem{"s2", doc(elem{"y", leaf(0x08)})}, elem{"s3", doc(elem{"z", leaf(0x09)})})})})}},
			{{"a", arr(leaf(0x12), doc(elem{"d", arr(leaf(0x10), doc(elem{"e", leaf(0x08)}))}), leaf(0x01))}},
			{{"a", arr(doc(elem{"x", leaf(0x12)}, elem{"y", leaf(0x11)}), doc(elem{"x", leaf(0x12)}))}},
			{{"t", leaf(0x11)}, {"a", doc(elem{"t", leaf(0x11)}, elem{"t2", leaf(0x12)})}},
			{{"b", leaf(0x08)}, {"s", &val{T: 0x02, B: []byte("x")}}, {"i", leaf(0x10)}, {"l", leaf(0x12)}, {"n", &val{T: 0x0A}}, {"d", leaf(0x01)}, {"t", leaf(0x09)}, {"ts", leaf(0x11)}},
			{{"0", doc(elem{"1", arr(leaf(0x12), leaf(0x12))})}, {"1", arr(doc(elem{"0", leaf(0x10)}))}},
			{{"a", arr(arr(arr(leaf(0x12), leaf(0x08)), leaf(0x01)), arr())}, {"e", doc()}},
			// distinct leaves whose dotted names coincide: a dotted field next to a nested one, an array item next to
			// a field named like its index path, a repeated field name: every view keeps one series per leaf
			{{"a.b", leaf(0x12)}, {"a", doc(elem{"b", leaf(0x12)})}},
			{{"v", arr(leaf(0x12), leaf(0x10))}, {"v.1", leaf(0x12)}},
			{{"x", leaf(0x12)}, {"x", leaf(0x10)}, {"y", leaf(0x12)}},
			// samples without any metric in front of and behind ordinary ones are handled by the streams below
		}
		for _, s := range fixed {
			emit(s, false)
		}
		// 1b. chunks without a single metric between ordinary ones (schema-aware collectors start a new chunk at each
		// change): every view reports such a chunk as what it is, not as a copy of its neighbour
		{
			shapeA := []elem{{"a", leaf(0x12)}, {"b", doc(elem{"c", leaf(0x10)})}}
			shapeZ := []elem{{"s", &val{T: 0x02, B: []byte("text only")}}}
			for _, kind := range []string{"dyn", "sdyn"} {
				for _, order := range []string{"AZA", "ZA", "AZ", "AZZA"} {
					var ds [][]elem
					for _, ch := range order {
						sh := shapeA
						if ch == 'Z' {
							sh = shapeZ
						}
						ds = append(ds, c02Docs(r, sh, 2)...)
					}
					id++
					qo.printf("Q %d %s n=%d samples=%d metrics=%d maxdepth=%d known_class=0 metricless_chunk=1\n", id, kind, 2, len(ds), 2, 2)
					runAndRead(ho, ro, id, sameSchemaCase(kind, "", 2, ds), false)
				}
			}
		}
		// 2. random shapes with grafts for a random subset of the classes
		for i := 0; i < nshapes; i++ {
			o := schemaOpts{maxDepth: 1 + r.intn(4), maxWidth: 1 + r.intn(4), nonMetric: r.chance(2, 3), timestamps: r.chance(1, 2)}
			r.tsSeconds = r.chance(1, 20)
			want := []int{}
			for g := 0; g < gCount; g++ {
				if r.chance(1, 3) {
					want = append(want, g)
				}
			}
			if len(want) == 0 {
				want = append(want, r.intn(gCount))
			}
			shape := r.c02Shape(want, o)
			emit(shape, r.tsSeconds && classify(shape).ts)
		}
		r.tsSeconds = false
		if err := ho.close(); err != nil {
			return err
		}
		if err := qo.close(); err != nil {
			return err
		}
		return ro.close()
	}
}
