package main

// C16: concurrent recorders neither deadlock nor lose updates.
//
//   ftdcverif c16 <outfile> [all|sys|stress]
//
// Everything runs against the real code (events package built with -tags verif):
//  (1) SYS lines - systematic schedules: for both interval recorders, BeginIteration starts the
//      flusher (2 ms ticker); the flusher is stalled at its k-th `fl.tick` (between tick and Lock)
//      or `fl.locked` (right after Lock); IncOperations(a) and EndTest/Reset run to completion on
//      the main goroutine (with the flusher stalled at fl.locked the first of them must wait until
//      the release); the flusher is released; IncOperations(b) is issued; second cycle likewise;
//      then EndIteration + EndTest. Every call under a 2 s watchdog.
//  (2) STR lines, kinds perf/hist - stress: 50 us ticker, G goroutines doing Begin/Inc/End loops,
//      goroutine 0 additionally calling EndTest after every few of its own iterations (so every
//      cycle is stamped by goroutine 0 itself and the bookkeeping is exact: the counters persisted
//      by all EndTests add up to the sum of all increments); the incrementing goroutines are
//      joined before the closing EndTest. A monitor declares the run blocked when an unfinished
//      goroutine makes no progress for 2 s.
//  (3) STR lines, kind sync - NewSynchronizedRecorder(NewRawRecorder) with G goroutines: the
//      counter persisted by the closing EndTest = sum of all increments.
//  (4) in all runs: flusher goroutines identified by the goroutine ids that emit `fl.tick`
//      (perGoroutine()), events-package goroutines left after the closing EndTest, flusher events
//      after it settled, which goroutine persisted which sample (a cancelled flusher must not).
// The snapshotting collector copies MarshalDocument() at Add time for *events.Performance; for
// *events.PerformanceHDR it reads the operations histogram of the live point instead (Add runs
// under the recorder's mutex): one MarshalDocument of that type is > 100 MB of BSON (six count
// arrays of 262144..2.7M cells), which no ticker-driven run can afford.

import (
	"bytes"
	"context"
	"errors"
	"fmt"
	"runtime"
	"strings"
	"sync"
	"sync/atomic"
	"time"

	"github.com/evergreen-ci/birch"
	"github.com/mongodb/ftdc"
	"github.com/mongodb/ftdc/events"
)

const c16Watchdog = 2 * time.Second

type c16Sample struct {
	gid int64
	ops int64
	raw []byte
}

type c16Coll struct {
	mu      sync.Mutex
	samples []c16Sample
	userGid map[int64]bool // goroutines of the harness (EndTest callers)
	cheap   bool           // HDR: exact sum only for samples persisted by harness goroutines
	bad     string
	refuse  bool // every Add is recorded and then reported as failed: the recorder's cycle carries an error
}

func (c *c16Coll) SetMetadata(interface{}) error { return nil }
func (c *c16Coll) Resolve() ([]byte, error)      { return nil, nil }
func (c *c16Coll) Reset()                        {}
func (c *c16Coll) Info() ftdc.CollectorInfo      { return ftdc.CollectorInfo{} }

func (c *c16Coll) Add(in interface{}) error {
	g := goid()
	s := c16Sample{gid: g}
	switch p := in.(type) {
	case *events.Performance:
		doc, err := p.MarshalDocument()
		if err == nil {
			s.raw, err = doc.MarshalBSON()
		}
		if err != nil {
			c.mu.Lock()
			c.bad = "marshal: " + err.Error()
			c.mu.Unlock()
		}
	case *events.PerformanceHDR:
		h := p.Counters.Operations
		c.mu.Lock()
		exact := !c.cheap || c.userGid[g]
		c.mu.Unlock()
		if exact {
			var sum int64
			for _, b := range h.Distribution() {
				if b.Count != 0 {
					sum += b.From * b.Count
					if b.From != b.To {
						c.mu.Lock()
						c.bad = "inexact histogram bar"
						c.mu.Unlock()
					}
				}
			}
			s.ops = sum
		} else {
			s.ops = h.TotalCount()
		}
	default:
		c.mu.Lock()
		c.bad = fmt.Sprintf("unexpected sample type %T", in)
		c.mu.Unlock()
	}
	c.mu.Lock()
	c.samples = append(c.samples, s)
	refuse := c.refuse
	c.mu.Unlock()
	if refuse {
		return errors.New("c16 collector reports a failed write")
	}
	return nil
}

// decode the copies taken at Add time
func (c *c16Coll) decoded() ([]c16Sample, string) {
	c.mu.Lock()
	defer c.mu.Unlock()
	out := make([]c16Sample, len(c.samples))
	bad := c.bad
	for i, s := range c.samples {
		if s.raw != nil {
			doc, err := birch.ReadDocument(s.raw)
			if err != nil {
				bad = "decode: " + err.Error()
			} else {
				var p events.Performance
				if err := p.UnmarshalDocument(doc); err != nil {
					bad = "unmarshal: " + err.Error()
				}
				s.ops = p.Counters.Operations
			}
		}
		out[i] = s
	}
	return out, bad
}

func (c *c16Coll) markUser(g int64) {
	c.mu.Lock()
	if c.userGid == nil {
		c.userGid = map[int64]bool{}
	}
	c.userGid[g] = true
	c.mu.Unlock()
}

// goroutines created by the events package (the flushers)
func c16EventsGoroutines() int {
	buf := make([]byte, 1<<22)
	n := runtime.Stack(buf, true)
	cnt := 0
	for _, st := range strings.Split(string(buf[:n]), "\n\n") {
		if strings.Contains(st, "created by github.com/mongodb/ftdc/events.") {
			cnt++
		}
	}
	return cnt
}

// run f with a watchdog: false = still not returned after d (the goroutine is abandoned)
func c16Watch(d time.Duration, f func()) bool {
	done := make(chan struct{})
	go func() { f(); close(done) }()
	select {
	case <-done:
		return true
	case <-time.After(d):
		return false
	}
}

func c16New(kind string, ctx context.Context, coll ftdc.Collector, iv time.Duration) events.Recorder {
	switch kind {
	case "perf":
		return events.NewIntervalRecorder(ctx, coll, iv)
	case "hist":
		return events.NewIntervalHistogramRecorder(ctx, coll, iv)
	}
	return events.NewSynchronizedRecorder(events.NewRawRecorder(coll))
}

func c16Csv(v []int64) string {
	if len(v) == 0 {
		return "-"
	}
	s := make([]string, len(v))
	for i, x := range v {
		s[i] = fmt.Sprint(x)
	}
	return strings.Join(s, ",")
}

// distinct goroutine ids that emitted fl.tick, and the numbers of fl.tick / fl.locked events
func c16FlusherStats(scheds []*sched) (gids map[int64]bool, ticks, locked int) {
	gids = map[int64]bool{}
	for _, s := range scheds {
		s.mu.Lock()
		for _, e := range s.events {
			switch e.label {
			case "fl.tick":
				gids[e.gid] = true
				ticks++
			case "fl.locked":
				locked++
			}
		}
		s.mu.Unlock()
	}
	return
}

// settle after the closing EndTest: goroutines left, flusher events still arriving
func c16Settle(base int, scheds []*sched) (live, late int) {
	deadline := time.Now().Add(300 * time.Millisecond)
	for {
		live = c16EventsGoroutines() - base
		if live <= 0 || time.Now().After(deadline) {
			break
		}
		time.Sleep(2 * time.Millisecond)
	}
	if live < 0 {
		live = 0
	}
	_, t0, l0 := c16FlusherStats(scheds)
	time.Sleep(8 * time.Millisecond)
	_, t1, l1 := c16FlusherStats(scheds)
	late = (t1 - t0) + (l1 - l0)
	return
}

// ---------------------------------------------------------------- (1) systematic

type c16SysCase struct {
	kind   string
	atTick bool
	reset  bool
	k      int
	a, b   [2]int64
	refuse bool // the collector reports every write as failed (EndTest then returns an error; nothing else changes)
}

func c16Sys(o *out, cs c16SysCase) (blocked bool) {
	defer uninstallSched()
	base := c16EventsGoroutines()
	coll := &c16Coll{refuse: cs.refuse}
	coll.markUser(goid())
	ctx, cancel := context.WithCancel(context.Background())
	defer cancel()
	rec := c16New(cs.kind, ctx, coll, 2*time.Millisecond)
	var scheds []*sched
	stalledCycles := 0
	note := "ok"
	call := func(name string, f func()) bool {
		if blocked {
			return false
		}
		g := int64(0)
		ok := c16Watch(c16Watchdog, func() { g = goid(); coll.markUser(g); f() })
		if !ok {
			blocked = true
			note = "blocked:" + name
		}
		return ok
	}
	label := "fl.locked"
	if cs.atTick {
		label = "fl.tick"
	}
	for cyc := 0; cyc < 2 && !blocked; cyc++ {
		s := newSched(label, cs.k)
		scheds = append(scheds, s)
		if !call("BeginIteration", rec.BeginIteration) {
			break
		}
		stalled := s.waitStalled(c16Watchdog)
		if stalled {
			stalledCycles++
		} else if note == "ok" {
			note = "not-stalled"
		}
		endOp := func() {
			if cs.reset {
				rec.Reset()
			} else {
				_ = rec.EndTest()
			}
		}
		if cs.atTick {
			// flusher sits between tick and Lock: the calls run to completion now
			call("IncOperations(a)", func() { rec.IncOperations(cs.a[cyc]) })
			call("EndTest/Reset", endOp)
			s.releaseStall()
		} else {
			// flusher sits right after Lock: the call must wait for the release. The next tick is
			// caught by a second controller (stall before Lock) so that the rest is deterministic.
			pending := make(chan struct{})
			go func() {
				coll.markUser(goid())
				rec.IncOperations(cs.a[cyc])
				close(pending)
			}()
			waited := false
			select {
			case <-pending:
			case <-time.After(15 * time.Millisecond):
				waited = true
			}
			if stalled && !waited && note == "ok" {
				note = "no-exclusion" // the call got in although the flusher holds the mutex
			}
			s2 := newSched("fl.tick", 1)
			scheds = append(scheds, s2)
			s.releaseStall()
			select {
			case <-pending:
			case <-time.After(c16Watchdog):
				blocked = true
				note = "blocked:IncOperations(a)"
			}
			call("EndTest/Reset", endOp)
			s2.releaseStall()
		}
		// the released flusher finishes first (it returns: its context is cancelled), as in the model's
		// schedule; then the next call is issued
		dl := time.Now().Add(c16Watchdog)
		for c16EventsGoroutines()-base > 0 && time.Now().Before(dl) && !blocked {
			time.Sleep(200 * time.Microsecond)
		}
		call("IncOperations(b)", func() { rec.IncOperations(cs.b[cyc]) })
	}
	call("EndIteration", func() { rec.EndIteration(time.Millisecond) })
	call("EndTest", func() { _ = rec.EndTest() })
	live, late := c16Settle(base, scheds)
	gids, _, _ := c16FlusherStats(scheds)
	samples, bad := coll.decoded()
	var all, end []int64
	for _, s := range samples {
		all = append(all, s.ops)
		if coll.userGid[s.gid] {
			end = append(end, s.ops)
		}
	}
	if bad != "" {
		note = "harness:" + strings.ReplaceAll(bad, " ", "_")
	}
	stall, op := "locked", "endtest"
	if cs.atTick {
		stall = "tick"
	}
	if cs.reset {
		op = "reset"
	}
	o.printf("SYS %s %s %s %d %d %d %d %d :: blocked=%d live=%d late=%d flushers=%d stalled=%d samples=%s end=%s note=%s\n",
		cs.kind, stall, op, cs.k, cs.a[0], cs.b[0], cs.a[1], cs.b[1],
		b2i(blocked), live, late, len(gids), stalledCycles, c16Csv(all), c16Csv(end), note)
	return blocked
}

// ---------------------------------------------------------------- (1b) an interval that never elapses

// c16Long runs one goroutine's program against an interval recorder whose interval (one hour) never elapses during
// the run, bare or behind NewSynchronizedRecorder: the flusher only ever sees its cancellation, never a tick. After
// every EndTest / Reset the flusher goroutine has to be gone within two seconds (it is not allowed to linger until the next tick), every
// BeginIteration that follows one starts exactly one, and the EndTest samples are the sums since the previous
// EndTest / Reset.
func c16Long(o *out, kind string, wrapped bool, prog []string) (blocked bool) {
	base := c16EventsGoroutines()
	coll := &c16Coll{}
	ctx, cancel := context.WithCancel(context.Background())
	defer cancel()
	rec := c16New(kind, ctx, coll, time.Hour)
	if wrapped {
		rec = events.NewSynchronizedRecorder(rec)
	}
	note := "ok"
	call := func(name string, f func()) {
		if blocked {
			return
		}
		if !c16Watch(c16Watchdog, func() { coll.markUser(goid()); f() }) {
			blocked = true
			note = "blocked:" + name
		}
	}
	live := func() int { return c16EventsGoroutines() - base }
	waitFor := func(d time.Duration, ok func(int) bool) int {
		dl := time.Now().Add(d)
		for {
			n := live()
			if ok(n) || time.Now().After(dl) {
				return n
			}
			time.Sleep(500 * time.Microsecond)
		}
	}
	flushers, lingering := 0, 0
	for _, t := range prog {
		before := live()
		switch t[0] {
		case 'B':
			call("BeginIteration", rec.BeginIteration)
			if n := waitFor(250*time.Millisecond, func(n int) bool { return n > before }); n > before {
				flushers += n - before
			}
		case 'I':
			var k int64
			fmt.Sscan(t[1:], &k)
			call("IncOperations", func() { rec.IncOperations(k) })
		case 'E':
			call("EndIteration", func() { rec.EndIteration(time.Millisecond) })
		case 'T':
			call("EndTest", func() { _ = rec.EndTest() })
			lingering += waitFor(2*time.Second, func(n int) bool { return n <= 0 })
		case 'R':
			call("Reset", rec.Reset)
			lingering += waitFor(2*time.Second, func(n int) bool { return n <= 0 })
		}
	}
	left := 0
	if !blocked {
		left = waitFor(2*time.Second, func(n int) bool { return n <= 0 })
	}
	if left < lingering {
		left = lingering // a flusher that outlived its cycle and was only ended by a later call
	}
	if left < 0 {
		left = 0
	}
	samples, bad := coll.decoded()
	var end []int64
	for _, sm := range samples {
		if coll.userGid[sm.gid] {
			end = append(end, sm.ops)
		}
	}
	if bad != "" {
		note = "harness:" + strings.ReplaceAll(bad, " ", "_")
	}
	o.printf("LNG %s %d :: blocked=%d live=%d flushers=%d end=%s note=%s prog=%s\n", kind, b2i(wrapped), b2i(blocked), left,
		flushers, c16Csv(end), note, strings.Join(prog, ","))
	return blocked
}

// ---------------------------------------------------------------- (2)(3) stress

type c16Worker struct {
	prog     []string
	progress int64 // atomic
	done     int32 // atomic
	cur      atomic.Value
}

func c16Stress(o *out, r *rng, kind string, G, iters, perCycle int) (blocked bool) {
	defer uninstallSched()
	base := c16EventsGoroutines()
	coll := &c16Coll{cheap: true}
	ctx, cancel := context.WithCancel(context.Background())
	defer cancel()
	rec := c16New(kind, ctx, coll, 50*time.Microsecond)
	s := newSched("", 0)
	ws := make([]*c16Worker, G)
	seeds := make([]uint64, G)
	for i := range ws {
		ws[i] = &c16Worker{}
		ws[i].cur.Store("")
		seeds[i] = r.u64()
	}
	var g0idA, cyclesA atomic.Int64
	var stop atomic.Bool // set when the run exceeds its time budget: the goroutines wind up
	iteration := func(w *c16Worker, wr *rng) {
		k := int64(1 + wr.intn(100))
		w.cur.Store("BeginIteration")
		rec.BeginIteration()
		atomic.AddInt64(&w.progress, 1)
		w.cur.Store("IncOperations")
		rec.IncOperations(k)
		atomic.AddInt64(&w.progress, 1)
		w.prog = append(w.prog, "B", fmt.Sprintf("I%d", k))
		if wr.chance(1, 4) {
			// one of the other public methods (each is Lock; body; Unlock and leaves the operations
			// counter alone: SetGauge in the model), with 0 among the arguments
			v := int64(wr.intn(3))
			names := []string{"SetState", "IncError", "IncSize", "IncIterations", "SetWorkers", "SetFailed", "SetID",
				"SetDuration", "SetTotalDuration"}
			which := wr.intn(len(names))
			w.cur.Store(names[which])
			switch which {
			case 0:
				rec.SetState(v)
			case 1:
				rec.IncError(v)
			case 2:
				rec.IncSize(v)
			case 3:
				rec.IncIterations(v)
			case 4:
				rec.SetWorkers(v)
			case 5:
				rec.SetFailed(v == 1)
			case 6:
				rec.SetID(v)
			case 7:
				rec.SetDuration(time.Duration(v) * time.Millisecond)
			case 8:
				rec.SetTotalDuration(time.Duration(v) * time.Millisecond)
			}
			atomic.AddInt64(&w.progress, 1)
			w.prog = append(w.prog, fmt.Sprintf("G%d", v))
		}
		w.cur.Store("EndIteration")
		rec.EndIteration(time.Microsecond)
		atomic.AddInt64(&w.progress, 1)
		w.prog = append(w.prog, "E")
	}
	endTest := func(w *c16Worker) {
		w.cur.Store("EndTest")
		_ = rec.EndTest()
		atomic.AddInt64(&w.progress, 1)
		w.prog = append(w.prog, "T")
		cyclesA.Add(1)
	}
	othersDone := make(chan struct{})
	var wg sync.WaitGroup
	for i := 1; i < G; i++ {
		wg.Add(1)
		go func(w *c16Worker, seed uint64) {
			defer wg.Done()
			wr := newRng(seed)
			for j := 0; j < iters && !stop.Load(); j++ {
				iteration(w, wr)
			}
			atomic.StoreInt32(&w.done, 1)
		}(ws[i], seeds[i])
	}
	go func() { wg.Wait(); close(othersDone) }()
	g0done := make(chan struct{})
	go func() {
		defer close(g0done)
		w := ws[0]
		g0idA.Store(goid())
		coll.markUser(g0idA.Load())
		wr := newRng(seeds[0])
		for j := 0; j < iters && !stop.Load(); j++ {
			iteration(w, wr)
			if kind != "sync" && (j+1)%perCycle == 0 {
				endTest(w) // races with the other goroutines' calls and with the flusher
			}
		}
		<-othersDone // quiesce the incrementing goroutines
		w.prog = append(w.prog, "Q")
		if kind != "sync" {
			iteration(w, wr) // stamps the closing cycle
		}
		endTest(w)
		atomic.StoreInt32(&w.done, 1)
	}()
	// monitor: no progress of an unfinished goroutine for 2 s = blocked
	last := make([]int64, G)
	lastChange := make([]time.Time, G)
	for i := range lastChange {
		lastChange[i] = time.Now()
	}
	note := "ok"
	began := time.Now()
	budget := 12 * time.Second
	if envTier() == "thorough" {
		budget = 40 * time.Second
	}
monitor:
	for {
		select {
		case <-g0done:
			break monitor
		case <-time.After(20 * time.Millisecond):
		}
		now := time.Now()
		if now.Sub(began) > budget && !stop.Load() {
			stop.Store(true) // not blocked, but far too slow (e.g. a pile of tickers): wind up and report
			note = "overrun"
		}
		for i, w := range ws {
			p := atomic.LoadInt64(&w.progress)
			if p != last[i] || atomic.LoadInt32(&w.done) == 1 {
				last[i] = p
				lastChange[i] = now
			} else if now.Sub(lastChange[i]) > c16Watchdog {
				blocked = true
				note = fmt.Sprintf("blocked:g%d:%v", i, w.cur.Load())
				break monitor
			}
		}
	}
	scheds := []*sched{s}
	live, late := 0, 0
	if !blocked {
		live, late = c16Settle(base, scheds)
	}
	gids, _, locked := c16FlusherStats(scheds)
	samples, bad := coll.decoded()
	if bad != "" {
		note = "harness:" + strings.ReplaceAll(bad, " ", "_")
	}
	g0id, cycles := g0idA.Load(), int(cyclesA.Load())
	// bookkeeping over the persisted sequence
	var total, lastUser int64
	overlap := 0
	mono := 1
	seen := map[int64]int{} // flusher gid -> segment
	seg := 0
	inSeg := map[int64]bool{}
	var prev int64 = -1
	for _, sm := range samples {
		if sm.gid == g0id {
			total += sm.ops // int64 wrap-around like the code
			lastUser = sm.ops
			if kind != "sync" {
				if len(inSeg) > 1 {
					overlap++
				}
				seg++
				inSeg = map[int64]bool{}
				prev = -1
			}
			continue
		}
		if kind == "sync" {
			lastUser = sm.ops // raw recorder: EndIteration persists, from any goroutine
			continue
		}
		if sg, ok := seen[sm.gid]; ok && sg != seg {
			overlap++
		}
		seen[sm.gid] = seg
		inSeg[sm.gid] = true
		if sm.ops < prev {
			mono = 0
		}
		prev = sm.ops
	}
	if kind == "sync" {
		total = lastUser
	}
	progs := make([]string, G)
	if !blocked {
		for i, w := range ws {
			progs[i] = strings.Join(w.prog, ",")
		}
	} else {
		progs = []string{"-"}
	}
	o.printf("STR %s %d :: blocked=%d live=%d late=%d flushers=%d cycles=%d ticks=%d overlap=%d total=%d mono=%d nsamples=%d note=%s progs=%s\n",
		kind, G, b2i(blocked), live, late, len(gids), cycles, locked, overlap, total, mono, len(samples), note,
		strings.Join(progs, "|"))
	return blocked
}

// ---------------------------------------------------------------- (4) the synchronized wrapper over every recorder

// c16Linger is a collector whose Add lingers: two calls inside at once mean that the recorder in front of it was
// entered by two goroutines at once
type c16Linger struct {
	inside, max, adds int32
}

func (c *c16Linger) SetMetadata(interface{}) error { return nil }
func (c *c16Linger) Resolve() ([]byte, error)      { return nil, nil }
func (c *c16Linger) Reset()                        {}
func (c *c16Linger) Info() ftdc.CollectorInfo      { return ftdc.CollectorInfo{} }
func (c *c16Linger) Add(interface{}) error {
	n := atomic.AddInt32(&c.inside, 1)
	for {
		m := atomic.LoadInt32(&c.max)
		if n <= m || atomic.CompareAndSwapInt32(&c.max, m, n) {
			break
		}
	}
	atomic.AddInt32(&c.adds, 1)
	time.Sleep(1500 * time.Microsecond)
	atomic.AddInt32(&c.inside, -1)
	return nil
}

var c16Inner = []string{"raw", "single", "grouped", "histogram", "histsingle", "histgrouped", "evsync"}

func c16InnerRecorder(kind string, coll ftdc.Collector) events.Recorder {
	switch kind {
	case "raw":
		return events.NewRawRecorder(coll)
	case "single":
		return events.NewSingleRecorder(coll)
	case "grouped":
		return events.NewGroupedRecorder(coll, 0)
	case "histogram":
		return events.NewHistogramRecorder(coll)
	case "histsingle":
		return events.NewSingleHistogramRecorder(coll)
	}
	return events.NewHistogramGroupedRecorder(coll, 0)
}

// SER <inner> <G> :: blocked=.. overlap=<most calls inside the wrapped recorder's collector at once, minus one> adds=..
func c16Serial(o *out, inner string, G int) bool {
	coll := &c16Linger{}
	if inner == "evsync" {
		// the events package's synchronized collector over a pass-through collector: AddEvent from G goroutines
		ec := events.NewSynchronizedCollector(events.NewPassthroughCollector(coll))
		ok := c16Watch(20*time.Second, func() {
			var wg sync.WaitGroup
			for g := 0; g < G; g++ {
				wg.Add(1)
				go func(g int) {
					defer wg.Done()
					for j := 0; j < 6; j++ {
						_ = ec.AddEvent(&events.Performance{ID: int64(g*100 + j)})
						_ = ec.Info()
					}
				}(g)
			}
			wg.Wait()
		})
		ov := int(atomic.LoadInt32(&coll.max)) - 1
		if ov < 0 {
			ov = 0
		}
		// every method of the wrapper reaches the collector behind it: metadata set through it is in what it resolves
		meta := 0
		real := events.NewSynchronizedCollector(events.NewPassthroughCollector(ftdc.NewBaseCollector(10)))
		_ = real.SetMetadata(encDoc([]elem{{"host", &val{T: 0x02, B: []byte("h")}}}))
		_ = real.AddEvent(&events.Performance{ID: 1})
		if p, err := real.Resolve(); err == nil {
			ctx, cancel := context.WithTimeout(context.Background(), 10*time.Second)
			it := ftdc.ReadChunks(ctx, bytes.NewReader(p))
			for it.Next() {
				if it.Chunk().GetMetadata() != nil {
					meta = 1
				}
			}
			it.Close()
			cancel()
		}
		if ok && atomic.LoadInt32(&coll.adds) != int32(G*6) {
			meta = 0 // not every AddEvent reached the collector behind the wrapper
		}
		o.printf("SER %s %d :: blocked=%d overlap=%d adds=%d meta=%d\n", inner, G, b2i(!ok), ov, atomic.LoadInt32(&coll.adds), meta)
		return !ok
	}
	rec := events.NewSynchronizedRecorder(c16InnerRecorder(inner, coll))
	ok := c16Watch(20*time.Second, func() {
		var wg sync.WaitGroup
		for g := 0; g < G; g++ {
			wg.Add(1)
			go func() {
				defer wg.Done()
				for j := 0; j < 6; j++ {
					rec.BeginIteration()
					rec.IncOperations(1)
					rec.SetTime(time.Now())
					rec.SetID(int64(j))
					rec.IncSize(2)
					rec.EndIteration(time.Microsecond)
					rec.SetTotalDuration(time.Millisecond)
				}
			}()
		}
		wg.Wait()
		_ = rec.EndTest()
	})
	ov := int(atomic.LoadInt32(&coll.max)) - 1
	if ov < 0 {
		ov = 0
	}
	o.printf("SER %s %d :: blocked=%d overlap=%d adds=%d\n", inner, G, b2i(!ok), ov, atomic.LoadInt32(&coll.adds))
	return !ok
}

func init() {
	commands["c16"] = func(args []string) error {
		if len(args) < 1 {
			return fmt.Errorf("usage: c16 <outfile> [all|sys|stress]")
		}
		part := "all"
		if len(args) > 1 {
			part = args[1]
		}
		o, err := newOut(args[0])
		if err != nil {
			return err
		}
		r := newRng(envSeed())
		thorough := envTier() == "thorough"
		if part == "all" || part == "sys" {
			reps := 2
			if thorough {
				reps = 30
			}
			nblocked := 0
			for rep := 0; rep < reps; rep++ {
				for _, kind := range []string{"perf", "hist"} {
					for _, reset := range []bool{false, true} {
						for _, st := range []struct {
							tick bool
							k    int
						}{{true, 1}, {true, 2}, {true, 3}, {false, 1}, {false, 2}} {
							// every other repetition the cycles end with an error in the recorder's catcher
							cs := c16SysCase{kind: kind, atTick: st.tick, reset: reset, k: st.k, refuse: rep%2 == 1}
							for i := 0; i < 2; i++ {
								if kind == "perf" && r.chance(1, 3) {
									// near the int64 boundary: the sum wraps around
									cs.a[i] = int64(r.u64()>>1) - r.i64n(1<<40)
									cs.b[i] = int64(r.u64() >> 2)
								} else {
									cs.a[i] = 1 + r.i64n(1000)
									cs.b[i] = 1 + r.i64n(1000)
								}
							}
							if nblocked >= 3 {
								o.printf("SKIP SYS %s (three runs blocked already)\n", kind)
								continue
							}
							if c16Sys(o, cs) {
								nblocked++
							}
						}
					}
				}
			}
		}
		if part == "all" || part == "sys" {
			nprog := 6
			if thorough {
				nprog = 60
			}
			nblocked := 0
			for i := 0; i < nprog; i++ {
				for _, kind := range []string{"perf", "hist"} {
					for _, wrapped := range []bool{false, true} {
						// cycles of Begin / increments / End, closed by EndTest or Reset; the last one by EndTest
						var prog []string
						ncyc := 1 + r.intn(4)
						for c := 0; c < ncyc; c++ {
							stamped := false
							for j := r.intn(4); j >= 0; j-- {
								switch r.intn(4) {
								case 0:
									prog = append(prog, "B")
									stamped = true
								case 1:
									if stamped {
										prog = append(prog, "E")
									}
								default:
									prog = append(prog, fmt.Sprintf("I%d", 1+r.i64n(1000)))
								}
							}
							if c == ncyc-1 {
								prog = append(prog, "B", fmt.Sprintf("I%d", 1+r.i64n(1000)), "T")
							} else if r.chance(1, 2) {
								prog = append(prog, "R")
							} else {
								prog = append(prog, "T")
							}
						}
						if nblocked < 3 && c16Long(o, kind, wrapped, prog) {
							nblocked++
						}
					}
				}
			}
		}
		if part == "all" || part == "stress" {
			runs, iters := 2, 3000
			if thorough {
				runs, iters = 25, 6000
			}
			if part == "stress" && !thorough {
				runs = 1 // the quick -race pass
			}
			nblocked := 0
			for rep := 0; rep < runs; rep++ {
				for _, kind := range []string{"perf", "hist", "sync"} {
					for _, G := range []int{2, 4, 8} {
						if nblocked >= 3 {
							o.printf("SKIP STR %s %d (three runs blocked already)\n", kind, G)
							continue
						}
						it, per := iters, 20+r.intn(180)
						if kind == "hist" {
							// every reset allocates six fresh histograms (about 30 MB)
							it, per = iters/4, 60+r.intn(200)
						}
						if c16Stress(o, r, kind, G, it, per) {
							nblocked++
						}
					}
				}
			}
			// the synchronized wrapper over every recorder that is not thread-safe by itself
			for _, inner := range c16Inner {
				for _, G := range []int{2, 4} {
					if nblocked < 3 && c16Serial(o, inner, G) {
						nblocked++
					}
				}
			}
		}
		return o.close()
	}
}
