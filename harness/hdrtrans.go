package main

// Go -> Gallina translator for the integer arithmetic core of hdrhist/hdr.go (DESIGN.md section 5b,
// second source-facts tie of C12 / C13):
//
//   ftdcverif hdrtrans <repo-dir> <out-file>
//
// parses <repo-dir>/hdrhist/hdr.go (go/parser + go/ast, standard library only) and writes <out-file>
// (= coq/Generated/HdrArith.v): one Gallina definition g_<goName> per function of the list htFunctions
// below.  The file is rewritten only when its content changes ("hdrtrans: HdrArith.v written" /
// "hdrtrans: HdrArith.v unchanged").  Proofs/HdrTranslated.v proves every g_<goName> equal to the
// hand-written definition of Model/Hdr.v the C12/C13 theorems are about; Props/FactsHdr.v states the
// obligations.  A source change in one of the functions changes the generated definition, and the
// equivalence proof no longer checks; a reformatting or a renamed local does not (the proofs never
// mention generated local names).
//
// The list of functions (htFunctions), the field table (htFields) and the fuel constants are DATA; the
// translation itself is generic for the following SUBSET of Go.  Anything else makes the translator
// FAIL with "source facts no longer extractable: hdrhist/hdr.go:<line>: ..." and nothing is written.
//
// Functions: methods with receiver `(<h> *Histogram)` (translated with a first parameter c : cfg) and
//   free functions; parameters of type int, int32, int64 (-> Z); one result of such a type, possibly
//   named (a named result starts at 0; a bare `return` returns it).  No recursion.
// Statements (function body = a sequence of them, the LAST one being the only `return`):
//   x := e   x = e   x op= e (op one of + - * / << >> | &)   x++   x--     x a local / parameter / result
//   if cond { stmts } [else { stmts } | else if ...]                   no init clause; no return inside
//   for [;] cond [; post] { stmts }                                    no init clause; no nested loop,
//                                                                      no break / continue / return inside
//   return e     return                  (bare: named result)
//   `x := e` of a name that already exists anywhere in the function is rejected (no shadowing); a
//   variable declared inside a block is local to that block.
// Expressions: integer literals (decimal, hex, octal, binary), local identifiers, <h>.field (through
//   the FIXED table htFields: Go field name -> projection of Model.Hdr.cfg; an unknown field fails),
//   <h>.m(args) and f(args) for m / f in htFunctions (-> g_m c args / g_f args; a call of anything else
//   fails), + - * (-> Z.add/sub/mul), / (-> Z.quot: Go truncates), << >> (-> Z.shiftl / Z.shiftr),
//   | & (-> Z.lor / Z.land), < <= > >= == != (-> Z.ltb leb gtb geb eqb, negb eqb), || && ! (-> orb andb
//   negb), unary - +, parentheses, and the conversions int64() int32() int() uint(), which are
//   translated as the IDENTITY on Z.  A two-kind check (integer / boolean) is applied to every
//   expression.  NOT supported: %, ^, &^, floats, strings, indexing, slices, composite literals
//   (except mode "geometry" below), function literals, multiple assignment, var declarations, switch,
//   range, goto, labels, defer, go.
//
// Translation: straight-line code becomes nested `let x := e in`; an assignment re-binds the name
//   (SSA by shadowing); `if c { S }` becomes `let '(xs) := if c then (S; (xs)) else (xs) in` where xs
//   are the outer variables S assigns (a single variable without the tuple); a loop becomes a Fixpoint
//   g_<fn>_loop on explicit fuel over the variables it assigns, with the free variables it reads as
//   extra parameters; when the fuel is exhausted the Fixpoint returns the current state (visible in the
//   generated text) and the equivalence theorems' range hypotheses exclude that case.  The fuel of a
//   function's loops is the constant given in htFunctions, with its justification.
//
// Two further modes (data in htFunctions, used for one function each; the statement / expression
// translation is the same generic one):
//   guard     the body is translated up to the first `if cond { return ... }` (a body consisting of one
//             return statement); the definition g_<fn>_guard : bool is that condition under the lets of
//             the statements before it.  What follows the guard is NOT translated (RecordValues: the
//             mutation of counts / totalCount).
//   geometry  for the constructor: a leading `if cond { panic(...) }` is skipped (precondition of the
//             constructor; the theorems carry it as 1 <= s <= 5); `x := e` where e mentions package
//             `math` is a FLOAT STEP and is not translated: x becomes an additional parameter of the
//             generated definition when translated code reads it (the float steps are inputs, exactly as
//             in Model/Hdr.v; the equivalence theorem states what they are assumed to compute); the final
//             `return &Histogram{field: e, ...}` becomes `mkCfg ...` through htFields, every cfg field
//             exactly once; the fields of htStateFields (totalCount, counts) are not part of cfg and are
//             skipped.
//
// Trusted: this translator (its reading of Go's semantics for the subset above: evaluation order is
// irrelevant because expressions are pure; integer conversions and wrap-around are NOT modelled - the
// generated code is over unbounded Z and the theorems carry range hypotheses), the field table, go/parser.

import (
	"bytes"
	"fmt"
	"go/ast"
	"go/parser"
	"go/token"
	"math/big"
	"os"
	"path/filepath"
	"strings"
)

const htSource = "hdrhist/hdr.go"
const htStruct = "Histogram"

type htMode int

const (
	htWhole htMode = iota
	htGuard
	htGeometry
)

type htEntry struct {
	goName  string
	method  bool // method of *Histogram: first parameter c : cfg
	mode    htMode
	fuel    int    // fuel of the loops of this function (0: a loop is rejected)
	fuelWhy string // justification, copied into the generated file
}

// the functions to translate (data)
var htFunctions = []htEntry{
	{goName: "bitLen", fuel: 4, fuelWhy: "each round strips 16 bits; an argument below 2^63 is below 0x8000 after at most " +
		"3 rounds, so the 4th test fails before the fuel is used up (4 rounds are enough for every argument below 2^79)"},
	{goName: "getBucketIndex", method: true},
	{goName: "getSubBucketIdx", method: true},
	{goName: "countsIndex", method: true},
	{goName: "countsIndexFor", method: true},
	{goName: "valueFromIndex", method: true},
	{goName: "sizeOfEquivalentValueRange", method: true},
	{goName: "lowestEquivalentValue", method: true},
	{goName: "nextNonEquivalentValue", method: true},
	{goName: "highestEquivalentValue", method: true},
	{goName: "medianEquivalentValue", method: true},
	{goName: "RecordValues", method: true, mode: htGuard},
	{goName: "New", mode: htGeometry, fuel: 64, fuelWhy: "smallestUntrackableValue is positive and doubles every round; it " +
		"exceeds any maxValue below 2^62 after fewer than 64 rounds (Model/Hdr.v buckets_loop uses the same 64)"},
}

// Go field of Histogram -> projection of FV.Model.Hdr.cfg (FIXED table, part of the trusted translator)
var htFields = map[string]string{
	"lowestTrackableValue":        "c_lo",
	"highestTrackableValue":       "c_hi",
	"significantFigures":          "c_sf",
	"unitMagnitude":               "c_unit",
	"subBucketHalfCountMagnitude": "c_hm",
	"subBucketHalfCount":          "c_hc",
	"subBucketMask":               "c_mask",
	"subBucketCount":              "c_sbc",
	"bucketCount":                 "c_bc",
	"countsLen":                   "c_len",
}

// argument order of mkCfg
var htCfgOrder = []string{"lowestTrackableValue", "highestTrackableValue", "significantFigures", "unitMagnitude",
	"subBucketHalfCountMagnitude", "subBucketHalfCount", "subBucketMask", "subBucketCount", "bucketCount", "countsLen"}

// fields of Histogram that are state, not geometry (skipped in the constructor's composite literal)
var htStateFields = map[string]bool{"totalCount": true, "counts": true}

var htIntTypes = map[string]bool{"int": true, "int32": true, "int64": true}
var htConversions = map[string]bool{"int": true, "int32": true, "int64": true, "uint": true}

// names a Go local must not take in the generated text
var htReserved = map[string]bool{"c": true, "fuel": true, "cfg": true, "mkCfg": true, "Z": true, "nat": true, "bool": true,
	"O": true, "S": true, "true": true, "false": true, "negb": true, "orb": true, "andb": true, "fst": true, "snd": true,
	"pair": true, "prod": true, "let": true, "in": true, "if": true, "then": true, "else": true, "match": true, "with": true,
	"end": true, "fun": true, "forall": true, "exists": true, "fix": true, "cofix": true, "as": true, "at": true,
	"return": true, "using": true, "where": true, "for": true, "struct": true, "Type": true, "Prop": true, "Set": true,
	"SProp": true, "IF": true, "mod": true, "Definition": true, "Fixpoint": true}

type htErr struct{ msg string }

type htKind int

const (
	htInt htKind = iota
	htBool
)

type htFn struct {
	entry   htEntry
	decl    *ast.FuncDecl
	recv    string   // receiver identifier ("" for a free function)
	params  []string // Go parameter names
	calls   []string // translated callees, in order of first call
	text    string   // the emitted definition(s)
	nparams int
}

type htTr struct {
	fset *token.FileSet
	fns  map[string]*htFn
	cur  *htFn
	pre  []string // loop Fixpoints of the current function
	// geometry mode: variables defined by float steps, and which of them translated code reads
	floatVars map[string]bool
	floatUsed map[string]bool
}

func (t *htTr) fail(n ast.Node, format string, args ...interface{}) {
	pos := htSource + ": "
	if n != nil {
		pos = fmt.Sprintf("%s:%d: ", htSource, t.fset.Position(n.Pos()).Line)
	}
	panic(htErr{pos + fmt.Sprintf(format, args...)})
}

// ---------------------------------------------------------------- scopes

type htScope struct {
	order   *[]string       // every variable of the function, in declaration order (shared)
	visible map[string]bool // variables visible here
	local   map[string]bool // declared in this block (not visible to the enclosing one)
}

func (sc *htScope) child() *htScope {
	v := map[string]bool{}
	for k := range sc.visible {
		v[k] = true
	}
	return &htScope{order: sc.order, visible: v, local: map[string]bool{}}
}

func (t *htTr) declare(sc *htScope, id *ast.Ident) {
	name := id.Name
	if name == "_" {
		t.fail(id, "blank identifier")
	}
	for _, r := range name {
		if !(r == '_' || r >= '0' && r <= '9' || r >= 'a' && r <= 'z' || r >= 'A' && r <= 'Z') {
			t.fail(id, "identifier %q is not plain ASCII", name)
		}
	}
	for _, o := range *sc.order {
		if o == name {
			t.fail(id, "variable %q is declared twice in one function (shadowing / re-declaration is outside the subset)", name)
		}
	}
	if name == t.cur.recv {
		t.fail(id, "variable %q shadows the receiver", name)
	}
	*sc.order = append(*sc.order, name)
	sc.visible[name] = true
	sc.local[name] = true
}

func htCoqName(goName string) string {
	if htReserved[goName] || strings.HasPrefix(goName, "g_") || strings.HasPrefix(goName, "c_") {
		return goName + "_"
	}
	return goName
}

// the outer variables (visible in sc) in declaration order that are members of set
func htOrdered(sc *htScope, set map[string]bool) []string {
	res := []string{}
	for _, o := range *sc.order {
		if set[o] && sc.visible[o] {
			res = append(res, o)
		}
	}
	return res
}

func htTuple(vars []string) string {
	names := make([]string, len(vars))
	for i, v := range vars {
		names[i] = htCoqName(v)
	}
	if len(names) == 1 {
		return names[0]
	}
	return "(" + strings.Join(names, ", ") + ")"
}

func htPattern(vars []string) string {
	if len(vars) == 1 {
		return htCoqName(vars[0])
	}
	return "'" + htTuple(vars)
}

// ---------------------------------------------------------------- expressions

func (t *htTr) expr(e ast.Expr, sc *htScope) (string, htKind) {
	switch x := e.(type) {
	case *ast.ParenExpr:
		return t.expr(x.X, sc)
	case *ast.BasicLit:
		if x.Kind != token.INT {
			t.fail(x, "literal %s is not an integer literal", x.Value)
		}
		n, ok := new(big.Int).SetString(x.Value, 0)
		if !ok {
			t.fail(x, "integer literal %s not understood", x.Value)
		}
		return n.String(), htInt
	case *ast.Ident:
		if !sc.visible[x.Name] {
			t.fail(x, "identifier %q is not a local variable, parameter or result of the function", x.Name)
		}
		if t.floatVars[x.Name] {
			t.floatUsed[x.Name] = true
		}
		return htCoqName(x.Name), htInt
	case *ast.SelectorExpr:
		id, ok := x.X.(*ast.Ident)
		if !ok || t.cur.recv == "" || id.Name != t.cur.recv {
			t.fail(x, "selector expression is not <receiver>.field")
		}
		proj, ok := htFields[x.Sel.Name]
		if !ok {
			t.fail(x, "field %q of %s is not in the translator's field table", x.Sel.Name, htStruct)
		}
		return "(" + proj + " c)", htInt
	case *ast.CallExpr:
		return t.call(x, sc)
	case *ast.UnaryExpr:
		s, k := t.expr(x.X, sc)
		switch x.Op {
		case token.SUB:
			t.want(x, k, htInt)
			return "(- " + s + ")", htInt
		case token.ADD:
			t.want(x, k, htInt)
			return s, htInt
		case token.NOT:
			t.want(x, k, htBool)
			return "(negb " + s + ")", htBool
		}
		t.fail(x, "unary operator %s is outside the subset", x.Op)
	case *ast.BinaryExpr:
		l, lk := t.expr(x.X, sc)
		r, rk := t.expr(x.Y, sc)
		if x.Op == token.LOR || x.Op == token.LAND {
			t.want(x.X, lk, htBool)
			t.want(x.Y, rk, htBool)
			if x.Op == token.LOR {
				return "(orb " + l + " " + r + ")", htBool
			}
			return "(andb " + l + " " + r + ")", htBool
		}
		t.want(x.X, lk, htInt)
		t.want(x.Y, rk, htInt)
		if s, ok := htArith(x.Op, l, r); ok {
			return s, htInt
		}
		switch x.Op {
		case token.LSS:
			return "(" + l + " <? " + r + ")", htBool
		case token.LEQ:
			return "(" + l + " <=? " + r + ")", htBool
		case token.GTR:
			return "(" + l + " >? " + r + ")", htBool
		case token.GEQ:
			return "(" + l + " >=? " + r + ")", htBool
		case token.EQL:
			return "(" + l + " =? " + r + ")", htBool
		case token.NEQ:
			return "(negb (" + l + " =? " + r + "))", htBool
		}
		t.fail(x, "binary operator %s is outside the subset", x.Op)
	}
	t.fail(e, "expression form %T is outside the subset", e)
	return "", htInt
}

// the integer operators, shared by binary expressions and `x op= e`
func htArith(op token.Token, l, r string) (string, bool) {
	switch op {
	case token.ADD, token.ADD_ASSIGN:
		return "(" + l + " + " + r + ")", true
	case token.SUB, token.SUB_ASSIGN:
		return "(" + l + " - " + r + ")", true
	case token.MUL, token.MUL_ASSIGN:
		return "(" + l + " * " + r + ")", true
	case token.QUO, token.QUO_ASSIGN:
		return "(Z.quot " + l + " " + r + ")", true
	case token.SHL, token.SHL_ASSIGN:
		return "(Z.shiftl " + l + " " + r + ")", true
	case token.SHR, token.SHR_ASSIGN:
		return "(Z.shiftr " + l + " " + r + ")", true
	case token.OR, token.OR_ASSIGN:
		return "(Z.lor " + l + " " + r + ")", true
	case token.AND, token.AND_ASSIGN:
		return "(Z.land " + l + " " + r + ")", true
	}
	return "", false
}

func (t *htTr) want(n ast.Node, got, want htKind) {
	if got != want {
		names := map[htKind]string{htInt: "integer", htBool: "boolean"}
		t.fail(n, "%s expression where a %s one is needed", names[got], names[want])
	}
}

func (t *htTr) intExpr(e ast.Expr, sc *htScope) string {
	s, k := t.expr(e, sc)
	t.want(e, k, htInt)
	return s
}

func (t *htTr) boolExpr(e ast.Expr, sc *htScope) string {
	s, k := t.expr(e, sc)
	t.want(e, k, htBool)
	return s
}

func (t *htTr) call(x *ast.CallExpr, sc *htScope) (string, htKind) {
	if x.Ellipsis != token.NoPos {
		t.fail(x, "variadic call")
	}
	var callee string
	isMethod := false
	switch f := x.Fun.(type) {
	case *ast.Ident:
		if htConversions[f.Name] {
			if len(x.Args) != 1 {
				t.fail(x, "conversion %s with %d arguments", f.Name, len(x.Args))
			}
			return t.intExpr(x.Args[0], sc), htInt // identity on Z
		}
		callee = f.Name
	case *ast.SelectorExpr:
		id, ok := f.X.(*ast.Ident)
		if !ok || t.cur.recv == "" || id.Name != t.cur.recv {
			t.fail(x, "call is neither <receiver>.method(...) nor function(...)")
		}
		callee = f.Sel.Name
		isMethod = true
	default:
		t.fail(x, "call of a %T", x.Fun)
	}
	g, ok := t.fns[callee]
	if !ok || g.entry.mode != htWhole || g.entry.method != isMethod {
		t.fail(x, "call of %q, which is not one of the translated functions", callee)
	}
	if len(x.Args) != g.nparams {
		t.fail(x, "call of %q with %d arguments (it has %d parameters)", callee, len(x.Args), g.nparams)
	}
	seen := false
	for _, c := range t.cur.calls {
		seen = seen || c == callee
	}
	if !seen {
		t.cur.calls = append(t.cur.calls, callee)
	}
	parts := []string{"g_" + callee}
	if isMethod {
		parts = append(parts, "c")
	}
	for _, a := range x.Args {
		parts = append(parts, t.intExpr(a, sc))
	}
	return "(" + strings.Join(parts, " ") + ")", htInt
}

// ---------------------------------------------------------------- statements

// name of an assignable variable
func (t *htTr) lhs(e ast.Expr, sc *htScope) string {
	id, ok := e.(*ast.Ident)
	if !ok {
		t.fail(e, "assignment to something that is not a local variable")
	}
	if !sc.visible[id.Name] {
		t.fail(e, "assignment to %q, which is not a local variable, parameter or result", id.Name)
	}
	return id.Name
}

// does the expression mention package math (a float step)?
func htMentionsMath(e ast.Expr) bool {
	found := false
	ast.Inspect(e, func(n ast.Node) bool {
		if s, ok := n.(*ast.SelectorExpr); ok {
			if id, ok := s.X.(*ast.Ident); ok && id.Name == "math" {
				found = true
			}
		}
		return true
	})
	return found
}

// the visible (outer) variables a statement list assigns
func (t *htTr) assigned(stmts []ast.Stmt, sc *htScope, set map[string]bool) {
	for _, s := range stmts {
		switch x := s.(type) {
		case *ast.AssignStmt:
			if x.Tok != token.DEFINE && len(x.Lhs) == 1 {
				if id, ok := x.Lhs[0].(*ast.Ident); ok && sc.visible[id.Name] {
					set[id.Name] = true
				}
			}
		case *ast.IncDecStmt:
			if id, ok := x.X.(*ast.Ident); ok && sc.visible[id.Name] {
				set[id.Name] = true
			}
		case *ast.IfStmt:
			t.assigned(x.Body.List, sc, set)
			switch el := x.Else.(type) {
			case *ast.BlockStmt:
				t.assigned(el.List, sc, set)
			case *ast.IfStmt:
				t.assigned([]ast.Stmt{el}, sc, set)
			}
		case *ast.ForStmt:
			t.assigned(x.Body.List, sc, set)
			if x.Post != nil {
				t.assigned([]ast.Stmt{x.Post}, sc, set)
			}
		}
	}
}

// one simple statement (assignment forms) -> "let x := e in"
func (t *htTr) simple(s ast.Stmt, sc *htScope) (string, bool) {
	switch x := s.(type) {
	case *ast.AssignStmt:
		if len(x.Lhs) != 1 || len(x.Rhs) != 1 {
			t.fail(x, "multiple assignment")
		}
		if x.Tok == token.DEFINE {
			id, ok := x.Lhs[0].(*ast.Ident)
			if !ok {
				t.fail(x, "left-hand side of := is not an identifier")
			}
			if t.cur.entry.mode == htGeometry && htMentionsMath(x.Rhs[0]) {
				// float step: the variable is an input of the generated definition
				t.declare(sc, id)
				t.floatVars[id.Name] = true
				return "", true
			}
			rhs := t.intExpr(x.Rhs[0], sc)
			t.declare(sc, id)
			return "let " + htCoqName(id.Name) + " := " + rhs + " in", true
		}
		name := t.lhs(x.Lhs[0], sc)
		rhs := t.intExpr(x.Rhs[0], sc)
		if x.Tok == token.ASSIGN {
			return "let " + htCoqName(name) + " := " + rhs + " in", true
		}
		if t.floatVars[name] {
			t.floatUsed[name] = true
		}
		if e, ok := htArith(x.Tok, htCoqName(name), rhs); ok {
			return "let " + htCoqName(name) + " := " + e + " in", true
		}
		t.fail(x, "assignment operator %s is outside the subset", x.Tok)
	case *ast.IncDecStmt:
		name := t.lhs(x.X, sc)
		if t.floatVars[name] {
			t.floatUsed[name] = true
		}
		op := " + 1"
		if x.Tok == token.DEC {
			op = " - 1"
		}
		return "let " + htCoqName(name) + " := (" + htCoqName(name) + op + ") in", true
	}
	return "", false
}

// a statement list without return -> lets (one string per statement)
func (t *htTr) stmts(list []ast.Stmt, sc *htScope, inLoop bool) []string {
	lets := []string{}
	for _, s := range list {
		if l, ok := t.simple(s, sc); ok {
			if l != "" {
				lets = append(lets, l)
			}
			continue
		}
		switch x := s.(type) {
		case *ast.IfStmt:
			lets = append(lets, t.ifStmt(x, sc, inLoop))
		case *ast.ForStmt:
			if inLoop {
				t.fail(x, "nested loop")
			}
			lets = append(lets, t.forStmt(x, sc))
		case *ast.ReturnStmt:
			t.fail(x, "return that is not the last statement of the function body")
		default:
			t.fail(s, "statement form %T is outside the subset", s)
		}
	}
	return lets
}

func htWrap(lets []string, result string) string {
	if len(lets) == 0 {
		return result
	}
	return "(" + strings.Join(lets, " ") + " " + result + ")"
}

func (t *htTr) ifStmt(x *ast.IfStmt, sc *htScope, inLoop bool) string {
	if x.Init != nil {
		t.fail(x, "if statement with an init clause")
	}
	cond := t.boolExpr(x.Cond, sc)
	set := map[string]bool{}
	t.assigned([]ast.Stmt{x}, sc, set)
	vars := htOrdered(sc, set)
	if len(vars) == 0 {
		t.fail(x, "if statement that assigns no variable of the enclosing block")
	}
	thenLets := t.stmts(x.Body.List, sc.child(), inLoop)
	elseLets := []string{}
	switch el := x.Else.(type) {
	case nil:
	case *ast.BlockStmt:
		elseLets = t.stmts(el.List, sc.child(), inLoop)
	case *ast.IfStmt:
		elseLets = t.stmts([]ast.Stmt{el}, sc.child(), inLoop)
	default:
		t.fail(x.Else, "else branch of form %T", x.Else)
	}
	tup := htTuple(vars)
	return "let " + htPattern(vars) + " := if " + cond + " then " + htWrap(thenLets, tup) + " else " + htWrap(elseLets, tup) + " in"
}

func (t *htTr) forStmt(x *ast.ForStmt, sc *htScope) string {
	if x.Init != nil {
		t.fail(x, "for statement with an init clause")
	}
	if x.Cond == nil {
		t.fail(x, "for statement without a condition")
	}
	if t.cur.entry.fuel <= 0 {
		t.fail(x, "loop in a function for which the translator has no fuel constant")
	}
	ast.Inspect(x.Body, func(n ast.Node) bool {
		if b, ok := n.(*ast.BranchStmt); ok {
			t.fail(b, "%s inside a loop", b.Tok)
		}
		return true
	})
	// state = the outer variables the loop assigns; the other outer variables it mentions are parameters
	set := map[string]bool{}
	t.assigned([]ast.Stmt{x}, sc, set)
	state := htOrdered(sc, set)
	if len(state) == 0 {
		t.fail(x, "loop that assigns no variable of the enclosing block")
	}
	mentioned := map[string]bool{}
	ast.Inspect(x, func(n ast.Node) bool {
		if id, ok := n.(*ast.Ident); ok && sc.visible[id.Name] && !set[id.Name] {
			mentioned[id.Name] = true
		}
		return true
	})
	ro := htOrdered(sc, mentioned)
	for _, v := range append(append([]string{}, ro...), state...) {
		if t.floatVars[v] {
			t.floatUsed[v] = true
		}
	}

	name := fmt.Sprintf("g_%s_loop", t.cur.entry.goName)
	if n := len(t.pre); n > 0 {
		name = fmt.Sprintf("%s%d", name, n+1)
	}
	inner := sc.child()
	cond := t.boolExpr(x.Cond, inner)
	body := t.stmts(x.Body.List, inner, true)
	if x.Post != nil {
		l, ok := t.simple(x.Post, inner)
		if !ok || l == "" {
			t.fail(x.Post, "post statement of the loop is not a simple assignment")
		}
		body = append(body, l)
	}
	args := []string{}
	if t.cur.entry.method {
		args = append(args, "c")
	}
	for _, v := range ro {
		args = append(args, htCoqName(v))
	}
	for _, v := range state {
		args = append(args, htCoqName(v))
	}
	var b bytes.Buffer
	fmt.Fprintf(&b, "Fixpoint %s (fuel : nat)", name)
	if t.cur.entry.method {
		b.WriteString(" (c : cfg)")
	}
	for _, v := range ro {
		fmt.Fprintf(&b, " (%s : Z)", htCoqName(v))
	}
	for _, v := range state {
		fmt.Fprintf(&b, " (%s : Z)", htCoqName(v))
	}
	ty := make([]string, len(state))
	for i := range ty {
		ty[i] = "Z"
	}
	fmt.Fprintf(&b, " {struct fuel} : %s :=\n", strings.Join(ty, " * "))
	b.WriteString("  match fuel with\n")
	fmt.Fprintf(&b, "  | O => %s (* fuel exhausted: the current state *)\n", htTuple(state))
	b.WriteString("  | S fuel' =>\n")
	fmt.Fprintf(&b, "      if %s then\n", cond)
	for _, l := range body {
		fmt.Fprintf(&b, "        %s\n", l)
	}
	fmt.Fprintf(&b, "        %s fuel' %s\n", name, strings.Join(args, " "))
	fmt.Fprintf(&b, "      else %s\n", htTuple(state))
	b.WriteString("  end.\n")
	t.pre = append(t.pre, b.String())
	return fmt.Sprintf("let %s := %s %d%%nat %s in", htPattern(state), name, t.cur.entry.fuel, strings.Join(args, " "))
}

// ---------------------------------------------------------------- functions

func (t *htTr) intType(e ast.Expr) bool {
	id, ok := e.(*ast.Ident)
	return ok && htIntTypes[id.Name]
}

func (t *htTr) isStructPtr(e ast.Expr) bool {
	st, ok := e.(*ast.StarExpr)
	if !ok {
		return false
	}
	id, ok := st.X.(*ast.Ident)
	return ok && id.Name == htStruct
}

// signature: receiver and parameters (needed before bodies are translated: argument counts of calls)
func (t *htTr) signature(f *htFn) {
	d := f.decl
	if f.entry.method {
		if d.Recv == nil || len(d.Recv.List) != 1 || len(d.Recv.List[0].Names) != 1 || !t.isStructPtr(d.Recv.List[0].Type) {
			t.fail(d, "%s is not a method with a named receiver of type *%s", f.entry.goName, htStruct)
		}
		f.recv = d.Recv.List[0].Names[0].Name
		if f.recv == "_" {
			t.fail(d, "blank receiver")
		}
	} else if d.Recv != nil {
		t.fail(d, "%s is a method, a free function was expected", f.entry.goName)
	}
	if d.Type.TypeParams != nil && len(d.Type.TypeParams.List) > 0 {
		t.fail(d, "generic function")
	}
	for _, p := range d.Type.Params.List {
		if !t.intType(p.Type) {
			t.fail(p, "parameter type is not int, int32 or int64")
		}
		if len(p.Names) == 0 {
			t.fail(p, "unnamed parameter")
		}
		for _, n := range p.Names {
			f.params = append(f.params, n.Name)
		}
	}
	f.nparams = len(f.params)
	if d.Body == nil {
		t.fail(d, "function without body")
	}
}

func (t *htTr) function(f *htFn) {
	t.cur = f
	t.pre = nil
	t.floatVars = map[string]bool{}
	t.floatUsed = map[string]bool{}
	d := f.decl
	order := []string{}
	sc := &htScope{order: &order, visible: map[string]bool{}, local: map[string]bool{}}
	for _, p := range d.Type.Params.List {
		for _, n := range p.Names {
			t.declare(sc, n)
		}
	}
	lets := []string{}
	named := ""
	res := d.Type.Results
	switch f.entry.mode {
	case htWhole:
		if res == nil || len(res.List) != 1 || len(res.List[0].Names) > 1 || !t.intType(res.List[0].Type) {
			t.fail(d, "%s does not have exactly one result of type int, int32 or int64", f.entry.goName)
		}
		if len(res.List[0].Names) == 1 {
			t.declare(sc, res.List[0].Names[0])
			named = res.List[0].Names[0].Name
			lets = append(lets, "let "+htCoqName(named)+" := 0 in")
		}
	case htGeometry:
		if res == nil || len(res.List) != 1 || len(res.List[0].Names) != 0 || !t.isStructPtr(res.List[0].Type) {
			t.fail(d, "%s does not have the single unnamed result *%s", f.entry.goName, htStruct)
		}
	case htGuard:
		if res == nil || len(res.List) != 1 || len(res.List[0].Names) != 0 {
			t.fail(d, "%s does not have a single unnamed result", f.entry.goName)
		}
	}

	body := d.Body.List
	if len(body) == 0 {
		t.fail(d, "empty body")
	}
	result := ""
	resultType := "Z"
	defName := "g_" + f.entry.goName
	switch f.entry.mode {
	case htWhole:
		ret, ok := body[len(body)-1].(*ast.ReturnStmt)
		if !ok {
			t.fail(body[len(body)-1], "the last statement of %s is not a return", f.entry.goName)
		}
		lets = append(lets, t.stmts(body[:len(body)-1], sc, false)...)
		switch {
		case len(ret.Results) == 1:
			result = t.intExpr(ret.Results[0], sc)
		case len(ret.Results) == 0 && named != "":
			result = htCoqName(named)
		default:
			t.fail(ret, "return with %d values", len(ret.Results))
		}
	case htGuard:
		defName += "_guard"
		resultType = "bool"
		k := -1
		for i, s := range body {
			if ifs, ok := s.(*ast.IfStmt); ok && ifs.Else == nil && len(ifs.Body.List) == 1 {
				if _, ok := ifs.Body.List[0].(*ast.ReturnStmt); ok {
					k = i
					break
				}
			}
		}
		if k < 0 {
			t.fail(d, "%s has no guard `if cond { return ... }`", f.entry.goName)
		}
		lets = append(lets, t.stmts(body[:k], sc, false)...)
		g := body[k].(*ast.IfStmt)
		if g.Init != nil {
			t.fail(g, "guard with an init clause")
		}
		result = t.boolExpr(g.Cond, sc)
	case htGeometry:
		resultType = "cfg"
		// leading precondition checks `if cond { panic(...) }`
		for len(body) > 0 {
			ifs, ok := body[0].(*ast.IfStmt)
			if !ok || ifs.Else != nil || ifs.Init != nil || len(ifs.Body.List) != 1 {
				break
			}
			es, ok := ifs.Body.List[0].(*ast.ExprStmt)
			if !ok {
				break
			}
			call, ok := es.X.(*ast.CallExpr)
			if !ok {
				break
			}
			if id, ok := call.Fun.(*ast.Ident); !ok || id.Name != "panic" {
				break
			}
			body = body[1:]
		}
		if len(body) == 0 {
			t.fail(d, "empty body")
		}
		ret, ok := body[len(body)-1].(*ast.ReturnStmt)
		if !ok || len(ret.Results) != 1 {
			t.fail(body[len(body)-1], "the last statement of %s is not a return of one value", f.entry.goName)
		}
		lets = append(lets, t.stmts(body[:len(body)-1], sc, false)...)
		result = t.record(ret.Results[0], sc)
	}

	var b bytes.Buffer
	for _, p := range t.pre {
		b.WriteString(p)
		b.WriteString("\n")
	}
	fmt.Fprintf(&b, "Definition %s", defName)
	if f.entry.method {
		b.WriteString(" (c : cfg)")
	}
	for _, p := range f.params {
		fmt.Fprintf(&b, " (%s : Z)", htCoqName(p))
	}
	// float inputs that translated code reads, in order of their definition
	for _, o := range order {
		if t.floatVars[o] && t.floatUsed[o] {
			fmt.Fprintf(&b, " (%s : Z)", htCoqName(o))
		}
	}
	fmt.Fprintf(&b, " : %s :=\n", resultType)
	for _, l := range lets {
		fmt.Fprintf(&b, "  %s\n", l)
	}
	fmt.Fprintf(&b, "  %s.\n", result)
	f.text = b.String()
}

// return &Histogram{field: e, ...} -> mkCfg ...
func (t *htTr) record(e ast.Expr, sc *htScope) string {
	u, ok := e.(*ast.UnaryExpr)
	if !ok || u.Op != token.AND {
		t.fail(e, "the constructor does not return &%s{...}", htStruct)
	}
	cl, ok := u.X.(*ast.CompositeLit)
	if !ok {
		t.fail(e, "the constructor does not return &%s{...}", htStruct)
	}
	if id, ok := cl.Type.(*ast.Ident); !ok || id.Name != htStruct {
		t.fail(e, "the constructor does not return &%s{...}", htStruct)
	}
	vals := map[string]string{}
	for _, el := range cl.Elts {
		kv, ok := el.(*ast.KeyValueExpr)
		if !ok {
			t.fail(el, "composite literal element without a field name")
		}
		key, ok := kv.Key.(*ast.Ident)
		if !ok {
			t.fail(el, "composite literal key is not a field name")
		}
		if htStateFields[key.Name] {
			continue
		}
		if _, ok := htFields[key.Name]; !ok {
			t.fail(el, "field %q of %s is not in the translator's field table", key.Name, htStruct)
		}
		if _, dup := vals[key.Name]; dup {
			t.fail(el, "field %q given twice", key.Name)
		}
		vals[key.Name] = t.intExpr(kv.Value, sc)
	}
	parts := []string{"mkCfg"}
	for _, fld := range htCfgOrder {
		v, ok := vals[fld]
		if !ok {
			t.fail(cl, "field %q is not set by the constructor's composite literal", fld)
		}
		parts = append(parts, v)
	}
	return strings.Join(parts, " ")
}

// ---------------------------------------------------------------- driver

func htGenerate(repo string) (out []byte, err error) {
	defer func() {
		if r := recover(); r != nil {
			if he, ok := r.(htErr); ok {
				out = nil
				err = fmt.Errorf("source facts no longer extractable: %s", he.msg)
				return
			}
			panic(r)
		}
	}()
	t := &htTr{fset: token.NewFileSet(), fns: map[string]*htFn{}}
	file, perr := parser.ParseFile(t.fset, filepath.Join(repo, htSource), nil, 0)
	if perr != nil {
		panic(htErr{fmt.Sprintf("%s: %v", htSource, perr)})
	}
	// sanity of the tables
	if len(htCfgOrder) != len(htFields) {
		panic(htErr{"translator tables htFields / htCfgOrder disagree"})
	}
	for _, e := range htFunctions {
		if _, dup := t.fns[e.goName]; dup {
			panic(htErr{"translator table htFunctions lists " + e.goName + " twice"})
		}
		t.fns[e.goName] = &htFn{entry: e}
	}
	for _, d := range file.Decls {
		fd, ok := d.(*ast.FuncDecl)
		if !ok {
			continue
		}
		f, ok := t.fns[fd.Name.Name]
		if !ok {
			continue
		}
		// a method of another type with the same name (iterator.next ...) is not ours
		if f.entry.method && (fd.Recv == nil || len(fd.Recv.List) != 1 || !t.isStructPtr(fd.Recv.List[0].Type)) {
			continue
		}
		if !f.entry.method && fd.Recv != nil {
			continue
		}
		if f.decl != nil {
			t.fail(fd, "%s is declared twice", fd.Name.Name)
		}
		f.decl = fd
	}
	for _, e := range htFunctions {
		f := t.fns[e.goName]
		if f.decl == nil {
			t.fail(nil, "function %s not found", e.goName)
		}
		t.cur = f
		t.signature(f)
	}
	for _, e := range htFunctions {
		t.function(t.fns[e.goName])
	}
	// emit callees first (the call graph must be acyclic)
	var b bytes.Buffer
	b.WriteString(htHeader)
	state := map[string]int{}
	var visit func(name string)
	visit = func(name string) {
		switch state[name] {
		case 1:
			t.fail(t.fns[name].decl, "%s is recursive", name)
		case 2:
			return
		}
		state[name] = 1
		for _, c := range t.fns[name].calls {
			visit(c)
		}
		state[name] = 2
		f := t.fns[name]
		fmt.Fprintf(&b, "\n(* %s: %s", htSource, name)
		if f.entry.mode == htGuard {
			b.WriteString(" - the guard `if cond { return error }` and the statements before it")
		}
		if f.entry.mode == htGeometry {
			b.WriteString(" - integer part; the float steps are the trailing parameters")
		}
		if f.entry.fuel > 0 {
			fmt.Fprintf(&b, ".\n   fuel %d: %s", f.entry.fuel, f.entry.fuelWhy)
		}
		b.WriteString(" *)\n")
		b.WriteString(f.text)
	}
	for _, e := range htFunctions {
		visit(e.goName)
	}
	return b.Bytes(), nil
}

const htHeader = `(* GENERATED by ` + "`ftdcverif hdrtrans <repo> <out-file>`" + ` (harness/hdrtrans.go) from hdrhist/hdr.go.
   Regenerated on every check run of C12 / C13; do not edit.
   Equivalence with Model/Hdr.v: Proofs/HdrTranslated.v; obligations: Props/FactsHdr.v.

   Reading of the Go source: every integer type is Z and the conversions int64() int32() int() uint()
   are the IDENTITY (the model is over unbounded Z; the theorems carry the range hypotheses under which
   no intermediate value leaves int32 / int64).  e1 << e2 is Z.shiftl, >> is Z.shiftr, | is Z.lor,
   & is Z.land, / is Z.quot (Go truncates).  h.field is the projection of Model.Hdr.cfg given by the
   translator's fixed field table.  An assignment re-binds the name; a loop is a Fixpoint on explicit
   fuel that returns the current state when the fuel runs out. *)
From Coq Require Import ZArith Bool.
From FV.Model Require Import Hdr.
Open Scope Z_scope.
`

func cmdHdrTrans(args []string) error {
	if len(args) != 2 {
		return fmt.Errorf("usage: ftdcverif hdrtrans <repo-dir> <out-file>")
	}
	abs, err := filepath.Abs(args[0])
	if err != nil {
		return err
	}
	out, err := htGenerate(abs)
	if err != nil {
		return err
	}
	name := filepath.Base(args[1])
	old, rerr := os.ReadFile(args[1])
	if rerr == nil && bytes.Equal(old, out) {
		fmt.Printf("hdrtrans: %s unchanged\n", name)
		return nil
	}
	if err := os.WriteFile(args[1], out, 0o644); err != nil {
		return err
	}
	fmt.Printf("hdrtrans: %s written\n", name)
	return nil
}

func init() { commands["hdrtrans"] = cmdHdrTrans }
