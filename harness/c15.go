package main

// C15: drive every recorder constructor of the events package with call histories
// (exhaustive short ones, random ones, and "tick" cases in which the harness decides when the
// flusher of the interval recorders runs) against a snapshotting collector that fails
// on chosen Add calls, and write one line per case: the calls with the wall-clock
// readings taken immediately before and after each of them, every point handed to
// the collector at that call, EndTest's result, and the mock TimerManager's counters.
//
// line format (tokens separated by blanks, calls separated by " ;; "):
//   C <id> <wrapper> <kind> <interval ns> <ctor-before> <ctor-after> F <n> <k1..kn>
//     ;; <call> <args> @ <before> <after> > <observations>   (one chunk per call)
//     ;; T <ResetTimer> <StartTimer> <StopTimer>
//   calls: incit v | incops v | incerr v | incsize v | workers v | state v | failed 0/1 | begin |
//          end d | settime t | setid v | setdur d | settotal d | endtest | reset |
//          sbegin | send d (Begin/End of the shim) | tick (the flusher's body, tick cases only)
//   observations: "-" or any of
//     P ts id n ops size errs dur total state workers failed          (a *Performance)
//     H ts id state workers failed n=<h> ops=<h> size=<h> errs=<h> dur=<h> total=<h>
//                                   <h> = "-" or idx:count,idx:count,...  (a *PerformanceHDR)
//     R <n> <A:k | R:v | U>...                                        (EndTest's error, split in lines)
//   ts: UnixNano, 0 for the zero time.
//   S <id> <why>: a tick case that was given up (the flusher did not show up); nothing observed.
// Environment: VERIF_SEED, VERIF_TIER (util.go); C15_WORKERS = number of parallel workers (default min(8, CPUs)).

import (
	"context"
	"errors"
	"fmt"
	"os"
	"regexp"
	"runtime"
	"runtime/debug"
	"strconv"
	"strings"
	"sync"
	"sync/atomic"
	"time"

	"github.com/evergreen-ci/birch"
	"github.com/mongodb/ftdc"
	"github.com/mongodb/ftdc/events"
	"github.com/mongodb/ftdc/hdrhist"
)

type c15Op struct {
	name string
	v    int64
}

type c15Case struct {
	id    int
	w, k  string // wrapper: none|sync|shim ; kind: raw|single|grouped|interval|hist|histsingle|histgrouped|histinterval
	iv    int64
	fails []int64
	ops   []c15Op
}

// ---- the snapshotting collector ----
type c15Collector struct {
	nAdd  int64
	fails map[int64]bool
	got   []string
	// tick cases only: while the harness executes a "tick", an Add (which then comes from the
	// flusher) reports on added and waits for ack, so that the flusher cannot come round again
	// before the harness has finished the call
	added  chan struct{}
	ack    chan struct{}
	inTick atomic.Bool
}

func (c *c15Collector) SetMetadata(interface{}) error { return nil }
func (c *c15Collector) Resolve() ([]byte, error)      { return nil, nil }
func (c *c15Collector) Reset()                        {}
func (c *c15Collector) Info() ftdc.CollectorInfo      { return ftdc.CollectorInfo{} }
func (c *c15Collector) Add(in interface{}) error {
	k := c.nAdd
	c.nAdd++
	c.got = append(c.got, c15Snapshot(in))
	if c.added != nil && c.inTick.Load() {
		c.added <- struct{}{}
		<-c.ack
	}
	if c.fails[k] {
		return fmt.Errorf("c15 add %d failed", k)
	}
	return nil
}

func c15Ts(t time.Time) int64 {
	if t.IsZero() {
		return 0
	}
	return t.UnixNano()
}

func c15Hist(h *hdrhist.Histogram) string {
	var sb strings.Builder
	var sum int64
	for _, b := range h.Distribution() {
		if b.Count != 0 {
			if sb.Len() > 0 {
				sb.WriteByte(',')
			}
			fmt.Fprintf(&sb, "%d:%d", h.VerifCountsIndexFor(b.From), b.Count)
			sum += b.Count
		}
	}
	if sum != h.TotalCount() {
		fmt.Fprintf(&sb, "!total=%d", h.TotalCount())
	}
	if sb.Len() == 0 {
		return "-"
	}
	return sb.String()
}

// what a collector can read from the event during Add: for a *Performance the document
// it marshals to (read back through UnmarshalDocument; the timestamp, which BSON keeps
// in milliseconds, is taken from the struct and checked against the document), for a
// *PerformanceHDR the struct fields and the non-zero counts of its six histograms
func c15Snapshot(in interface{}) string {
	switch p := in.(type) {
	case *events.Performance:
		doc, err := p.MarshalDocument()
		if err != nil {
			return "X marshal:" + strings.ReplaceAll(err.Error(), " ", "_")
		}
		raw, err := doc.MarshalBSON()
		if err != nil {
			return "X marshalbson"
		}
		back, err := birch.ReadDocument(raw)
		if err != nil {
			return "X readdocument"
		}
		q := &events.Performance{}
		if err := q.UnmarshalDocument(back); err != nil {
			return "X unmarshal"
		}
		if !p.Timestamp.IsZero() && q.Timestamp.UnixNano()/1000000 != p.Timestamp.UnixNano()/1000000 {
			return "X document-timestamp"
		}
		return fmt.Sprintf("P %d %d %d %d %d %d %d %d %d %d %d", c15Ts(p.Timestamp), q.ID,
			q.Counters.Number, q.Counters.Operations, q.Counters.Size, q.Counters.Errors,
			int64(q.Timers.Duration), int64(q.Timers.Total), q.Gauges.State, q.Gauges.Workers, b2i(q.Gauges.Failed))
	case *events.PerformanceHDR:
		return fmt.Sprintf("H %d %d %d %d %d n=%s ops=%s size=%s errs=%s dur=%s total=%s", c15Ts(p.Timestamp), p.ID,
			p.Gauges.State, p.Gauges.Workers, b2i(p.Gauges.Failed),
			c15Hist(p.Counters.Number), c15Hist(p.Counters.Operations), c15Hist(p.Counters.Size),
			c15Hist(p.Counters.Errors), c15Hist(p.Timers.Duration), c15Hist(p.Timers.Total))
	default:
		return fmt.Sprintf("X type:%T", in)
	}
}

var (
	c15InjectedAdd = regexp.MustCompile(`c15 add (-?[0-9]+) failed`)
	c15FirstInt    = regexp.MustCompile(`-?[0-9]+`)
)

// c15Errs renders the error EndTest returned: one entry per line of its text. A line that carries the harness's own
// injected collector error (wherever a wrapper put it) is A:<k>; any other line is a histogram's rejection of a value,
// identified by the first number it names (R:<v>), whatever the wording; a line without a number is U.
func c15Errs(err error) string {
	if err == nil {
		return "R 0"
	}
	lines := strings.Split(err.Error(), "\n")
	var sb strings.Builder
	fmt.Fprintf(&sb, "R %d", len(lines))
	for _, l := range lines {
		var k int64
		if m := c15InjectedAdd.FindStringSubmatch(l); m != nil {
			fmt.Sscanf(m[1], "%d", &k)
			fmt.Fprintf(&sb, " A:%d", k)
		} else if m := c15FirstInt.FindString(l); m != "" {
			fmt.Sscanf(m, "%d", &k)
			fmt.Fprintf(&sb, " R:%d", k)
		} else {
			sb.WriteString(" U")
		}
	}
	return sb.String()
}

type c15Timers struct{ reset, start, stop int64 }

func (t *c15Timers) ResetTimer() { t.reset++ }
func (t *c15Timers) StartTimer() { t.start++ }
func (t *c15Timers) StopTimer()  { t.stop++ }

// ---- driving the flusher of the interval recorders (tick cases) ----
// With the verif build tag the flusher calls vpoint("fl.tick") right after its ticker fired
// and before it takes the recorder's mutex. The hook parks it there; the harness's "tick"
// call releases it between two calls of the history, so that the flusher's body (stamp,
// persist) runs at a known position. A flusher whose context was cancelled by
// EndTest/Reset returns without persisting when released.
type c15TickCtl struct {
	mu      sync.Mutex
	parked  int
	release chan struct{}
	closed  bool
}

var c15Ctl atomic.Value // of *c15TickCtl

func c15Hook(label string) {
	if label != "fl.tick" {
		return
	}
	ctl, _ := c15Ctl.Load().(*c15TickCtl)
	if ctl == nil {
		return
	}
	ctl.mu.Lock()
	if ctl.closed {
		ctl.mu.Unlock()
		return
	}
	ctl.parked++
	ctl.mu.Unlock()
	<-ctl.release
}

func (ctl *c15TickCtl) releaseAll() {
	ctl.mu.Lock()
	n := ctl.parked
	ctl.parked = 0
	ctl.mu.Unlock()
	for i := 0; i < n; i++ {
		ctl.release <- struct{}{}
	}
}

func (ctl *c15TickCtl) close() {
	ctl.mu.Lock()
	ctl.closed = true
	ctl.mu.Unlock()
	ctl.releaseAll()
}

const c15TickInterval = int64(200 * time.Microsecond)

type c15Shim interface {
	Begin()
	End(time.Duration)
}

const c15Hour = int64(time.Hour)

var c15T0 = int64(1600000000000000000)

func c15Time(v int64) time.Time {
	if v == 0 {
		return time.Time{}
	}
	return time.Unix(0, v)
}

// run one case against the real implementation (ctl != nil: a tick case, run alone)
func c15Run(c c15Case) string { return c15RunCtl(c, nil) }

func c15RunCtl(c c15Case, ctl *c15TickCtl) string {
	var last int64
	now := func() int64 {
		t := time.Now().UnixNano()
		if t < last {
			t = last
		}
		last = t
		return t
	}
	coll := &c15Collector{fails: map[int64]bool{}}
	for _, k := range c.fails {
		coll.fails[k] = true
	}
	ctx, cancel := context.WithCancel(context.Background())
	defer cancel()
	tm := &c15Timers{}
	if ctl != nil {
		coll.added = make(chan struct{})
		coll.ack = make(chan struct{})
		defer ctl.close()
		defer cancel()
	}
	// after EndTest/Reset the cancelled flusher either left through ctx.Done or parks once
	// more within a tick period: give it three periods, then let it run into its exit
	drain := func() {
		if ctl != nil {
			time.Sleep(3 * time.Duration(c15TickInterval))
			ctl.releaseAll()
		}
	}

	l0b := now()
	var rec events.Recorder
	iv := time.Duration(c.iv)
	switch c.k {
	case "raw":
		rec = events.NewRawRecorder(coll)
	case "single":
		rec = events.NewSingleRecorder(coll)
	case "grouped":
		rec = events.NewGroupedRecorder(coll, iv)
	case "interval":
		rec = events.NewIntervalRecorder(ctx, coll, iv)
	case "hist":
		rec = events.NewHistogramRecorder(coll)
	case "histsingle":
		rec = events.NewSingleHistogramRecorder(coll)
	case "histgrouped":
		rec = events.NewHistogramGroupedRecorder(coll, iv)
	case "histinterval":
		rec = events.NewIntervalHistogramRecorder(ctx, coll, iv)
	default:
		return "X unknown kind " + c.k
	}
	l0a := now()
	switch c.w {
	case "sync":
		rec = events.NewSynchronizedRecorder(rec)
	case "shim":
		rec = events.NewShimRecorder(rec, tm)
	}

	var sb strings.Builder
	fmt.Fprintf(&sb, "C %d %s %s %d %d %d F %d", c.id, c.w, c.k, c.iv, l0b, l0a, len(c.fails))
	for _, k := range c.fails {
		fmt.Fprintf(&sb, " %d", k)
	}
	for _, o := range c.ops {
		coll.got = coll.got[:0]
		ret := ""
		var before, after int64
		switch o.name {
		case "incit":
			before = now()
			rec.IncIterations(o.v)
			after = now()
		case "incops":
			before = now()
			rec.IncOperations(o.v)
			after = now()
		case "incerr":
			before = now()
			rec.IncError(o.v)
			after = now()
		case "incsize":
			before = now()
			rec.IncSize(o.v)
			after = now()
		case "workers":
			before = now()
			rec.SetWorkers(o.v)
			after = now()
		case "state":
			before = now()
			rec.SetState(o.v)
			after = now()
		case "failed":
			before = now()
			rec.SetFailed(o.v != 0)
			after = now()
		case "begin":
			before = now()
			rec.BeginIteration()
			after = now()
		case "end":
			d := time.Duration(o.v)
			before = now()
			rec.EndIteration(d)
			after = now()
		case "settime":
			t := c15Time(o.v)
			before = now()
			rec.SetTime(t)
			after = now()
		case "setid":
			before = now()
			rec.SetID(o.v)
			after = now()
		case "setdur":
			before = now()
			rec.SetDuration(time.Duration(o.v))
			after = now()
		case "settotal":
			before = now()
			rec.SetTotalDuration(time.Duration(o.v))
			after = now()
		case "endtest":
			before = now()
			err := rec.EndTest()
			after = now()
			ret = c15Errs(err)
			drain()
		case "reset":
			before = now()
			rec.Reset()
			after = now()
			drain()
		case "tick":
			// the flusher's body: release the parked flusher(s) until one Add arrived
			if ctl == nil {
				return "X tick outside a tick case"
			}
			before = now()
			coll.inTick.Store(true)
			deadline := time.Now().Add(10 * time.Second)
			done := false
			for !done {
				ctl.releaseAll()
				select {
				case <-coll.added:
					done = true
				case <-time.After(100 * time.Microsecond):
					if time.Now().After(deadline) {
						coll.inTick.Store(false)
						select {
						case <-coll.added:
							coll.ack <- struct{}{}
						default:
						}
						return fmt.Sprintf("S %d tick did not arrive", c.id)
					}
				}
			}
			after = now()
			coll.inTick.Store(false)
			coll.ack <- struct{}{}
		case "sbegin":
			s, ok := rec.(c15Shim)
			if !ok {
				return "X sbegin on a recorder without Begin"
			}
			before = now()
			s.Begin()
			after = now()
		case "send":
			s, ok := rec.(c15Shim)
			if !ok {
				return "X send on a recorder without End"
			}
			d := time.Duration(o.v)
			before = now()
			s.End(d)
			after = now()
		default:
			return "X unknown call " + o.name
		}
		fmt.Fprintf(&sb, " ;; %s", o.name)
		switch o.name {
		case "begin", "endtest", "reset", "sbegin", "tick":
		default:
			fmt.Fprintf(&sb, " %d", o.v)
		}
		fmt.Fprintf(&sb, " @ %d %d >", before, after)
		if len(coll.got) == 0 && ret == "" {
			sb.WriteString(" -")
		}
		for _, g := range coll.got {
			sb.WriteString(" " + g)
		}
		if ret != "" {
			sb.WriteString(" " + ret)
		}
	}
	fmt.Fprintf(&sb, " ;; T %d %d %d", tm.reset, tm.start, tm.stop)
	return sb.String()
}

// ---- generators ----
var c15Kinds = []string{"raw", "single", "grouped", "interval", "hist", "histsingle", "histgrouped", "histinterval"}

func c15IsHist(k string) bool { return strings.HasPrefix(k, "hist") }

func c15CounterVal(r *rng, hist bool) int64 {
	x := r.intn(20)
	switch {
	case x < 13:
		if hist {
			return int64(r.intn(300))
		}
		return int64(r.intn(20))
	case x < 15:
		return -1 - int64(r.intn(5))
	case x < 17:
		if hist {
			return []int64{262143, 262144, 10000, 10001, 131072}[r.intn(5)]
		}
		return []int64{1 << 62, (1 << 62) + 12345, 1<<63 - 1, -(1 << 62), -(1 << 63)}[r.intn(5)]
	case x < 18:
		return int64(r.u64())
	default:
		return int64(1 + r.intn(3))
	}
}

func c15DurVal(r *rng, hist bool) int64 {
	x := r.intn(40)
	switch {
	case x < 26:
		if hist {
			return r.i64n(5000000)
		}
		return r.i64n(1000000)
	case x < 30:
		return -1 - r.i64n(1000)
	case x < 31:
		if hist {
			return []int64{68719476735, 68719476736, 60000000000, 60000000001, 1 << 27, 1<<27 - 1}[r.intn(6)]
		}
		return []int64{1 << 62, 1<<63 - 1, -(1 << 63), (1 << 62) + 999}[r.intn(4)]
	case x < 33:
		return int64(r.u64())
	case x < 35:
		return 0
	case x < 36:
		if hist {
			return 1000000000 + r.i64n(1000)
		}
		return int64(r.u64() >> 2)
	default:
		return int64(r.intn(2000))
	}
}

func c15RandOp(r *rng, hist, shim bool) c15Op {
	x := r.intn(100)
	switch {
	case x < 15:
		if shim && r.chance(1, 2) {
			return c15Op{"sbegin", 0}
		}
		return c15Op{"begin", 0}
	case x < 33:
		if shim && r.chance(1, 2) {
			return c15Op{"send", c15DurVal(r, hist)}
		}
		return c15Op{"end", c15DurVal(r, hist)}
	case x < 39:
		return c15Op{"incit", c15CounterVal(r, hist)}
	case x < 47:
		return c15Op{"incops", c15CounterVal(r, hist)}
	case x < 51:
		return c15Op{"incerr", c15CounterVal(r, hist)}
	case x < 57:
		return c15Op{"incsize", c15CounterVal(r, hist)}
	case x < 60:
		return c15Op{"workers", int64(r.intn(64)) - 2}
	case x < 63:
		return c15Op{"state", int64(r.intn(9)) - 1}
	case x < 65:
		return c15Op{"failed", int64(r.intn(2))}
	case x < 70:
		if r.chance(1, 5) {
			return c15Op{"settime", 0}
		}
		return c15Op{"settime", c15T0 + int64(r.intn(1000))*1000000 + int64(r.intn(3))}
	case x < 73:
		return c15Op{"setid", int64(r.intn(5)) + int64(r.intn(2))*(1<<40)}
	case x < 80:
		return c15Op{"setdur", c15DurVal(r, hist)}
	case x < 87:
		return c15Op{"settotal", c15DurVal(r, hist)}
	case x < 95:
		return c15Op{"endtest", 0}
	default:
		return c15Op{"reset", 0}
	}
}

func c15RandFails(r *rng) []int64 {
	fails := []int64{}
	if r.chance(1, 3) {
		return fails
	}
	for k := int64(0); k < 10; k++ {
		if r.chance(1, 4) {
			fails = append(fails, k)
		}
	}
	return fails
}

type c15Config struct {
	w, k string
	iv   int64
}

func c15Configs() []c15Config {
	cs := []c15Config{}
	for _, k := range c15Kinds {
		switch k {
		case "grouped", "histgrouped":
			cs = append(cs, c15Config{"none", k, 0}, c15Config{"none", k, c15Hour})
		case "interval", "histinterval":
			cs = append(cs, c15Config{"none", k, c15Hour})
		default:
			cs = append(cs, c15Config{"none", k, 0})
		}
	}
	cs = append(cs, c15Config{"sync", "raw", 0}, c15Config{"sync", "grouped", 0}, c15Config{"sync", "hist", 0},
		c15Config{"shim", "single", 0}, c15Config{"shim", "grouped", c15Hour}, c15Config{"shim", "histsingle", 0},
		c15Config{"shim", "interval", c15Hour})
	return cs
}

func c15Alphabet(shim bool) []c15Op {
	a := []c15Op{{"begin", 0}, {"end", 1500}, {"incops", 3}, {"setdur", 2500}, {"settotal", 4096},
		{"settime", c15T0 + 5000000}, {"endtest", 0}, {"reset", 0}}
	if shim {
		a[0] = c15Op{"sbegin", 0}
		a[1] = c15Op{"send", 1500}
	}
	return a
}

func c15Generate(r *rng, thorough bool) []c15Case {
	cases := []c15Case{}
	add := func(c c15Case) {
		c.id = len(cases)
		cases = append(cases, c)
	}
	// 1. exhaustive short histories over an 8-call alphabet, for every configuration
	maxLen := 3
	if thorough {
		maxLen = 4
	}
	for _, cfg := range c15Configs() {
		alpha := c15Alphabet(cfg.w == "shim")
		var rec func(prefix []c15Op)
		rec = func(prefix []c15Op) {
			if len(prefix) > 0 {
				fails := []int64{}
				switch r.intn(3) {
				case 1:
					fails = []int64{0}
				case 2:
					fails = []int64{int64(r.intn(2)), 2}
				}
				add(c15Case{w: cfg.w, k: cfg.k, iv: cfg.iv, fails: fails, ops: append([]c15Op(nil), prefix...)})
			}
			if len(prefix) == maxLen {
				return
			}
			for _, o := range alpha {
				rec(append(prefix, o))
			}
		}
		rec(nil)
	}
	// 2. random histories of length <= 40
	nrand := 1000
	if thorough {
		nrand = 40000
	}
	for i := 0; i < nrand; i++ {
		k := c15Kinds[r.intn(len(c15Kinds))]
		w := "none"
		switch r.intn(5) {
		case 0:
			w = "sync"
		case 1:
			w = "shim"
		}
		iv := int64(0)
		switch k {
		case "grouped", "histgrouped":
			if r.chance(1, 2) {
				iv = c15Hour
			}
		case "interval", "histinterval":
			iv = c15Hour
		}
		n := 1 + r.intn(40)
		ops := make([]c15Op, n)
		for j := range ops {
			ops[j] = c15RandOp(r, c15IsHist(k), w == "shim")
		}
		add(c15Case{w: w, k: k, iv: iv, fails: c15RandFails(r), ops: ops})
	}
	return cases
}

// tick cases: the two interval recorders (plain, synchronized, shim) with a 200 us ticker;
// "tick" only while a flusher is alive (a BeginIteration since the last EndTest/Reset)
func c15GenerateTicks(r *rng, n int, firstID int) []c15Case {
	cases := []c15Case{}
	for i := 0; i < n; i++ {
		k := []string{"interval", "histinterval"}[r.intn(2)]
		w := []string{"none", "none", "sync", "shim"}[r.intn(4)]
		nops := 2 + r.intn(14)
		ops := []c15Op{}
		live := false
		if r.chance(2, 3) {
			ops = append(ops, c15Op{"begin", 0})
			live = true
		}
		for len(ops) < nops {
			if live && r.chance(1, 3) {
				if r.chance(1, 4) { // an unstamped point: the flusher has to stamp it itself
					ops = append(ops, c15Op{"settime", 0})
				}
				ops = append(ops, c15Op{"tick", 0})
				continue
			}
			o := c15RandOp(r, c15IsHist(k), w == "shim")
			switch o.name {
			case "begin", "sbegin":
				live = true
			case "endtest", "reset":
				live = false
			}
			ops = append(ops, o)
		}
		cases = append(cases, c15Case{id: firstID + i, w: w, k: k, iv: c15TickInterval, fails: c15RandFails(r), ops: ops})
	}
	return cases
}

func c15RunTicks(cases []c15Case) []string {
	events.SetVerifHook(c15Hook)
	defer events.SetVerifHook(nil)
	res := make([]string, len(cases))
	for i, c := range cases {
		ctl := &c15TickCtl{release: make(chan struct{})}
		c15Ctl.Store(ctl)
		cc := c
		res[i] = c15Guard(cc, func() string { return c15RunCtl(cc, ctl) })
		touch()
	}
	c15Ctl.Store((*c15TickCtl)(nil))
	return res
}

func c15HasTick(c c15Case) bool {
	for _, o := range c.ops {
		if o.name == "tick" {
			return true
		}
	}
	return false
}

// c15Guard runs one case under a watchdog: a recorder call that never returns (a deadlock inside the library) must
// end the observation with a report, not hang the check
func c15Guard(c c15Case, f func() string) string {
	done := make(chan string, 1)
	go func() { done <- f() }()
	select {
	case l := <-done:
		return l
	case <-time.After(60 * time.Second):
		fmt.Printf("c15: HANG: a recorder call did not return within 60 s in case %d (wrapper %s, recorder %s, %d operations)\n", c.id, c.w, c.k, len(c.ops))
		os.Exit(3)
	}
	return ""
}

func c15RunAll(cases []c15Case) []string {
	res := make([]string, len(cases))
	nw := runtime.NumCPU()
	if s := os.Getenv("C15_WORKERS"); s != "" {
		nw, _ = strconv.Atoi(s)
	}
	if nw > 8 {
		nw = 8
	}
	if nw < 1 {
		nw = 1
	}
	var wg sync.WaitGroup
	ch := make(chan int, 256)
	for w := 0; w < nw; w++ {
		wg.Add(1)
		go func() {
			defer wg.Done()
			for i := range ch {
				ci := cases[i]
				res[i] = c15Guard(ci, func() string { return c15Run(ci) })
				touch()
			}
		}()
	}
	for i := range cases {
		ch <- i
	}
	close(ch)
	wg.Wait()
	return res
}

// parse the input part of a stored case line (observations are dropped)
func c15ParseCase(line string) (c15Case, error) {
	var c c15Case
	chunks := strings.Split(strings.TrimSpace(line), " ;; ")
	hd := strings.Fields(chunks[0])
	if len(hd) < 9 || hd[0] != "C" || hd[7] != "F" {
		return c, errors.New("bad case header")
	}
	c.id, _ = strconv.Atoi(hd[1])
	c.w, c.k = hd[2], hd[3]
	c.iv, _ = strconv.ParseInt(hd[4], 10, 64)
	nf, _ := strconv.Atoi(hd[8])
	for i := 0; i < nf && 9+i < len(hd); i++ {
		k, _ := strconv.ParseInt(hd[9+i], 10, 64)
		c.fails = append(c.fails, k)
	}
	for _, ch := range chunks[1:] {
		t := strings.Fields(ch)
		if len(t) == 0 || t[0] == "T" {
			continue
		}
		o := c15Op{name: t[0]}
		if len(t) > 1 && t[1] != "@" {
			v, err := strconv.ParseInt(t[1], 10, 64)
			if err != nil {
				return c, err
			}
			o.v = v
		}
		c.ops = append(c.ops, o)
	}
	return c, nil
}

func init() {
	commands["c15replay"] = func(args []string) error {
		// c15replay <outfile> <file with stored case lines>
		if len(args) < 2 {
			return errors.New("usage: c15replay <outfile> <casefile>")
		}
		data, err := os.ReadFile(args[1])
		if err != nil {
			return err
		}
		o, err := newOut(args[0])
		if err != nil {
			return err
		}
		for _, l := range strings.Split(string(data), "\n") {
			if strings.TrimSpace(l) == "" {
				continue
			}
			c, err := c15ParseCase(l)
			if err != nil {
				return err
			}
			if c15HasTick(c) {
				o.printf("%s\n", c15RunTicks([]c15Case{c})[0])
			} else {
				o.printf("%s\n", c15Run(c))
			}
		}
		return o.close()
	}
	commands["c15"] = func(args []string) error {
		if len(args) < 1 {
			return errors.New("usage: c15 <outfile>")
		}
		o, err := newOut(args[0])
		if err != nil {
			return err
		}
		// every Reset/EndTest of a histogram recorder allocates 31 MB of counts: collect often so
		// that the heap is reused instead of being returned to and re-faulted from the OS
		if os.Getenv("GOGC") == "" {
			debug.SetGCPercent(50)
		}
		r := newRng(envSeed())
		cases := c15Generate(r, envTier() == "thorough")
		nticks := 150
		if envTier() == "thorough" {
			nticks = 3000
		}
		ticks := c15GenerateTicks(r, nticks, len(cases))
		for _, l := range c15RunAll(cases) {
			o.printf("%s\n", l)
		}
		// 3. the flusher of the interval recorders, driven through the verif hook (run one at a time)
		for _, l := range c15RunTicks(ticks) {
			o.printf("%s\n", l)
		}
		fmt.Printf("c15 cases written: %d + %d tick cases\n", len(cases), len(ticks))
		return o.close()
	}
}
