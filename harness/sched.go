package main

// Schedule-point controller for the vpoint hooks (build tag verif) of the ftdc,
// util, events and metrics packages. It logs every point per goroutine and can
// stall the goroutine that reaches the k-th occurrence of a chosen label until
// released, which is how the systematic schedules of C05/C06/C10/C16 are built.

import (
	"bytes"
	"runtime"
	"strconv"
	"sync"
	"time"

	"github.com/mongodb/ftdc"
	"github.com/mongodb/ftdc/events"
	"github.com/mongodb/ftdc/metrics"
	"github.com/mongodb/ftdc/util"
)

type schedEvent struct {
	gid   int64
	label string
}

type sched struct {
	mu        sync.Mutex
	events    []schedEvent
	counts    map[string]int
	stallAt   string
	stallOcc  int
	stalled   chan struct{} // closed when the chosen point is reached
	release   chan struct{} // closed to let the stalled goroutine continue
	didStall  bool
	stalledID int64
}

func goid() int64 {
	var buf [64]byte
	n := runtime.Stack(buf[:], false)
	// "goroutine 123 [running]:"
	b := buf[:n]
	b = b[len("goroutine "):]
	i := bytes.IndexByte(b, ' ')
	id, _ := strconv.ParseInt(string(b[:i]), 10, 64)
	return id
}

// newSched installs a fresh controller into all hooked packages. stallAt == "" means log only.
func newSched(stallAt string, occ int) *sched {
	s := &sched{counts: map[string]int{}, stallAt: stallAt, stallOcc: occ,
		stalled: make(chan struct{}), release: make(chan struct{})}
	ftdc.SetVerifHook(s.hook)
	util.SetVerifHook(s.hook)
	events.SetVerifHook(s.hook)
	metrics.SetVerifHook(s.hook)
	return s
}

func uninstallSched() {
	ftdc.SetVerifHook(nil)
	util.SetVerifHook(nil)
	events.SetVerifHook(nil)
	metrics.SetVerifHook(nil)
}

func (s *sched) hook(label string) {
	g := goid()
	s.mu.Lock()
	s.counts[label]++
	occ := s.counts[label]
	s.events = append(s.events, schedEvent{g, label})
	hit := s.stallAt != "" && label == s.stallAt && occ == s.stallOcc && !s.didStall
	if hit {
		s.didStall = true
		s.stalledID = g
	}
	s.mu.Unlock()
	if hit {
		close(s.stalled)
		<-s.release
	}
}

// waitStalled waits until the chosen point has been reached (true) or the timeout expires.
func (s *sched) waitStalled(d time.Duration) bool {
	select {
	case <-s.stalled:
		return true
	case <-time.After(d):
		return false
	}
}

func (s *sched) releaseStall() {
	select {
	case <-s.release:
	default:
		close(s.release)
	}
}

// perGoroutine returns the label sequence of every goroutine that hit a point, in first-seen order.
func (s *sched) perGoroutine() [][]string {
	s.mu.Lock()
	defer s.mu.Unlock()
	idx := map[int64]int{}
	var out [][]string
	for _, e := range s.events {
		i, ok := idx[e.gid]
		if !ok {
			i = len(out)
			idx[e.gid] = i
			out = append(out, nil)
		}
		out[i] = append(out[i], e.label)
	}
	return out
}

func (s *sched) labelCounts() map[string]int {
	s.mu.Lock()
	defer s.mu.Unlock()
	m := map[string]int{}
	for k, v := range s.counts {
		m[k] = v
	}
	return m
}

// ftdcGoroutines counts goroutines with a frame in github.com/mongodb/ftdc (excluding the harness itself)
func ftdcGoroutines() (int, string) {
	buf := make([]byte, 1<<20)
	n := runtime.Stack(buf, true)
	stacks := bytes.Split(buf[:n], []byte("\n\n"))
	cnt := 0
	var sample []byte
	for _, st := range stacks {
		if bytes.Contains(st, []byte("github.com/mongodb/ftdc")) && !bytes.Contains(st, []byte("main.ftdcGoroutines")) {
			// a frame of the library itself (not merely called from the harness's own goroutine)
			if bytes.Contains(st, []byte("created by github.com/mongodb/ftdc")) {
				cnt++
				if sample == nil {
					sample = st
				}
			}
		}
	}
	return cnt, string(sample)
}
