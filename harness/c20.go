package main

// C20: build genny actor streams with the real library (events collectors over
// batch / streaming FTDC collectors), run GetGennyTime and TranslateGenny, and
// write inputs (as seen through ReadChunks) and observations (output decoded
// with ReadStructuredMetrics / ReadChunks) on one line per case.
//
// Not driven: an actor whose stream holds no chunk (nil-pointer panic inside
// translateAtNextWindow - observed once in a subprocess, case "P"), and output
// schema changes (the collector error ends in log.Fatal; performance-event
// streams always carry all eight keys so the schema is constant).
//
// Case line:
//   T <id> <nact> { <name> <start> <end> <nchunks> { <nk> kid*nk <ns> value*(ns*nk) } } =>
//     <status> <nout> { <stamp> <nsub> { <name> <nv> { kid val } } } <nch> size* { <gstart> <gend> }*nact
// <name> is the index (1-based) into the case's actor names; rows are row-major,
// value j of a row belongs to metric j; Metrics[0] is what t2.go reads as timestamp.

import (
	"bufio"
	"bytes"
	"context"
	"errors"
	"fmt"
	"os"
	"os/exec"
	"strconv"
	"strings"
	"time"

	"github.com/evergreen-ci/birch"
	"github.com/evergreen-ci/birch/bsontype"
	"github.com/mongodb/ftdc"
	"github.com/mongodb/ftdc/events"
)

// key ids shared with the model: 0..7 are the selected keys
var c20KeyIDs = map[string]int{
	"counters.n": 0, "counters.ops": 1, "counters.size": 2, "counters.errors": 3,
	"timers.dur": 4, "timers.total": 5, "gauges.workers": 6, "gauges.failed": 7,
	"ts": 8, "id": 9, "gauges.state": 10, "zz": 11, "counters.extra": 12, "timers.extra": 13, "gauges.extra": 14,
}
var c20KeyNames = func() map[int]string {
	m := map[int]string{}
	for k, v := range c20KeyIDs {
		m[v] = k
	}
	return m
}()
var c20OutIDs = map[string]int{"n": 0, "ops": 1, "size": 2, "errors": 3, "dur": 4, "total": 5, "workers": 6, "failed": 7}

type c20Chunk struct {
	kids []int
	rows [][]int64
}

type c20Actor struct {
	name       string
	stream     []byte
	start, end int64
}

// one document from (key ids, row): consecutive keys with the same parent share a sub-document
func c20Doc(kids []int, row []int64) *birch.Document {
	doc := birch.DC.Elements()
	var sub *birch.Document
	subName := ""
	flush := func() {
		if sub != nil {
			doc.Append(birch.EC.SubDocument(subName, sub))
			sub = nil
		}
	}
	for j, k := range kids {
		full, ok := c20KeyNames[k]
		if !ok {
			full = "x" + strconv.Itoa(k)
		}
		parent, leaf := "", full
		if i := strings.IndexByte(full, '.'); i >= 0 {
			parent, leaf = full[:i], full[i+1:]
		}
		var e *birch.Element
		if k == 8 {
			e = birch.EC.DateTime(leaf, row[j])
		} else {
			e = birch.EC.Int64(leaf, row[j])
		}
		if parent == "" {
			flush()
			doc.Append(e)
			continue
		}
		if sub == nil || subName != parent {
			flush()
			sub = birch.DC.Elements()
			subName = parent
		}
		sub.Append(e)
	}
	flush()
	return doc
}

// exact chunks -> FTDC bytes (one base collector per chunk)
func c20StreamOfChunks(chs []c20Chunk) ([]byte, error) {
	buf := &bytes.Buffer{}
	for _, ch := range chs {
		col := ftdc.NewBaseCollector(len(ch.rows) + 1)
		for _, row := range ch.rows {
			if err := col.Add(c20Doc(ch.kids, row)); err != nil {
				return nil, err
			}
		}
		p, err := col.Resolve()
		if err != nil {
			return nil, err
		}
		buf.Write(p)
	}
	return buf.Bytes(), nil
}

// the chunks of a stream as ReadChunks delivers them
func c20ReadInput(stream []byte) ([]c20Chunk, error) {
	ctx, cancel := context.WithCancel(context.Background())
	defer cancel()
	it := ftdc.ReadChunks(ctx, bytes.NewReader(stream))
	var res []c20Chunk
	for it.Next() {
		ch := it.Chunk()
		c := c20Chunk{}
		n := -1
		for _, m := range ch.Metrics {
			id, ok := c20KeyIDs[m.Key()]
			if !ok {
				id = 99
			}
			c.kids = append(c.kids, id)
			if n < 0 {
				n = len(m.Values)
			} else if n != len(m.Values) {
				return nil, fmt.Errorf("metric %s has %d values, expected %d", m.Key(), len(m.Values), n)
			}
		}
		for i := 0; i < n; i++ {
			row := make([]int64, len(ch.Metrics))
			for j, m := range ch.Metrics {
				row[j] = m.Values[i]
			}
			c.rows = append(c.rows, row)
		}
		res = append(res, c)
	}
	return res, it.Err()
}

func c20Iter(ctx context.Context, stream []byte) *ftdc.ChunkIterator {
	return ftdc.ReadChunks(ctx, bytes.NewReader(stream))
}

// run one case through the implementation and write its line
func c20RunCase(o *out, id string, actors []c20Actor) error {
	ctx, cancel := context.WithCancel(context.Background())
	defer cancel()
	names := map[string]int{}
	var sb strings.Builder
	fmt.Fprintf(&sb, "T %s %d", id, len(actors))
	gts := make([][2]int64, len(actors))
	for i, a := range actors {
		names[a.name] = i + 1
		chs, err := c20ReadInput(a.stream)
		if err != nil {
			return fmt.Errorf("case %s: reading the input stream of %s: %v", id, a.name, err)
		}
		if len(chs) == 0 {
			return fmt.Errorf("case %s: actor %s has an empty stream (not driven in-process)", id, a.name)
		}
		fmt.Fprintf(&sb, " %d %d %d %d", i+1, a.start, a.end, len(chs))
		for _, ch := range chs {
			fmt.Fprintf(&sb, " %d", len(ch.kids))
			for _, k := range ch.kids {
				fmt.Fprintf(&sb, " %d", k)
			}
			fmt.Fprintf(&sb, " %d", len(ch.rows))
			for _, row := range ch.rows {
				for _, v := range row {
					sb.WriteByte(' ')
					sb.WriteString(strconv.FormatInt(v, 10))
				}
			}
		}
		g := ftdc.GetGennyTime(ctx, ftdc.GennyOutputMetadata{Name: a.name, Iter: c20Iter(ctx, a.stream)})
		gts[i] = [2]int64{g.StartTime, g.EndTime}
	}
	sb.WriteString(" =>")

	metas := make([]*ftdc.GennyOutputMetadata, len(actors))
	for i, a := range actors {
		metas[i] = &ftdc.GennyOutputMetadata{Name: a.name, Iter: c20Iter(ctx, a.stream), StartTime: a.start, EndTime: a.end}
	}
	output := &bytes.Buffer{}
	status := "ok"
	func() {
		defer func() {
			if r := recover(); r != nil {
				status = "panic"
			}
		}()
		if err := ftdc.TranslateGenny(ctx, metas, output); err != nil {
			status = "error"
		}
	}()
	fmt.Fprintf(&sb, " %s", status)

	// the output, sample by sample
	outBytes := output.Bytes()
	var samples []string
	sit := ftdc.ReadStructuredMetrics(ctx, bytes.NewReader(outBytes))
	for sit.Next() {
		doc := sit.Document()
		var s strings.Builder
		cedar := doc.Lookup("cedar")
		if doc.Len() != 1 || cedar == nil || cedar.Type() != bsontype.EmbeddedDocument {
			return fmt.Errorf("case %s: output sample is not {cedar: {...}}: %s", id, docHex(doc))
		}
		cd := cedar.MutableDocument()
		ci := cd.Iterator()
		first := true
		nsub := 0
		var subs strings.Builder
		stamp := int64(0)
		for ci.Next() {
			e := ci.Element()
			if first {
				first = false
				if e.Key() != "start" || e.Value().Type() != bsontype.DateTime {
					return fmt.Errorf("case %s: first element of cedar is not the start date: %s", id, docHex(doc))
				}
				stamp = e.Value().DateTime()
				continue
			}
			nsub++
			if e.Value().Type() != bsontype.EmbeddedDocument {
				return fmt.Errorf("case %s: element %s is not a sub-document", id, e.Key())
			}
			sd := e.Value().MutableDocument()
			fmt.Fprintf(&subs, " %d %d", names[e.Key()], sd.Len())
			si := sd.Iterator()
			for si.Next() {
				se := si.Element()
				kid, ok := c20OutIDs[se.Key()]
				if !ok {
					kid = 99
				}
				v, ok := se.Value().Int64OK()
				if !ok {
					return fmt.Errorf("case %s: value of %s.%s is not an int64", id, e.Key(), se.Key())
				}
				fmt.Fprintf(&subs, " %d %d", kid, v)
			}
		}
		fmt.Fprintf(&s, " %d %d%s", stamp, nsub, subs.String())
		samples = append(samples, s.String())
	}
	if err := sit.Err(); err != nil {
		return fmt.Errorf("case %s: decoding the output: %v", id, err)
	}
	sit.Close()
	fmt.Fprintf(&sb, " %d", len(samples))
	for _, s := range samples {
		sb.WriteString(s)
	}
	// chunk sizes of the output
	var sizes []int
	cit := ftdc.ReadChunks(ctx, bytes.NewReader(outBytes))
	for cit.Next() {
		sizes = append(sizes, cit.Chunk().Size())
	}
	if err := cit.Err(); err != nil {
		return fmt.Errorf("case %s: reading the output chunks: %v", id, err)
	}
	fmt.Fprintf(&sb, " %d", len(sizes))
	for _, s := range sizes {
		fmt.Fprintf(&sb, " %d", s)
	}
	for _, g := range gts {
		fmt.Fprintf(&sb, " %d %d", g[0], g[1])
	}
	o.printf("%s\n", sb.String())
	return nil
}

// ---------------------------------------------------------------- generation

// timestamps (ms) of one actor's events: many per second, exact second
// boundaries, duplicates, gaps of several seconds
func c20Timestamps(r *rng, first int64, n int, gapChance int) []int64 {
	ts := make([]int64, n)
	t := first
	for i := 0; i < n; i++ {
		if i > 0 {
			switch {
			case r.chance(gapChance, 100):
				t += int64(1000*(2+r.intn(5))) + r.i64n(1000) // gap of 2..6 s
			case r.chance(1, 12):
				t += 0 // same millisecond
			case r.chance(1, 8):
				t += 1000 - ((t%1000)+1000)%1000 // up to the next exact second
			case r.chance(1, 4):
				t += 700 + r.i64n(900)
			default:
				t += 1 + r.i64n(350)
			}
		}
		ts[i] = t
	}
	return ts
}

func c20PerfStream(r *rng, ts []int64, chunkN int, streaming, cumulative bool) ([]byte, error) {
	buf := &bytes.Buffer{}
	var fc ftdc.Collector
	if streaming {
		fc = ftdc.NewStreamingCollector(chunkN, buf)
	} else {
		fc = ftdc.NewBatchCollector(chunkN)
	}
	var ec events.Collector
	if cumulative {
		ec = events.NewBasicCollector(fc)
	} else {
		ec = events.NewPassthroughCollector(fc)
	}
	for i, t := range ts {
		ev := &events.Performance{
			Timestamp: time.UnixMilli(t).UTC(),
			ID:        int64(i + 1),
			Counters: events.PerformanceCounters{Number: 1 + int64(r.intn(3)), Operations: int64(r.intn(20)),
				Size: int64(r.intn(5000)), Errors: int64(r.intn(2))},
			Timers: events.PerformanceTimers{Duration: time.Duration(r.intn(2000000)), Total: time.Duration(r.intn(3000000))},
			Gauges: events.PerformanceGauges{State: int64(r.intn(4)), Workers: int64(1 + r.intn(16)), Failed: r.chance(1, 6)},
		}
		if r.chance(1, 10) { // a repeated sample: equal values in consecutive events
			ev.Counters = events.PerformanceCounters{}
			ev.Timers = events.PerformanceTimers{}
		}
		if err := ec.AddEvent(ev); err != nil {
			return nil, err
		}
	}
	if streaming {
		if err := ftdc.FlushCollector(fc, buf); err != nil {
			return nil, err
		}
		return buf.Bytes(), nil
	}
	return fc.Resolve()
}

// documents built by hand: the eight keys in the usual order plus unselected
// neighbours; sometimes "id" is the first metric (then t2.go reads it as the timestamp)
func c20CustomStream(r *rng, ts []int64, chunkN int) ([]byte, error) {
	kids := []int{8}
	idFirst := r.chance(1, 5)
	if idFirst {
		kids = []int{9, 8}
	} else if r.chance(1, 2) {
		kids = append(kids, 9)
	}
	opt := func(k int) {
		if r.chance(1, 2) {
			kids = append(kids, k)
		}
	}
	opt(11)
	kids = append(kids, 0)
	opt(12)
	kids = append(kids, 1, 2, 3, 4)
	opt(13)
	kids = append(kids, 5)
	opt(10)
	kids = append(kids, 6)
	opt(14)
	kids = append(kids, 7)
	var chs []c20Chunk
	acc := make([]int64, len(kids))
	for i, t := range ts {
		row := make([]int64, len(kids))
		for j, k := range kids {
			switch k {
			case 8:
				row[j] = t
			case 9:
				if idFirst {
					row[j] = t // plays the timestamp
				} else {
					row[j] = int64(i + 1)
				}
			case 7:
				row[j] = int64(r.intn(2))
			default:
				acc[j] += int64(r.intn(50))
				row[j] = acc[j]
			}
		}
		if len(chs) == 0 || len(chs[len(chs)-1].rows) >= chunkN {
			chs = append(chs, c20Chunk{kids: kids})
		}
		chs[len(chs)-1].rows = append(chs[len(chs)-1].rows, row)
	}
	return c20StreamOfChunks(chs)
}

// documents with NONE of the eight keys: translateMetrics returns a nil slice, the
// window loop takes the hit for a miss and the sub-document is empty from the
// first second on (only driven where the gate is open at the first second, so
// that the output schema stays constant)
func c20NoKeyStream(r *rng, ts []int64, chunkN int) ([]byte, error) {
	kids := []int{8, 9, 11}
	if r.chance(1, 2) {
		kids = []int{8, 10, 12, 13}
	}
	var chs []c20Chunk
	for i, t := range ts {
		row := make([]int64, len(kids))
		row[0] = t
		for j := 1; j < len(kids); j++ {
			row[j] = int64(i*j + r.intn(9))
		}
		if len(chs) == 0 || len(chs[len(chs)-1].rows) >= chunkN {
			chs = append(chs, c20Chunk{kids: kids})
		}
		chs[len(chs)-1].rows = append(chs[len(chs)-1].rows, row)
	}
	return c20StreamOfChunks(chs)
}

var c20ChunkSizes = []int{1, 2, 7, 50}

func c20GenActor(r *rng, name string, base int64, n int, gapChance int) (c20Actor, error) {
	first := base + r.i64n(9000)
	ts := c20Timestamps(r, first, n, gapChance)
	chunkN := c20ChunkSizes[r.intn(len(c20ChunkSizes))]
	var stream []byte
	var err error
	if base > 100000 && r.chance(1, 25) {
		stream, err = c20NoKeyStream(r, ts, chunkN)
	} else if r.chance(1, 6) {
		stream, err = c20CustomStream(r, ts, chunkN)
	} else {
		stream, err = c20PerfStream(r, ts, chunkN, r.chance(1, 2), r.chance(2, 3))
	}
	return c20Actor{name: name, stream: stream}, err
}

var c20Names = []string{"InsertRemove.Insert", "Loader.bulk", "actorC", "d"}

func c20Generate(o *out, r *rng, thorough bool) error {
	ncases := 300
	nlong := 4
	if thorough {
		ncases, nlong = 6000, 80
	}
	ctx := context.Background()
	for id := 0; id < ncases+nlong; id++ {
		long := id >= ncases
		nact := 1 + r.intn(4)
		if long {
			nact = 1 + r.intn(2)
		}
		// where on the time axis: wall clock mostly; around the epoch, before it, two centuries ahead
		var base int64
		switch r.intn(12) {
		case 0:
			base = r.i64n(3000) - 1500
		case 1:
			base = -20000 - r.i64n(100000)
		case 2:
			base = 7200000000000 + r.i64n(1<<30) // year ~2198; dates outside 1678..2262 do not survive the FTDC collectors (epochMs goes through UnixNano), so neither inputs nor output stamps go there
		default:
			base = 1600000000000 + r.i64n(100000000000)
		}
		actors := make([]c20Actor, nact)
		for i := range actors {
			n := 1 + r.intn(40)
			if r.chance(1, 5) {
				n = 1 + r.intn(3)
			}
			gap := 4 + r.intn(12)
			off := int64(0)
			if r.chance(1, 3) {
				off = int64(r.intn(40000)) // disjoint / late starting spans
			}
			if long && i == 0 {
				n = 320 + r.intn(400)
				gap = 30
			}
			a, err := c20GenActor(r, c20Names[i], base+off, n, gap)
			if err != nil {
				return err
			}
			actors[i] = a
		}
		// StartTime / EndTime: from GetGennyTime, or hand-chosen around it
		handAll := r.chance(1, 4)
		for i := range actors {
			g := ftdc.GetGennyTime(ctx, ftdc.GennyOutputMetadata{Iter: c20Iter(ctx, actors[i].stream)})
			actors[i].start, actors[i].end = g.StartTime, g.EndTime
			if handAll || r.chance(1, 8) {
				actors[i].start += int64(r.intn(9)) - 4
				actors[i].end += int64(r.intn(9)) - 4
			}
		}
		// keep the loop bounded and non-empty
		lo, hi := actors[0].start, actors[0].end
		for _, a := range actors {
			if a.start < lo {
				lo = a.start
			}
			if a.end > hi {
				hi = a.end
			}
		}
		if hi < 0 {
			hi = 0 // workloadEndSec starts at 0
		}
		if hi-lo > 5000 {
			continue
		}
		if err := c20RunCase(o, strconv.Itoa(id), actors); err != nil {
			return err
		}
	}
	return nil
}

// ---------------------------------------------------------------- replay

type c20Toks struct {
	t []string
	i int
}

func (t *c20Toks) i64() (int64, error) {
	if t.i >= len(t.t) {
		return 0, errors.New("case line too short")
	}
	v, err := strconv.ParseInt(t.t[t.i], 10, 64)
	t.i++
	return v, err
}

// rebuild the actors of a stored case line (inputs up to "=>") with the same chunk boundaries
func c20ParseActors(line string) (string, []c20Actor, error) {
	f := strings.Fields(line)
	if len(f) < 3 || f[0] != "T" {
		return "", nil, errors.New("not a T line")
	}
	id := f[1]
	tk := &c20Toks{t: f, i: 2}
	nact, err := tk.i64()
	if err != nil {
		return "", nil, err
	}
	var actors []c20Actor
	for a := int64(0); a < nact; a++ {
		var hdr [4]int64
		for j := range hdr {
			if hdr[j], err = tk.i64(); err != nil {
				return "", nil, err
			}
		}
		var chs []c20Chunk
		for c := int64(0); c < hdr[3]; c++ {
			nk, err := tk.i64()
			if err != nil {
				return "", nil, err
			}
			ch := c20Chunk{}
			for j := int64(0); j < nk; j++ {
				k, err := tk.i64()
				if err != nil {
					return "", nil, err
				}
				ch.kids = append(ch.kids, int(k))
			}
			ns, err := tk.i64()
			if err != nil {
				return "", nil, err
			}
			for s := int64(0); s < ns; s++ {
				row := make([]int64, nk)
				for j := range row {
					if row[j], err = tk.i64(); err != nil {
						return "", nil, err
					}
				}
				ch.rows = append(ch.rows, row)
			}
			chs = append(chs, ch)
		}
		stream, err := c20StreamOfChunks(chs)
		if err != nil {
			return "", nil, err
		}
		name := "actor" + strconv.FormatInt(hdr[0], 10)
		if hdr[0] >= 1 && int(hdr[0]) <= len(c20Names) {
			name = c20Names[hdr[0]-1]
		}
		actors = append(actors, c20Actor{name: name, stream: stream, start: hdr[1], end: hdr[2]})
	}
	return id, actors, nil
}

// the empty-stream panic, observed in a child process
func c20PanicCase(o *out) {
	cmd := exec.Command(os.Args[0], "c20empty")
	outp, err := cmd.CombinedOutput()
	res := "returned"
	if err != nil {
		res = "crashed"
		if strings.Contains(string(outp), "nil pointer dereference") {
			res = "panic"
		}
	}
	o.printf("P %s\n", res)
}

func init() {
	commands["c20empty"] = func(args []string) error {
		ctx := context.Background()
		m := &ftdc.GennyOutputMetadata{Name: "empty", Iter: c20Iter(ctx, nil), StartTime: 10, EndTime: 12}
		err := ftdc.TranslateGenny(ctx, []*ftdc.GennyOutputMetadata{m}, &bytes.Buffer{})
		fmt.Println("returned", err)
		return nil
	}
	commands["c20replay"] = func(args []string) error {
		// c20replay <outfile> <file holding stored case lines>
		if len(args) < 2 {
			return errors.New("usage: c20replay <outfile> <linefile>")
		}
		o, err := newOut(args[0])
		if err != nil {
			return err
		}
		f, err := os.Open(args[1])
		if err != nil {
			return err
		}
		defer f.Close()
		sc := bufio.NewScanner(f)
		sc.Buffer(make([]byte, 1<<20), 1<<30)
		for sc.Scan() {
			line := strings.TrimSpace(sc.Text())
			if strings.HasPrefix(line, "P") {
				c20PanicCase(o)
				continue
			}
			if !strings.HasPrefix(line, "T ") {
				continue
			}
			id, actors, err := c20ParseActors(line)
			if err != nil {
				return err
			}
			if err := c20RunCase(o, id, actors); err != nil {
				return err
			}
		}
		return o.close()
	}
	commands["c20"] = func(args []string) error {
		if len(args) < 1 {
			return errors.New("usage: c20 <outfile>")
		}
		o, err := newOut(args[0])
		if err != nil {
			return err
		}
		r := newRng(envSeed())
		if err := c20Generate(o, r, envTier() == "thorough"); err != nil {
			return err
		}
		c20PanicCase(o)
		fmt.Println("c20 cases written")
		return o.close()
	}
}
