package main

// C03 — wire-format conformance in both directions.
//
//   c03 <dir>                       encode direction: same-schema document sequences through every
//                                   compressing collector (as C01, plus histories with metadata); writes
//                                   hist.cases and read.cases; the model-side driver decodes the emitted
//                                   bytes with the INDEPENDENT specification decoder.
//   c03read <streams-file> <out>    decode direction: every stream produced by the specification's
//                                   encoder (ocaml/c03_gen.ml, trivial codec) is given a real zlib stream
//                                   and handed to every reader of the library together with the sample
//                                   documents the specification says it holds.

import (
	"bufio"
	"encoding/binary"
	"encoding/hex"
	"errors"
	"fmt"
	"os"
	"path/filepath"
	"strings"
)

// parseSampleDoc reads a BSON document made of the metric leaf types, embedded documents
// and arrays (what an expected sample document can contain) into the harness' value tree.
func parseSampleDoc(b []byte) ([]elem, error) {
	es, ok := walkElems(b)
	if !ok || len(b) < 5 || int(int32(binary.LittleEndian.Uint32(b))) != len(b) {
		return nil, errors.New("malformed document")
	}
	out := make([]elem, 0, len(es))
	for _, e := range es {
		v, err := parseSampleVal(e.t, e.val)
		if err != nil {
			return nil, err
		}
		out = append(out, elem{e.key, v})
	}
	return out, nil
}

func parseSampleVal(t byte, b []byte) (*val, error) {
	switch t {
	case 0x01, 0x09, 0x12:
		return &val{T: t, I: int64(binary.LittleEndian.Uint64(b))}, nil
	case 0x10:
		return &val{T: t, I: int64(int32(binary.LittleEndian.Uint32(b)))}, nil
	case 0x08:
		return &val{T: t, Bool: b[0] != 0}, nil
	case 0x11:
		return &val{T: t, I: int64(binary.LittleEndian.Uint32(b[:4])), T2: binary.LittleEndian.Uint32(b[4:])}, nil
	case 0x03:
		d, err := parseSampleDoc(b)
		if err != nil {
			return nil, err
		}
		return &val{T: t, Doc: d}, nil
	case 0x04:
		d, err := parseSampleDoc(b)
		if err != nil {
			return nil, err
		}
		a := make([]*val, len(d))
		for i, e := range d {
			a[i] = e.V
		}
		return &val{T: t, Arr: a}, nil
	}
	return nil, fmt.Errorf("unexpected element type 0x%02x in an expected sample document", t)
}

func init() {
	commands["c03"] = func(args []string) error {
		if len(args) < 1 {
			return errors.New("usage: c03 <outdir>")
		}
		ho, err := newOut(filepath.Join(args[0], "hist.cases"))
		if err != nil {
			return err
		}
		ro, err := newOut(filepath.Join(args[0], "read.cases"))
		if err != nil {
			return err
		}
		r := newRng(envSeed() + 0xC03)
		thorough := envTier() == "thorough"
		id := 0
		nrand := 600
		if thorough {
			nrand = 20000
		}
		// 1. random schemas x value sequences x collectors; one in five with metadata set first
		for i := 0; i < nrand; i++ {
			o := schemaOpts{maxDepth: 1 + r.intn(4), maxWidth: 1 + r.intn(5), nonMetric: r.chance(2, 3), timestamps: r.chance(1, 3)}
			r.tsSeconds = r.chance(1, 4) // the encode direction is not affected by D1
			kind := compressingKinds[r.intn(len(compressingKinds))]
			n := []int{1, 2, 3, 4, 7, 10}[r.intn(6)]
			count := 1 + r.intn(3*n)
			if kind == "base" && count > n+1 {
				count = 1 + r.intn(n+1)
			}
			docs := genSameSchemaDocs(r, o, count)
			c := sameSchemaCase(kind, pickWrapper(r, kind), n, docs)
			if r.chance(1, 5) {
				meta := []elem{{"host", &val{T: 0x02, B: []byte("h")}}, {"n", &val{T: 0x10, I: int64(r.intn(100))}}}
				c.ops = append([]hop{{op: 'M', doc: meta}}, c.ops...)
				c.tag = "meta"
			}
			id++
			runAndRead(ho, ro, id, c, false)
		}
		r.tsSeconds = false
		// 2. exhaustive delta matrices with entries in {0,+1,-1}: every pattern of zero runs
		type ms struct{ m, s int }
		shapes := []ms{{1, 1}, {1, 2}, {2, 1}, {2, 2}, {1, 3}, {3, 1}, {2, 3}}
		if thorough {
			shapes = append(shapes, ms{3, 2}, ms{3, 3}, ms{2, 4})
		}
		for _, sh := range shapes {
			total := pow3(sh.m * sh.s)
			for code := 0; code < total; code++ {
				docs := deltaMatrixDocs(sh.m, sh.s, code)
				kind := compressingKinds[(code+sh.m+1)%len(compressingKinds)]
				n := sh.s
				if kind != "base" && code%2 == 1 {
					n = 1 + code%(sh.s+1)
				}
				id++
				runAndRead(ho, ro, id, sameSchemaCase(kind, "", n, docs), false)
			}
		}
		if thorough {
			for k := 0; k < 20000; k++ {
				docs := deltaMatrixDocs(3, 4, r.intn(pow3(12)))
				kind := compressingKinds[r.intn(5)]
				n := 1 + r.intn(5)
				if kind == "base" && n < 4 {
					n = 4 // the base collector holds the reference sample plus n deltas and then refuses
				}
				id++
				runAndRead(ho, ro, id, sameSchemaCase(kind, "", n, docs), false)
			}
		}
		// 3. the schema-aware collectors across schema changes (fields added, removed, renamed, reordered, regrouped, an
		//    enclosing sub-document renamed), runs of one to three samples per schema: every emitted chunk is still in
		//    the layout and the independent decoder recovers the collected samples in order
		nchg := 250
		if thorough {
			nchg = 6000
		}
		const pool = "ABCDEFHIJKLMNOPQRSTVW"
		// every ordered pair of pool schemas once, two samples each
		npair := 0
		for a := 0; a < len(pool); a++ {
			for b := 0; b < len(pool); b++ {
				if a == b {
					continue
				}
				npair++
				kind := []string{"dyn", "sdyn"}[npair%2]
				docs := [][]elem{poolDoc(r, pool[a]), poolDoc(r, pool[a]), poolDoc(r, pool[b]), poolDoc(r, pool[b])}
				id++
				runAndRead(ho, ro, id, sameSchemaCase(kind, pickWrapper(r, kind), 1+r.intn(4), docs), false)
			}
		}
		for i := 0; i < nchg; i++ {
			kind := []string{"dyn", "sdyn"}[r.intn(2)]
			var docs [][]elem
			cur := pool[r.intn(len(pool))]
			for l := 2 + r.intn(7); l > 0; l-- {
				if r.chance(1, 2) {
					cur = pool[r.intn(len(pool))]
				}
				docs = append(docs, poolDoc(r, cur))
			}
			id++
			runAndRead(ho, ro, id, sameSchemaCase(kind, pickWrapper(r, kind), 1+r.intn(4), docs), false)
		}
		if err := ho.close(); err != nil {
			return err
		}
		return ro.close()
	}

	commands["c03read"] = func(args []string) error {
		if len(args) < 2 {
			return errors.New("usage: c03read <streams-file> <out-file>")
		}
		f, err := os.Open(args[0])
		if err != nil {
			return err
		}
		defer f.Close()
		o, err := newOut(args[1])
		if err != nil {
			return err
		}
		sc := bufio.NewScanner(f)
		sc.Buffer(make([]byte, 1<<20), 1<<28)
		for sc.Scan() {
			t := strings.Fields(sc.Text())
			if len(t) < 5 || t[0] != "G" {
				continue
			}
			raw, err := hex.DecodeString(t[3])
			if err != nil {
				return fmt.Errorf("stream %s: %v", t[1], err)
			}
			expect := [][]elem{}
			for _, h := range t[5:] {
				b, err := hex.DecodeString(h)
				if err != nil {
					return fmt.Errorf("stream %s: %v", t[1], err)
				}
				d, err := parseSampleDoc(b)
				if err != nil {
					return fmt.Errorf("stream %s: %v", t[1], err)
				}
				if hexDoc(d) != h {
					return fmt.Errorf("stream %s: expected document does not survive the harness' own parser", t[1])
				}
				expect = append(expect, d)
			}
			o.printf("F %s %s\n", t[1], t[2])
			// the generated stream carries the payload in the trivial codec: give it a real zlib stream
			readAllExpect(o, t[1], denormalizeStream(raw), true, expect)
		}
		if err := sc.Err(); err != nil {
			return err
		}
		return o.close()
	}
}
