package main

// Independent BSON value trees, encoder and generators. Documents are handed to
// the library as raw BSON bytes, so nothing here depends on birch.

import (
	"encoding/binary"
	"encoding/hex"
	"math"
	"strconv"
)

type elem struct {
	K string
	V *val
}

// val mirrors the model's [value] type: T is the BSON type byte.
type val struct {
	T    byte
	I    int64  // double bits / int32 / int64 / datetime
	T2   uint32 // timestamp seconds (I holds increment)
	B    []byte // string, binary, objectid, js, symbol, decimal, regex pattern, dbpointer ns, code
	B2   []byte // regex options, dbpointer oid
	Sub  byte   // binary subtype
	Doc  []elem // document / code-with-scope scope
	Arr  []*val
	Bool bool
}

func le32(x uint32) []byte { b := make([]byte, 4); binary.LittleEndian.PutUint32(b, x); return b }
func le64(x uint64) []byte { b := make([]byte, 8); binary.LittleEndian.PutUint64(b, x); return b }

func bstring(s []byte) []byte {
	out := le32(uint32(len(s) + 1))
	out = append(out, s...)
	return append(out, 0)
}

func encElems(d []elem) []byte {
	body := []byte{}
	for _, e := range d {
		body = append(body, e.V.T)
		body = append(body, []byte(e.K)...)
		body = append(body, 0)
		body = append(body, e.V.enc()...)
	}
	out := le32(uint32(len(body) + 5))
	out = append(out, body...)
	return append(out, 0)
}

func encDoc(d []elem) []byte { return encElems(d) }

func (v *val) enc() []byte {
	switch v.T {
	case 0x01, 0x09, 0x12:
		return le64(uint64(v.I))
	case 0x02, 0x0D, 0x0E:
		return bstring(v.B)
	case 0x03:
		return encElems(v.Doc)
	case 0x04:
		d := make([]elem, len(v.Arr))
		for i, x := range v.Arr {
			d[i] = elem{strconv.Itoa(i), x}
		}
		return encElems(d)
	case 0x05:
		out := le32(uint32(len(v.B)))
		out = append(out, v.Sub)
		return append(out, v.B...)
	case 0x06, 0x0A, 0xFF, 0x7F:
		return nil
	case 0x07, 0x13:
		return v.B
	case 0x08:
		if v.Bool {
			return []byte{1}
		}
		return []byte{0}
	case 0x0B:
		out := append([]byte{}, v.B...)
		out = append(out, 0)
		out = append(out, v.B2...)
		return append(out, 0)
	case 0x0C:
		return append(bstring(v.B), v.B2...)
	case 0x0F:
		body := append(bstring(v.B), encElems(v.Doc)...)
		return append(le32(uint32(len(body)+4)), body...)
	case 0x10:
		return le32(uint32(int32(v.I)))
	case 0x11:
		return append(le32(uint32(v.I)), le32(v.T2)...)
	}
	panic("unknown type")
}

func hexDoc(d []elem) string { return hex.EncodeToString(encDoc(d)) }

func isMetricType(t byte) bool {
	switch t {
	case 0x01, 0x08, 0x09, 0x10, 0x11, 0x12:
		return true
	}
	return false
}

// ---------------------------------------------------------------- generators

var keyPool = []string{"", "a", "b", "c", "x", "y", "ts", "n", "ops", "val", "k0", "k1", "long_key_name", "_u", "A", "é", "0", "1", "17", "%d", "p%sq"}

type schemaOpts struct {
	maxDepth   int
	maxWidth   int
	nonMetric  bool // include non-metric leaf types
	timestamps bool // include BSON timestamps
	numericKey bool // allow purely numeric keys
}

var boundaryI64 = []int64{0, 1, -1, 2, math.MaxInt64, math.MinInt64, math.MaxInt64 - 1, math.MinInt64 + 1,
	1 << 31, -(1 << 31), 1<<31 - 1, 1 << 32, 1<<53 + 1, 127, 128, 16383, 16384, 1 << 62, -(1 << 62)}

var boundaryF64 = []uint64{0, 0x8000000000000000, 0x7FF0000000000000, 0xFFF0000000000000, 0x7FF8000000000001,
	0x7FF0000000000001, 0xFFF8000000000000, 0x3FF0000000000000, 0x0000000000000001, 0x7FEFFFFFFFFFFFFF, 0xFFFFFFFFFFFFFFFF}

func (r *rng) pick(n int) int { return r.intn(n) }

func (r *rng) metricLeaf(o schemaOpts) *val {
	for {
		switch r.intn(7) {
		case 0:
			return &val{T: 0x01}
		case 1:
			return &val{T: 0x08}
		case 2:
			return &val{T: 0x09}
		case 3:
			return &val{T: 0x10}
		case 4, 5:
			return &val{T: 0x12}
		case 6:
			if o.timestamps {
				return &val{T: 0x11}
			}
		}
	}
}

func (r *rng) nonMetricLeaf() *val {
	rb := func(n int) []byte {
		b := make([]byte, n)
		for i := range b {
			b[i] = byte(r.intn(256))
		}
		return b
	}
	txt := func() []byte {
		return []byte([]string{"", "s", "hello", "with.dot", "x y", "100%", "%d of %s"}[r.intn(7)])
	}
	switch r.intn(15) {
	case 0:
		return &val{T: 0x02, B: txt()}
	case 1:
		return &val{T: 0x05, Sub: byte(r.intn(6)), B: rb(r.intn(6))}
	case 2:
		return &val{T: 0x06}
	case 3:
		return &val{T: 0x07, B: rb(12)}
	case 4:
		return &val{T: 0x0A}
	case 5:
		return &val{T: 0x0B, B: []byte("a+b"), B2: []byte("i")}
	case 6:
		return &val{T: 0x0C, B: txt(), B2: rb(12)}
	case 7:
		return &val{T: 0x0D, B: txt()}
	case 8:
		return &val{T: 0x0E, B: txt()}
	case 9:
		return &val{T: 0x0F, B: txt(), Doc: []elem{{"v", &val{T: 0x10, I: 7}}}}
	case 10:
		return &val{T: 0x13, B: rb(16)}
	case 11:
		return &val{T: 0xFF}
	case 12:
		return &val{T: 0x7F}
	default:
		return &val{T: 0x02, B: txt()}
	}
}

func (r *rng) key(used map[string]bool, o schemaOpts) string {
	for tries := 0; ; tries++ {
		k := keyPool[r.intn(len(keyPool))]
		if tries > 20 {
			k = k + strconv.Itoa(tries)
		}
		if !o.numericKey {
			if _, err := strconv.Atoi(k); err == nil {
				continue
			}
		}
		if !used[k] {
			used[k] = true
			return k
		}
	}
}

// schema generates a document shape; leaf values are filled in by fill.
func (r *rng) schema(depth int, o schemaOpts) []elem {
	n := r.intn(o.maxWidth + 1)
	if depth == 0 && n == 0 && r.chance(9, 10) {
		n = 1
	}
	used := map[string]bool{}
	d := make([]elem, 0, n)
	for i := 0; i < n; i++ {
		d = append(d, elem{r.key(used, o), r.node(depth, o)})
	}
	return d
}

func (r *rng) node(depth int, o schemaOpts) *val {
	c := r.intn(10)
	switch {
	case c < 2 && depth < o.maxDepth:
		return &val{T: 0x03, Doc: r.schema(depth+1, o)}
	case c < 3 && depth < o.maxDepth:
		n := r.intn(4)
		a := make([]*val, n)
		for i := range a {
			a[i] = r.node(depth+1, o)
		}
		return &val{T: 0x04, Arr: a}
	case c < 4 && o.nonMetric:
		return r.nonMetricLeaf()
	default:
		return r.metricLeaf(o)
	}
}

type valueMode int

const (
	vmRandom   valueMode = iota
	vmSmall              // small steps from the previous value: many zero deltas
	vmBoundary           // boundary values: wrap-around deltas
	vmConstant           // identical to previous: zero runs
)

// fill returns a copy of the shape with fresh metric values; prev (same shape) seeds delta patterns.
func (r *rng) fill(shape []elem, prev []elem, mode valueMode) []elem {
	out := make([]elem, len(shape))
	for i, e := range shape {
		var p *val
		if prev != nil {
			p = prev[i].V
		}
		out[i] = elem{e.K, r.fillVal(e.V, p, mode)}
	}
	return out
}

func (r *rng) fillVal(v *val, prev *val, mode valueMode) *val {
	nv := *v
	switch v.T {
	case 0x03, 0x0F:
		if v.T == 0x03 {
			var pd []elem
			if prev != nil {
				pd = prev.Doc
			}
			nv.Doc = r.fill(v.Doc, pd, mode)
		}
	case 0x04:
		nv.Arr = make([]*val, len(v.Arr))
		for i, x := range v.Arr {
			var p *val
			if prev != nil {
				p = prev.Arr[i]
			}
			nv.Arr[i] = r.fillVal(x, p, mode)
		}
	case 0x01:
		nv.I = r.i64Value(prev, mode)
		if mode == vmBoundary || r.chance(1, 4) {
			nv.I = int64(boundaryF64[r.intn(len(boundaryF64))])
		} else if mode == vmRandom {
			nv.I = int64(math.Float64bits(float64(r.i64n(2000))/8 - 100))
		}
	case 0x08:
		nv.Bool = r.chance(1, 2)
		if (mode == vmConstant || (mode == vmSmall && r.chance(3, 4))) && prev != nil {
			nv.Bool = prev.Bool
		}
	case 0x09:
		// datetime, mostly within the range Go expresses in nanoseconds (|ms| < 2^63/10^6)
		const lim = int64(9223372036854)
		x := r.i64Value(prev, mode)
		if x > lim || x < -lim {
			x = x % lim
		}
		if r.chance(1, 12) {
			// beyond it: Go's zero time (year 1), 1600, 2300, and the first milliseconds past the nanosecond range
			x = []int64{-62135596800000, -11676096000000, 10413792000000, lim + 1, -lim - 1}[r.intn(5)]
		}
		nv.I = x
	case 0x10:
		nv.I = int64(int32(r.i64Value(prev, mode)))
	case 0x12:
		nv.I = r.i64Value(prev, mode)
	case 0x11:
		nv.I = int64(uint32(r.i64Value(prev, mode)))
		nv.T2 = 0
		if r.tsSeconds {
			nv.T2 = uint32(r.i64Value(prev, mode))
		}
		if prev != nil && mode == vmConstant {
			nv.I = prev.I
			nv.T2 = prev.T2
		}
	}
	return &nv
}

func (r *rng) i64Value(prev *val, mode valueMode) int64 {
	switch mode {
	case vmConstant:
		if prev != nil {
			return prev.I
		}
		return int64(r.intn(100))
	case vmSmall:
		if prev != nil {
			return prev.I + int64(r.intn(3)) - 1
		}
		return int64(r.intn(1000))
	case vmBoundary:
		return boundaryI64[r.intn(len(boundaryI64))]
	}
	switch r.intn(4) {
	case 0:
		return int64(r.u64())
	case 1:
		return int64(r.intn(1 << 20))
	case 2:
		return -int64(r.intn(1 << 20))
	default:
		return boundaryI64[r.intn(len(boundaryI64))]
	}
}

// countMetrics returns the number of metric values of a document (timestamps count twice)
func countMetrics(d []elem) int {
	n := 0
	for _, e := range d {
		n += countMetricsVal(e.V)
	}
	return n
}

func countMetricsVal(v *val) int {
	switch v.T {
	case 0x03:
		return countMetrics(v.Doc)
	case 0x04:
		n := 0
		for _, x := range v.Arr {
			n += countMetricsVal(x)
		}
		return n
	case 0x11:
		return 2
	}
	if isMetricType(v.T) {
		return 1
	}
	return 0
}

func hasContainer(d []elem) bool {
	for _, e := range d {
		if e.V.T == 0x03 || e.V.T == 0x04 {
			return true
		}
	}
	return false
}
