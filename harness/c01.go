package main

// C01/C02/C03(encode) case generation: same-schema document sequences through
// every compressing collector, then every reader over the produced stream.

import (
	"bytes"
	"errors"
	"fmt"
	"path/filepath"
)

var compressingKinds = []string{"base", "batch", "dyn", "stream", "sdyn"}
var wrappers = []string{"", "", "", "sync", "sample0", "syncsample0"}

// sameSchemaCase builds: Add all docs; (streaming kinds: Flush); Resolve
func sameSchemaCase(kind, wrapper string, n int, docs [][]elem) hcase {
	c := hcase{kind: kind, wrapper: wrapper, n: n}
	for _, d := range docs {
		c.ops = append(c.ops, hop{op: 'A', doc: d})
	}
	c.ops = append(c.ops, hop{op: 'I'})
	if isStreamingKind(kind) {
		c.ops = append(c.ops, hop{op: 'F'})
	}
	c.ops = append(c.ops, hop{op: 'R'})
	c.expect = docs
	return c
}

// runAndRead runs a history and then all readers over (writer log ++ final Resolve)
func runAndRead(ho, ro *out, id int, c hcase, withMeta bool) {
	runHistory(ho, id, c)
	// re-run quietly to obtain the real (compressed) bytes for the readers
	w := &logWriter{faults: append([]fault{}, c.faults...)}
	coll := wrapCollector(newCollector(c.kind, c.n, w), c.wrapper)
	var final []byte
	for _, h := range c.ops {
		switch h.op {
		case 'A':
			if h.raw != nil {
				_ = coll.Add(h.raw)
			} else {
				_ = coll.Add(encDoc(h.doc))
			}
		case 'X':
			coll.Reset()
		case 'F':
			_ = flushColl(coll, w)
		case 'M':
			_ = coll.SetMetadata(encDoc(h.doc))
		case 'R':
			if p, err := coll.Resolve(); err == nil {
				final = p
			} else {
				final = nil
			}
		}
	}
	// the inputs the collector accepted since its last Reset (expected decoding result)
	stream := []byte{}
	for _, wr := range w.writes {
		stream = append(stream, wr...)
	}
	stream = append(stream, final...)
	readAllEncoded(ro, fmt.Sprint(id), stream, withMeta, c.expect)
}

func genSameSchemaDocs(r *rng, o schemaOpts, count int) [][]elem {
	shape := r.schema(0, o)
	docs := make([][]elem, 0, count)
	var prev []elem
	mode := valueMode(r.intn(4))
	for i := 0; i < count; i++ {
		m := mode
		if r.chance(1, 5) {
			m = valueMode(r.intn(4))
		}
		d := r.fill(shape, prev, m)
		docs = append(docs, d)
		prev = d
	}
	return docs
}

// deltaMatrixDocs: m int64 metrics, s delta rows with entries from {0,+1,-1} chosen by code (base 3)
func deltaMatrixDocs(m, s int, code int) [][]elem {
	keys := []string{"a", "b", "c", "d"}
	cur := make([]int64, m)
	mk := func() []elem {
		d := make([]elem, m)
		for i := 0; i < m; i++ {
			d[i] = elem{keys[i], &val{T: 0x12, I: cur[i]}}
		}
		return d
	}
	docs := [][]elem{mk()}
	for j := 0; j < s; j++ {
		for i := 0; i < m; i++ {
			t := code % 3
			code /= 3
			cur[i] += int64(t) - 1
		}
		docs = append(docs, mk())
	}
	return docs
}

func pow3(n int) int {
	p := 1
	for i := 0; i < n; i++ {
		p *= 3
	}
	return p
}

func init() {
	commands["c01"] = func(args []string) error {
		if len(args) < 1 {
			return errors.New("usage: c01 <outdir>")
		}
		ho, err := newOut(filepath.Join(args[0], "hist.cases"))
		if err != nil {
			return err
		}
		ro, err := newOut(filepath.Join(args[0], "read.cases"))
		if err != nil {
			return err
		}
		r := newRng(envSeed())
		thorough := envTier() == "thorough"
		id := 0
		nrand := 700
		if thorough {
			nrand = 20000
		}
		// 1. random schemas x value sequences x collectors
		for i := 0; i < nrand; i++ {
			o := schemaOpts{maxDepth: 1 + r.intn(4), maxWidth: 1 + r.intn(5), nonMetric: r.chance(2, 3), timestamps: r.chance(1, 3)}
			r.tsSeconds = r.chance(1, 8)
			kind := compressingKinds[r.intn(len(compressingKinds))]
			n := []int{1, 2, 3, 4, 7, 10}[r.intn(6)]
			count := 1 + r.intn(3*n)
			if kind == "base" && count > n+1 {
				count = 1 + r.intn(n+1)
			}
			docs := genSameSchemaDocs(r, o, count)
			id++
			runAndRead(ho, ro, id, sameSchemaCase(kind, pickWrapper(r, kind), n, docs), false)
		}
		r.tsSeconds = false
		// 1b. reference documents whose size puts the two count words of the payload across a 4096-byte boundary of the
		// decompressed stream (the reader goes through a buffered reader of that size): a padding string sweeps the
		// sizes 4080..4100 and 8180..8196
		for _, base := range []int{4080, 8180} {
			for sz := base; sz <= base+18; sz++ {
				// document = 4 (length) + [0x02 "p\0" len32 text \0] + [0x12 "x\0" int64] + 1 (terminator)
				pad := sz - (4 + 1 + 2 + 4 + 1 + 1 + 2 + 8 + 1)
				var docs [][]elem
				for k := 0; k < 3; k++ {
					docs = append(docs, []elem{{"p", &val{T: 0x02, B: bytes.Repeat([]byte{'q'}, pad)}}, {"x", &val{T: 0x12, I: int64(1000 + 7*k)}}})
				}
				id++
				runAndRead(ho, ro, id, sameSchemaCase([]string{"batch", "stream"}[sz%2], "", 5, docs), false)
			}
		}
		// 1c. chunks whose delta stream ENDS in a long run of zeros (the run's count is the payload's last varint: one
		// byte up to 127 further zeros, two bytes from 128 on): a varying metric followed by a constant one over k+1
		// samples, and two varying metrics followed by thirty constant ones in chunks of ten
		for i, k := range []int{126, 127, 128, 129, 130, 255, 256, 257} {
			var docs [][]elem
			for j := 0; j <= k; j++ {
				docs = append(docs, []elem{{"a", &val{T: 0x12, I: int64(j * j)}}, {"z", &val{T: 0x12, I: 7}}})
			}
			id++
			runAndRead(ho, ro, id, sameSchemaCase([]string{"batch", "stream", "base", "dyn", "sdyn"}[i%5], "", 300, docs), false)
		}
		for _, kind := range []string{"batch", "stream"} {
			var docs [][]elem
			for j := 0; j < 20; j++ {
				d := []elem{{"a", &val{T: 0x12, I: int64(j)}}, {"b", &val{T: 0x10, I: int64(3 * j)}}}
				for c := 0; c < 30; c++ {
					d = append(d, elem{fmt.Sprintf("c%02d", c), &val{T: 0x12, I: int64(c)}})
				}
				docs = append(docs, d)
			}
			id++
			runAndRead(ho, ro, id, sameSchemaCase(kind, "", 10, docs), false)
		}
		// 2. exhaustive delta matrices with entries in {0,+1,-1}
		type ms struct{ m, s int }
		shapes := []ms{{1, 1}, {1, 2}, {2, 1}, {2, 2}, {1, 3}, {3, 1}, {2, 3}}
		if thorough {
			shapes = append(shapes, ms{3, 2}, ms{3, 3}, ms{2, 4})
		}
		for _, sh := range shapes {
			total := pow3(sh.m * sh.s)
			for code := 0; code < total; code++ {
				docs := deltaMatrixDocs(sh.m, sh.s, code)
				kind := compressingKinds[(code+sh.m)%len(compressingKinds)]
				n := sh.s
				if kind != "base" && code%2 == 0 {
					n = 1 + code%(sh.s+1)
				}
				id++
				runAndRead(ho, ro, id, sameSchemaCase(kind, "", n, docs), false)
			}
		}
		if thorough { // 3x4 sampled
			for k := 0; k < 20000; k++ {
				docs := deltaMatrixDocs(3, 4, r.intn(pow3(12)))
				id++
				kind, n := compressingKinds[r.intn(5)], 1+r.intn(5)
				if kind == "base" && n < 4 {
					n = 4 // the base collector holds n+1 samples: 5 documents need n >= 4
				}
				runAndRead(ho, ro, id, sameSchemaCase(kind, "", n, docs), false)
			}
		}
		if err := ho.close(); err != nil {
			return err
		}
		return ro.close()
	}
}

func isCompressingKind(k string) bool {
	for _, x := range compressingKinds {
		if x == k {
			return true
		}
	}
	return false
}
