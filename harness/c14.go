package main

// C14: drive the event collectors of github.com/mongodb/ftdc/events (cumulative,
// n-sampling, pass-through) over every kind of wrapped ftdc collector, decode what
// was written, and run Performance marshal/unmarshal round trips. One case per line.
//
// H <kind> <n> <under> <chunk> | <ops> | <added> | <errs> | <decerr> <decoded> | <final>
//   kind    cum | samp | pass          n = sampling rate (1 when not sampling)
//   under   base batch dyn stream sdyn  chunk = its maxSamples
//   ops     ;-separated  N:<perf> (new event, AddEvent) | A:<i> (AddEvent of the i-th
//           allocated event again) | Z (AddEvent(nil))
//   added   ;-separated <perf>: the value of each non-nil event copied right before AddEvent
//   errs    one 0/1 per op: AddEvent returned an error
//   decoded ;-separated flattened documents key=value,... read back with ftdc.ReadMetrics
//           from (writer log ++ Resolve()); decerr = 1 when the iterator reported an error
//   final   ;-separated <perf>: the value of every allocated event object at the end
//   <perf>  ts(ms),id,n,ops,size,errors,dur,total,state,workers,failed(0/1)
//
// R <sec> <nsec> <id n ops size errors dur total state workers failed> | <q0 perf> |
//   D <panic> <sec> <nsec> <10 fields> | B <hex of MarshalBSON> <panic> <sec> <nsec> <10 fields>
//   round trip of an event with Timestamp time.Unix(sec,nsec) into a struct holding q0:
//   D through MarshalDocument/UnmarshalDocument, B through MarshalBSON, birch.ReadDocument,
//   UnmarshalDocument

import (
	"bytes"
	"context"
	"encoding/hex"
	"errors"
	"fmt"
	"math"
	"strconv"
	"strings"
	"time"

	"github.com/evergreen-ci/birch"
	"github.com/evergreen-ci/birch/bsontype"
	"github.com/mongodb/ftdc"
	"github.com/mongodb/ftdc/events"
)

type c14op struct {
	kind byte // N A Z
	p    events.Performance
	idx  int
}

type c14case struct {
	kind  string
	n     int
	under string
	chunk int
	ops   []c14op
}

func c14Perf(p *events.Performance) string {
	return fmt.Sprintf("%d,%d,%d,%d,%d,%d,%d,%d,%d,%d,%d", p.Timestamp.UnixMilli(), p.ID,
		p.Counters.Number, p.Counters.Operations, p.Counters.Size, p.Counters.Errors,
		int64(p.Timers.Duration), int64(p.Timers.Total), p.Gauges.State, p.Gauges.Workers, b2i(p.Gauges.Failed))
}

func c14ParsePerf(s string) (events.Performance, error) {
	f := strings.Split(s, ",")
	if len(f) != 11 {
		return events.Performance{}, errors.New("bad perf: " + s)
	}
	v := make([]int64, 11)
	for i := range f {
		x, err := strconv.ParseInt(f[i], 10, 64)
		if err != nil {
			return events.Performance{}, err
		}
		v[i] = x
	}
	return events.Performance{
		Timestamp: time.UnixMilli(v[0]),
		ID:        v[1],
		Counters:  events.PerformanceCounters{Number: v[2], Operations: v[3], Size: v[4], Errors: v[5]},
		Timers:    events.PerformanceTimers{Duration: time.Duration(v[6]), Total: time.Duration(v[7])},
		Gauges:    events.PerformanceGauges{State: v[8], Workers: v[9], Failed: v[10] != 0},
	}, nil
}

// c14Flaky refuses chosen calls of Add (counted from 0) without forwarding them: an underlying collector that fails
// transiently. What the event collectors hand over is independent of whether a write is accepted.
type c14Flaky struct {
	ftdc.Collector
	fail  map[int]bool
	calls int
}

func (f *c14Flaky) Add(d interface{}) error {
	k := f.calls
	f.calls++
	if f.fail[k] {
		return errors.New("c14 underlying collector refuses this write")
	}
	return f.Collector.Add(d)
}

// "dyn!0,3" -> ("dyn", {0,3})
func c14SplitUnder(under string) (string, map[int]bool) {
	i := strings.IndexByte(under, '!')
	if i < 0 {
		return under, nil
	}
	m := map[int]bool{}
	for _, t := range strings.Split(under[i+1:], ",") {
		if k, err := strconv.Atoi(t); err == nil {
			m[k] = true
		}
	}
	return under[:i], m
}

func c14NewEvents(kind string, n int, fc ftdc.Collector) events.Collector {
	switch kind {
	// the remaining constructors at the parameter values where they are deterministic: an interval collector whose
	// interval is zero and a random-sampling collector at more than 100 percent write every event with its running
	// totals (the cumulative collector's behaviour); an interval collector with a very long interval writes the first
	// event only (the sampling collector's behaviour at a rate beyond any sequence length)
	case "cum@ival0":
		return events.NewIntervalCollector(fc, 0)
	case "cum@rand101":
		return events.NewRandomSamplingCollector(fc, true, 101)
	case "samp@ivalmax":
		return events.NewIntervalCollector(fc, 1000*time.Hour)
	case "cum@sync", "samp@sync", "pass@sync":
		// the locking wrapper forwards every call unchanged
		return events.NewSynchronizedCollector(c14NewEvents(strings.TrimSuffix(kind, "@sync"), n, fc))
	case "cum":
		return events.NewBasicCollector(fc)
	case "samp":
		return events.NewSamplingCollector(fc, n)
	case "pass":
		return events.NewPassthroughCollector(fc)
	}
	panic("unknown events collector kind " + kind)
}

// flattened document -> "key=value,..."
func c14Flat(d *birch.Document) string {
	parts := []string{}
	it := d.Iterator()
	for it.Next() {
		e := it.Element()
		v := e.Value()
		var s string
		switch v.Type() {
		case bsontype.DateTime:
			s = strconv.FormatInt(v.Time().UnixMilli(), 10)
		case bsontype.Int64:
			s = strconv.FormatInt(v.Int64(), 10)
		case bsontype.Int32:
			s = "i32:" + strconv.FormatInt(int64(v.Int32()), 10)
		case bsontype.Boolean:
			s = strconv.FormatBool(v.Boolean())
		default:
			s = fmt.Sprintf("type%d", int(v.Type()))
		}
		parts = append(parts, e.Key()+"="+s)
	}
	return strings.Join(parts, ",")
}

func c14Run(o *out, c c14case) {
	w := &logWriter{}
	base, failing := c14SplitUnder(c.under)
	fc := newCollector(base, c.chunk, w)
	if failing != nil {
		fc = &c14Flaky{Collector: fc, fail: failing}
	}
	ec := c14NewEvents(c.kind, c.n, fc)
	var objs []*events.Performance
	var ops, added, final []string
	var stream []byte
	taken := 0
	errs := ""
	for _, op := range c.ops {
		var in *events.Performance
		switch op.kind {
		case 'N':
			p := op.p // a fresh object
			in = &p
			objs = append(objs, in)
			ops = append(ops, "N:"+c14Perf(in))
		case 'A':
			in = objs[op.idx]
			ops = append(ops, fmt.Sprintf("A:%d", op.idx))
		case 'W':
			// the caller re-uses an object it added before: writes the next event into it and adds it again
			in = objs[op.idx]
			*in = op.p
			ops = append(ops, fmt.Sprintf("W:%d:%s", op.idx, c14Perf(in)))
		case 'Z':
			ops = append(ops, "Z")
		case 'X':
			// the caller takes what the wrapped collector holds and resets it (Resolve + Reset, the ordinary way of
			// starting the next chunk by hand): the running totals and the sampling cadence are not the chunk's
			ops = append(ops, "X")
			for ; taken < len(w.writes); taken++ {
				stream = append(stream, w.writes[taken]...)
			}
			if ec.Info().SampleCount > 0 {
				if p, err := ec.Resolve(); err == nil {
					stream = append(stream, p...)
				}
			}
			ec.Reset()
			errs += "x"
			continue
		}
		if in != nil {
			snapshot := *in
			added = append(added, c14Perf(&snapshot))
		}
		err := ec.AddEvent(in)
		errs += strconv.Itoa(b2i(err != nil))
	}
	// everything the wrapped collector produced: the writer log, then what is still buffered
	for ; taken < len(w.writes); taken++ {
		stream = append(stream, w.writes[taken]...)
	}
	if ec.Info().SampleCount > 0 {
		if p, err := ec.Resolve(); err == nil {
			stream = append(stream, p...)
		} else {
			errs += "R"
		}
	}
	ctx, cancel := context.WithTimeout(context.Background(), 20*time.Second)
	defer cancel()
	var decoded []string
	it := ftdc.ReadMetrics(ctx, bytes.NewReader(stream))
	for it.Next() {
		decoded = append(decoded, c14Flat(it.Document()))
	}
	decerr := b2i(it.Err() != nil)
	it.Close()
	for _, p := range objs {
		final = append(final, c14Perf(p))
	}
	if errs == "" {
		errs = "-"
	}
	o.printf("H %s %d %s %d | %s | %s | %s | %d %s | %s\n", c.kind, c.n, c.under, c.chunk,
		c14Join(ops), c14Join(added), errs, decerr, c14Join(decoded), c14Join(final))
}

// empty lists are written as "-"
func c14Join(l []string) string {
	if len(l) == 0 {
		return "-"
	}
	return strings.Join(l, ";")
}

// ---------------------------------------------------------------- generators

var c14Extremes = []int64{math.MaxInt64, math.MinInt64, math.MaxInt64 - 1, math.MinInt64 + 1, 1 << 62, -(1 << 62), (1 << 62) + 1, 1 << 32, -(1 << 31), -1}

func (r *rng) c14Int(extreme int) int64 {
	switch {
	case r.intn(100) < extreme:
		return c14Extremes[r.intn(len(c14Extremes))]
	case r.chance(1, 6):
		return -r.i64n(1000)
	case r.chance(1, 8):
		return int64(r.u64())
	case r.chance(1, 8):
		return 0
	}
	return r.i64n(100000)
}

func (r *rng) c14ID() int64 {
	switch r.intn(10) {
	case 0, 1, 2, 3, 4:
		return 0
	case 5:
		return -1 // the next zero id becomes 0 again
	case 6:
		return c14Extremes[r.intn(len(c14Extremes))]
	case 7:
		return -r.i64n(50)
	}
	return 1 + r.i64n(1000)
}

// timestamps between 1800 and 2200 (ftdc's epochMs goes through UnixNano, which is only
// defined for years 1678..2262); sub-millisecond digits in a third of the events
func (r *rng) c14Time() time.Time {
	ms := int64(-5364662400000) + r.i64n(12622780800000)
	switch r.intn(8) {
	case 0:
		ms = r.i64n(2000) - 1000 // around the epoch, negative included
	case 1:
		ms = 1600000000000 + r.i64n(1000000)
	}
	ns := int64(0)
	if r.chance(1, 3) {
		ns = r.i64n(1000000)
	}
	if r.chance(1, 16) {
		return time.Time{} // a Timestamp that was never set
	}
	return time.UnixMilli(ms).Add(time.Duration(ns))
}

func (r *rng) c14Event(extreme int) events.Performance {
	return events.Performance{
		Timestamp: r.c14Time(),
		ID:        r.c14ID(),
		Counters: events.PerformanceCounters{Number: r.c14Int(extreme), Operations: r.c14Int(extreme),
			Size: r.c14Int(extreme), Errors: r.c14Int(extreme)},
		Timers: events.PerformanceTimers{Duration: time.Duration(r.c14Int(extreme)), Total: time.Duration(r.c14Int(extreme))},
		Gauges: events.PerformanceGauges{State: r.c14Int(extreme / 2), Workers: r.c14Int(extreme / 2), Failed: r.chance(1, 2)},
	}
}

var c14Unders = []string{"base", "batch", "dyn", "stream", "sdyn"}
var c14Kinds = []string{"cum", "samp", "pass"}

func (r *rng) c14Case() c14case {
	c := c14case{kind: c14Kinds[r.intn(3)], n: 1, under: c14Unders[r.intn(len(c14Unders))]}
	if c.kind == "samp" {
		c.n = 1 + r.intn(5)
	}
	switch r.intn(12) {
	case 0:
		c.kind, c.n = "cum@ival0", 1
	case 1:
		c.kind, c.n = "cum@rand101", 1
	case 2:
		c.kind, c.n = "samp@ivalmax", 1<<62
	case 3, 4:
		c.kind += "@sync"
	}
	c.chunk = 1 + r.intn(6)
	if strings.HasPrefix(c.under, "base") {
		c.chunk = 1000 // the base collector refuses samples beyond its capacity
	}
	if r.chance(1, 5) {
		// an underlying collector that refuses some of the first writes (the very first one half of the time)
		ks := []string{}
		if r.chance(1, 2) {
			ks = append(ks, "0")
		}
		for k := 1; k < 6; k++ {
			if r.chance(1, 4) {
				ks = append(ks, strconv.Itoa(k))
			}
		}
		if len(ks) > 0 {
			c.under += "!" + strings.Join(ks, ",")
		}
	}
	nops := r.intn(26)
	if r.chance(1, 10) {
		nops = r.intn(3)
	}
	extreme := []int{0, 10, 40, 80}[r.intn(4)]
	again := []int{0, 10, 25, 50}[r.intn(4)]
	nils := []int{0, 0, 8, 20}[r.intn(4)]
	nobj := 0
	resets := r.chance(1, 3) && !strings.Contains(c.under, "!")
	for i := 0; i < nops; i++ {
		x := r.intn(100)
		switch {
		case x < nils:
			c.ops = append(c.ops, c14op{kind: 'Z'})
		case x >= 96 && resets:
			c.ops = append(c.ops, c14op{kind: 'X'})
		case x < nils+again && nobj > 0:
			idx := r.intn(nobj)
			if r.chance(1, 3) {
				idx = 0 // the first event: the running total of the cumulative / sampling collector
			}
			c.ops = append(c.ops, c14op{kind: 'A', idx: idx})
		default:
			c.ops = append(c.ops, c14op{kind: 'N', p: r.c14Event(extreme)})
			nobj++
		}
	}
	return c
}

// ---------------------------------------------------------------- round trips

func c14Fields(p *events.Performance) string {
	return fmt.Sprintf("%d %d %d %d %d %d %d %d %d %d %d %d", p.Timestamp.Unix(), p.Timestamp.Nanosecond(), p.ID,
		p.Counters.Number, p.Counters.Operations, p.Counters.Size, p.Counters.Errors,
		int64(p.Timers.Duration), int64(p.Timers.Total), p.Gauges.State, p.Gauges.Workers, b2i(p.Gauges.Failed))
}

func c14UnmarshalInto(q events.Performance, doc func() (*birch.Document, error)) (res events.Performance, panicked bool) {
	defer func() {
		if recover() != nil {
			panicked = true
			res = q
		}
	}()
	d, err := doc()
	if err != nil {
		return q, true
	}
	if err := (&q).UnmarshalDocument(d); err != nil {
		return q, true
	}
	return q, false
}

func c14RoundTrip(o *out, p events.Performance, q0 events.Performance) {
	qd, pd := c14UnmarshalInto(q0, func() (*birch.Document, error) { return p.MarshalDocument() })
	var raw []byte
	qb, pb := c14UnmarshalInto(q0, func() (*birch.Document, error) {
		b, err := p.MarshalBSON()
		if err != nil {
			return nil, err
		}
		raw = append([]byte{}, b...)
		return birch.ReadDocument(b)
	})
	o.printf("R %s | %s | D %d %s | B %s %d %s\n", c14Fields(&p), c14Perf(&q0), b2i(pd), c14Fields(&qd),
		hex.EncodeToString(raw), b2i(pb), c14Fields(&qb))
}

func c14ParseCase(line string) (c14case, error) {
	parts := strings.Split(line, " | ")
	hd := strings.Fields(parts[0])
	if len(parts) < 2 || len(hd) != 5 || hd[0] != "H" {
		return c14case{}, errors.New("bad H line")
	}
	c := c14case{kind: hd[1], under: hd[3]}
	c.n, _ = strconv.Atoi(hd[2])
	c.chunk, _ = strconv.Atoi(hd[4])
	if t := strings.TrimSpace(parts[1]); t == "" || t == "-" {
		return c, nil
	}
	nobj := 0
	for _, t := range strings.Split(strings.TrimSpace(parts[1]), ";") {
		switch {
		case t == "Z":
			c.ops = append(c.ops, c14op{kind: 'Z'})
		case t == "X":
			c.ops = append(c.ops, c14op{kind: 'X'})
		case strings.HasPrefix(t, "A:"):
			i, err := strconv.Atoi(t[2:])
			if err != nil || i < 0 || i >= nobj {
				return c, errors.New("bad A op " + t)
			}
			c.ops = append(c.ops, c14op{kind: 'A', idx: i})
		case strings.HasPrefix(t, "W:"):
			f := strings.SplitN(t[2:], ":", 2)
			i, err := strconv.Atoi(f[0])
			if err != nil || len(f) != 2 || i < 0 || i >= nobj {
				return c, errors.New("bad W op " + t)
			}
			p, err := c14ParsePerf(f[1])
			if err != nil {
				return c, err
			}
			c.ops = append(c.ops, c14op{kind: 'W', idx: i, p: p})
		case strings.HasPrefix(t, "N:"):
			p, err := c14ParsePerf(t[2:])
			if err != nil {
				return c, err
			}
			c.ops = append(c.ops, c14op{kind: 'N', p: p})
			nobj++
		default:
			return c, errors.New("bad op " + t)
		}
	}
	return c, nil
}

func c14ParseRound(line string) (p, q0 events.Performance, err error) {
	parts := strings.Split(line, " | ")
	f := strings.Fields(parts[0])
	if len(parts) < 2 || len(f) != 13 || f[0] != "R" {
		return p, q0, errors.New("bad R line")
	}
	v := make([]int64, 12)
	for i := range v {
		if v[i], err = strconv.ParseInt(f[i+1], 10, 64); err != nil {
			return p, q0, err
		}
	}
	p = events.Performance{
		Timestamp: time.Unix(v[0], v[1]), ID: v[2],
		Counters: events.PerformanceCounters{Number: v[3], Operations: v[4], Size: v[5], Errors: v[6]},
		Timers:   events.PerformanceTimers{Duration: time.Duration(v[7]), Total: time.Duration(v[8])},
		Gauges:   events.PerformanceGauges{State: v[9], Workers: v[10], Failed: v[11] != 0},
	}
	q0, err = c14ParsePerf(strings.TrimSpace(parts[1]))
	return p, q0, err
}

func init() {
	// c14replay <outfile> <case line...>: re-run the inputs of a stored case on the implementation
	commands["c14replay"] = func(args []string) error {
		if len(args) < 2 {
			return errors.New("usage: c14replay <outfile> <case line>")
		}
		o, err := newOut(args[0])
		if err != nil {
			return err
		}
		line := strings.Join(args[1:], " ")
		switch {
		case strings.HasPrefix(line, "H "):
			c, err := c14ParseCase(line)
			if err != nil {
				return err
			}
			c14Run(o, c)
		case strings.HasPrefix(line, "R "):
			p, q0, err := c14ParseRound(line)
			if err != nil {
				return err
			}
			c14RoundTrip(o, p, q0)
		default:
			return errors.New("unknown case line")
		}
		return o.close()
	}
	commands["c14"] = func(args []string) error {
		if len(args) < 1 {
			return errors.New("usage: c14 <outfile>")
		}
		o, err := newOut(args[0])
		if err != nil {
			return err
		}
		r := newRng(envSeed())
		thorough := envTier() == "thorough"

		// 1. a fixed grid: every events kind x every wrapped collector x two shapes that every
		//    run contains (fresh events with zero ids; the first pointer added three times)
		for _, k := range c14Kinds {
			for _, u := range c14Unders {
				for n := 1; n <= 5; n++ {
					if k != "samp" && n > 1 {
						continue
					}
					chunk := 2
					if u == "base" {
						chunk = 1000
					}
					c := c14case{kind: k, n: n, under: u, chunk: chunk}
					for i := 0; i < 7; i++ {
						p := r.c14Event(0)
						if i > 0 {
							p.ID = 0
						}
						c.ops = append(c.ops, c14op{kind: 'N', p: p})
					}
					c14Run(o, c)
					c2 := c14case{kind: k, n: n, under: u, chunk: chunk}
					c2.ops = append(c2.ops, c14op{kind: 'N', p: r.c14Event(40)}, c14op{kind: 'A', idx: 0}, c14op{kind: 'Z'},
						c14op{kind: 'N', p: r.c14Event(40)}, c14op{kind: 'A', idx: 0}, c14op{kind: 'A', idx: 1}, c14op{kind: 'A', idx: 0})
					c14Run(o, c2)
				}
			}
		}

		// 1b. one event struct re-used by the caller: written to and added again (the first object is the cumulative and
		//     sampling collectors' accumulator; a later object, and any object of the pass-through collector, is not)
		for _, k := range []string{"cum", "samp", "pass"} {
			for _, target := range []int{0, 1} {
				c := c14case{kind: k, n: 1, under: "dyn", chunk: 4}
				if k == "samp" {
					c.n = 2
				}
				c.ops = append(c.ops, c14op{kind: 'N', p: r.c14Event(0)}, c14op{kind: 'N', p: r.c14Event(0)})
				for i := 0; i < 3; i++ {
					c.ops = append(c.ops, c14op{kind: 'W', idx: target, p: r.c14Event(0)})
				}
				c14Run(o, c)
			}
		}

		// 2. random histories
		nh := 3000
		if thorough {
			nh = 60000
		}
		for i := 0; i < nh; i++ {
			c14Run(o, r.c14Case())
		}

		// 3. marshal / unmarshal round trips
		nr := 2500
		if thorough {
			nr = 50000
		}
		for i := 0; i < nr; i++ {
			p := r.c14Event([]int{0, 30, 90}[r.intn(3)])
			q0 := events.Performance{}
			if r.chance(1, 2) {
				q0 = r.c14Event(30)
				q0.Timestamp = q0.Timestamp.Truncate(time.Millisecond)
			}
			if r.chance(1, 20) {
				p = events.Performance{} // the zero value (year 1 timestamp)
			}
			c14RoundTrip(o, p, q0)
		}
		fmt.Println("c14 cases written")
		return o.close()
	}
}
