package main

// C07 / C08 / C11 / C17 history profiles.

import (
	"errors"
	"path/filepath"
	"strings"
)

// fixed schema pool; values are drawn per document
func poolDoc(r *rng, schema byte) []elem {
	// a quarter of the int64 values repeat the value drawn at the same position of the previous pool document: a
	// metric that does not move between two samples (a zero delta), also across a refused sample in between
	pos := 0
	i := func() *val {
		x := r.i64Value(nil, valueMode(r.intn(3)))
		if pos < len(r.poolPrev) {
			switch r.intn(8) {
			case 0, 1:
				x = r.poolPrev[pos]
			case 2:
				x = r.poolPrev2[pos] // the document before the previous one: unchanged across a refused sample in between
			}
			r.poolPrev2[pos] = r.poolPrev[pos]
			r.poolPrev[pos] = x
		} else {
			r.poolPrev = append(r.poolPrev, x)
			r.poolPrev2 = append(r.poolPrev2, x)
		}
		pos++
		return &val{T: 0x12, I: x}
	}
	switch schema {
	case 'A':
		return []elem{{"x", i()}, {"y", i()}}
	case 'B': // field added
		return []elem{{"x", i()}, {"y", i()}, {"z", &val{T: 0x01, I: int64(boundaryF64[r.intn(len(boundaryF64))])}}}
	case 'C': // field removed
		return []elem{{"x", i()}}
	case 'D': // renamed
		return []elem{{"x", i()}, {"w", i()}}
	case 'E': // reordered
		return []elem{{"y", i()}, {"x", i()}}
	case 'F': // nested
		return []elem{{"x", &val{T: 0x03, Doc: []elem{{"y", i()}, {"s", &val{T: 0x02, B: []byte("str")}}}}}, {"q", &val{T: 0x08, Bool: r.chance(1, 2)}}}
	case 'G': // same keys as A, type of y changed
		return []elem{{"x", i()}, {"y", &val{T: 0x10, I: int64(int32(r.i64Value(nil, vmRandom)))}}}
	case 'H': // H and I: different field names whose concatenation is equal (a|bc vs ab|c)
		return []elem{{"a", i()}, {"bc", i()}}
	case 'I':
		return []elem{{"ab", i()}, {"c", i()}}
	case 'J': // nested twin of H/I: path concatenations p.a|p.bc vs p.ab|p.c
		return []elem{{"p", &val{T: 0x03, Doc: []elem{{"ab", i()}, {"c", i()}}}}}
	case 'K':
		return []elem{{"p", &val{T: 0x03, Doc: []elem{{"a", i()}, {"bc", i()}}}}}
	case 'L': // L and M: the same leaf names in the same order, grouped differently into array entries
		return []elem{{"cpu", &val{T: 0x04, Arr: []*val{{T: 0x03, Doc: []elem{{"user", i()}}}, {T: 0x03, Doc: []elem{{"sys", i()}}}}}}}
	case 'M':
		return []elem{{"cpu", &val{T: 0x04, Arr: []*val{{T: 0x03, Doc: []elem{{"user", i()}, {"sys", i()}}}}}}}
	case 'N': // N and O: the hashed key streams coincide (.a + .b = .a.b), the metric counts differ
		return []elem{{"a", i()}, {"b", i()}}
	case 'O':
		return []elem{{"a", &val{T: 0x03, Doc: []elem{{"b", i()}}}}}
	case 'P': // P and Q: regrouped with equal metric counts; the concatenation of the key paths is .a.b.c for both
		return []elem{{"a", i()}, {"b", &val{T: 0x03, Doc: []elem{{"c", i()}}}}}
	case 'Q':
		return []elem{{"a", &val{T: 0x03, Doc: []elem{{"b", i()}}}}, {"c", i()}}
	case 'R': // R and S: the enclosing sub-document renamed, the leaf names kept
		return []elem{{"p", &val{T: 0x03, Doc: []elem{{"u", i()}, {"v", i()}}}}}
	case 'S':
		return []elem{{"q", &val{T: 0x03, Doc: []elem{{"u", i()}, {"v", i()}}}}}
	case 'T': // R with its second leaf moved out of the sub-document: the leaf names in order are the same
		return []elem{{"p", &val{T: 0x03, Doc: []elem{{"u", i()}}}}, {"v", i()}}
	case 'V': // V and W: only a boolean field renamed; C to V: only a boolean field added
		return []elem{{"x", i()}, {"q", &val{T: 0x08, Bool: r.chance(1, 2)}}}
	case 'W':
		return []elem{{"x", i()}, {"r", &val{T: 0x08, Bool: r.chance(1, 2)}}}
	case 'Z': // no metrics at all
		return []elem{{"s", &val{T: 0x02, B: []byte("only")}}}
	}
	panic("schema")
}

var metaDocs = [][]elem{
	{{"host", &val{T: 0x02, B: []byte("h1")}}, {"n", &val{T: 0x10, I: 1}}},
	{{"host", &val{T: 0x02, B: []byte("h2")}}},
	{}, // an empty metadata document is still a metadata document
}

// symbol alphabet of the exhaustive C07 histories
func c07Op(r *rng, sym byte) hop {
	switch sym {
	case 'a':
		return hop{op: 'A', doc: poolDoc(r, 'A')}
	case 'b':
		return hop{op: 'A', doc: poolDoc(r, 'B')}
	case 'd': // same metric count and types as A, one field renamed (schema-aware kinds only)
		return hop{op: 'A', doc: poolDoc(r, 'D')}
	case 'g': // same keys and metric count as A, the type of the SECOND metric differs: refused after the first metric was looked at
		return hop{op: 'A', doc: poolDoc(r, 'G')}
	case 'z': // a sample without any metric
		return hop{op: 'A', doc: poolDoc(r, 'Z')}
	case 'u':
		return hop{op: 'A', raw: []byte{0x03, 0x00, 0x00}}
	case 'v': // a birch document that cannot be encoded: refused while its elements are walked
		return hop{op: 'A', raw: []byte{0x76}, birchBad: true}
	case 'r':
		return hop{op: 'R'}
	case 'x':
		return hop{op: 'X'}
	case 'f':
		return hop{op: 'F'}
	case 'm':
		return hop{op: 'M', doc: metaDocs[r.intn(len(metaDocs))]}
	case 'i':
		return hop{op: 'I'}
	case 'n':
		return hop{op: 'N'}
	}
	panic("sym")
}

func enumerate(alphabet string, maxLen int, f func(string)) {
	var rec func(prefix string)
	rec = func(prefix string) {
		if len(prefix) > 0 {
			f(prefix)
		}
		if len(prefix) == maxLen {
			return
		}
		for i := 0; i < len(alphabet); i++ {
			rec(prefix + string(alphabet[i]))
		}
	}
	rec("")
}

func init() {
	commands["c07"] = func(args []string) error {
		if len(args) < 1 {
			return errors.New("usage: c07 <outdir>")
		}
		ho, err := newOut(filepath.Join(args[0], "hist.cases"))
		if err != nil {
			return err
		}
		r := newRng(envSeed())
		thorough := envTier() == "thorough"
		id := 0
		maxLen := 3
		ns := []int{1, 2}
		if thorough {
			maxLen = 5
			ns = []int{1, 2, 3}
		}
		// 1. exhaustive short histories over 8 operation symbols
		for _, kind := range compressingKinds {
			for _, n := range ns {
				alphabet := "abgurxfmi"
				if kind == "dyn" || kind == "sdyn" {
					alphabet = "abdgurxfmi" // a renamed field must start a new chunk
				}
				enumerate(alphabet, maxLen, func(h string) {
					if thorough && len(h) == 5 && !r.chance(1, 6) {
						return
					}
					c := hcase{kind: kind, n: n, probe: true}
					if len(h)%3 == 0 {
						c.wrapper = pickWrapper(r, kind)
					}
					for i := 0; i < len(h); i++ {
						c.ops = append(c.ops, c07Op(r, h[i]))
					}
					id++
					runHistory(ho, id, c)
				})
			}
		}
		// 1b. samples without metrics mixed with ordinary ones: every history up to length 4 over {a, z, f, r}
		for _, kind := range compressingKinds {
			for _, n := range ns {
				enumerate("azfr", 4, func(h string) {
					if !strings.Contains(h, "z") || (!thorough && len(h) == 4 && !r.chance(1, 3)) {
						return
					}
					c := hcase{kind: kind, n: n, probe: true}
					c.wrapper = pickWrapper(r, kind)
					for i := 0; i < len(h); i++ {
						c.ops = append(c.ops, c07Op(r, h[i]))
					}
					id++
					runHistory(ho, id, c)
				})
			}
		}
		// 1c. a document refused only while its elements are walked (as the very first sample, after a Reset, behind
		//     accepted ones): every history up to length 3 (thorough 4) over {a, v, r, x, f} that holds one
		for _, kind := range compressingKinds {
			for _, n := range ns {
				l := 3
				if thorough {
					l = 4
				}
				enumerate("avrxf", l, func(h string) {
					// (not the streaming dynamic collector: it takes the document for a schema change and flushes its open
					// chunk before the refusal, which the model's refusal of unreadable bytes does not describe)
					if !strings.Contains(h, "v") || kind == "sdyn" {
						return
					}
					c := hcase{kind: kind, n: n, probe: true}
					for i := 0; i < len(h); i++ {
						c.ops = append(c.ops, c07Op(r, h[i]))
					}
					id++
					runHistory(ho, id, c)
				})
			}
		}
		// 1d. known finding C07-same-types-other-keys: the collectors that are not schema-aware compare metric count and
		//     types only, so a document with one field renamed is stored in the open chunk and decodes under the chunk's
		//     key names. Three fixed histories (tag "renamed"): the driver reports them as the known finding when they
		//     fail the oracle in that way
		for _, kind := range []string{"base", "batch", "stream"} {
			c := hcase{kind: kind, n: 3, probe: true, tag: "renamed"}
			for _, sym := range "adaf" {
				c.ops = append(c.ops, c07Op(r, byte(sym)))
			}
			id++
			runHistory(ho, id, c)
		}
		// 2. random long histories (adds dominate; N up to 5)
		nrand := 300
		if thorough {
			nrand = 6000
		}
		for k := 0; k < nrand; k++ {
			c := hcase{kind: compressingKinds[r.intn(5)], n: 1 + r.intn(5), probe: true}
			if r.chance(1, 6) {
				// the property speaks of any collector: the uncompressed ones take part in the long histories, too
				c.kind = kindNames[5+r.intn(len(kindNames)-5)]
			}
			c.wrapper = pickWrapper(r, c.kind)
			if r.chance(1, 12) {
				c.wrapper = []string{"sample1h", "syncsample1h"}[r.intn(2)]
			}
			l := 5 + r.intn(40)
			for i := 0; i < l; i++ {
				sym := "aaaaaaabbburxfmignz"[r.intn(19)]
				if (c.kind == "dyn" || c.kind == "sdyn") && r.chance(1, 6) {
					sym = 'd'
				}
				c.ops = append(c.ops, c07Op(r, sym))
			}
			// one history in three meets a writer that refuses some of its calls outright (nothing consumed): what
			// was accepted must then still be in the collector, and a later flush delivers it exactly once
			if isStreamingKind(c.kind) && r.chance(1, 3) {
				for j := 0; j < 8; j++ {
					if r.chance(1, 3) {
						c.faults = append(c.faults, fault{kind: fError})
					} else {
						c.faults = append(c.faults, fault{kind: fNone})
					}
				}
			}
			id++
			runHistory(ho, id, c)
		}
		return ho.close()
	}

	commands["c08"] = func(args []string) error {
		if len(args) < 1 {
			return errors.New("usage: c08 <outdir>")
		}
		ho, err := newOut(filepath.Join(args[0], "hist.cases"))
		if err != nil {
			return err
		}
		r := newRng(envSeed())
		thorough := envTier() == "thorough"
		id := 0
		maxLen := 4
		if thorough {
			maxLen = 6
		}
		mk := func(kind string, n int, seq string) hcase {
			c := hcase{kind: kind, n: n, probe: true}
			if kind == "sdyn" && r.chance(1, 3) {
				c.wrapper = "wcoll" // the io.WriteCloser entry point
			}
			for i := 0; i < len(seq); i++ {
				c.ops = append(c.ops, hop{op: 'A', doc: poolDoc(r, seq[i])})
			}
			c.ops = append(c.ops, hop{op: 'F'})
			return c
		}
		// 1. schema-aware collectors: exhaustive sequences over a pool without type-only changes
		for _, kind := range []string{"dyn", "sdyn"} {
			for _, n := range []int{1, 2, 3} {
				enumerate("ABCDEF", maxLen, func(seq string) {
					if len(seq) >= 5 && !r.chance(1, 8) {
						return
					}
					if !thorough && len(seq) == 4 && !r.chance(1, 5) {
						return
					}
					id++
					c := mk(kind, n, seq)
					c.tag = "acceptall"
					runHistory(ho, id, c)
				})
			}
		}
		// 1b. renames that keep the concatenation of the key names (separator-sensitive hashing)
		for _, kind := range []string{"dyn", "sdyn"} {
			for _, n := range []int{1, 2, 3} {
				enumerate("HIJKLMNOPQRSTVWC", 3, func(seq string) {
					if !thorough && len(seq) == 3 && !r.chance(1, 16) {
						return
					}
					id++
					c := mk(kind, n, seq)
					c.tag = "acceptall"
					runHistory(ho, id, c)
				})
			}
		}
		// 2. all kinds incl. the fixed-schema ones and type-only changes: no mixing, refusal or faithful storage
		for _, kind := range compressingKinds {
			for _, n := range []int{1, 2, 3} {
				enumerate("ABGZ", 4, func(seq string) {
					if !r.chance(1, 3) {
						return
					}
					id++
					runHistory(ho, id, mk(kind, n, seq))
				})
			}
		}
		// 3. random longer sequences
		nrand := 200
		if thorough {
			nrand = 8000
		}
		for k := 0; k < nrand; k++ {
			l := 3 + r.intn(25)
			seq := make([]byte, l)
			cur := "ABCDEF"[r.intn(6)]
			for i := range seq {
				if r.chance(1, 3) {
					cur = "ABCDEF"[r.intn(6)]
				}
				seq[i] = cur
			}
			id++
			c := mk([]string{"dyn", "sdyn"}[r.intn(2)], 1+r.intn(4), string(seq))
			c.tag = "acceptall"
			runHistory(ho, id, c)
		}
		return ho.close()
	}
}
