package main

// C09: streamed output is crash-consistent and survives writer faults.
//
//  c09 <outdir> writes
//   prefix.cases  (a) fault-free histories through the streaming collectors; EVERY byte prefix of the
//                     concatenated writer log is read with ReadChunks (one "S" block per prefix; near
//                     document boundaries with every reader entry point)
//   logs.txt          one "LOG <id> <kind> <n> <normalised log> <raw document lengths>" line per history of (a)
//   hist.cases    (b) histories on a writer with a fault schedule: every placement of one or two faults
//                     (error without consuming bytes, short counts) among the first K Write calls, the
//                     writer contents after every call, recovery, a final flush, and the final log read
//                     back with the real reader ("FINAL" line); plus fault-free pure Add sequences
//                     (durability) and the D18 witness.

import (
	"bytes"
	"context"
	"encoding/hex"
	"errors"
	"fmt"
	"io"
	"path/filepath"
	"strings"
	"time"

	"github.com/mongodb/ftdc"
)

// ---------------------------------------------------------------- a history runner with call counts and a final read

type c09case struct {
	kind   string // stream, sdyn, wcoll (NewWriterCollector; model kind sdyn)
	n      int
	ops    []hop
	faults []fault
	tag    string
	retry  bool // an Add that fails because its flush failed is issued again, once, with the same document
}

func faultString(fs []fault) string {
	out := []string{}
	for _, f := range fs {
		switch f.kind {
		case fNone:
			out = append(out, "n")
		case fError:
			out = append(out, "e")
		case fShort:
			out = append(out, fmt.Sprintf("s%d", f.n))
		}
	}
	return strings.Join(out, ",")
}

// runC09 runs one history; returns the writer (its log) for further reading
func runC09(o *out, id int, c c09case) *logWriter {
	// the writer collector's histories end with their Close calls: the writer behind it honours Close (a Close that
	// failed in its flush must leave the writer open for the next attempt)
	w := &logWriter{faults: append([]fault{}, c.faults...), strict: c.kind == "wcoll"}
	modelKind := c.kind
	var coll ftdc.Collector
	var wc io.WriteCloser
	if c.kind == "wcoll" {
		modelKind = "sdyn"
		wc = ftdc.NewWriterCollector(c.n, w)
	} else {
		coll = newCollector(c.kind, c.n, w)
	}
	wrapper := ""
	if c.kind == "wcoll" {
		wrapper = "wcoll"
	}
	o.printf("CASE %d %s %d %s %s %s\n", id, modelKind, c.n, wrapper+"-", faultString(c.faults)+"-", c.tag+"-")
	wlog := func() {
		parts := []string{}
		for _, wr := range w.writes {
			parts = append(parts, renderSmart(modelKind, wr))
		}
		o.printf("W => %d %s\n", w.calls, strings.Join(parts, " "))
	}
	probe := func() {
		if coll != nil {
			p, err := coll.Resolve()
			if err != nil {
				o.printf("r => none\n")
			} else {
				o.printf("r => %s\n", renderSmart(modelKind, p))
			}
			info := coll.Info()
			o.printf("i => %d %d\n", info.MetricsCount, info.SampleCount)
		}
		wlog()
	}
	for _, h := range c.ops {
		switch h.op {
		case 'A':
			var err error
			if wc != nil {
				_, err = wc.Write(encDoc(h.doc))
			} else {
				err = coll.Add(encDoc(h.doc))
			}
			o.printf("A %s => %s\n", hexDoc(h.doc), addClass(err))
			if c.retry && addClass(err) == "flush" {
				// what a caller does with a transient writer error: the same sample again
				probe()
				if wc != nil {
					_, err = wc.Write(encDoc(h.doc))
				} else {
					err = coll.Add(encDoc(h.doc))
				}
				o.printf("A %s => %s\n", hexDoc(h.doc), addClass(err))
			}
		case 'F':
			var err error
			if wc != nil {
				err = wc.Close()
			} else {
				err = ftdc.FlushCollector(coll, w)
			}
			if err != nil {
				o.printf("F => err\n")
			} else {
				o.printf("F => ok\n")
			}
		case 'M':
			if coll != nil {
				err := coll.SetMetadata(encDoc(h.doc))
				if err != nil {
					o.printf("M %s => err\n", hexDoc(h.doc))
				} else {
					o.printf("M %s => ok\n", hexDoc(h.doc))
				}
			}
		}
		probe()
	}
	// the final log read back with the library's reader
	all := []byte{}
	for _, wr := range w.writes {
		all = append(all, wr...)
	}
	ctx, cancel := context.WithTimeout(context.Background(), 20*time.Second)
	docs, _, err := drainIter(ftdc.ReadStructuredMetrics(ctx, bytes.NewReader(all)), false)
	cancel()
	o.printf("FINAL => %d %d %s\n", errFlag(err), len(docs), strings.Join(docs, " "))
	o.printf("END\n")
	return w
}

// ---------------------------------------------------------------- (a) every byte prefix

func readChunksOnly(o *out, id string, stream []byte) {
	ctx, cancel := context.WithTimeout(context.Background(), 20*time.Second)
	defer cancel()
	o.printf("S %s %s\n", id, hex.EncodeToString(normalizeStream(stream)))
	it := ftdc.ReadChunks(ctx, bytes.NewReader(stream))
	var lines []string
	n := 0
	for it.Next() {
		c := it.Chunk()
		n++
		var sb strings.Builder
		fmt.Fprintf(&sb, "C %d %d %s", c.Size(), len(c.Metrics), docHex(c.GetMetadata()))
		for _, m := range c.Metrics {
			vs := make([]string, len(m.Values))
			for i, v := range m.Values {
				vs[i] = fmt.Sprint(v)
			}
			fmt.Fprintf(&sb, " K:%s:%s", hex.EncodeToString([]byte(m.Key())), strings.Join(vs, ","))
		}
		lines = append(lines, sb.String())
	}
	err := it.Err()
	it.Close()
	o.printf("RC => %d %d\n", errFlag(err), n)
	for _, l := range lines {
		o.printf("%s\n", l)
	}
}

func c09Prefixes(po, lo *out, hid string, kind string, n int, log []byte, every bool, r *rng) int {
	docs, rest := walkDocs(log)
	lens := []string{}
	bounds := map[int]bool{0: true}
	off := 0
	for _, d := range docs {
		lens = append(lens, fmt.Sprint(len(d)))
		off += len(d)
		bounds[off] = true
	}
	if len(rest) != 0 {
		lens = append(lens, fmt.Sprintf("REST%d", len(rest)))
	}
	lo.printf("LOG %s %s %d %s %s\n", hid, kind, n, hex.EncodeToString(normalizeEncoded(log)), strings.Join(lens, ",")+",")
	count := 0
	for k := 0; k <= len(log); k++ {
		near := false
		for _, d := range []int{-1, 0, 1, 3, 4, 5} {
			if bounds[k-d] {
				near = true
			}
		}
		if !every && !near && !r.chance(1, 6) {
			continue
		}
		id := fmt.Sprintf("%s.p%d", hid, k)
		if near {
			// every reader entry point
			readAll(po, id, log[:k], false)
			// readAll ends the block itself; the crash point follows as its own line
			po.printf("K %s => %d\n", id, k)
		} else {
			readChunksOnly(po, id, log[:k])
			po.printf("ENDS\n")
			po.printf("K %s => %d\n", id, k)
		}
		po.printf("ENDK\n")
		count++
	}
	return count
}

// ---------------------------------------------------------------- document pools

func c09Doc(schema byte, x int64) []elem {
	i := func(v int64) *val { return &val{T: 0x12, I: v} }
	switch schema {
	case 'A':
		return []elem{{"x", i(x)}}
	case 'B':
		return []elem{{"x", i(x)}, {"y", i(7)}}
	case 'Z': // no metric at all: such samples are accepted, flushed and read back like any others
		return []elem{{"s", &val{T: 0x02, B: []byte(fmt.Sprintf("only text %d", x%3))}}}
	case 'E': // the empty document: five bytes, the shortest document there is
		return []elem{}
	case 'W': // wide: 80 int64 metrics, so that a chunk of 100 samples is well beyond 32 KiB
		d := []elem{}
		for k := int64(0); k < 80; k++ {
			// splitmix64 of (x, k): incompressible deltas, or zlib would shrink the chunk to a few hundred bytes
			v := uint64(x*80+k) + 0x9E3779B97F4A7C15
			v = (v ^ (v >> 30)) * 0xBF58476D1CE4E5B9
			v = (v ^ (v >> 27)) * 0x94D049BB133111EB
			v ^= v >> 31
			d = append(d, elem{fmt.Sprintf("m%02d", k), i(int64(v >> 1))})
		}
		return d
	case 'C': // nested, a non-metric leaf, a datetime (gives the chunk its _id)
		return []elem{{"t", &val{T: 0x09, I: 1600000000000 + x}}, {"d", &val{T: 0x03, Doc: []elem{{"q", &val{T: 0x08, Bool: x%2 == 0}}, {"s", &val{T: 0x02, B: []byte("s")}}, {"e", &val{T: 0x02, B: []byte{}}}}}}}
	}
	panic("schema")
}

func init() {
	commands["c09"] = func(args []string) error {
		if len(args) < 1 {
			return errors.New("usage: c09 <outdir>")
		}
		r := newRng(envSeed())
		thorough := envTier() == "thorough"
		po, err := newOut(filepath.Join(args[0], "prefix.cases"))
		if err != nil {
			return err
		}
		lo, err := newOut(filepath.Join(args[0], "logs.txt"))
		if err != nil {
			return err
		}
		ho, err := newOut(filepath.Join(args[0], "hist.cases"))
		if err != nil {
			return err
		}
		scratch, err := newOut(filepath.Join(args[0], "prefix.hist.cases"))
		if err != nil {
			return err
		}
		id := 0
		kinds := []string{"stream", "sdyn", "wcoll"}

		// ---- (a) crash points
		nprefix, nlogs := 0, 0
		type shape struct {
			schemas string
			meta    bool
		}
		shapes := []shape{{"AAAAA", false}, {"AABBA", true}}
		if thorough {
			shapes = []shape{{"AAAAA", false}, {"AABBA", true}, {"CCCCCCC", true}, {"ABABAB", false}}
		}
		for _, kind := range kinds {
			for _, n := range []int{1, 2, 3} {
				for si, sh := range shapes {
					schemas := sh.schemas
					if n == 1 && len(schemas) > 4 {
						schemas = schemas[:4]
					}
					c := c09case{kind: kind, n: n, tag: "prefix"}
					if sh.meta && kind != "wcoll" {
						c.ops = append(c.ops, hop{op: 'M', doc: metaDocs[si%2]})
					}
					for i := 0; i < len(schemas); i++ {
						s := schemas[i]
						if kind == "stream" && s == 'B' {
							s = 'A'
						}
						c.ops = append(c.ops, hop{op: 'A', doc: c09Doc(s, int64(10*i)+r.i64n(5))})
					}
					c.ops = append(c.ops, hop{op: 'F'})
					id++
					w := runC09(scratch, id, c)
					log := []byte{}
					for _, wr := range w.writes {
						log = append(log, wr...)
					}
					nlogs++
					nprefix += c09Prefixes(po, lo, fmt.Sprintf("h%d", id), kind, n, log, true, r)
				}
			}
		}
		// one longer history with metadata and a schema change, exhaustive as well (<= 6 chunks)
		{
			c := c09case{kind: "sdyn", n: 2, tag: "prefix"}
			c.ops = append(c.ops, hop{op: 'M', doc: metaDocs[0]})
			for i, s := range "AABBBCC" {
				c.ops = append(c.ops, hop{op: 'A', doc: c09Doc(byte(s), int64(i))})
			}
			c.ops = append(c.ops, hop{op: 'F'})
			id++
			w := runC09(scratch, id, c)
			log := []byte{}
			for _, wr := range w.writes {
				log = append(log, wr...)
			}
			nlogs++
			nprefix += c09Prefixes(po, lo, fmt.Sprintf("h%d", id), "sdyn", 2, log, true, r)
		}

		// ---- (b) fault schedules
		K := 8
		if thorough {
			K = 12
		}
		singles := []fault{{kind: fError}, {kind: fShort, n: 0}, {kind: fShort, n: 0, quiet: true}, {kind: fShort, n: 1}, {kind: fShort, n: 7}, {kind: fShort, n: 9999}}
		pairTypes := []fault{{kind: fError}, {kind: fShort, n: 7}, {kind: fShort, n: 9999}}
		nfault := 0
		for _, kind := range kinds {
			for _, n := range []int{1, 2, 3} {
				// enough Adds for more than K writes, an explicit flush in the middle, a schema change for the
				// schema-aware kinds, a final flush after the schedule is exhausted
				mk := func(fs []fault, tag string) c09case {
					c := c09case{kind: kind, n: n, faults: fs, tag: tag}
					total := (K+1)*n + 2
					for i := 0; i < total; i++ {
						s := byte('A')
						if kind != "stream" && i >= total/2 && i < total/2+n+1 {
							s = 'B'
						}
						c.ops = append(c.ops, hop{op: 'A', doc: c09Doc(s, int64(i))})
						if kind == "stream" && i == total/2 {
							// a document of another schema: refused by the wrapped collector, must not count as a sample
							c.ops = append(c.ops, hop{op: 'A', doc: c09Doc('B', int64(i))})
						}
						if i == total/3 && kind != "wcoll" {
							c.ops = append(c.ops, hop{op: 'F'})
						}
					}
					c.ops = append(c.ops, hop{op: 'F'})
					return c
				}
				sched := func(pos []int, fs []fault) []fault {
					out := make([]fault, pos[len(pos)-1]+1)
					for i, p := range pos {
						out[p] = fs[i]
					}
					return out
				}
				for i := 0; i < K; i++ {
					for _, f := range singles {
						id++
						nfault++
						runC09(ho, id, mk(sched([]int{i}, []fault{f}), "fault"))
						if f.kind == fError || f.n == 0 {
							// the same schedule with a caller that retries the refused sample (nothing was consumed)
							c := mk(sched([]int{i}, []fault{f}), "fault")
							c.retry = true
							id++
							nfault++
							runC09(ho, id, c)
						}
					}
				}
				if kind == "wcoll" {
					// Close itself meets the failing writer and is called again: m samples, the fault at write p
					for m := 1; m <= 2*n+1; m++ {
						for p := 0; p <= m/n+1; p++ {
							for _, f := range []fault{{kind: fError}, {kind: fShort, n: 0}, {kind: fShort, n: 0, quiet: true}} {
								c := c09case{kind: kind, n: n, faults: sched([]int{p}, []fault{f}), tag: "fault"}
								for i := 0; i < m; i++ {
									c.ops = append(c.ops, hop{op: 'A', doc: c09Doc('A', int64(i))})
								}
								c.ops = append(c.ops, hop{op: 'F'}, hop{op: 'F'})
								id++
								nfault++
								runC09(ho, id, c)
							}
						}
					}
				}
				for i := 0; i < K; i++ {
					for j := i + 1; j < K; j++ {
						for a, f1 := range pairTypes {
							for b, f2 := range pairTypes {
								// quick tier: all placements, the fault-type pairs reduced: (e,e) (e,s7) (s7,e) (s7,s7) (s9999,e)
								// for N in {1,2}; (e,e) (s7,e) for N = 3 and for the writer collector
								if !thorough {
									small := (a == 0 && b == 0) || (a == 1 && b == 0)
									mid := small || (a == 0 && b == 1) || (a == 1 && b == 1) || (a == 2 && b == 0)
									if (n == 3 || kind == "wcoll") && !small {
										continue
									}
									if !mid {
										continue
									}
								}
								id++
								nfault++
								runC09(ho, id, mk(sched([]int{i, j}, []fault{f1, f2}), "fault"))
							}
						}
					}
				}
				// durability: fault-free pure Add sequences of one schema
				{
					c := c09case{kind: kind, n: n, tag: "durable"}
					for i := 0; i < 4*n+3; i++ {
						c.ops = append(c.ops, hop{op: 'A', doc: c09Doc('A', int64(i)*3)})
					}
					id++
					runC09(ho, id, c)
				}
			}
		}
		// samples without any metric, through every streaming entry point, fault-free and with one refused write
		for _, kind := range kinds {
			for _, n := range []int{1, 2, 3} {
				for _, fs := range [][]fault{nil, {{kind: fNone}, {kind: fError}}} {
					c := c09case{kind: kind, n: n, faults: fs, tag: "fault", retry: true}
					for i := 0; i < 2*n+2; i++ {
						c.ops = append(c.ops, hop{op: 'A', doc: c09Doc('Z', int64(i))})
					}
					if len(fs) == 0 {
						// ... and empty documents among them
						for i := 0; i < n+1; i++ {
							c.ops = append(c.ops, hop{op: 'A', doc: c09Doc('E', 0)})
						}
					}
					if kind != "stream" {
						c.ops = append(c.ops, hop{op: 'A', doc: c09Doc('A', 1)}, hop{op: 'A', doc: c09Doc('A', 2)})
					}
					c.ops = append(c.ops, hop{op: 'F'})
					id++
					nfault++
					runC09(ho, id, c)
				}
			}
		}
		// chunks far larger than any internal block size: one flush is one Write, also when a write is refused
		for _, kind := range []string{"stream", "wcoll"} {
			for _, pos := range []int{-1, 0, 1} {
				if !thorough && kind == "stream" {
					continue // the observations after every operation (a Resolve of the open chunk) dominate the cost
				}
				c := c09case{kind: kind, n: 55, tag: "fault", retry: true}
				if pos >= 0 {
					c.faults = make([]fault, pos+1)
					c.faults[pos] = fault{kind: fError}
				}
				for i := 0; i < 62; i++ {
					c.ops = append(c.ops, hop{op: 'A', doc: c09Doc('W', int64(i))})
				}
				c.ops = append(c.ops, hop{op: 'F'})
				id++
				nfault++
				runC09(ho, id, c)
			}
		}
		// the D18 witness: the first Write consumes three bytes and fails, the retry and the flush succeed
		{
			c := c09case{kind: "stream", n: 1, faults: []fault{{kind: fShort, n: 3}}, tag: "d18witness"}
			c.ops = []hop{{op: 'A', doc: c09Doc('A', 1)}, {op: 'A', doc: c09Doc('A', 2)}, {op: 'A', doc: c09Doc('A', 2)}, {op: 'F'}}
			id++
			runC09(ho, id, c)
		}
		for _, o := range []*out{po, lo, ho, scratch} {
			if err := o.close(); err != nil {
				return err
			}
		}
		fmt.Printf("c09 logs=%d prefixes=%d fault_histories=%d K=%d\n", nlogs, nprefix, nfault, K)
		return nil
	}
}
