package main

// C06: Close or cancellation stops every reader goroutine. For every reader entry point, stream
// shape, cancel point k and way of cancelling: read k items, cancel, wait until no goroutine
// started by the library is left (or 2 s), then count the items Next still delivers (each
// phase under a watchdog). Also: cancellation arriving while a goroutine is held right before
// one of its blocking sends. One line per run; ocaml/c06_run.ml evaluates model and oracle.

import (
	"bytes"
	"context"
	"errors"
	"fmt"
	"runtime"
	"strings"
	"sync"
	"sync/atomic"
	"time"

	"github.com/mongodb/ftdc"
)

var c06Entries = []string{"chunks", "metrics", "structured", "matrix", "series", "sample", "ssample"}
var c06Modes = []string{"close", "cancel", "both", "close2"}

func c06Total(entry string, nchunks, nsamples int) int {
	switch entry {
	case "chunks", "matrix", "series":
		return nchunks
	case "metrics", "structured":
		return nchunks * nsamples
	}
	return nsamples
}

// endlessReader delivers a stream and then, without end, documents of a type the reader skips (a live source that
// keeps producing "other" documents): only Close or cancellation ends such a read
type endlessReader struct {
	head  []byte
	other []byte
	buf   []byte
}

func (e *endlessReader) Read(p []byte) (int, error) {
	if len(e.buf) == 0 {
		if e.head != nil {
			e.buf, e.head = e.head, nil
		} else {
			e.buf = e.other
		}
	}
	n := copy(p, e.buf)
	e.buf = e.buf[n:]
	return n, nil
}

var c06Endless = false

// liveReader delivers a stream and then blocks, like a pipe or a socket whose writer is silent, until the consumer
// closes the source; the pending Read then fails
type liveReader struct {
	data   []byte
	closed chan struct{}
	once   sync.Once
}

func (l *liveReader) Read(p []byte) (int, error) {
	if len(l.data) > 0 {
		n := copy(p, l.data)
		l.data = l.data[n:]
		return n, nil
	}
	<-l.closed
	return 0, errors.New("read on a closed source")
}

func (l *liveReader) close() { l.once.Do(func() { close(l.closed) }) }

// set for the runs over a live source; c06Open leaves the source it made in c06LiveSrc
var c06Live = false
var c06LiveSrc *liveReader

// c06Open returns the iterator under test and the cancel function of its construction context.
// For the per-chunk iterators the chunk reader is closed and gone before the baseline is taken.
func c06Open(entry string, stream []byte) (srIter, context.CancelFunc, error) {
	ctx, cancel := context.WithCancel(context.Background())
	if entry != "sample" && entry != "ssample" {
		if c06Endless {
			other := encDoc([]elem{{"_id", &val{T: 0x09, I: 1}}, {"type", &val{T: 0x10, I: 2}}, {"doc", &val{T: 0x03, Doc: []elem{}}}})
			return srOpen(entry, ctx, &endlessReader{head: append([]byte{}, stream...), other: other}), cancel, nil
		}
		if c06Live {
			c06LiveSrc = &liveReader{data: append([]byte{}, stream...), closed: make(chan struct{})}
			return srOpen(entry, ctx, c06LiveSrc), cancel, nil
		}
		return srOpen(entry, ctx, bytes.NewReader(stream)), cancel, nil
	}
	cctx, ccancel := context.WithCancel(context.Background())
	ci := ftdc.ReadChunks(cctx, bytes.NewReader(stream))
	if !ci.Next() {
		ccancel()
		cancel()
		return nil, nil, errors.New("no chunk")
	}
	ch := ci.Chunk()
	ci.Close()
	ccancel()
	srQuiesce(2 * time.Second)
	if entry == "sample" {
		return ch.Iterator(ctx), cancel, nil
	}
	return ch.StructuredIterator(ctx), cancel, nil
}

// c06Read calls Next up to k times (k < 0: until it returns false) under a watchdog
func c06Read(it srIter, k int, wd time.Duration) (n int, hung bool) {
	if k == 0 {
		return 0, false
	}
	var mu sync.Mutex
	cnt := 0
	done := make(chan struct{})
	go func() {
		defer close(done)
		for k < 0 || cnt < k {
			if !it.Next() {
				return
			}
			mu.Lock()
			cnt++
			mu.Unlock()
		}
	}()
	select {
	case <-done:
		return cnt, false
	case <-time.After(wd):
		mu.Lock()
		defer mu.Unlock()
		return cnt, true
	}
}

type c06Obs struct {
	read, leaked, further int
	watchdog              bool
	us                    int64
	reached               bool
}

func c06Run(entry string, stream []byte, k int, mode string, label string, occ int, perturb *rng) (c06Obs, error) {
	var o c06Obs
	srQuiesce(100 * time.Millisecond)
	base, _ := ftdcGoroutines()
	s := newSched(label, occ)
	if perturb != nil {
		var mu sync.Mutex
		srInstallHook(func(l string) {
			s.hook(l)
			mu.Lock()
			x := perturb.intn(16)
			mu.Unlock()
			if x < 3 {
				runtime.Gosched()
			} else if x == 3 {
				time.Sleep(30 * time.Microsecond)
			}
		})
	}
	// mode suffix "^": after the stop the producers are slowed down at their send points and the consumer drains at
	// once, before anything else is waited for: a producer that looks at its context only when its buffer is full
	// would now deliver everything that is left
	drainFirst := false
	var slow atomic.Bool
	if len(mode) > 1 && mode[len(mode)-1] == '^' {
		mode = mode[:len(mode)-1]
		drainFirst = true
		srInstallHook(func(l string) {
			s.hook(l)
			if slow.Load() && (l == "ss.send" || l == "cw.send" || l == "mw.send") {
				time.Sleep(40 * time.Microsecond)
			}
		})
	}
	defer uninstallSched()
	it, cancel, err := c06Open(entry, stream)
	if err != nil {
		return o, err
	}
	wd := 2*time.Second + time.Duration(k)*200*time.Microsecond
	var hung bool
	o.read, hung = c06Read(it, k, wd)
	if hung {
		o.watchdog = true
	}
	if label != "" {
		// a goroutine is (or gets) held right before its send; the k items read do not depend on that send
		o.reached = s.waitStalled(30 * time.Millisecond)
	}
	if len(mode) > 2 && mode[len(mode)-2:] == "@q" {
		// let the producers run until every buffer is full and nothing moves any more
		mode = mode[:len(mode)-2]
		last, same := -1, 0
		for i := 0; i < 400 && same < 3; i++ {
			time.Sleep(150 * time.Microsecond)
			n := 0
			for _, v := range s.labelCounts() {
				n += v
			}
			if n == last {
				same++
			} else {
				same = 0
			}
			last = n
		}
	}
	// the consumer looks at Err() before it lets go of the reader, as a consumer whose loop has ended does (Err only
	// reads: it must leave the reader's error collector usable for the goroutines that are still winding up)
	{
		done := make(chan struct{})
		go func() { _ = it.Err(); close(done) }()
		select {
		case <-done:
		case <-time.After(2 * time.Second):
			o.watchdog = true
		}
	}
	switch mode {
	case "close":
		it.Close()
	case "cancel":
		cancel()
	case "both":
		it.Close()
		cancel()
	case "close2":
		it.Close()
		it.Close()
	}
	if c06Live && c06LiveSrc != nil {
		// the consumer is done with the reader and closes its source: the Read that was pending fails
		c06LiveSrc.close()
	}
	if drainFirst {
		slow.Store(true)
		s.releaseStall()
		if !hung {
			var h2 bool
			o.further, h2 = c06Read(it, -1, 4*time.Second)
			if h2 {
				o.watchdog = true
			}
			hung = true // the drain is done: not again below
		}
	}
	s.releaseStall()
	t0 := time.Now()
	deadline := t0.Add(2 * time.Second)
	for {
		n, _ := ftdcGoroutines()
		o.leaked = n - base
		if o.leaked <= 0 || time.Now().After(deadline) {
			break
		}
		time.Sleep(100 * time.Microsecond)
	}
	if o.leaked < 0 {
		o.leaked = 0
	}
	o.us = time.Since(t0).Microseconds()
	if !hung {
		var h2 bool
		o.further, h2 = c06Read(it, -1, 2*time.Second)
		if h2 {
			o.watchdog = true
		}
	}
	if !o.watchdog {
		// Next has returned false: it keeps returning false, at once (a consumer loop that checks twice, a second Close
		// followed by Next)
		n2, h3 := c06Read(it, 2, 2*time.Second)
		o.further += n2
		if h3 {
			o.watchdog = true
		}
	}
	cancel()
	it.Close()
	if !o.watchdog {
		if _, h4 := c06Read(it, 1, 2*time.Second); h4 {
			o.watchdog = true
		}
	}
	return o, nil
}

var c06Abs = map[[2]int]string{}

// runs that left goroutines behind or hung cost seconds each; after this many the enumeration stops
// (the check has failed by then) so that a broken implementation does not take hours to report
var c06Failing, c06MaxFailing = 0, 24

func c06Line(o *out, entry string, nc, ns, k int, mode, label string, occ int, ob c06Obs) {
	abs, ok := c06Abs[[2]int{nc, ns}]
	if !ok {
		abs = srAbstract(srStream(nc, ns), -1, -1, false)
		c06Abs[[2]int{nc, ns}] = abs
	}
	st := "-"
	if label != "" {
		st = fmt.Sprintf("%s:%d:%d", label, occ, b2i(ob.reached))
	}
	if ob.leaked > 0 || ob.watchdog {
		c06Failing++
	}
	o.printf("Q %s %d %d %d %s stall=%s read=%d total=%d leaked=%d further=%d watchdog=%d us=%d in=%s\n",
		entry, nc, ns, k, mode, st, ob.read, c06Total(entry, nc, ns), ob.leaked, ob.further, b2i(ob.watchdog), ob.us, abs)
}

// c06SafeK: how many items can be read although a goroutine is held at the occ-th occurrence of label
// (everything produced by the occurrences before it)
func c06SafeK(entry, label string, occ, ns, total int) int {
	per := 1 // items per chunk
	if entry == "metrics" || entry == "structured" {
		per = ns
	}
	k := 0
	switch label {
	case "rd.send": // documents alternate metadata, chunk
		k = ((occ - 1) / 2) * per
	case "rc.send":
		k = (occ - 1) * per
	default: // cw.send, mw.send, ss.send: one item each
		k = occ - 1
	}
	if entry == "sample" || entry == "ssample" {
		k = occ - 1
	}
	if k > total {
		k = total
	}
	return k
}

// c06MaxOcc: how often a send point can occur at all on this stream
func c06MaxOcc(entry, label string, nc, ns int) int {
	switch label {
	case "rd.send":
		return 2 * nc
	case "rc.send", "mw.send":
		return nc
	}
	if entry == "sample" || entry == "ssample" {
		return ns
	}
	return nc * ns
}

func c06Ks(total int, thorough bool) []int {
	var ks []int
	if thorough && total <= 400 {
		for k := 0; k <= total; k++ {
			ks = append(ks, k)
		}
		return ks
	}
	cand := []int{0, 1, 2, 3, 24, 25, 26, 27, 28, 99, 100, 101, 102, 103, 128, 202, 299, 300, 301, total / 2, total - 101, total - 26, total - 3, total - 1, total}
	if !thorough {
		cand = []int{0, 1, 2, 26, 28, 101, 103, 301, total / 2, total - 27, total - 1, total}
	}
	seen := map[int]bool{}
	for _, k := range cand {
		if k >= 0 && k <= total && !seen[k] {
			seen[k] = true
			ks = append(ks, k)
		}
	}
	return ks
}

func c06Main(args []string) error {
	if len(args) < 1 {
		return errors.New("usage: c06 <outfile> [entry nchunks nsamples k mode stall]")
	}
	o, err := newOut(args[0])
	if err != nil {
		return err
	}
	defer o.close()
	thorough := envTier() == "thorough"
	r := newRng(envSeed())
	streams := map[[2]int][]byte{}
	get := func(nc, ns int) []byte {
		if b, ok := streams[[2]int{nc, ns}]; ok {
			return b
		}
		b := srStream(nc, ns)
		streams[[2]int{nc, ns}] = b
		return b
	}
	if len(args) >= 7 {
		var nc, ns, k, occ int
		fmt.Sscan(args[2], &nc)
		fmt.Sscan(args[3], &ns)
		fmt.Sscan(args[4], &k)
		label := ""
		if args[6] != "-" && args[6] != "stall=-" {
			st := args[6]
			if len(st) > 6 && st[:6] == "stall=" {
				st = st[6:]
			}
			var reached int
			for i := 0; i < len(st); i++ {
				if st[i] == ':' {
					label = st[:i]
					fmt.Sscanf(st[i+1:], "%d:%d", &occ, &reached)
					break
				}
			}
		}
		mode := args[5]
		pert := len(mode) > 0 && mode[len(mode)-1] == '~'
		if pert {
			mode = mode[:len(mode)-1]
		}
		for i := 0; i < 20; i++ {
			var pr *rng
			if pert {
				pr = newRng(r.u64())
			}
			ob, err := c06Run(args[1], get(nc, ns), k, mode, label, occ, pr)
			if err != nil {
				return err
			}
			c06Line(o, args[1], nc, ns, k, args[5], label, occ, ob)
		}
		return nil
	}
	// failing streams read to exhaustion, then closed: after the chunk decoder has stopped at an undecodable
	// chunk the document reader is still parked on its hand-over, and only Close / cancel frees it
	{
		good := srStream(5, 1)
		bad := withPayload(good, 1, func(p []byte) []byte { return append([]byte{}, p[:3]...) })
		abs := srAbstract(bad, 1, -1, false)
		for _, entry := range []string{"chunks", "metrics", "structured", "matrix", "series"} {
			for _, mode := range []string{"close", "close2", "cancel", "both"} {
				ob, err := c06Run(entry, bad, 1000, mode, "", 0, nil)
				if err != nil {
					return err
				}
				if ob.leaked > 0 || ob.watchdog {
					c06Failing++
				}
				o.printf("Q %s %d %d %d %s stall=%s read=%d total=%d leaked=%d further=%d watchdog=%d us=%d in=%s\n",
					entry, -5, 1, 1000, mode, "-", ob.read, ob.read, ob.leaked, ob.further, b2i(ob.watchdog), ob.us, abs)
			}
		}
	}
	// the same failing stream from a live source (a pipe whose writer is silent): the document reader sits in Read
	// when the consumer, having seen Next return false and looked at Err, closes the reader and then the source; the
	// failed Read is a second error for the reader's error collector
	{
		// the undecodable chunk is the last document: the document reader is back in Read when the decoder gives up
		good := srStream(3, 1)
		bad := withPayload(good, 2, func(p []byte) []byte { return append([]byte{}, p[:3]...) })
		abs := srAbstract(bad, 2, -1, true)
		c06Live = true
		for _, entry := range []string{"chunks", "metrics", "structured", "matrix", "series"} {
			for _, mode := range []string{"close", "cancel"} {
				ob, err := c06Run(entry, bad, 1000, mode, "", 0, nil)
				if err != nil {
					c06Live = false
					return err
				}
				if ob.leaked > 0 || ob.watchdog {
					c06Failing++
				}
				o.printf("Q %s %d %d %d %s stall=%s read=%d total=%d leaked=%d further=%d watchdog=%d us=%d in=%s\n",
					entry, -6, 1, 1000, mode, "-", ob.read, ob.read, ob.leaked, ob.further, b2i(ob.watchdog), ob.us, abs)
			}
		}
		c06Live = false
		c06LiveSrc = nil
	}
	// a source that never ends: three chunks, then documents of a skipped type for as long as anyone reads
	{
		good := srStream(3, 1)
		abs := srAbstract(good, -1, -1, false)
		abs = strings.TrimSuffix(abs, ":C") + strings.Repeat(",O", 1500) + ":C"
		c06Endless = true
		for _, entry := range []string{"chunks", "metrics", "structured", "matrix", "series"} {
			for _, mode := range []string{"close", "cancel"} {
				for _, k := range []int{0, 3} {
					ob, err := c06Run(entry, good, k, mode, "", 0, nil)
					if err != nil {
						c06Endless = false
						return err
					}
					if ob.leaked > 0 || ob.watchdog {
						c06Failing++
					}
					o.printf("Q %s %d %d %d %s stall=%s read=%d total=%d leaked=%d further=%d watchdog=%d us=%d in=%s\n",
						entry, -3, 1, k, mode, "-", ob.read, 3, ob.leaked, ob.further, b2i(ob.watchdog), ob.us, abs)
				}
			}
		}
		c06Endless = false
	}
	shapes := [][2]int{{1, 1}, {3, 1}, {1, 300}, {3, 300}, {40, 1}, {40, 300}}
	sends := map[string][]string{
		"chunks": {"rd.send", "rc.send"}, "metrics": {"rd.send", "rc.send", "cw.send", "ss.send"},
		"structured": {"rc.send", "cw.send", "ss.send"}, "matrix": {"rd.send", "rc.send", "mw.send"},
		"series": {"rc.send", "mw.send"}, "sample": {"ss.send"}, "ssample": {"ss.send"},
	}
	for _, entry := range c06Entries {
		for _, sh := range shapes {
			nc, ns := sh[0], sh[1]
			if (entry == "sample" || entry == "ssample") && nc != 1 {
				continue
			}
			stream := get(nc, ns)
			total := c06Total(entry, nc, ns)
			for _, k := range c06Ks(total, thorough) {
				if c06Failing >= c06MaxFailing {
					o.printf("STOP after %d failing runs\n", c06Failing)
					return nil
				}
				for _, mode := range c06Modes {
					ob, err := c06Run(entry, stream, k, mode, "", 0, nil)
					if err != nil {
						return err
					}
					c06Line(o, entry, nc, ns, k, mode, "", 0, ob)
					if mode != "both" {
						ob, err = c06Run(entry, stream, k, mode+"@q", "", 0, nil)
						if err != nil {
							return err
						}
						c06Line(o, entry, nc, ns, k, mode+"@q", "", 0, ob)
					}
					if thorough || (k%2 == 1 && mode != "close2") {
						ob, err = c06Run(entry, stream, k, mode, "", 0, newRng(r.u64()))
						if err != nil {
							return err
						}
						c06Line(o, entry, nc, ns, k, mode+"~", "", 0, ob)
					}
				}
			}
			// the per-chunk iterators: stop with the producer held and the buffer empty, then drain against a slow producer
			if entry == "sample" || entry == "ssample" {
				for _, occ := range []int{1, 2, 27} {
					if occ > ns {
						continue
					}
					for _, mode := range []string{"close^", "cancel^"} {
						k := c06SafeK(entry, "ss.send", occ, ns, total)
						ob, err := c06Run(entry, stream, k, mode, "ss.send", occ, nil)
						if err != nil {
							return err
						}
						c06Line(o, entry, nc, ns, k, mode, "ss.send", occ, ob)
					}
				}
			}
			// cancellation while a goroutine is held right before a send
			occs := []int{1, 2, 3, 27, 103}
			if thorough {
				occs = []int{1, 2, 3, 4, 5, 26, 27, 28, 29, 101, 102, 103, 104, 130}
			}
			for _, l := range sends[entry] {
				if c06Failing >= c06MaxFailing {
					o.printf("STOP after %d failing runs\n", c06Failing)
					return nil
				}
				for _, occ := range occs {
					if occ > c06MaxOcc(entry, l, nc, ns) {
						continue
					}
					for _, mode := range []string{"close@q", "cancel"} {
						k := c06SafeK(entry, l, occ, ns, total)
						ob, err := c06Run(entry, stream, k, mode, l, occ, nil)
						if err != nil {
							return err
						}
						c06Line(o, entry, nc, ns, k, mode, l, occ, ob)
					}
				}
			}
		}
	}
	return nil
}

func init() {
	commands["c06"] = c06Main
}
