package main

import (
	"bufio"
	"fmt"
	"os"
	"strconv"
)

// splitmix64: every random choice of the harness derives from one state
type rng struct {
	s         uint64
	tsSeconds bool // generate BSON timestamps with non-zero seconds (known-finding class of C01)
}

func newRng(seed uint64) *rng { return &rng{s: seed*0x9E3779B97F4A7C15 + 0x1234567} }
func (r *rng) u64() uint64 {
	r.s += 0x9E3779B97F4A7C15
	z := r.s
	z = (z ^ (z >> 30)) * 0xBF58476D1CE4E5B9
	z = (z ^ (z >> 27)) * 0x94D049BB133111EB
	return z ^ (z >> 31)
}
func (r *rng) intn(n int) int {
	if n <= 0 {
		return 0
	}
	return int(r.u64() % uint64(n))
}
func (r *rng) i64n(n int64) int64 {
	if n <= 0 {
		return 0
	}
	return int64(r.u64() % uint64(n))
}
func (r *rng) chance(num, den int) bool { return r.intn(den) < num }

func envSeed() uint64 {
	s := os.Getenv("VERIF_SEED")
	if s == "" {
		return 1
	}
	v, err := strconv.ParseInt(s, 10, 64)
	if err != nil {
		return 1
	}
	return uint64(v)
}

func envTier() string {
	if t := os.Getenv("VERIF_TIER"); t != "" {
		return t
	}
	return "quick"
}

type out struct {
	f *os.File
	w *bufio.Writer
}

func newOut(path string) (*out, error) {
	f, err := os.Create(path)
	if err != nil {
		return nil, err
	}
	return &out{f: f, w: bufio.NewWriterSize(f, 1<<20)}, nil
}
func (o *out) printf(format string, a ...interface{}) { fmt.Fprintf(o.w, format, a...) }
func (o *out) close() error {
	if err := o.w.Flush(); err != nil {
		return err
	}
	return o.f.Close()
}

func b2i(b bool) int {
	if b {
		return 1
	}
	return 0
}
