package main

import (
	"bufio"
	"fmt"
	"os"
	"runtime"
	"strconv"
	"sync/atomic"
	"time"
)

// splitmix64: every random choice of the harness derives from one state
type rng struct {
	s         uint64
	tsSeconds bool    // generate BSON timestamps with non-zero seconds (known-finding class of C01)
	poolPrev  []int64 // the int64 values of the previous pool document, by position (poolDoc)
	poolPrev2 []int64 // ... and of the one before it
}

func newRng(seed uint64) *rng { return &rng{s: seed*0x9E3779B97F4A7C15 + 0x1234567} }
func (r *rng) u64() uint64 {
	r.s += 0x9E3779B97F4A7C15
	z := r.s
	z = (z ^ (z >> 30)) * 0xBF58476D1CE4E5B9
	z = (z ^ (z >> 27)) * 0x94D049BB133111EB
	return z ^ (z >> 31)
}
func (r *rng) intn(n int) int {
	if n <= 0 {
		return 0
	}
	return int(r.u64() % uint64(n))
}
func (r *rng) i64n(n int64) int64 {
	if n <= 0 {
		return 0
	}
	return int64(r.u64() % uint64(n))
}
func (r *rng) chance(num, den int) bool { return r.intn(den) < num }

func envSeed() uint64 {
	s := os.Getenv("VERIF_SEED")
	if s == "" {
		return 1
	}
	v, err := strconv.ParseInt(s, 10, 64)
	if err != nil {
		return 1
	}
	return uint64(v)
}

func envTier() string {
	if t := os.Getenv("VERIF_TIER"); t != "" {
		return t
	}
	return "quick"
}

type out struct {
	f *os.File
	w *bufio.Writer
}

func newOut(path string) (*out, error) {
	f, err := os.Create(path)
	if err != nil {
		return nil, err
	}
	return &out{f: f, w: bufio.NewWriterSize(f, 1<<20)}, nil
}
func (o *out) printf(format string, a ...interface{}) { touch(); fmt.Fprintf(o.w, format, a...) }

// progress watchdog: every observation line written (and every explicit touch()) counts as progress. A harness
// command that makes none for stallLimit() seconds is blocked inside a call of the library that does not return;
// it reports that and exits with a failure status instead of hanging the check.
var lastProgress int64

func touch() { atomic.StoreInt64(&lastProgress, time.Now().UnixNano()) }

func stallLimit() time.Duration {
	if s := os.Getenv("VERIF_STALL_S"); s != "" {
		if n, err := strconv.Atoi(s); err == nil && n > 0 {
			return time.Duration(n) * time.Second
		}
	}
	return 600 * time.Second
}

func startWatchdog(cmd string) {
	touch()
	limit := stallLimit()
	go func() {
		for {
			time.Sleep(5 * time.Second)
			idle := time.Duration(time.Now().UnixNano() - atomic.LoadInt64(&lastProgress))
			if idle > limit {
				buf := make([]byte, 1<<16)
				n := runtime.Stack(buf, true)
				fmt.Printf("HANG: harness command %s made no progress for %d s: a call into the library did not return\n%s\n", cmd, int(idle.Seconds()), buf[:n])
				os.Exit(3)
			}
		}
	}()
}
func (o *out) close() error {
	if err := o.w.Flush(); err != nil {
		return err
	}
	return o.f.Close()
}

func b2i(b bool) int {
	if b {
		return 1
	}
	return 0
}
