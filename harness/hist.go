package main

// Operation histories on the library's collectors. One case = constructor kind,
// chunk size and a list of operations; the observation of every operation is
// written next to it (" => ..."), so the model-side driver can replay the same
// history and compare step by step.

import (
	"bytes"
	"compress/zlib"
	"encoding/binary"
	"encoding/hex"
	"errors"
	"fmt"
	"github.com/evergreen-ci/birch"
	"io"
	"sort"
	"strings"
	"time"

	"github.com/mongodb/ftdc"
)

// ---------------------------------------------------------------- writer with faults

type faultKind int

const (
	fNone faultKind = iota
	fError
	fShort
)

type fault struct {
	kind  faultKind
	n     int
	quiet bool // fShort only: the short count comes with a nil error (FlushCollector checks the count itself)
}

type logWriter struct {
	writes [][]byte
	faults []fault
	calls  int
	closed bool
	strict bool // an io.WriteCloser that honours Close, like *os.File: once closed it refuses every Write
}

func (w *logWriter) Write(p []byte) (int, error) {
	w.calls++
	if w.strict && w.closed {
		return 0, errors.New("write on a closed writer")
	}
	f := fault{}
	if len(w.faults) > 0 {
		f = w.faults[0]
		w.faults = w.faults[1:]
	}
	switch f.kind {
	case fError:
		return 0, errors.New("injected write error")
	case fShort:
		n := f.n
		if n > len(p) {
			n = len(p)
		}
		w.writes = append(w.writes, append([]byte{}, p[:n]...))
		if f.quiet && n < len(p) {
			return n, nil
		}
		return n, io.ErrShortWrite
	}
	w.writes = append(w.writes, append([]byte{}, p...))
	return len(p), nil
}
func (w *logWriter) Close() error { w.closed = true; return nil }

// ---------------------------------------------------------------- stream normalisation

// walkDocs splits a byte string into top-level BSON documents (by length prefix).
func walkDocs(b []byte) (docs [][]byte, rest []byte) {
	for len(b) >= 5 {
		n := int(int32(binary.LittleEndian.Uint32(b)))
		if n < 5 || n > len(b) {
			break
		}
		docs = append(docs, b[:n])
		b = b[n:]
	}
	return docs, b
}

// elemSize returns the size of the value of an element of type t starting at b (or -1)
func elemSize(t byte, b []byte) int {
	u32 := func() int {
		if len(b) < 4 {
			return -1 << 20
		}
		return int(int32(binary.LittleEndian.Uint32(b)))
	}
	cstr := func(b []byte) int {
		i := bytes.IndexByte(b, 0)
		if i < 0 {
			return -1 << 20
		}
		return i + 1
	}
	switch t {
	case 0x01, 0x09, 0x11, 0x12:
		return 8
	case 0x02, 0x0D, 0x0E:
		return 4 + u32()
	case 0x03, 0x04, 0x0F:
		return u32()
	case 0x05:
		return 5 + u32()
	case 0x06, 0x0A, 0xFF, 0x7F:
		return 0
	case 0x07:
		return 12
	case 0x08:
		return 1
	case 0x0B:
		a := cstr(b)
		if a < 0 || a > len(b) {
			return -1
		}
		return a + cstr(b[a:])
	case 0x0C:
		return 4 + u32() + 12
	case 0x10:
		return 4
	case 0x13:
		return 16
	}
	return -1
}

type rawElem struct {
	t   byte
	key string
	val []byte
}

func walkElems(doc []byte) ([]rawElem, bool) {
	if len(doc) < 5 {
		return nil, false
	}
	b := doc[4 : len(doc)-1]
	var out []rawElem
	for len(b) > 0 {
		t := b[0]
		i := bytes.IndexByte(b[1:], 0)
		if i < 0 {
			return out, false
		}
		key := string(b[1 : 1+i])
		b = b[2+i:]
		n := elemSize(t, b)
		if n < 0 || n > len(b) {
			return out, false
		}
		out = append(out, rawElem{t, key, b[:n]})
		b = b[n:]
	}
	return out, true
}

func buildDoc(es []rawElem) []byte {
	body := []byte{}
	for _, e := range es {
		body = append(body, e.t)
		body = append(body, []byte(e.key)...)
		body = append(body, 0)
		body = append(body, e.val...)
	}
	out := le32(uint32(len(body) + 5))
	out = append(out, body...)
	return append(out, 0)
}

// inflateAll returns the bytes the zlib reader yields, whether the header was accepted, and whether the stream
// is complete: final block and Adler-32 trailer present and correct, no byte left over behind it
func inflateAll(z []byte) (data []byte, headerOK bool, clean bool) {
	br := bytes.NewReader(z) // an io.ByteReader: flate reads no further than the end of the stream
	zr, err := zlib.NewReader(br)
	if err != nil {
		return nil, false, false
	}
	var buf bytes.Buffer
	_, err = io.Copy(&buf, zr)
	return buf.Bytes(), true, err == nil && br.Len() == 0
}

// normalizeEncoded is normalizeStream for bytes an ENCODER produced (Resolve results, writer logs): the format
// asks for a complete zlib stream, so an incomplete one (cut before its final block or checksum, or followed by
// stray bytes) gets flag byte 2, which the model's codec does not accept
func normalizeEncoded(b []byte) []byte { return normalizeWith(b, true) }

// normalizeStream is the lenient form used for bytes handed to a READER, which takes from the zlib stream only
// what it needs
func normalizeStream(b []byte) []byte { return normalizeWith(b, false) }

// normalizeStream replaces the zlib stream inside every "data" binary by a flag byte
// (1 = header accepted, 0 = rejected) followed by the inflated bytes. The model is
// extracted with this trivial codec in place of zlib (DESIGN.md section 6).
func normalizeWith(b []byte, strict bool) []byte {
	docs, rest := walkDocs(b)
	out := []byte{}
	for _, d := range docs {
		es, ok := walkElems(d)
		// only a document that the lenient walk reproduces byte for byte is rewritten;
		// anything else (a malformed frame) is passed on untouched
		if !ok || !bytes.Equal(buildDoc(es), d) {
			out = append(out, d...)
			continue
		}
		changed := false
		for i, e := range es {
			if e.key == "data" && e.t == 0x05 && len(e.val) >= 5+4 && int(binary.LittleEndian.Uint32(e.val)) == len(e.val)-5 {
				zb := e.val[5:]
				raw, hok, clean := inflateAll(zb[4:])
				nd := append([]byte{}, zb[:4]...)
				if hok && strict && !clean {
					nd = append(nd, 2)
					nd = append(nd, raw...)
				} else if hok {
					nd = append(nd, 1)
					nd = append(nd, raw...)
				} else {
					nd = append(nd, 0)
				}
				nv := le32(uint32(len(nd)))
				nv = append(nv, e.val[4])
				nv = append(nv, nd...)
				es[i].val = nv
				changed = true
			}
		}
		if changed {
			out = append(out, buildDoc(es)...)
		} else {
			out = append(out, d...)
		}
	}
	return append(out, rest...)
}

// denormalizeStream is the inverse direction: a stream in the model's trivial codec is
// given a real zlib stream (used to feed model-/spec-produced streams to the readers).
func denormalizeStream(b []byte) []byte {
	docs, rest := walkDocs(b)
	out := []byte{}
	for _, d := range docs {
		es, ok := walkElems(d)
		if !ok {
			out = append(out, d...)
			continue
		}
		changed := false
		for i, e := range es {
			if e.key == "data" && e.t == 0x05 && len(e.val) >= 5+5 {
				zb := e.val[5:]
				var zbuf bytes.Buffer
				if zb[4] == 1 {
					zw := zlib.NewWriter(&zbuf)
					_, _ = zw.Write(zb[5:])
					_ = zw.Close()
				} else {
					zbuf.Write([]byte{0xFF, 0xFF, 0xFF})
				}
				nd := append([]byte{}, zb[:4]...)
				nd = append(nd, zbuf.Bytes()...)
				nv := le32(uint32(len(nd)))
				nv = append(nv, e.val[4])
				nv = append(nv, nd...)
				es[i].val = nv
				changed = true
			}
		}
		if changed {
			out = append(out, buildDoc(es)...)
		} else {
			out = append(out, d...)
		}
	}
	return append(out, rest...)
}

// ---------------------------------------------------------------- collector kinds

var kindNames = []string{"base", "batch", "dyn", "stream", "sdyn", "uncb", "uncj", "streamuncb", "streamuncj", "sdynuncb", "sdynuncj"}

func isUncompressed(kind string) bool { return strings.Contains(kind, "unc") }
func isJSONKind(kind string) bool     { return strings.HasSuffix(kind, "uncj") }
func isStreamingKind(kind string) bool {
	return strings.HasPrefix(kind, "stream") || strings.HasPrefix(kind, "sdyn")
}

func newCollector(kind string, n int, w io.Writer) ftdc.Collector {
	switch kind {
	case "base":
		return ftdc.NewBaseCollector(n)
	case "batch":
		return ftdc.NewBatchCollector(n)
	case "dyn":
		return ftdc.NewDynamicCollector(n)
	case "stream":
		return ftdc.NewStreamingCollector(n, w)
	case "sdyn":
		return ftdc.NewStreamingDynamicCollector(n, w)
	case "uncb":
		return ftdc.NewUncompressedCollectorBSON(n)
	case "uncj":
		return ftdc.NewUncompressedCollectorJSON(n)
	case "streamuncb":
		return ftdc.NewStreamingUncompressedCollectorBSON(n, w)
	case "streamuncj":
		return ftdc.NewStreamingUncompressedCollectorJSON(n, w)
	case "sdynuncb":
		return ftdc.NewStreamingDynamicUncompressedCollectorBSON(n, w)
	case "sdynuncj":
		return ftdc.NewStreamingDynamicUncompressedCollectorJSON(n, w)
	}
	panic("unknown kind " + kind)
}

// wrap applies the wrappers that are the identity in sequential use
func wrapCollector(c ftdc.Collector, wrapper string) ftdc.Collector {
	switch wrapper {
	case "sync":
		return ftdc.NewSynchronizedCollector(c)
	case "sample0":
		return ftdc.NewSamplingCollector(0, c)
	case "syncsample0":
		return ftdc.NewSynchronizedCollector(ftdc.NewSamplingCollector(0, c))
	case "sample1h": // only the first Add reaches the wrapped collector (driver hist_run: sampling_long)
		return ftdc.NewSamplingCollector(time.Hour, c)
	case "syncsample1h":
		return ftdc.NewSynchronizedCollector(ftdc.NewSamplingCollector(time.Hour, c))
	}
	return c
}

// wcollAdapter drives the io.WriteCloser entry point NewWriterCollector (a streaming dynamic collector behind
// Write): Add goes through Write, every other operation reaches the collector behind it (verif-tag accessor).
type wcollAdapter struct {
	ftdc.Collector
	wc io.WriteCloser
}

type nopWriteCloser struct{ io.Writer }

func (nopWriteCloser) Close() error { return nil }

func newWcoll(n int, w io.Writer) ftdc.Collector {
	wc := ftdc.NewWriterCollector(n, nopWriteCloser{w})
	return &wcollAdapter{Collector: ftdc.VerifWriterCollectorInner(wc), wc: wc}
}

func (a *wcollAdapter) Add(d interface{}) error {
	b, ok := d.([]byte)
	if !ok {
		return a.Collector.Add(d)
	}
	_, err := a.wc.Write(b)
	return err
}

// the forms in which Collector.Add takes one and the same document (readDocument): raw BSON bytes, a birch document,
// a value with MarshalDocument, a value with MarshalBSON
type docMarshalerForm struct{ b []byte }

func (d docMarshalerForm) MarshalDocument() (*birch.Document, error) { return birch.ReadDocument(d.b) }

type bsonMarshalerForm struct{ b []byte }

func (d bsonMarshalerForm) MarshalBSON() ([]byte, error) { return d.b, nil }

// mapForm: a flat document of int64 fields with distinct names, as the map[string]int64 the library also accepts,
// and the document it stands for (fields in ascending order of their names)
func mapForm(d []elem) (map[string]int64, []elem, bool) {
	m := map[string]int64{}
	for _, e := range d {
		if e.V == nil || e.V.T != 0x12 {
			return nil, nil, false
		}
		if _, dup := m[e.K]; dup {
			return nil, nil, false
		}
		m[e.K] = e.V.I
	}
	if len(m) == 0 {
		return nil, nil, false
	}
	sorted := append([]elem{}, d...)
	sort.SliceStable(sorted, func(i, j int) bool { return sorted[i].K < sorted[j].K })
	return m, sorted, true
}

func addForm(b []byte, k int, wrapper string) interface{} {
	if wrapper == "wcoll" {
		return b // Write takes bytes
	}
	switch k % 5 {
	case 1:
		if d, err := birch.ReadDocument(append([]byte{}, b...)); err == nil {
			return d
		}
	case 2:
		return docMarshalerForm{append([]byte{}, b...)}
	case 3:
		return bsonMarshalerForm{append([]byte{}, b...)}
	}
	return b
}

// pickWrapper chooses a wrapper for a history; a third of the streaming dynamic cases go through NewWriterCollector
func pickWrapper(r *rng, kind string) string {
	if kind == "sdyn" && r.chance(1, 3) {
		return "wcoll"
	}
	return wrappers[r.intn(len(wrappers))]
}

func addClass(err error) string {
	if err == nil {
		return "ok"
	}
	m := err.Error()
	switch {
	case strings.Contains(m, "problem flushing") || strings.Contains(m, "injected write error") || strings.Contains(m, "short write"):
		return "flush"
	case strings.Contains(m, "overfull"):
		return "full"
	case strings.Contains(m, "sample types"):
		return "types"
	case strings.Contains(m, "unexpected schema change"):
		return "count"
	}
	return "other"
}

// renderOut renders Resolve output / one write: "b:<hex normalised FTDC>" or "d:<hexdoc>,<hexdoc>" or "j:<hex of raw JSON text>"
func renderOut(kind string, p []byte) string {
	if !isUncompressed(kind) {
		return "b:" + hex.EncodeToString(normalizeEncoded(p))
	}
	if isJSONKind(kind) {
		return "j:" + hex.EncodeToString(p)
	}
	docs, rest := walkDocs(p)
	parts := []string{}
	for _, d := range docs {
		parts = append(parts, hex.EncodeToString(d))
	}
	if len(rest) > 0 {
		parts = append(parts, "TRAIL"+hex.EncodeToString(rest))
	}
	return "d:" + strings.Join(parts, ",")
}

// renderEither: after the D10-style defect an uncompressed kind may emit compressed FTDC;
// sniff: an FTDC chunk stream starts with a document holding _id/type/data
func renderSmart(kind string, p []byte) string {
	if isUncompressed(kind) && looksLikeFTDC(p) {
		return "b:" + hex.EncodeToString(normalizeEncoded(p))
	}
	return renderOut(kind, p)
}

func looksLikeFTDC(p []byte) bool {
	docs, _ := walkDocs(p)
	if len(docs) == 0 {
		return false
	}
	es, ok := walkElems(docs[0])
	if !ok || len(es) != 3 {
		return false
	}
	return es[0].key == "_id" && es[1].key == "type"
}

func flushColl(c ftdc.Collector, w io.Writer) error { return ftdc.FlushCollector(c, w) }

type hop struct {
	op  byte   // A R X F M I
	doc []elem // for A, M
	raw []byte // optional raw bytes for A (unreadable input)
	// the unreadable input is a birch document that cannot be encoded (a binary value of subtype 8): it passes
	// readDocument and is refused only when its elements are walked
	birchBad bool
}

func birchBadDoc() *birch.Document {
	return birch.NewDocument(birch.EC.Int64("x", 1), birch.EC.BinaryWithSubtype("blob", []byte{1, 2, 3}, 8))
}

// safeAdd: a panic inside Add is reported as a refusal (and shows up as a disagreement with the model)
func safeAdd(c ftdc.Collector, in interface{}) (err error) {
	defer func() {
		if r := recover(); r != nil {
			err = fmt.Errorf("panic in Add: %v", r)
		}
	}()
	return c.Add(in)
}

type hcase struct {
	kind    string
	wrapper string
	n       int
	ops     []hop
	faults  []fault
	logEach bool     // record the writer log after every operation
	tag     string   // profile tag copied to the CASE line (selects oracles in the driver)
	probe   bool     // after every operation also observe Resolve ("r"), Info ("i") and the writer log
	expect  [][]elem // inputs expected to be decodable from (writer log ++ final Resolve), if known
	hasExp  bool
}

func runHistory(o *out, id int, c hcase) {
	w := &logWriter{faults: append([]fault{}, c.faults...)}
	var coll ftdc.Collector
	if c.wrapper == "wcoll" && c.kind == "sdyn" {
		coll = newWcoll(c.n, w)
	} else {
		coll = wrapCollector(newCollector(c.kind, c.n, w), c.wrapper)
	}
	fs := []string{}
	for _, f := range c.faults {
		switch f.kind {
		case fNone:
			fs = append(fs, "n")
		case fError:
			fs = append(fs, "e")
		case fShort:
			fs = append(fs, fmt.Sprintf("s%d", f.n))
		}
	}
	o.printf("CASE %d %s %d %s %s %s\n", id, c.kind, c.n, c.wrapper+"-", strings.Join(fs, ",")+"-", c.tag+"-")
	wlog := func() {
		parts := []string{}
		for _, wr := range w.writes {
			parts = append(parts, renderSmart(c.kind, wr))
		}
		o.printf("W => %d %s\n", w.calls, strings.Join(parts, " "))
	}
	// every payload Resolve returned is kept next to a copy of what it held: a later operation must not change it
	var held [][2][]byte
	overwritten := false
	hold := func(p []byte) {
		for _, h := range held {
			if !bytes.Equal(h[0], h[1]) && !overwritten {
				overwritten = true
				o.printf("NOTE resolve-result-overwritten-by-a-later-call\n")
			}
		}
		if p != nil && len(held) < 64 {
			held = append(held, [2][]byte{p, append([]byte{}, p...)})
		}
	}
	nadd := 0
	nbadmeta := 0
	for _, h := range c.ops {
		switch h.op {
		case 'A':
			var err error
			if h.raw != nil && c.wrapper == "wcoll" {
				// Write refuses unreadable bytes before the collector sees them: an error and no effect (no flush either),
				// like a refused SetMetadata
				if _, werr := coll.(*wcollAdapter).wc.Write(h.raw); werr != nil {
					o.printf("N => err\n")
				} else {
					o.printf("N => ok\n")
				}
			} else if h.raw != nil {
				if h.birchBad {
					err = safeAdd(coll, birchBadDoc())
				} else {
					err = coll.Add(h.raw)
				}
				o.printf("B %s => %s\n", hex.EncodeToString(h.raw), addClass(err))
			} else {
				if m, sorted, ok := mapForm(h.doc); ok && nadd%5 == 4 && c.wrapper != "wcoll" {
					// a map of int64 values: the library sorts the fields by name, which is the document it was given
					err = coll.Add(m)
					nadd++
					o.printf("A %s => %s\n", hexDoc(sorted), addClass(err))
				} else {
					err = safeAdd(coll, addForm(encDoc(h.doc), nadd, c.wrapper))
					nadd++
					o.printf("A %s => %s\n", hexDoc(h.doc), addClass(err))
				}
			}
		case 'R':
			p, err := coll.Resolve()
			if err != nil {
				o.printf("R => none\n")
			} else {
				o.printf("R => %s\n", renderSmart(c.kind, p))
				hold(p)
			}
			// Resolve must be repeatable: a second call returns the same bytes
			p2, err2 := coll.Resolve()
			if (err == nil) != (err2 == nil) || (err == nil && !isUncompressed(c.kind) && !bytes.Equal(normalizeEncoded(p), normalizeEncoded(p2))) ||
				(err == nil && isUncompressed(c.kind) && !bytes.Equal(p, p2)) {
				o.printf("NOTE resolve-not-repeatable\n")
			}
		case 'X':
			coll.Reset()
			o.printf("X => ok\n")
		case 'F':
			err := ftdc.FlushCollector(coll, w)
			if err != nil {
				o.printf("F => err\n")
			} else {
				o.printf("F => ok\n")
			}
		case 'N':
			// metadata that cannot be read as a document (the library refuses string maps) or, every other time and for the
			// compressing kinds, a birch document that cannot be encoded: refused, what was set before stays
			var bad interface{} = map[string]string{"not": "a document"}
			nbadmeta++
			if nbadmeta%2 == 0 && isCompressingKind(c.kind) && c.wrapper != "wcoll" {
				bad = birchBadDoc()
			}
			if err := coll.SetMetadata(bad); err != nil {
				o.printf("N => err\n")
			} else {
				o.printf("N => ok\n")
			}
		case 'M':
			err := coll.SetMetadata(encDoc(h.doc))
			if err != nil {
				o.printf("M %s => err\n", hexDoc(h.doc))
			} else {
				o.printf("M %s => ok\n", hexDoc(h.doc))
			}
		case 'I':
			info := coll.Info()
			o.printf("I => %d %d\n", info.MetricsCount, info.SampleCount)
		}
		if c.probe {
			p, err := coll.Resolve()
			if err != nil {
				o.printf("r => none\n")
			} else {
				o.printf("r => %s\n", renderSmart(c.kind, p))
				hold(p)
			}
			info := coll.Info()
			o.printf("i => %d %d\n", info.MetricsCount, info.SampleCount)
		}
		if c.logEach || c.probe {
			wlog()
		}
	}
	if !(c.logEach || c.probe) {
		wlog()
	}
	o.printf("END\n")
}
