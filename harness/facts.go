package main

// Source-facts translator (DESIGN.md section 5b) for three fact families:
//
//   ftdcverif facts <repo-dir> <out-dir>
//
// parses the Go sources of <repo-dir> (go/parser + go/ast, standard library only) and writes
//
//   <out-dir>/TypeTables.v  the BSON type switches of extractMetricsFromValue, metricForType,
//                           metricKeyHashValue (producers: how many metrics an arm yields) and of
//                           restoreElement, restoreFlat, rehydrateMatrix, getSeries, getRecord
//                           (consumers: how many metric slots an arm consumes, what it rebuilds)
//   <out-dir>/PerfKeys.v    key literals of Performance.MarshalDocument, `case "<key>":` labels of the
//                           four UnmarshalDocument methods (with the field each one marshals/assigns
//                           and the BSON type written/read), bson struct tags of the four structs
//   <out-dir>/Caps.v        channel capacities of the reader pipelines and of metrics/json.go,
//                           max_samples, second_ms (t2.go), maxChunkValues (read.go)
//
// A file is rewritten only when its content changes. Props/Facts{Types,Keys,Caps}.v prove the
// obligations over the regenerated tables by vm_compute.
//
// The translator is a narrow pattern extractor, not a Go semantics. Whatever it does not recognise
// makes it FAIL with "source facts no longer extractable: <file>:<line>: ..." and nothing is written.
// What it understands is stated at each extractor below; in summary it does NOT understand:
//   * case labels that are not `bsontype.<Name>` (TypeTables) / string literals (PerfKeys), `fallthrough`,
//     a second switch in one of the analysed functions, a switch tag that is not the expected expression;
//   * producer arms containing anything but the append/return forms listed below (loops, nested switches,
//     appends of a spread slice, an `if` whose two branches yield different counts, an `if` without else
//     that yields something);
//   * consumer arms whose returns disagree, index expressions other than metrics[idx], metrics[idx+k];
//   * Marshal elements that are not birch.EC.{Time,Int64,Duration,Boolean,Int32,Double,SubDocument}("lit", p.A.B),
//     Unmarshal cases that are not `p.F = [T(]elem.Value().{Time,Int64,Boolean,Int32,Double}()[)]` or
//     `if err := p.F.UnmarshalDocument(elem.Value().MutableDocument()); err != nil { return ... }`, default clauses;
//   * make(chan ...) in the analysed files at a place that is not in the site list (a new channel), a
//     capacity that is not an integer constant expression of literals.

import (
	"bytes"
	"fmt"
	"go/ast"
	"go/constant"
	"go/parser"
	"go/printer"
	"go/token"
	"os"
	"path/filepath"
	"sort"
	"strconv"
	"strings"
)

type ftErr struct{ msg string }

type ftCtx struct {
	repo  string
	fset  *token.FileSet
	files map[string]*ast.File
}

func (c *ftCtx) fail(n ast.Node, format string, args ...interface{}) {
	pos := ""
	if n != nil {
		p := c.fset.Position(n.Pos())
		rel, err := filepath.Rel(c.repo, p.Filename)
		if err != nil {
			rel = p.Filename
		}
		pos = fmt.Sprintf("%s:%d: ", rel, p.Line)
	}
	panic(ftErr{pos + fmt.Sprintf(format, args...)})
}

func (c *ftCtx) file(rel string) *ast.File {
	if f, ok := c.files[rel]; ok {
		return f
	}
	f, err := parser.ParseFile(c.fset, filepath.Join(c.repo, rel), nil, parser.ParseComments)
	if err != nil {
		panic(ftErr{fmt.Sprintf("%s: %v", rel, err)})
	}
	c.files[rel] = f
	return f
}

func (c *ftCtx) src(n ast.Node) string {
	var b bytes.Buffer
	if err := printer.Fprint(&b, c.fset, n); err != nil {
		c.fail(n, "cannot print expression: %v", err)
	}
	return strings.Join(strings.Fields(b.String()), " ")
}

func ftRecvType(d *ast.FuncDecl) string {
	if d.Recv == nil || len(d.Recv.List) == 0 {
		return ""
	}
	t := d.Recv.List[0].Type
	if s, ok := t.(*ast.StarExpr); ok {
		t = s.X
	}
	if id, ok := t.(*ast.Ident); ok {
		return id.Name
	}
	return "?"
}

func ftRecvName(d *ast.FuncDecl) string {
	if d.Recv == nil || len(d.Recv.List) == 0 || len(d.Recv.List[0].Names) == 0 {
		return ""
	}
	return d.Recv.List[0].Names[0].Name
}

// funcDecl: the unique function `name` (method of `recv` when recv != "") of file rel, with a body.
func (c *ftCtx) funcDecl(rel, recv, name string) *ast.FuncDecl {
	var found *ast.FuncDecl
	for _, d := range c.file(rel).Decls {
		fd, ok := d.(*ast.FuncDecl)
		if !ok || fd.Name.Name != name || ftRecvType(fd) != recv {
			continue
		}
		if found != nil {
			c.fail(fd, "two declarations of %s", name)
		}
		found = fd
	}
	if found == nil || found.Body == nil {
		what := name
		if recv != "" {
			what = recv + "." + name
		}
		panic(ftErr{fmt.Sprintf("%s: function %s not found", rel, what)})
	}
	return found
}

// params: the flattened (name, printed type) list of a function's parameters.
func (c *ftCtx) params(fd *ast.FuncDecl) [][2]string {
	var out [][2]string
	for _, f := range fd.Type.Params.List {
		t := c.src(f.Type)
		if len(f.Names) == 0 {
			out = append(out, [2]string{"_", t})
		}
		for _, n := range f.Names {
			out = append(out, [2]string{n.Name, t})
		}
	}
	return out
}

// wantParams checks the parameter types and returns the names.
func (c *ftCtx) wantParams(fd *ast.FuncDecl, types ...string) []string {
	ps := c.params(fd)
	if len(ps) != len(types) {
		c.fail(fd, "%s: expected %d parameters (%s), found %d", fd.Name.Name, len(types), strings.Join(types, ", "), len(ps))
	}
	names := make([]string, len(ps))
	for i, p := range ps {
		if p[1] != types[i] {
			c.fail(fd, "%s: parameter %d has type %s, expected %s", fd.Name.Name, i+1, p[1], types[i])
		}
		names[i] = p[0]
	}
	return names
}

// theSwitch: the only expression switch of a function.
func (c *ftCtx) theSwitch(fd *ast.FuncDecl) *ast.SwitchStmt {
	var sws []*ast.SwitchStmt
	ast.Inspect(fd.Body, func(n ast.Node) bool {
		switch x := n.(type) {
		case *ast.SwitchStmt:
			sws = append(sws, x)
		case *ast.TypeSwitchStmt:
			c.fail(x, "%s: type switch is not understood", fd.Name.Name)
		case *ast.BranchStmt:
			if x.Tok == token.FALLTHROUGH || x.Tok == token.GOTO {
				c.fail(x, "%s: %s is not understood", fd.Name.Name, x.Tok)
			}
		}
		return true
	})
	if len(sws) != 1 {
		c.fail(fd, "%s: expected exactly one switch statement, found %d", fd.Name.Name, len(sws))
	}
	if sws[0].Init != nil {
		c.fail(sws[0], "%s: switch with an init statement is not understood", fd.Name.Name)
	}
	if sws[0].Tag == nil {
		c.fail(sws[0], "%s: switch without a tag is not understood", fd.Name.Name)
	}
	return sws[0]
}

// resolvedTag: the printed switch tag; an identifier that is defined exactly once in the function by
// `id := expr` (and never assigned again) is replaced by the printed expr.
func (c *ftCtx) resolvedTag(fd *ast.FuncDecl, sw *ast.SwitchStmt) string {
	id, ok := sw.Tag.(*ast.Ident)
	if !ok {
		return c.src(sw.Tag)
	}
	var defs []ast.Expr
	ast.Inspect(fd.Body, func(n ast.Node) bool {
		as, ok := n.(*ast.AssignStmt)
		if !ok {
			return true
		}
		for i, l := range as.Lhs {
			if li, ok := l.(*ast.Ident); ok && li.Name == id.Name {
				if len(as.Lhs) != len(as.Rhs) {
					c.fail(as, "%s: the switch tag %s is assigned from a multi-valued expression", fd.Name.Name, id.Name)
				}
				defs = append(defs, as.Rhs[i])
			}
		}
		return true
	})
	if len(defs) == 0 {
		return id.Name // a parameter
	}
	if len(defs) > 1 {
		c.fail(sw, "%s: the switch tag %s is assigned more than once", fd.Name.Name, id.Name)
	}
	return c.src(defs[0])
}

func (c *ftCtx) wantTag(fd *ast.FuncDecl, sw *ast.SwitchStmt, want string) {
	if got := c.resolvedTag(fd, sw); got != want {
		c.fail(sw, "%s: the switch is over `%s`, expected `%s`", fd.Name.Name, got, want)
	}
}

// ---------------------------------------------------------------- BSON type names

// the BSON specification's element type bytes = the constants of birch/bsontype
var ftBsonTags = map[string]int{
	"Double": 0x01, "String": 0x02, "EmbeddedDocument": 0x03, "Array": 0x04, "Binary": 0x05,
	"Undefined": 0x06, "ObjectID": 0x07, "Boolean": 0x08, "DateTime": 0x09, "Null": 0x0A,
	"Regex": 0x0B, "DBPointer": 0x0C, "JavaScript": 0x0D, "Symbol": 0x0E, "CodeWithScope": 0x0F,
	"Int32": 0x10, "Timestamp": 0x11, "Int64": 0x12, "Decimal128": 0x13, "MinKey": 0xFF, "MaxKey": 0x7F,
}

// birch.EC.<ctor> -> the BSON type of the element it builds
var ftCtorTags = map[string]int{
	"Boolean": 0x08, "Double": 0x01, "Int32": 0x10, "Int64": 0x12, "Time": 0x09, "DateTime": 0x09,
	"Timestamp": 0x11, "SubDocument": 0x03, "ArrayFromElements": 0x04, "Array": 0x04, "Duration": 0x12,
}

// Go element type of a series -> the BSON type it stands for
var ftGoElemTags = map[string]int{"int64": 0x12, "int32": 0x10, "bool": 0x08, "float64": 0x01, "time.Time": 0x09}

func (c *ftCtx) bsonLabel(e ast.Expr) (string, int) {
	s, ok := e.(*ast.SelectorExpr)
	if ok {
		if id, ok := s.X.(*ast.Ident); ok && id.Name == "bsontype" {
			if t, ok := ftBsonTags[s.Sel.Name]; ok {
				return s.Sel.Name, t
			}
			c.fail(e, "unknown BSON type constant bsontype.%s", s.Sel.Name)
		}
	}
	c.fail(e, "case label `%s` is not a bsontype constant", c.src(e))
	return "", 0
}

// ecCtor: birch.EC.<Name>(args) -> Name, args
func (c *ftCtx) ecCtor(e ast.Expr) (string, []ast.Expr, bool) {
	call, ok := e.(*ast.CallExpr)
	if !ok {
		return "", nil, false
	}
	s, ok := call.Fun.(*ast.SelectorExpr)
	if !ok {
		return "", nil, false
	}
	if c.src(s.X) != "birch.EC" {
		return "", nil, false
	}
	return s.Sel.Name, call.Args, true
}

func ftIsIdent(e ast.Expr, name string) bool {
	id, ok := e.(*ast.Ident)
	return ok && id.Name == name
}

func ftCallName(e ast.Expr) string {
	call, ok := e.(*ast.CallExpr)
	if !ok {
		return ""
	}
	if id, ok := call.Fun.(*ast.Ident); ok {
		return id.Name
	}
	return ""
}

func ftMentions(n ast.Node, c *ftCtx, printed string) bool {
	found := false
	ast.Inspect(n, func(x ast.Node) bool {
		if found || x == nil {
			return false
		}
		if e, ok := x.(ast.Expr); ok && c.src(e) == printed {
			found = true
		}
		return !found
	})
	return found
}

// ---------------------------------------------------------------- table representation

type ftArm struct {
	name string // bsontype constant name ("" for the default arm)
	tag  int
	arm  string // Coq term of the arm
	line int
}

type ftTable struct {
	coqName string
	comment string
	armType string
	arms    []ftArm
	dflt    string
	extra   string // further definitions emitted after the table
}

// clauses: iterate over the clauses of a switch, one callback per label; duplicates rejected.
func (c *ftCtx) clauses(fn string, sw *ast.SwitchStmt, t *ftTable, noDefault string, arm func(cl *ast.CaseClause, labels [][2]interface{}) []string) {
	seen := map[int]bool{}
	hasDefault := false
	for _, st := range sw.Body.List {
		cl, ok := st.(*ast.CaseClause)
		if !ok {
			c.fail(st, "%s: not a case clause", fn)
		}
		if cl.List == nil {
			if hasDefault {
				c.fail(cl, "%s: two default clauses", fn)
			}
			hasDefault = true
			r := arm(cl, nil)
			t.dflt = r[0]
			continue
		}
		var labels [][2]interface{}
		for _, e := range cl.List {
			name, tag := c.bsonLabel(e)
			if seen[tag] {
				c.fail(e, "%s: duplicate case bsontype.%s", fn, name)
			}
			seen[tag] = true
			labels = append(labels, [2]interface{}{name, tag})
		}
		r := arm(cl, labels)
		if len(r) != len(labels) {
			c.fail(cl, "%s: internal error: %d arms for %d labels", fn, len(r), len(labels))
		}
		for i, l := range labels {
			t.arms = append(t.arms, ftArm{l[0].(string), l[1].(int), r[i], c.fset.Position(cl.Pos()).Line})
		}
	}
	if !hasDefault {
		if noDefault == "" {
			c.fail(sw, "%s: a switch without default clause is not understood here", fn)
		}
		t.dflt = noDefault
	}
}

func ftSame(r string, n int) []string {
	if n == 0 {
		return []string{r}
	}
	out := make([]string, n)
	for i := range out {
		out[i] = r
	}
	return out
}

// armReturns: the return statements of an arm. The arm may consist of assignments, expression
// statements, declarations, if/else and returns only, and must end in a return.
func (c *ftCtx) armReturns(fn string, body []ast.Stmt, mustReturn bool) []*ast.ReturnStmt {
	var rets []*ast.ReturnStmt
	var walk func(list []ast.Stmt)
	walk = func(list []ast.Stmt) {
		for _, s := range list {
			switch x := s.(type) {
			case *ast.ReturnStmt:
				rets = append(rets, x)
			case *ast.AssignStmt, *ast.ExprStmt, *ast.DeclStmt, *ast.IncDecStmt, *ast.EmptyStmt:
			case *ast.BlockStmt:
				walk(x.List)
			case *ast.IfStmt:
				walk(x.Body.List)
				switch e := x.Else.(type) {
				case nil:
				case *ast.BlockStmt:
					walk(e.List)
				case *ast.IfStmt:
					walk([]ast.Stmt{e})
				}
			default:
				c.fail(s, "%s: statement of kind %T in a case arm is not understood", fn, s)
			}
		}
	}
	walk(body)
	if mustReturn {
		if len(body) == 0 {
			c.fail(nil, "%s: an empty case arm is not understood here", fn)
		}
		if _, ok := body[len(body)-1].(*ast.ReturnStmt); !ok {
			c.fail(body[len(body)-1], "%s: the case arm does not end in a return", fn)
		}
	}
	return rets
}

// ---------------------------------------------------------------- producers

// extractMetricsFromValue. Understood arm statements:
//
//	metrics.values = append(metrics.values, e1, ..., ek)      k metrics
//	metrics.types  = append(metrics.types, bsontype.X, ...)   recorded types
//	metrics.ts = e ; err = e ; x, y := e (e not mentioning metrics)
//	metrics, err = extractMetricsFromArray|extractMetricsFromDocument(...)   recursive
//	if c { A } else { B }   with A and B yielding the same
func (c *ftCtx) extractTable() *ftTable {
	const rel, fn = "bson_extract.go", "extractMetricsFromValue"
	fd := c.funcDecl(rel, "", fn)
	ps := c.wantParams(fd, "*birch.Value")
	sw := c.theSwitch(fd)
	c.wantTag(fd, sw, ps[0]+".Type()")
	// shape of the function: `metrics := extractedMetrics{}` ... switch ... `return metrics, err`
	var acc string
	for i, s := range fd.Body.List {
		if s == ast.Stmt(sw) {
			if i+1 != len(fd.Body.List)-1 {
				c.fail(sw, "%s: the switch is not directly followed by the final return", fn)
			}
			ret, ok := fd.Body.List[i+1].(*ast.ReturnStmt)
			if !ok || len(ret.Results) != 2 {
				c.fail(fd.Body.List[i+1], "%s: expected `return <metrics>, err` after the switch", fn)
			}
			id, ok := ret.Results[0].(*ast.Ident)
			if !ok {
				c.fail(ret, "%s: the returned metrics are not a variable", fn)
			}
			acc = id.Name
		}
	}
	if acc == "" {
		c.fail(sw, "%s: the switch is not a top-level statement of the function", fn)
	}
	init := false
	for _, s := range fd.Body.List {
		if as, ok := s.(*ast.AssignStmt); ok && as.Tok == token.DEFINE && len(as.Lhs) == 1 && ftIsIdent(as.Lhs[0], acc) {
			if c.src(as.Rhs[0]) != "extractedMetrics{}" {
				c.fail(as, "%s: %s does not start empty", fn, acc)
			}
			init = true
		}
	}
	if !init {
		c.fail(fd, "%s: `%s := extractedMetrics{}` not found", fn, acc)
	}
	for _, rf := range []string{"extractMetricsFromArray", "extractMetricsFromDocument"} {
		c.wantLoopCalling(rel, rf, fn)
	}

	type st struct {
		rec   bool
		vals  int
		types []string
	}
	var run func(list []ast.Stmt, s st) st
	run = func(list []ast.Stmt, s st) st {
		for _, x := range list {
			switch a := x.(type) {
			case *ast.AssignStmt:
				if len(a.Lhs) == 1 && len(a.Rhs) == 1 {
					lhs := c.src(a.Lhs[0])
					if lhs == acc+".values" || lhs == acc+".types" {
						call, ok := a.Rhs[0].(*ast.CallExpr)
						if a.Tok != token.ASSIGN || !ok || !ftIsIdent(call.Fun, "append") || len(call.Args) < 1 ||
							c.src(call.Args[0]) != lhs || call.Ellipsis != token.NoPos {
							c.fail(a, "%s: `%s` is not of the form %s = append(%s, e1, ..., ek)", fn, c.src(a), lhs, lhs)
						}
						if lhs == acc+".values" {
							s.vals += len(call.Args) - 1
						} else {
							for _, e := range call.Args[1:] {
								name, _ := c.bsonLabel(e)
								s.types = append(s.types, name)
							}
						}
						continue
					}
					if lhs == acc+".ts" || (lhs == "err" && !ftMentions(a.Rhs[0], c, acc)) {
						continue
					}
				}
				if len(a.Lhs) == 2 && len(a.Rhs) == 1 && ftIsIdent(a.Lhs[0], acc) && ftIsIdent(a.Lhs[1], "err") && a.Tok == token.ASSIGN {
					cn := ftCallName(a.Rhs[0])
					if cn == "extractMetricsFromArray" || cn == "extractMetricsFromDocument" {
						s.rec = true
						continue
					}
				}
				if a.Tok == token.DEFINE && !ftMentions(a, c, acc) {
					continue
				}
				c.fail(a, "%s: statement `%s` in a case arm is not understood", fn, c.src(a))
			case *ast.IfStmt:
				if a.Init != nil || ftMentions(a.Cond, c, acc) {
					c.fail(a, "%s: if statement with init / condition on %s is not understood", fn, acc)
				}
				var e []ast.Stmt
				switch el := a.Else.(type) {
				case nil:
				case *ast.BlockStmt:
					e = el.List
				default:
					e = []ast.Stmt{el}
				}
				s1, s2 := run(a.Body.List, s), run(e, s)
				if s1.rec != s2.rec || s1.vals != s2.vals || strings.Join(s1.types, ",") != strings.Join(s2.types, ",") {
					c.fail(a, "%s: the two branches of the if yield different numbers/types of metrics", fn)
				}
				s = s1
			case *ast.EmptyStmt:
			default:
				c.fail(x, "%s: statement of kind %T in a case arm is not understood", fn, x)
			}
		}
		return s
	}
	t := &ftTable{coqName: "extract", comment: rel + " " + fn, armType: "yield"}
	var types []string
	c.clauses(fn, sw, t, "Y 0", func(cl *ast.CaseClause, labels [][2]interface{}) []string {
		s := run(cl.Body, st{})
		if s.rec {
			if s.vals != 0 || len(s.types) != 0 {
				c.fail(cl, "%s: a recursive arm that also appends metrics is not understood", fn)
			}
			return ftSame("YRec", len(labels))
		}
		if s.vals != len(s.types) {
			c.fail(cl, "%s: the arm appends %d values but %d types", fn, s.vals, len(s.types))
		}
		var tl []string
		for _, n := range s.types {
			tl = append(tl, fmt.Sprintf("%d%%N", ftBsonTags[n]))
		}
		for _, l := range labels {
			types = append(types, fmt.Sprintf("(%d%%N, [%s])", l[1].(int), strings.Join(tl, "; ")))
		}
		if labels == nil && s.vals > 0 {
			c.fail(cl, "%s: a default arm that appends metrics is not understood", fn)
		}
		return ftSame(fmt.Sprintf("Y %d", s.vals), len(labels))
	})
	t.extra = "(* the types recorded in metrics.types by each non-recursive arm (case label, recorded types) *)\n" +
		"Definition extract_types : list (N * list N) := [\n  " + strings.Join(types, ";\n  ") + "\n].\n"
	return t
}

// wantLoopCalling: function `name` of file rel contains a for loop that calls `callee`.
func (c *ftCtx) wantLoopCalling(rel, name, callee string) {
	fd := c.funcDecl(rel, "", name)
	ok := false
	ast.Inspect(fd.Body, func(n ast.Node) bool {
		var body *ast.BlockStmt
		switch l := n.(type) {
		case *ast.ForStmt:
			body = l.Body
		case *ast.RangeStmt:
			body = l.Body
		}
		if body != nil {
			ast.Inspect(body, func(m ast.Node) bool {
				if e, isE := m.(ast.Expr); isE && ftCallName(e) == callee {
					ok = true
				}
				return true
			})
		}
		return true
	})
	if !ok {
		c.fail(fd, "%s no longer loops over its elements calling %s (the recursive arms are not understood)", name, callee)
	}
}

// metricForType: every arm ends in a return; each return is `[]Metric{ {...}, ... }` (n metrics, each
// with originalType: <switch tag> or bsontype.X) or metricForArray(...)/metricForDocument(...).
func (c *ftCtx) metricTable() *ftTable {
	const rel, fn = "bson_metric.go", "metricForType"
	fd := c.funcDecl(rel, "", fn)
	ps := c.wantParams(fd, "string", "[]string", "*birch.Value")
	sw := c.theSwitch(fd)
	tagSrc := ps[2] + ".Type()"
	c.wantTag(fd, sw, tagSrc)
	if fd.Body.List[len(fd.Body.List)-1] != ast.Stmt(sw) {
		c.fail(sw, "%s: the switch is not the last statement of the function", fn)
	}
	c.wantLoopCalling(rel, "metricForArray", fn)
	c.wantLoopCalling(rel, "metricForDocument", fn)
	t := &ftTable{coqName: "metric", comment: rel + " " + fn, armType: "yield"}
	var types []string
	c.clauses(fn, sw, t, "", func(cl *ast.CaseClause, labels [][2]interface{}) []string {
		rets := c.armReturns(fn, cl.Body, true)
		res := ""
		var origs []string // "" = the switch tag
		for i, r := range rets {
			if len(r.Results) != 1 {
				c.fail(r, "%s: return with %d results", fn, len(r.Results))
			}
			var this string
			var o []string
			if cn := ftCallName(r.Results[0]); cn == "metricForArray" || cn == "metricForDocument" {
				this = "YRec"
			} else if lit, ok := r.Results[0].(*ast.CompositeLit); ok && c.src(lit.Type) == "[]Metric" {
				this = fmt.Sprintf("Y %d", len(lit.Elts))
				for _, el := range lit.Elts {
					ml, ok := el.(*ast.CompositeLit)
					if !ok {
						c.fail(el, "%s: element of the []Metric literal is not a struct literal", fn)
					}
					orig := "?"
					for _, f := range ml.Elts {
						kv, ok := f.(*ast.KeyValueExpr)
						if !ok {
							c.fail(f, "%s: positional Metric literal is not understood", fn)
						}
						if ftIsIdent(kv.Key, "originalType") {
							if c.src(kv.Value) == tagSrc {
								orig = ""
							} else {
								orig, _ = c.bsonLabel(kv.Value)
							}
						}
					}
					if orig == "?" {
						c.fail(ml, "%s: Metric literal without originalType", fn)
					}
					o = append(o, orig)
				}
			} else {
				c.fail(r, "%s: `%s` is neither a []Metric literal nor a recursive call", fn, c.src(r))
			}
			if i > 0 && (this != res || strings.Join(o, ",") != strings.Join(origs, ",")) {
				c.fail(r, "%s: the returns of one arm disagree (%s vs %s)", fn, res, this)
			}
			res, origs = this, o
		}
		if res != "YRec" {
			if labels == nil && len(origs) > 0 {
				c.fail(cl, "%s: a default arm that yields metrics is not understood", fn)
			}
			for _, l := range labels {
				var tl []string
				for _, o := range origs {
					tg := l[1].(int)
					if o != "" {
						tg = ftBsonTags[o]
					}
					tl = append(tl, fmt.Sprintf("%d%%N", tg))
				}
				types = append(types, fmt.Sprintf("(%d%%N, [%s])", l[1].(int), strings.Join(tl, "; ")))
			}
		}
		return ftSame(res, len(labels))
	})
	t.extra = "(* originalType of the metrics each non-recursive arm returns (case label, types) *)\n" +
		"Definition metric_types : list (N * list N) := [\n  " + strings.Join(types, ";\n  ") + "\n].\n"
	return t
}

// metricKeyHashValue: every arm ends in a return of an integer literal or of
// metricKeyHashArray(...)/metricKeyHashDocument(...).
func (c *ftCtx) hashTable() *ftTable {
	const rel, fn = "bson_hash.go", "metricKeyHashValue"
	fd := c.funcDecl(rel, "", fn)
	ps := c.wantParams(fd, "hash.Hash", "string", "*birch.Value")
	sw := c.theSwitch(fd)
	c.wantTag(fd, sw, ps[2]+".Type()")
	if fd.Body.List[len(fd.Body.List)-1] != ast.Stmt(sw) {
		c.fail(sw, "%s: the switch is not the last statement of the function", fn)
	}
	c.wantLoopCalling(rel, "metricKeyHashArray", fn)
	c.wantLoopCalling(rel, "metricKeyHashDocument", fn)
	t := &ftTable{coqName: "hash", comment: rel + " " + fn, armType: "yield"}
	c.clauses(fn, sw, t, "", func(cl *ast.CaseClause, labels [][2]interface{}) []string {
		rets := c.armReturns(fn, cl.Body, true)
		res := ""
		for i, r := range rets {
			if len(r.Results) != 1 {
				c.fail(r, "%s: return with %d results", fn, len(r.Results))
			}
			var this string
			if cn := ftCallName(r.Results[0]); cn == "metricKeyHashArray" || cn == "metricKeyHashDocument" {
				this = "YRec"
			} else if lit, ok := r.Results[0].(*ast.BasicLit); ok && lit.Kind == token.INT {
				n, err := strconv.ParseInt(lit.Value, 0, 32)
				if err != nil || n < 0 {
					c.fail(r, "%s: return value %s", fn, lit.Value)
				}
				this = fmt.Sprintf("Y %d", n)
			} else {
				c.fail(r, "%s: `%s` is neither an integer literal nor a recursive call", fn, c.src(r))
			}
			if i > 0 && this != res {
				c.fail(r, "%s: the returns of one arm disagree (%s vs %s)", fn, res, this)
			}
			res = this
		}
		return ftSame(res, len(labels))
	})
	return t
}

// ---------------------------------------------------------------- consumers

func ftNatList(xs []int) string {
	sort.Ints(xs)
	var out []string
	for i, x := range xs {
		if i > 0 && xs[i-1] == x {
			continue
		}
		out = append(out, strconv.Itoa(x))
	}
	return "[" + strings.Join(out, "; ") + "]"
}

// offsetOf: e is `base` (0) or `base + k` (k).
func (c *ftCtx) offsetOf(e ast.Expr, base string) (int, bool) {
	if ftIsIdent(e, base) {
		return 0, true
	}
	if b, ok := e.(*ast.BinaryExpr); ok && b.Op == token.ADD && ftIsIdent(b.X, base) {
		if lit, ok := b.Y.(*ast.BasicLit); ok && lit.Kind == token.INT {
			n, err := strconv.Atoi(lit.Value)
			if err == nil && n >= 0 {
				return n, true
			}
		}
	}
	return 0, false
}

// indexReads: the offsets k of every index expression arr[base+k] below the nodes.
func (c *ftCtx) indexReads(fn string, nodes []ast.Stmt, arr, base string) []int {
	var out []int
	for _, n := range nodes {
		ast.Inspect(n, func(x ast.Node) bool {
			ix, ok := x.(*ast.IndexExpr)
			if !ok || !ftIsIdent(ix.X, arr) {
				return true
			}
			k, ok := c.offsetOf(ix.Index, base)
			if !ok {
				c.fail(ix, "%s: index expression `%s` is not %s[%s] or %s[%s+k]", fn, c.src(ix), arr, base, arr, base)
			}
			out = append(out, k)
			return true
		})
	}
	return out
}

func ftContainsCall(nodes []ast.Stmt, names ...string) bool {
	found := false
	for _, n := range nodes {
		ast.Inspect(n, func(x ast.Node) bool {
			if e, ok := x.(ast.Expr); ok {
				cn := ftCallName(e)
				for _, nm := range names {
					if cn == nm {
						found = true
					}
				}
			}
			return true
		})
	}
	return found
}

// restoreElement(ref, sample, metrics, idx). Arms:
//
//	all returns `nil, idx`                                   CSkip
//	all returns `birch.EC.<C>(...), idx + k` (same C, k)       CLeaf k reads C    (reads: metrics[idx+j] seen)
//	contains `x, idx = restoreElement|restoreDocument(..., idx)` and ends in `return birch.EC.<C>(...), idx`
//	    (other returns of the arm may be `nil, 0`)             CRec C
func (c *ftCtx) restoreTable() *ftTable {
	const rel, fn = "bson_restore.go", "restoreElement"
	fd := c.funcDecl(rel, "", fn)
	ps := c.wantParams(fd, "*birch.Element", "int", "[]Metric", "int")
	ref, metrics, idx := ps[0], ps[2], ps[3]
	sw := c.theSwitch(fd)
	c.wantTag(fd, sw, ref+".Value().Type()")
	if fd.Body.List[len(fd.Body.List)-1] != ast.Stmt(sw) {
		c.fail(sw, "%s: the switch is not the last statement of the function", fn)
	}
	c.wantLoopCalling(rel, "restoreDocument", fn)
	t := &ftTable{coqName: "restore", comment: rel + " " + fn, armType: "carm"}
	c.clauses(fn, sw, t, "", func(cl *ast.CaseClause, labels [][2]interface{}) []string {
		rets := c.armReturns2(fn, cl.Body)
		rec := ftContainsCall(cl.Body, "restoreElement", "restoreDocument")
		if rec {
			// every recursive call threads idx: `_, idx = f(..., idx)`
			okThread := false
			for _, s := range cl.Body {
				ast.Inspect(s, func(x ast.Node) bool {
					as, ok := x.(*ast.AssignStmt)
					if !ok || len(as.Rhs) != 1 {
						return true
					}
					cn := ftCallName(as.Rhs[0])
					if cn != "restoreElement" && cn != "restoreDocument" {
						return true
					}
					call := as.Rhs[0].(*ast.CallExpr)
					if len(as.Lhs) != 2 || !ftIsIdent(as.Lhs[1], idx) || as.Tok != token.ASSIGN ||
						!ftIsIdent(call.Args[len(call.Args)-1], idx) {
						c.fail(as, "%s: the recursive call does not thread %s (`x, %s = f(..., %s)`)", fn, idx, idx, idx)
					}
					okThread = true
					return true
				})
			}
			if !okThread {
				c.fail(cl, "%s: recursive call whose result is not assigned to %s", fn, idx)
			}
			last := rets[len(rets)-1]
			ctor, _, ok := c.ecCtor(last.Results[0])
			if !ok || !ftIsIdent(last.Results[1], idx) {
				c.fail(last, "%s: a recursive arm must end in `return birch.EC.<ctor>(...), %s`", fn, idx)
			}
			tg, known := ftCtorTags[ctor]
			if !known {
				c.fail(last, "%s: unknown element constructor birch.EC.%s", fn, ctor)
			}
			for _, r := range rets[:len(rets)-1] {
				if c.src(r.Results[0]) != "nil" {
					c.fail(r, "%s: early return of a recursive arm is not `nil, ...`", fn)
				}
			}
			if len(c.indexReads(fn, cl.Body, metrics, idx)) > 0 {
				c.fail(cl, "%s: a recursive arm that reads %s directly is not understood", fn, metrics)
			}
			return ftSame(fmt.Sprintf("CRec %d%%N", tg), len(labels))
		}
		res := ""
		for i, r := range rets {
			var this string
			if c.src(r.Results[0]) == "nil" {
				if !ftIsIdent(r.Results[1], idx) {
					c.fail(r, "%s: `%s`: a skipped element must leave %s unchanged", fn, c.src(r), idx)
				}
				this = "CSkip"
			} else if ctor, _, ok := c.ecCtor(r.Results[0]); ok {
				tg, known := ftCtorTags[ctor]
				if !known {
					c.fail(r, "%s: unknown element constructor birch.EC.%s", fn, ctor)
				}
				k, ok := c.offsetOf(r.Results[1], idx)
				if !ok {
					c.fail(r, "%s: second result `%s` is not %s or %s + k", fn, c.src(r.Results[1]), idx, idx)
				}
				this = fmt.Sprintf("CLeaf %d %s (Some %d%%N)", k, ftNatList(c.indexReads(fn, cl.Body, metrics, idx)), tg)
			} else {
				c.fail(r, "%s: `%s` is not understood", fn, c.src(r))
			}
			if i > 0 && this != res {
				c.fail(r, "%s: the returns of one arm disagree (%s vs %s)", fn, res, this)
			}
			res = this
		}
		if res == "CSkip" && len(c.indexReads(fn, cl.Body, metrics, idx)) > 0 {
			c.fail(cl, "%s: an arm that skips the element reads %s", fn, metrics)
		}
		return ftSame(res, len(labels))
	})
	return t
}

// armReturns2: armReturns for two-result functions, loops allowed (restoreElement's array arm).
func (c *ftCtx) armReturns2(fn string, body []ast.Stmt) []*ast.ReturnStmt {
	var rets []*ast.ReturnStmt
	for _, s := range body {
		ast.Inspect(s, func(x ast.Node) bool {
			switch r := x.(type) {
			case *ast.FuncLit:
				c.fail(r, "%s: function literal in a case arm is not understood", fn)
			case *ast.ReturnStmt:
				if len(r.Results) != 2 {
					c.fail(r, "%s: return with %d results", fn, len(r.Results))
				}
				rets = append(rets, r)
			}
			return true
		})
	}
	if len(body) == 0 {
		c.fail(nil, "%s: an empty case arm is not understood here", fn)
	}
	if _, ok := body[len(body)-1].(*ast.ReturnStmt); !ok {
		c.fail(body[len(body)-1], "%s: the case arm does not end in a return", fn)
	}
	return rets
}

// restoreFlat(t, key, value): every return is `birch.EC.<C>(key, f(value)), true` (CLeaf 1 [0] C; the
// function is called once per metric slot) or `nil, false` (CSkip).
func (c *ftCtx) flatTable() *ftTable {
	const rel, fn = "bson_restore.go", "restoreFlat"
	fd := c.funcDecl(rel, "", fn)
	ps := c.wantParams(fd, "bsontype.Type", "string", "int64")
	sw := c.theSwitch(fd)
	c.wantTag(fd, sw, ps[0])
	if fd.Body.List[len(fd.Body.List)-1] != ast.Stmt(sw) {
		c.fail(sw, "%s: the switch is not the last statement of the function", fn)
	}
	// its caller hands it originalType and one value per metric
	c.wantCallShape("iterator_sample.go", "restoreFlat", []string{".originalType", "", ".Values["})
	t := &ftTable{coqName: "flat", comment: rel + " " + fn + " (called per metric with m.originalType by streamFlattenedDocuments)", armType: "carm"}
	c.clauses(fn, sw, t, "", func(cl *ast.CaseClause, labels [][2]interface{}) []string {
		rets := c.armReturns(fn, cl.Body, true)
		res := ""
		for i, r := range rets {
			if len(r.Results) != 2 {
				c.fail(r, "%s: return with %d results", fn, len(r.Results))
			}
			var this string
			if c.src(r.Results[0]) == "nil" && c.src(r.Results[1]) == "false" {
				this = "CSkip"
			} else if ctor, args, ok := c.ecCtor(r.Results[0]); ok && c.src(r.Results[1]) == "true" {
				tg, known := ftCtorTags[ctor]
				if !known {
					c.fail(r, "%s: unknown element constructor birch.EC.%s", fn, ctor)
				}
				if len(args) != 2 || !ftIsIdent(args[0], ps[1]) {
					c.fail(r, "%s: the element is not built with the key `%s`", fn, ps[1])
				}
				this = fmt.Sprintf("CLeaf 1 [0] (Some %d%%N)", tg)
			} else {
				c.fail(r, "%s: `%s` is not understood", fn, c.src(r))
			}
			if i > 0 && this != res {
				c.fail(r, "%s: the returns of one arm disagree (%s vs %s)", fn, res, this)
			}
			res = this
		}
		if strings.HasPrefix(res, "CLeaf") && !ftMentionsStmts(cl.Body, c, ps[2]) {
			c.fail(cl, "%s: the arm does not use `%s`", fn, ps[2])
		}
		return ftSame(res, len(labels))
	})
	return t
}

func ftMentionsStmts(list []ast.Stmt, c *ftCtx, printed string) bool {
	for _, s := range list {
		if ftMentions(s, c, printed) {
			return true
		}
	}
	return false
}

// wantCallSrc: file rel contains a call expression that prints as `want`.
func (c *ftCtx) wantCallSrc(rel, want string) {
	found := false
	ast.Inspect(c.file(rel), func(n ast.Node) bool {
		if call, ok := n.(*ast.CallExpr); ok && c.src(call) == want {
			found = true
		}
		return true
	})
	if !found {
		panic(ftErr{fmt.Sprintf("%s: the call `%s` was not found", rel, want)})
	}
}

// wantCallShape: some call of fn in the file has len(parts) arguments, and argument i contains parts[i] (the key
// argument of restoreFlat is left open: whether it is computed per sample or once per chunk is not a fact used here)
func (c *ftCtx) wantCallShape(rel, fn string, parts []string) {
	found := false
	ast.Inspect(c.file(rel), func(n ast.Node) bool {
		call, ok := n.(*ast.CallExpr)
		if !ok || c.src(call.Fun) != fn || len(call.Args) != len(parts) {
			return true
		}
		all := true
		for i, a := range call.Args {
			if !strings.Contains(c.src(a), parts[i]) {
				all = false
			}
		}
		if all {
			found = true
		}
		return true
	})
	if !found {
		panic(ftErr{fmt.Sprintf("%s: no call of %s with arguments of the shape %q was found", rel, fn, parts)})
	}
}

// rehydrateMatrix(metrics, sample): arms consist of `for ... range metrics[sample].Values { array.AppendInterface(e) }`
// loops and `sample++`; an arm may instead return an error (CErr). slots = sample++ in the arm + sample++ after the switch.
func (c *ftCtx) matrixTable() *ftTable {
	const rel, fn = "bson_matrix.go", "rehydrateMatrix"
	fd := c.funcDecl(rel, "", fn)
	ps := c.wantParams(fd, "[]Metric", "int")
	metrics, sample := ps[0], ps[1]
	sw := c.theSwitch(fd)
	c.wantTag(fd, sw, metrics+"["+sample+"].originalType")
	after := -1
	for i, s := range fd.Body.List {
		if s == ast.Stmt(sw) {
			after = i + 1
		}
	}
	if after < 0 {
		c.fail(sw, "%s: the switch is not a top-level statement of the function", fn)
	}
	isInc := func(s ast.Stmt) bool {
		x, ok := s.(*ast.IncDecStmt)
		return ok && x.Tok == token.INC && ftIsIdent(x.X, sample)
	}
	trailing := 0
	for i, s := range fd.Body.List[after:] {
		if isInc(s) {
			trailing++
			continue
		}
		ret, ok := s.(*ast.ReturnStmt)
		if !ok || after+i != len(fd.Body.List)-1 || len(ret.Results) != 3 || !ftIsIdent(ret.Results[1], sample) || c.src(ret.Results[2]) != "nil" {
			c.fail(s, "%s: after the switch only `%s++` and the final `return elem, %s, nil` are understood", fn, sample, sample)
		}
		if ctor, _, ok := c.ecCtor(ret.Results[0]); !ok || ctor != "Array" {
			c.fail(s, "%s: the final return does not build birch.EC.Array", fn)
		}
	}
	// before the switch sample must not change
	for _, s := range fd.Body.List[:after-1] {
		ast.Inspect(s, func(x ast.Node) bool {
			switch a := x.(type) {
			case *ast.IncDecStmt:
				if ftIsIdent(a.X, sample) {
					c.fail(a, "%s: %s changes before the switch", fn, sample)
				}
			case *ast.AssignStmt:
				for _, l := range a.Lhs {
					if ftIsIdent(l, sample) {
						c.fail(a, "%s: %s changes before the switch", fn, sample)
					}
				}
			}
			return true
		})
	}
	t := &ftTable{coqName: "matrix", comment: rel + " " + fn, armType: "carm"}
	c.clauses(fn, sw, t, "", func(cl *ast.CaseClause, labels [][2]interface{}) []string {
		incs, appends, returns := 0, 0, false
		for i, s := range cl.Body {
			switch x := s.(type) {
			case *ast.IncDecStmt:
				if !isInc(s) {
					c.fail(s, "%s: `%s` is not understood", fn, c.src(s))
				}
				incs++
			case *ast.RangeStmt:
				if c.src(x.X) != metrics+"["+sample+"].Values" {
					c.fail(x, "%s: the loop does not range over %s[%s].Values", fn, metrics, sample)
				}
				if len(x.Body.List) != 1 {
					c.fail(x, "%s: loop body with %d statements is not understood", fn, len(x.Body.List))
				}
				es, ok := x.Body.List[0].(*ast.ExprStmt)
				if !ok || !strings.HasPrefix(c.src(es.X), "array.AppendInterface(") {
					c.fail(x.Body.List[0], "%s: loop body is not array.AppendInterface(...)", fn)
				}
				appends++
			case *ast.ReturnStmt:
				if i != len(cl.Body)-1 || len(x.Results) != 3 || c.src(x.Results[2]) == "nil" {
					c.fail(x, "%s: a return inside an arm is only understood as a final error return", fn)
				}
				returns = true
			default:
				c.fail(s, "%s: statement of kind %T in a case arm is not understood", fn, s)
			}
		}
		if returns {
			if incs != 0 || appends != 0 {
				c.fail(cl, "%s: an arm that both consumes and fails is not understood", fn)
			}
			return ftSame("CErr", len(labels))
		}
		if appends != 1 {
			c.fail(cl, "%s: an arm with %d append loops is not understood", fn, appends)
		}
		reads := append([]int{0}, c.indexReads(fn, cl.Body, metrics, sample)...)
		return ftSame(fmt.Sprintf("CLeaf %d %s None", incs+trailing, ftNatList(reads)), len(labels))
	})
	return t
}

// (m *Metric) getSeries(): arms are `out := make([]T, len(m.Values))` ... `return out` (CLeaf 1 [0] T)
// or `return nil` (CSkip).
func (c *ftCtx) seriesTable() *ftTable {
	const rel, fn = "iterator_matrix.go", "getSeries"
	fd := c.funcDecl(rel, "Metric", fn)
	m := ftRecvName(fd)
	c.wantParams(fd)
	sw := c.theSwitch(fd)
	c.wantTag(fd, sw, m+".originalType")
	if fd.Body.List[len(fd.Body.List)-1] != ast.Stmt(sw) {
		c.fail(sw, "%s: the switch is not the last statement of the function", fn)
	}
	t := &ftTable{coqName: "series", comment: rel + " Metric." + fn + " (per metric)", armType: "carm"}
	c.clauses(fn, sw, t, "", func(cl *ast.CaseClause, labels [][2]interface{}) []string {
		if len(cl.Body) == 0 {
			c.fail(cl, "%s: empty arm", fn)
		}
		last, ok := cl.Body[len(cl.Body)-1].(*ast.ReturnStmt)
		if !ok || len(last.Results) != 1 {
			c.fail(cl.Body[len(cl.Body)-1], "%s: the arm does not end in a one-value return", fn)
		}
		for _, s := range cl.Body[:len(cl.Body)-1] {
			ast.Inspect(s, func(x ast.Node) bool {
				if r, ok := x.(*ast.ReturnStmt); ok {
					c.fail(r, "%s: early return in an arm is not understood", fn)
				}
				return true
			})
		}
		if c.src(last.Results[0]) == "nil" {
			if len(cl.Body) != 1 {
				c.fail(cl, "%s: an arm returning nil with other statements is not understood", fn)
			}
			return ftSame("CSkip", len(labels))
		}
		out, ok := last.Results[0].(*ast.Ident)
		if !ok {
			c.fail(last, "%s: the arm does not return a variable", fn)
		}
		as, ok := cl.Body[0].(*ast.AssignStmt)
		if !ok || as.Tok != token.DEFINE || len(as.Lhs) != 1 || !ftIsIdent(as.Lhs[0], out.Name) {
			c.fail(cl.Body[0], "%s: the arm does not start with `%s := make([]T, len(%s.Values))`", fn, out.Name, m)
		}
		mk, ok := as.Rhs[0].(*ast.CallExpr)
		if !ok || !ftIsIdent(mk.Fun, "make") || len(mk.Args) != 2 || c.src(mk.Args[1]) != "len("+m+".Values)" {
			c.fail(as, "%s: `%s` is not make([]T, len(%s.Values))", fn, c.src(as), m)
		}
		at, ok := mk.Args[0].(*ast.ArrayType)
		if !ok || at.Len != nil {
			c.fail(as, "%s: the series is not a slice", fn)
		}
		tg, known := ftGoElemTags[c.src(at.Elt)]
		if !known {
			c.fail(as, "%s: series element type %s is not understood", fn, c.src(at.Elt))
		}
		if !ftMentionsStmts(cl.Body[1:], c, m+".Values") {
			c.fail(cl, "%s: the arm does not copy %s.Values", fn, m)
		}
		return ftSame(fmt.Sprintf("CLeaf 1 [0] (Some %d%%N)", tg), len(labels))
	})
	return t
}

// (c *Chunk) getRecord(i): inside `for idx, m := range c.Metrics`, arms are `fields[idx] = f(m.Values[i])`
// (CLeaf 1 [0] None) or empty (CSkip); no default clause = CSkip (the field stays empty).
func (c *ftCtx) csvTable() *ftTable {
	const rel, fn = "csv.go", "getRecord"
	fd := c.funcDecl(rel, "Chunk", fn)
	recv := ftRecvName(fd)
	ps := c.wantParams(fd, "int")
	sw := c.theSwitch(fd)
	var loop *ast.RangeStmt
	for _, s := range fd.Body.List {
		if r, ok := s.(*ast.RangeStmt); ok && len(r.Body.List) == 1 && r.Body.List[0] == ast.Stmt(sw) {
			loop = r
		}
	}
	if loop == nil || c.src(loop.X) != recv+".Metrics" || loop.Key == nil || loop.Value == nil {
		c.fail(sw, "%s: the switch is not the body of `for idx, m := range %s.Metrics`", fn, recv)
	}
	idx, m := c.src(loop.Key), c.src(loop.Value)
	c.wantTag(fd, sw, m+".originalType")
	t := &ftTable{coqName: "csv", comment: rel + " Chunk." + fn + " (per metric)", armType: "carm"}
	c.clauses(fn, sw, t, "CSkip", func(cl *ast.CaseClause, labels [][2]interface{}) []string {
		if len(cl.Body) == 0 {
			return ftSame("CSkip", len(labels))
		}
		as, ok := cl.Body[0].(*ast.AssignStmt)
		if len(cl.Body) != 1 || !ok || as.Tok != token.ASSIGN || len(as.Lhs) != 1 || len(as.Rhs) != 1 ||
			c.src(as.Lhs[0]) != "fields["+idx+"]" {
			c.fail(cl, "%s: the arm is not a single `fields[%s] = ...`", fn, idx)
		}
		if !ftMentions(as.Rhs[0], c, m+".Values["+ps[0]+"]") {
			c.fail(as, "%s: the field is not computed from %s.Values[%s]", fn, m, ps[0])
		}
		return ftSame("CLeaf 1 [0] None", len(labels))
	})
	return t
}

func ftTypeTablesV(c *ftCtx) []byte {
	tables := []*ftTable{c.extractTable(), c.metricTable(), c.hashTable(), c.restoreTable(), c.flatTable(),
		c.matrixTable(), c.seriesTable(), c.csvTable()}
	var b bytes.Buffer
	b.WriteString("(* GENERATED by `ftdcverif facts <repo> <out-dir>` (harness/facts.go) from the BSON type switches of\n")
	for _, t := range tables {
		b.WriteString("     " + t.comment + "\n")
	}
	b.WriteString("   Regenerated on every check run; do not edit. Obligations: Props/FactsTypes.v.\n")
	b.WriteString("   An entry is (bsontype constant, its BSON element type byte, what the case arm does). *)\n")
	b.WriteString("From Coq Require Import NArith List String.\nImport ListNotations.\nLocal Open Scope string_scope.\n\n")
	b.WriteString("(* producers: the arm yields n metrics / recurses into the elements of the container *)\n")
	b.WriteString("Inductive yield := Y (n : nat) | YRec.\n")
	b.WriteString("(* consumers: CLeaf slots reads ctor = consumes [slots] metric slots, reads the slots at the offsets [reads],\n")
	b.WriteString("   rebuilds a value of BSON type [ctor] (None: not a BSON element); CRec ctor = recurses, threading the index,\n")
	b.WriteString("   and rebuilds a container of type ctor; CSkip = no output, no slot consumed; CErr = returns an error *)\n")
	b.WriteString("Inductive carm := CLeaf (slots : nat) (reads : list nat) (ctor : option N) | CRec (ctor : N) | CSkip | CErr.\n\n")
	b.WriteString("(* birch/bsontype constants (the BSON specification's element type bytes) *)\n")
	b.WriteString("Definition bsontype_tags : list (string * N) := [\n")
	var names []string
	for n := range ftBsonTags {
		names = append(names, n)
	}
	sort.Slice(names, func(i, j int) bool { return ftBsonTags[names[i]] < ftBsonTags[names[j]] })
	for i, n := range names {
		sep := ";"
		if i == len(names)-1 {
			sep = ""
		}
		fmt.Fprintf(&b, "  (\"%s\", %d%%N)%s\n", n, ftBsonTags[n], sep)
	}
	b.WriteString("].\n\n")
	for _, t := range tables {
		fmt.Fprintf(&b, "(* %s *)\n", t.comment)
		fmt.Fprintf(&b, "Definition %s_table : list (string * N * %s) := [\n", t.coqName, t.armType)
		for i, a := range t.arms {
			sep := ";"
			if i == len(t.arms)-1 {
				sep = ""
			}
			fmt.Fprintf(&b, "  (\"%s\", %d%%N, %s)%s\n", a.name, a.tag, a.arm, sep)
		}
		b.WriteString("].\n")
		fmt.Fprintf(&b, "Definition %s_default : %s := %s.\n", t.coqName, t.armType, t.dflt)
		if t.extra != "" {
			b.WriteString(t.extra)
		}
		b.WriteString("\n")
	}
	return b.Bytes()
}

// ---------------------------------------------------------------- PerfKeys

type ftKey struct {
	path  []string // key literals from the top-level document down
	field string   // selector path below the receiver, e.g. "Counters.Operations"
	tag   int      // BSON type written / read (3 = sub-document); -1 = unknown (struct tags)
}

// birch.EC.<ctor> used by MarshalDocument -> BSON type written
var ftMarshalKinds = map[string]int{"Time": 0x09, "Int64": 0x12, "Duration": 0x12, "Boolean": 0x08, "Int32": 0x10, "Double": 0x01}

// elem.Value().<accessor>() used by UnmarshalDocument -> BSON type required (the accessor panics otherwise)
var ftAccessorKinds = map[string]int{"Time": 0x09, "Int64": 0x12, "Boolean": 0x08, "Int32": 0x10, "Double": 0x01}

func (c *ftCtx) strLit(e ast.Expr) string {
	lit, ok := e.(*ast.BasicLit)
	if !ok || lit.Kind != token.STRING {
		c.fail(e, "`%s` is not a string literal", c.src(e))
	}
	s, err := strconv.Unquote(lit.Value)
	if err != nil {
		c.fail(e, "string literal %s: %v", lit.Value, err)
	}
	if s == "" {
		c.fail(e, "empty key")
	}
	for i := 0; i < len(s); i++ {
		if s[i] == 0 {
			c.fail(e, "key with a NUL byte")
		}
	}
	return s
}

// fieldPath: recv.A.B -> "A.B"
func (c *ftCtx) fieldPath(e ast.Expr, recv string) string {
	var parts []string
	for {
		s, ok := e.(*ast.SelectorExpr)
		if !ok {
			break
		}
		parts = append([]string{s.Sel.Name}, parts...)
		e = s.X
	}
	if !ftIsIdent(e, recv) || len(parts) == 0 {
		c.fail(e, "expected a field of the receiver %s", recv)
	}
	return strings.Join(parts, ".")
}

// dcElements: birch.DC.Elements(e1, ..., en) -> the element expressions
func (c *ftCtx) dcElements(e ast.Expr) []ast.Expr {
	call, ok := e.(*ast.CallExpr)
	if !ok || c.src(call.Fun) != "birch.DC.Elements" || call.Ellipsis != token.NoPos {
		c.fail(e, "expected birch.DC.Elements(...)")
	}
	return call.Args
}

func (c *ftCtx) marshalElems(elems []ast.Expr, recv string, prefix []string) []ftKey {
	var out []ftKey
	for _, e := range elems {
		ctor, args, ok := c.ecCtor(e)
		if !ok || len(args) != 2 {
			c.fail(e, "MarshalDocument: element `%s` is not birch.EC.<ctor>(\"key\", value)", c.src(e))
		}
		key := c.strLit(args[0])
		path := append(append([]string{}, prefix...), key)
		if ctor == "SubDocument" {
			sub := c.marshalElems(c.dcElements(args[1]), recv, path)
			if len(sub) == 0 {
				c.fail(e, "MarshalDocument: empty sub-document")
			}
			// the field the sub-document stands for: the common parent of its children's fields
			depth := len(path)
			parent := ""
			for _, k := range sub {
				fs := strings.Split(k.field, ".")
				if len(fs) <= depth {
					c.fail(e, "MarshalDocument: sub-document %q marshals %s, which is not nested deep enough", key, k.field)
				}
				p := strings.Join(fs[:depth], ".")
				if parent != "" && p != parent {
					c.fail(e, "MarshalDocument: sub-document %q mixes fields of %s and %s", key, parent, p)
				}
				parent = p
			}
			out = append(out, ftKey{path, parent, 0x03})
			out = append(out, sub...)
			continue
		}
		tg, known := ftMarshalKinds[ctor]
		if !known {
			c.fail(e, "MarshalDocument: element constructor birch.EC.%s is not understood", ctor)
		}
		out = append(out, ftKey{path, c.fieldPath(args[1], recv), tg})
	}
	return out
}

func (c *ftCtx) marshalKeys(rel string) []ftKey {
	fd := c.funcDecl(rel, "Performance", "MarshalDocument")
	recv := ftRecvName(fd)
	if len(fd.Body.List) != 1 {
		c.fail(fd, "MarshalDocument: body with %d statements is not understood", len(fd.Body.List))
	}
	ret, ok := fd.Body.List[0].(*ast.ReturnStmt)
	if !ok || len(ret.Results) != 2 || c.src(ret.Results[1]) != "nil" {
		c.fail(fd.Body.List[0], "MarshalDocument: expected `return birch.DC.Elements(...), nil`")
	}
	return c.marshalElems(c.dcElements(ret.Results[0]), recv, nil)
}

// structFields: field name -> (printed type, bson tag) of a struct type of the file, in order
type ftField struct{ name, typ, bson string }

func (c *ftCtx) structFields(rel, name string) []ftField {
	for _, d := range c.file(rel).Decls {
		gd, ok := d.(*ast.GenDecl)
		if !ok {
			continue
		}
		for _, sp := range gd.Specs {
			ts, ok := sp.(*ast.TypeSpec)
			if !ok || ts.Name.Name != name {
				continue
			}
			st, ok := ts.Type.(*ast.StructType)
			if !ok {
				c.fail(ts, "%s is not a struct type", name)
			}
			var out []ftField
			for _, f := range st.Fields.List {
				if len(f.Names) == 0 {
					c.fail(f, "%s: embedded field is not understood", name)
				}
				bs := ""
				if f.Tag != nil {
					raw, err := strconv.Unquote(f.Tag.Value)
					if err != nil {
						c.fail(f, "struct tag: %v", err)
					}
					bs = ftTagLookup(raw, "bson")
				}
				for _, n := range f.Names {
					out = append(out, ftField{n.Name, c.src(f.Type), bs})
				}
			}
			return out
		}
	}
	panic(ftErr{fmt.Sprintf("%s: struct type %s not found", rel, name)})
}

// ftTagLookup: reflect.StructTag.Get without importing reflect's conventions blindly
func ftTagLookup(tag, key string) string {
	for tag != "" {
		i := 0
		for i < len(tag) && tag[i] == ' ' {
			i++
		}
		tag = tag[i:]
		if tag == "" {
			break
		}
		i = 0
		for i < len(tag) && tag[i] > ' ' && tag[i] != ':' && tag[i] != '"' {
			i++
		}
		if i == 0 || i+1 >= len(tag) || tag[i] != ':' || tag[i+1] != '"' {
			break
		}
		name := tag[:i]
		tag = tag[i+1:]
		i = 1
		for i < len(tag) && tag[i] != '"' {
			if tag[i] == '\\' {
				i++
			}
			i++
		}
		if i >= len(tag) {
			break
		}
		q := tag[:i+1]
		tag = tag[i+1:]
		if name == key {
			v, err := strconv.Unquote(q)
			if err != nil {
				return ""
			}
			if j := strings.Index(v, ","); j >= 0 {
				v = v[:j]
			}
			return v
		}
	}
	return ""
}

// unmarshalKeys: the cases of (typ).UnmarshalDocument, sub-documents flattened through the field types.
//
//	for iter.Next() { elem := iter.Element(); switch elem.Key() { case "k": <arm> ... } }
//	arm = `p.F = [T(]elem.Value().<Acc>()[)]`  |  `if err := p.F.UnmarshalDocument(elem.Value().MutableDocument()); err != nil { return ... }`
func (c *ftCtx) unmarshalKeys(rel, typ string, prefix []string, fprefix string, depth int) []ftKey {
	if depth > 8 {
		panic(ftErr{"UnmarshalDocument: nesting deeper than 8 (recursive types?)"})
	}
	fd := c.funcDecl(rel, typ, "UnmarshalDocument")
	fn := typ + ".UnmarshalDocument"
	recv := ftRecvName(fd)
	sw := c.theSwitch(fd)
	// the element variable
	tagCall, ok := sw.Tag.(*ast.CallExpr)
	var elem string
	if ok && len(tagCall.Args) == 0 {
		if s, ok := tagCall.Fun.(*ast.SelectorExpr); ok && s.Sel.Name == "Key" {
			if id, ok := s.X.(*ast.Ident); ok {
				elem = id.Name
			}
		}
	}
	if elem == "" {
		c.fail(sw, "%s: the switch is over `%s`, expected `<elem>.Key()`", fn, c.src(sw.Tag))
	}
	// shape: the switch is the last statement of a `for iter.Next()` whose body first binds elem := iter.Element()
	var loop *ast.ForStmt
	for _, s := range fd.Body.List {
		if f, ok := s.(*ast.ForStmt); ok && len(f.Body.List) > 0 && f.Body.List[len(f.Body.List)-1] == ast.Stmt(sw) {
			loop = f
		}
	}
	if loop == nil || loop.Init != nil || loop.Post != nil || loop.Cond == nil || !strings.HasSuffix(c.src(loop.Cond), ".Next()") {
		c.fail(sw, "%s: the switch is not the last statement of a `for iter.Next()` loop at the top of the function", fn)
	}
	iter := strings.TrimSuffix(c.src(loop.Cond), ".Next()")
	bound := false
	for _, s := range loop.Body.List[:len(loop.Body.List)-1] {
		if c.src(s) == elem+" := "+iter+".Element()" {
			bound = true
		} else {
			c.fail(s, "%s: statement `%s` before the switch is not understood", fn, c.src(s))
		}
	}
	if !bound {
		c.fail(loop, "%s: `%s := %s.Element()` not found", fn, elem, iter)
	}
	fields := map[string]string{}
	for _, f := range c.structFields(rel, typ) {
		fields[f.name] = f.typ
	}
	var out []ftKey
	seen := map[string]bool{}
	for _, st := range sw.Body.List {
		cl := st.(*ast.CaseClause)
		if cl.List == nil {
			c.fail(cl, "%s: a default clause is not understood", fn)
		}
		if len(cl.Body) != 1 {
			c.fail(cl, "%s: a case with %d statements is not understood", fn, len(cl.Body))
		}
		var field string
		var tg int
		var sub string
		switch x := cl.Body[0].(type) {
		case *ast.AssignStmt:
			if x.Tok != token.ASSIGN || len(x.Lhs) != 1 || len(x.Rhs) != 1 {
				c.fail(x, "%s: `%s` is not a single assignment", fn, c.src(x))
			}
			field = c.fieldPath(x.Lhs[0], recv)
			rhs := x.Rhs[0]
			// an optional conversion T(e)
			if call, ok := rhs.(*ast.CallExpr); ok && len(call.Args) == 1 {
				if _, isSel := call.Fun.(*ast.SelectorExpr); isSel && !strings.HasPrefix(c.src(call), elem+".Value().") {
					rhs = call.Args[0]
				} else if _, isId := call.Fun.(*ast.Ident); isId {
					rhs = call.Args[0]
				}
			}
			acc := ""
			if call, ok := rhs.(*ast.CallExpr); ok && len(call.Args) == 0 {
				if s, ok := call.Fun.(*ast.SelectorExpr); ok && c.src(s.X) == elem+".Value()" {
					acc = s.Sel.Name
				}
			}
			var known bool
			tg, known = ftAccessorKinds[acc]
			if !known {
				c.fail(x, "%s: `%s` is not <field> = [T(]%s.Value().<accessor>()[)] with a known accessor", fn, c.src(x), elem)
			}
		case *ast.IfStmt:
			as, ok := x.Init.(*ast.AssignStmt)
			if !ok || len(as.Rhs) != 1 || x.Else != nil || len(x.Body.List) != 1 {
				c.fail(x, "%s: this if statement is not understood", fn)
			}
			if _, ok := x.Body.List[0].(*ast.ReturnStmt); !ok {
				c.fail(x, "%s: the error branch does not return", fn)
			}
			call, ok := as.Rhs[0].(*ast.CallExpr)
			if !ok || len(call.Args) != 1 || c.src(call.Args[0]) != elem+".Value().MutableDocument()" {
				c.fail(x, "%s: expected <field>.UnmarshalDocument(%s.Value().MutableDocument())", fn, elem)
			}
			s, ok := call.Fun.(*ast.SelectorExpr)
			if !ok || s.Sel.Name != "UnmarshalDocument" {
				c.fail(x, "%s: expected a call of <field>.UnmarshalDocument", fn)
			}
			field = c.fieldPath(s.X, recv)
			tg = 0x03
			sub = strings.TrimPrefix(fields[field], "*")
			if sub == "" {
				c.fail(x, "%s: type of field %s not found", fn, field)
			}
		default:
			c.fail(cl.Body[0], "%s: statement of kind %T in a case is not understood", fn, cl.Body[0])
		}
		if _, ok := fields[strings.Split(field, ".")[0]]; !ok {
			c.fail(cl, "%s: %s is not a field of %s", fn, field, typ)
		}
		for _, l := range cl.List {
			key := c.strLit(l)
			if seen[key] {
				c.fail(l, "%s: duplicate case %q", fn, key)
			}
			seen[key] = true
			path := append(append([]string{}, prefix...), key)
			out = append(out, ftKey{path, fprefix + field, tg})
			if sub != "" {
				out = append(out, c.unmarshalKeys(rel, sub, path, fprefix+field+".", depth+1)...)
			}
		}
	}
	return out
}

// structTagKeys: the bson struct tags, nested struct types of the same file flattened.
func (c *ftCtx) structTagKeys(rel, typ string, prefix []string, fprefix string, depth int) []ftKey {
	if depth > 8 {
		panic(ftErr{"struct tags: nesting deeper than 8"})
	}
	var out []ftKey
	for _, f := range c.structFields(rel, typ) {
		if f.bson == "" || f.bson == "-" {
			panic(ftErr{fmt.Sprintf("%s: field %s.%s has no bson tag", rel, typ, f.name)})
		}
		path := append(append([]string{}, prefix...), f.bson)
		out = append(out, ftKey{path, fprefix + f.name, -1})
		if strings.HasPrefix(f.typ, "Performance") {
			out = append(out, c.structTagKeys(rel, f.typ, path, fprefix+f.name+".", depth+1)...)
		}
	}
	return out
}

func ftBytesLit(s string) string {
	if s == "" {
		return "[]"
	}
	parts := make([]string, len(s))
	for i := 0; i < len(s); i++ {
		parts[i] = strconv.Itoa(int(s[i]))
	}
	return "[" + strings.Join(parts, "; ") + "]%N"
}

func ftCoqString(c *ftCtx, s string) string {
	for i := 0; i < len(s); i++ {
		if s[i] < 0x20 || s[i] > 0x7e || s[i] == '"' {
			panic(ftErr{fmt.Sprintf("string %q cannot be written as a Coq string literal", s)})
		}
	}
	return "\"" + s + "\""
}

func ftPerfKeysV(c *ftCtx) []byte {
	const rel = "events/performance.go"
	mk := c.marshalKeys(rel)
	uk := c.unmarshalKeys(rel, "Performance", nil, "", 0)
	sk := c.structTagKeys(rel, "Performance", nil, "", 0)
	var b bytes.Buffer
	b.WriteString("(* GENERATED by `ftdcverif facts <repo> <out-dir>` (harness/facts.go) from " + rel + ":\n")
	b.WriteString("   the key literals of Performance.MarshalDocument, the `case` labels of the four UnmarshalDocument\n")
	b.WriteString("   methods (sub-documents flattened through the field types), the bson struct tags.\n")
	b.WriteString("   Regenerated on every check run; do not edit. Obligations: Props/FactsKeys.v.\n")
	b.WriteString("   An entry is (path of keys as ASCII bytes, Go field below the receiver, BSON type written / required;\n")
	b.WriteString("   3 = sub-document). *)\n")
	b.WriteString("From Coq Require Import NArith List String.\nImport ListNotations.\nLocal Open Scope string_scope.\n\n")
	emit := func(name, comment string, ks []ftKey, withTag bool) {
		fmt.Fprintf(&b, "(* %s *)\n", comment)
		if withTag {
			fmt.Fprintf(&b, "Definition %s : list (list (list N) * string * N) := [\n", name)
		} else {
			fmt.Fprintf(&b, "Definition %s : list (list (list N) * string) := [\n", name)
		}
		for i, k := range ks {
			var ps []string
			for _, p := range k.path {
				ps = append(ps, ftBytesLit(p))
			}
			sep := ";"
			if i == len(ks)-1 {
				sep = ""
			}
			if withTag {
				fmt.Fprintf(&b, "  ([%s], %s, %d%%N)%s  (* %s *)\n", strings.Join(ps, "; "), ftCoqString(c, k.field), k.tag, sep, ftCommentSafe(strings.Join(k.path, ".")))
			} else {
				fmt.Fprintf(&b, "  ([%s], %s)%s  (* %s *)\n", strings.Join(ps, "; "), ftCoqString(c, k.field), sep, ftCommentSafe(strings.Join(k.path, ".")))
			}
		}
		b.WriteString("].\n\n")
	}
	emit("marshal_keys", "Performance.MarshalDocument, in the order written", mk, true)
	emit("unmarshal_keys", "the four UnmarshalDocument switches, in case order", uk, true)
	emit("struct_tag_keys", "bson struct tags of Performance and its three sub-structs", sk, false)
	return b.Bytes()
}

func ftCommentSafe(s string) string {
	s = strings.ReplaceAll(s, "(*", "( *")
	s = strings.ReplaceAll(s, "*)", "* )")
	var out []byte
	for i := 0; i < len(s); i++ {
		if s[i] >= 0x20 && s[i] <= 0x7e && s[i] != '"' {
			out = append(out, s[i])
		} else {
			out = append(out, '?')
		}
	}
	return string(out)
}

// ---------------------------------------------------------------- Caps

type ftChanSite struct {
	rel, fn, target, elem string
	coqName, comment      string
}

// every make(chan ...) of these files must be one of these sites (a new channel is "not understood")
var ftChanSites = []ftChanSite{
	{"iterator_chunk.go", "ReadChunks", "pipe", "*Chunk", "chunk_pipe_cap", "ChunkIterator.pipe"},
	{"iterator_chunk.go", "ReadChunks", "ipc", "*birch.Document", "ipc_cap", "readDiagnostic -> readChunks (0 = unbuffered)"},
	{"iterator.go", "ReadMetrics", "pipe", "documentWithMetadata", "read_metrics_pipe_cap", "combinedIterator.pipe, flattened"},
	{"iterator.go", "ReadStructuredMetrics", "pipe", "documentWithMetadata", "read_structured_pipe_cap", "combinedIterator.pipe, structured"},
	{"iterator.go", "ReadMatrix", "pipe", "documentWithMetadata", "read_matrix_pipe_cap", "matrixIterator.pipe"},
	{"iterator.go", "ReadSeries", "pipe", "documentWithMetadata", "read_series_pipe_cap", "matrixIterator.pipe, reflect"},
	{"iterator_sample.go", "streamFlattenedDocuments", "out", "*birch.Document", "flat_stream_cap", "sampleIterator stream, flattened"},
	{"iterator_sample.go", "streamDocuments", "out", "*birch.Document", "structured_stream_cap", "sampleIterator stream, structured"},
	{"metrics/json.go", "getSource", "out", "*birch.Document", "json_out_cap", "CollectJSONOptions.getSource documents (0 = unbuffered)"},
	{"metrics/json.go", "getSource", "errs", "error", "json_errs_cap", "CollectJSONOptions.getSource errors"},
}

func (c *ftCtx) isMakeChan(e ast.Expr) (*ast.CallExpr, *ast.ChanType) {
	call, ok := e.(*ast.CallExpr)
	if !ok || !ftIsIdent(call.Fun, "make") || len(call.Args) == 0 {
		return nil, nil
	}
	ct, ok := call.Args[0].(*ast.ChanType)
	if !ok {
		return nil, nil
	}
	return call, ct
}

// constInt: integer constant expression of literals (+ - * / % << >> & | ^, parentheses, unary -)
func (c *ftCtx) constInt(e ast.Expr) constant.Value {
	switch x := e.(type) {
	case *ast.BasicLit:
		if x.Kind == token.INT {
			v := constant.MakeFromLiteral(x.Value, token.INT, 0)
			if v.Kind() == constant.Int {
				return v
			}
		}
	case *ast.ParenExpr:
		return c.constInt(x.X)
	case *ast.UnaryExpr:
		if x.Op == token.SUB || x.Op == token.ADD {
			return constant.UnaryOp(x.Op, c.constInt(x.X), 0)
		}
	case *ast.BinaryExpr:
		a, b := c.constInt(x.X), c.constInt(x.Y)
		switch x.Op {
		case token.SHL, token.SHR:
			n, ok := constant.Uint64Val(b)
			if !ok || n > 4096 {
				c.fail(e, "shift count %s", b)
			}
			return constant.Shift(a, x.Op, uint(n))
		case token.QUO:
			if constant.Sign(b) == 0 {
				c.fail(e, "division by zero")
			}
			return constant.BinaryOp(a, token.QUO_ASSIGN, b) // integer division
		case token.REM:
			if constant.Sign(b) == 0 {
				c.fail(e, "division by zero")
			}
			return constant.BinaryOp(a, x.Op, b)
		case token.ADD, token.SUB, token.MUL, token.AND, token.OR, token.XOR:
			return constant.BinaryOp(a, x.Op, b)
		}
	}
	c.fail(e, "`%s` is not an integer constant expression of literals", c.src(e))
	return nil
}

func (c *ftCtx) chanCaps() map[string]string {
	type found struct {
		fn, target string
		call       *ast.CallExpr
		ct         *ast.ChanType
	}
	byFile := map[string][]found{}
	var rels []string
	for _, s := range ftChanSites {
		if _, ok := byFile[s.rel]; !ok {
			byFile[s.rel] = nil
			rels = append(rels, s.rel)
		}
	}
	for _, rel := range rels {
		f := c.file(rel)
		placed := map[*ast.CallExpr]bool{}
		for _, d := range f.Decls {
			fd, ok := d.(*ast.FuncDecl)
			if !ok || fd.Body == nil {
				continue
			}
			ast.Inspect(fd.Body, func(n ast.Node) bool {
				switch x := n.(type) {
				case *ast.AssignStmt:
					if len(x.Lhs) == len(x.Rhs) {
						for i, r := range x.Rhs {
							if call, ct := c.isMakeChan(r); call != nil {
								id, ok := x.Lhs[i].(*ast.Ident)
								if !ok {
									c.fail(x, "make(chan) assigned to `%s` is not understood", c.src(x.Lhs[i]))
								}
								byFile[rel] = append(byFile[rel], found{fd.Name.Name, id.Name, call, ct})
								placed[call] = true
							}
						}
					}
				case *ast.KeyValueExpr:
					if call, ct := c.isMakeChan(x.Value); call != nil {
						id, ok := x.Key.(*ast.Ident)
						if !ok {
							c.fail(x, "make(chan) under the key `%s` is not understood", c.src(x.Key))
						}
						byFile[rel] = append(byFile[rel], found{fd.Name.Name, id.Name, call, ct})
						placed[call] = true
					}
				}
				return true
			})
		}
		ast.Inspect(f, func(n ast.Node) bool {
			if e, ok := n.(ast.Expr); ok {
				if call, _ := c.isMakeChan(e); call != nil && !placed[call] {
					c.fail(call, "make(chan ...) in a position that is not understood (not `x := make(...)` / `field: make(...)` inside a function)")
				}
			}
			return true
		})
	}
	out := map[string]string{}
	used := map[*ast.CallExpr]bool{}
	for _, s := range ftChanSites {
		var hit *found
		for i := range byFile[s.rel] {
			f := &byFile[s.rel][i]
			if f.fn == s.fn && f.target == s.target {
				if hit != nil {
					c.fail(f.call, "%s: two channels `%s` in %s", s.rel, s.target, s.fn)
				}
				hit = f
			}
		}
		if hit == nil {
			panic(ftErr{fmt.Sprintf("%s: channel `%s` of %s not found (make(chan %s, n))", s.rel, s.target, s.fn, s.elem)})
		}
		if hit.ct.Dir != ast.SEND|ast.RECV || c.src(hit.ct.Value) != s.elem {
			c.fail(hit.call, "%s.%s: channel type `%s`, expected chan %s", s.fn, s.target, c.src(hit.ct), s.elem)
		}
		cp := "0"
		switch len(hit.call.Args) {
		case 1:
		case 2:
			v := c.constInt(hit.call.Args[1])
			if constant.Sign(v) < 0 {
				c.fail(hit.call, "negative capacity")
			}
			cp = v.ExactString()
		default:
			c.fail(hit.call, "make with %d arguments", len(hit.call.Args))
		}
		out[s.coqName] = cp
		used[hit.call] = true
	}
	for _, rel := range rels {
		for _, f := range byFile[rel] {
			if !used[f.call] {
				c.fail(f.call, "channel `%s` of %s is not in the translator's site list (a new channel: not understood)", f.target, f.fn)
			}
		}
	}
	return out
}

// constDecl: the value of package-level `const name [T] = <integer constant expression of literals>`
func (c *ftCtx) constDecl(rel, name, wantType string) string {
	var res *string
	for _, d := range c.file(rel).Decls {
		gd, ok := d.(*ast.GenDecl)
		if !ok {
			continue
		}
		for _, sp := range gd.Specs {
			vs, ok := sp.(*ast.ValueSpec)
			if !ok {
				continue
			}
			for i, n := range vs.Names {
				if n.Name != name {
					continue
				}
				if gd.Tok != token.CONST {
					c.fail(vs, "%s is not a constant", name)
				}
				if len(vs.Values) != len(vs.Names) {
					c.fail(vs, "%s: implicit (iota-style) constant is not understood", name)
				}
				ty := ""
				if vs.Type != nil {
					ty = c.src(vs.Type)
				}
				if ty != wantType {
					c.fail(vs, "%s has type `%s`, expected `%s`", name, ty, wantType)
				}
				if res != nil {
					c.fail(vs, "%s declared twice", name)
				}
				s := c.constInt(vs.Values[i]).ExactString()
				res = &s
			}
		}
	}
	if res == nil {
		panic(ftErr{fmt.Sprintf("%s: constant %s not found", rel, name)})
	}
	return *res
}

func ftCapsV(c *ftCtx) []byte {
	caps := c.chanCaps()
	maxSamples := c.constDecl("t2.go", "max_samples", "int")
	secondMs := c.constDecl("t2.go", "second_ms", "int64")
	maxChunk := c.constDecl("read.go", "maxChunkValues", "")
	c.wantCallSrc("t2.go", "NewStreamingCollector(max_samples, output)")
	for name, v := range map[string]string{"max_samples": maxSamples, "maxChunkValues": maxChunk} {
		if strings.HasPrefix(v, "-") {
			panic(ftErr{fmt.Sprintf("%s is negative (%s)", name, v)})
		}
	}
	var b bytes.Buffer
	b.WriteString("(* GENERATED by `ftdcverif facts <repo> <out-dir>` (harness/facts.go): channel capacities and constants.\n")
	b.WriteString("   Regenerated on every check run; do not edit. Obligations: Props/FactsCaps.v. *)\n")
	b.WriteString("From Coq Require Import ZArith NArith.\n\n")
	for _, s := range ftChanSites {
		fmt.Fprintf(&b, "(* %s %s: `%s` = make(chan %s, n); %s *)\n", s.rel, s.fn, s.target, s.elem, s.comment)
		fmt.Fprintf(&b, "Definition %s : nat := %s.\n", s.coqName, caps[s.coqName])
	}
	b.WriteString("\n(* t2.go: const max_samples int, passed to NewStreamingCollector *)\n")
	fmt.Fprintf(&b, "Definition max_samples : nat := %s.\n", maxSamples)
	b.WriteString("(* t2.go: const second_ms int64 *)\n")
	if strings.HasPrefix(secondMs, "-") {
		fmt.Fprintf(&b, "Definition second_ms : Z := (%s)%%Z.\n", secondMs)
	} else {
		fmt.Fprintf(&b, "Definition second_ms : Z := %s%%Z.\n", secondMs)
	}
	b.WriteString("(* read.go: const maxChunkValues *)\n")
	fmt.Fprintf(&b, "Definition max_chunk_values : N := %s%%N.\n", maxChunk)
	return b.Bytes()
}

// ---------------------------------------------------------------- driver

func ftGenerate(repo string, families []string) (out map[string][]byte, err error) {
	defer func() {
		if r := recover(); r != nil {
			if fe, ok := r.(ftErr); ok {
				out = nil
				err = fmt.Errorf("source facts no longer extractable: %s", fe.msg)
				return
			}
			panic(r)
		}
	}()
	abs, aerr := filepath.Abs(repo)
	if aerr != nil {
		return nil, aerr
	}
	c := &ftCtx{repo: abs, fset: token.NewFileSet(), files: map[string]*ast.File{}}
	out = map[string][]byte{}
	gens := map[string]func(*ftCtx) []byte{"TypeTables.v": ftTypeTablesV, "PerfKeys.v": ftPerfKeysV, "Caps.v": ftCapsV}
	for _, name := range families {
		g, ok := gens[name]
		if !ok {
			return nil, fmt.Errorf("unknown fact family %s", name)
		}
		out[name] = g(c)
	}
	return out, nil
}

func init() {
	commands["facts"] = func(args []string) error {
		if len(args) < 2 {
			return fmt.Errorf("usage: facts <repo-dir> <out-dir> [TypeTables.v] [PerfKeys.v] [Caps.v]")
		}
		// the families are independent of each other: a check asks for the ones its obligations read, so that a
		// source change one family no longer understands does not take the others down with it
		families := args[2:]
		if len(families) == 0 {
			families = []string{"TypeTables.v", "PerfKeys.v", "Caps.v"}
		}
		// all requested files are computed before anything is written: a failure leaves no partial output
		files, err := ftGenerate(args[0], families)
		if err != nil {
			return err
		}
		if err := os.MkdirAll(args[1], 0o755); err != nil {
			return err
		}
		for _, name := range families {
			p := filepath.Join(args[1], name)
			old, rerr := os.ReadFile(p)
			if rerr == nil && bytes.Equal(old, files[name]) {
				fmt.Printf("facts: %s unchanged\n", name)
				continue
			}
			if err := os.WriteFile(p, files[name], 0o644); err != nil {
				return err
			}
			fmt.Printf("facts: %s written\n", name)
		}
		return nil
	}
}
