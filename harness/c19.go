package main

// C19: metrics.CollectJSONStream and metrics.CollectRuntime observed through their
// public API.
//
//	c19 <dir>   writes <dir>/c19.cases
//
// Case file (one record per line):
//
//	V <has_source> <has_file> <follow> => <errflag>                       option validation
//	J <id> n=<SampleCount> mode=<reader|chunked|file|readerr|slow|stall> flush_ns=<..> reader_ns=<..> rerr=<0|1> chunk=<k> delay_ns=<..> stall_at=<k> input=<hex>
//	L <rawlen> <token hex | - > <bson hex | malformed | eoferr | toolong>   one per line of the input (harness's own split)
//	R <errflag> <hang> <ndocs> <iter errflag> <doc hex>...                  ReadStructuredMetrics over the returned bytes
//	O <hex>                                                                 the returned bytes, zlib payloads re-coded for the model's reader
//	RT <id> flush_ns collect_ns samples skipgo skipsys skipproc parallel ncoll cancel_ns => <errflag> <generated|-1> <nfiles>
//	F <idx> <decode errflag> ids=<a,b,..> sizes=<a,b,..>                    one per file prefix.<idx>
//	LEAK <n>                                                                source goroutines still blocked at the end (information)

import (
	"bufio"
	"bytes"
	"context"
	"encoding/binary"
	"encoding/hex"
	"encoding/json"
	"errors"
	"fmt"
	"io"
	"io/ioutil"
	"os"
	"path/filepath"
	"runtime"
	"strconv"
	"strings"
	"sync/atomic"
	"time"

	"github.com/evergreen-ci/birch"
	"github.com/mongodb/ftdc"
	"github.com/mongodb/ftdc/metrics"
	pkgerrors "github.com/pkg/errors"
	"go.mongodb.org/mongo-driver/bson"
)

const c19Limit = 65536 // bufio.MaxScanTokenSize

// ---------------------------------------------------------------- readers

// chunkReader hands out at most k bytes per Read; after the data it returns io.EOF or a failure
type chunkReader struct {
	data    []byte
	k       int
	fail    bool
	failErr error // which error a failing reader reports (default errC19Boom)
}

var errC19Boom = errors.New("c19: injected read failure")

func (r *chunkReader) Read(p []byte) (int, error) {
	if len(r.data) == 0 {
		if r.fail {
			if r.failErr != nil {
				return 0, r.failErr
			}
			return 0, errC19Boom
		}
		return 0, io.EOF
	}
	n := len(r.data)
	if r.k > 0 && n > r.k {
		n = r.k
	}
	if n > len(p) {
		n = len(p)
	}
	copy(p, r.data[:n])
	r.data = r.data[n:]
	return n, nil
}

// slowReader sleeps before delivering each piece
type slowReader struct {
	pieces [][]byte
	d      time.Duration
	eofAt  int64 // UnixNano of the Read that reported io.EOF (0: never reached), read after the call returned
}

func (s *slowReader) Read(p []byte) (int, error) {
	if len(s.pieces) == 0 {
		atomic.CompareAndSwapInt64(&s.eofAt, 0, time.Now().UnixNano())
		return 0, io.EOF
	}
	time.Sleep(s.d)
	n := copy(p, s.pieces[0])
	if n < len(s.pieces[0]) {
		s.pieces[0] = s.pieces[0][n:]
	} else {
		s.pieces = s.pieces[1:]
	}
	return n, nil
}

// ---------------------------------------------------------------- JSON line generators

type c19line struct {
	text string
	term string // "\n", "\r\n" or "" (only for the last line)
}

// a schema is a list of (key, kind); kinds keep their BSON type from line to line
type c19field struct {
	key  string
	kind int // 0 small int (int32), 1 big int (int64), 2 double, 3 bool, 4 string, 5 null, 6 nested doc, 7 array, 8 $date, 9 $numberLong
	sub  []c19field
}

var c19Keys = []string{"a", "b", "c", "x", "y", "n", "ops", "val", "k0", "lat", "cnt", "q"}

func (r *rng) c19Schema(depth int) []c19field {
	n := 1 + r.intn(4)
	used := map[string]bool{}
	var fs []c19field
	for len(fs) < n {
		k := c19Keys[r.intn(len(c19Keys))]
		if used[k] {
			continue
		}
		used[k] = true
		kind := r.intn(10)
		f := c19field{key: k, kind: kind}
		if kind == 6 || kind == 7 {
			if depth >= 2 {
				f.kind = 0
			} else {
				f.sub = r.c19Schema(depth + 1)
			}
		}
		fs = append(fs, f)
	}
	return fs
}

// c19Sig renders what the dynamic collector can see of a schema (the metric key
// string with the metric types) and its full shape (containers included). Two
// schemas with the same first and different second component cannot be told
// apart by the collector (C08's hypothesis "distinguishable"): a stream never
// uses two such schemas.
func c19Sig(fs []c19field, prefix string) (sig string, shape string) {
	tclass := map[int]string{0: "i32", 1: "i64", 2: "f64", 3: "b", 8: "d", 9: "i64"}
	for _, f := range fs {
		path := prefix + "." + f.key
		switch f.kind {
		case 0, 1, 2, 3, 8, 9:
			sig += path + ":" + tclass[f.kind] + ";"
			shape += path + ":" + tclass[f.kind] + ";"
		case 6:
			a, b := c19Sig(f.sub, path)
			sig += a
			shape += path + "{" + b + "}"
		case 7:
			idx := make([]c19field, len(f.sub))
			for i, e := range f.sub {
				idx[i] = e
				idx[i].key = strconv.Itoa(i)
			}
			a, b := c19Sig(idx, path)
			sig += a
			shape += path + "[" + b + "]"
		}
	}
	return
}

func c19Confusable(a, b []c19field) bool {
	sa, ha := c19Sig(a, "")
	sb, hb := c19Sig(b, "")
	return sa == sb && ha != hb
}

func (r *rng) c19Value(f c19field) string {
	switch f.kind {
	case 0:
		return strconv.Itoa(r.intn(2000) - 1000)
	case 1:
		return strconv.FormatInt(3000000000+r.i64n(1<<40), 10)
	case 2:
		return strconv.Itoa(r.intn(1000)-500) + "." + []string{"5", "25", "125", "75"}[r.intn(4)]
	case 3:
		return []string{"true", "false"}[r.intn(2)]
	case 4:
		return `"s` + strconv.Itoa(r.intn(100)) + `"`
	case 5:
		return "null"
	case 6:
		return r.c19Object(f.sub, 0)
	case 7:
		parts := make([]string, len(f.sub))
		for i, s := range f.sub {
			parts[i] = r.c19Value(s)
		}
		return "[" + strings.Join(parts, ",") + "]"
	case 8:
		return `{"$date":{"$numberLong":"` + strconv.FormatInt(1500000000000+r.i64n(1000000000), 10) + `"}}`
	case 9:
		return `{"$numberLong":"` + strconv.FormatInt(r.i64n(1<<50)-(1<<49), 10) + `"}`
	}
	return "0"
}

// c19Object renders one object of the schema; pad > 0 inserts that many spaces after the opening brace
func (r *rng) c19Object(fs []c19field, pad int) string {
	parts := make([]string, len(fs))
	for i, f := range fs {
		parts[i] = `"` + f.key + `":` + r.c19Value(f)
	}
	return "{" + strings.Repeat(" ", pad) + strings.Join(parts, ",") + "}"
}

// c19Padded renders an object whose text is exactly length bytes long
func (r *rng) c19Padded(fs []c19field, length int) string {
	base := r.c19Object(fs, 0)
	if len(base) >= length {
		return base
	}
	return "{" + strings.Repeat(" ", length-len(base)) + base[1:]
}

var c19Malformed = []string{"", " ", `{"a":`, `[1,2]`, `nope`, `{"a":1`, `{"a":1,}`, `7`, `null`, `"str"`, `{"a":tru}`, "\t",
	`{"a":nu`, `{"a":t`, `{"k":1,"b":fal`, `{"a":[tru`, `{"a":fals`, `{"a":"x`,
	// something behind a complete object: a second object, stray text, a comma
	`{"a":1}{"a":2}`, `{"a":1} xyz`, `{"a":1},`, `{"a":1} {"b":2}`, `{"a":1}]`}

type c19case struct {
	lines    []c19line
	n        int
	mode     string
	chunk    int
	flush    time.Duration
	delay    time.Duration // per piece (slow) or stall duration (stall)
	stallAt  int           // stall: the source is held before sending document number stallAt (1-based)
	boundary bool
	raw      []byte // replay: the recorded input instead of lines
}

func (c *c19case) input() []byte {
	if c.raw != nil {
		return c.raw
	}
	var b bytes.Buffer
	for _, l := range c.lines {
		b.WriteString(l.text)
		b.WriteString(l.term)
	}
	return b.Bytes()
}

func (r *rng) c19Term() string {
	if r.chance(1, 4) {
		return "\r\n"
	}
	return "\n"
}

// a stream of k lines over 1..3 schemas with schema changes in between
func (r *rng) c19Stream(k int, typeChange bool) []c19line {
	nsch := 1 + r.intn(3)
	schemas := make([][]c19field, nsch)
	for i := range schemas {
		for try := 0; ; try++ {
			schemas[i] = r.c19Schema(0)
			clash := false
			for j := 0; j < i; j++ {
				clash = clash || c19Confusable(schemas[i], schemas[j])
			}
			if !clash || try > 50 {
				break
			}
		}
	}
	cur := 0
	var ls []c19line
	for i := 0; i < k; i++ {
		if i > 0 && r.chance(1, 3) {
			cur = r.intn(nsch)
		}
		fs := schemas[cur]
		if typeChange && i == k/2 {
			// same keys, one numeric kind swapped: a change of value type alone
			fs2 := append([]c19field{}, fs...)
			for j := range fs2 {
				if fs2[j].kind <= 2 {
					fs2[j].kind = (fs2[j].kind + 1) % 3
					break
				}
			}
			fs = fs2
		}
		text := r.c19Object(fs, 0)
		if r.chance(1, 12) {
			text += " " // trailing blank
		}
		if r.chance(1, 25) {
			text += "\r" // a lone CR before the terminator
		}
		ls = append(ls, c19line{text, r.c19Term()})
	}
	if len(ls) > 0 && r.chance(1, 3) {
		ls[len(ls)-1].term = ""
	}
	return ls
}

func (r *rng) c19Cases(tier string) []c19case {
	var cs []c19case
	ns := []int{1, 2, 5}
	hour := time.Hour
	add := func(c c19case) {
		if c.flush == 0 {
			c.flush = hour
		}
		if c.mode == "" {
			c.mode = "reader"
		}
		cs = append(cs, c)
	}
	// fixed small cases: empty input, lone newline, only blanks, no trailing newline, CRLF
	fixed := [][]c19line{
		{},
		{{"", "\n"}},
		{{`{"a":1}`, ""}},
		{{`{"a":1}`, "\n"}, {`{"a":2}`, ""}},
		{{`{"a":1}`, "\r\n"}, {`{"a":2}`, "\r\n"}},
		{{`{"a":1}`, "\n"}, {"", "\n"}, {`{"a":2}`, "\n"}},
		{{`{"a":1}`, "\n"}, {`{"a":1.5}`, "\n"}, {`{"a":2}`, "\n"}},
		{{`{"a":1} {"b":2}`, "\n"}, {`{"a":3}`, "\n"}},
		{{`{"a":1}xyz`, "\n"}, {`{"a":3}`, "\n"}},
		{{`{}`, "\n"}, {`{}`, "\n"}},
		{{`{"s":"x"}`, "\n"}, {`{"s":"y"}`, "\n"}, {`{"a":1}`, "\n"}},
		{{`{"a":1}`, "\r"}},
		{{"\r", "\n"}},
		{{`{"a":1}`, "\n"}, {`{"a":nu`, "\n"}, {`{"a":3}`, "\n"}, {`{"a":4}`, "\n"}},
		{{`{"a":1}`, "\n"}, {`{"a":2}`, "\n"}, {`{"a":t`, ""}},
	}
	for i, f := range fixed {
		add(c19case{lines: f, n: ns[i%3]})
	}
	// a malformed line at every position of short streams (and an empty line at every position)
	maxLen := 5
	if tier != "quick" {
		maxLen = 6
	}
	for k := 1; k <= maxLen; k++ {
		for pos := 0; pos < k; pos++ {
			for rep := 0; rep < 2; rep++ {
				ls := r.c19Stream(k, false)
				bad := c19Malformed[r.intn(len(c19Malformed))]
				if rep == 1 {
					bad = ""
				}
				ls[pos].text = bad
				if pos == k-1 && bad == "" {
					ls[pos].term = "\n"
				}
				add(c19case{lines: ls, n: ns[r.intn(3)]})
				if rep == 0 {
					// the same stream read from a file (the FileName source has its own goroutine and error path)
					add(c19case{lines: append([]c19line{}, ls...), n: ns[r.intn(3)], mode: "file"})
					if k <= 3 && strings.TrimSpace(bad) != "" {
						// and followed (tail -f): a third source goroutine with its own parse-error path; every line
						// ends in a newline so that the follower sees it as complete
						fl := append([]c19line{}, ls...)
						for i := range fl {
							fl[i].term = "\n"
						}
						add(c19case{lines: fl, n: ns[r.intn(3)], mode: "follow"})
					}
				}
			}
		}
	}
	// random streams: schema changes, sometimes a change of value type alone
	nrand := 800
	if tier != "quick" {
		nrand = 4000
	}
	for i := 0; i < nrand; i++ {
		k := 1 + r.intn(9)
		if tier != "quick" && r.chance(1, 10) {
			k = 10 + r.intn(60)
		}
		c := c19case{lines: r.c19Stream(k, r.chance(1, 8)), n: ns[r.intn(3)]}
		switch r.intn(6) {
		case 0:
			c.mode, c.chunk = "chunked", 1+r.intn(7)
		case 1:
			c.mode = "file"
		case 2:
			if r.chance(1, 2) {
				c.mode = "readerr"
				if r.chance(1, 2) && len(c.lines) > 0 {
					// cut the input in the middle of its last line
					last := &c.lines[len(c.lines)-1]
					last.term = ""
					if len(last.text) > 2 {
						last.text = last.text[:1+r.intn(len(last.text)-1)]
					}
				}
			}
		}
		add(c)
	}
	// line lengths straddling the scanner's token limit, at every position of a three-line stream
	lens := []int{c19Limit - 2, c19Limit - 1, c19Limit, c19Limit + 1}
	terms := []string{"\n", "\r\n", ""}
	nb := 0
	for _, L := range lens {
		for _, t := range terms {
			for pos := 0; pos < 3; pos++ {
				if t == "" && pos != 2 {
					continue
				}
				if tier == "quick" && pos == 1 && t != "\n" {
					continue
				}
				fs := r.c19Schema(1)
				ls := []c19line{{r.c19Object(fs, 0), "\n"}, {r.c19Object(fs, 0), "\n"}, {r.c19Object(fs, 0), "\n"}}
				ls[pos] = c19line{r.c19Padded(fs, L), t}
				c := c19case{lines: ls, n: ns[nb%3], boundary: true}
				switch nb % 4 {
				case 1:
					c.mode, c.chunk = "chunked", []int{1, 4095, 4097, 65535}[r.intn(4)]
				case 2:
					c.mode = "file"
				}
				nb++
				add(c)
			}
		}
	}
	// 70 KiB line (the size named in the defect report), and a line at the limit carried by a long string value
	fs := []c19field{{key: "a", kind: 0}}
	add(c19case{lines: []c19line{{`{"a":1}`, "\n"}, {r.c19Padded(fs, 70*1024), "\n"}, {`{"a":3}`, "\n"}}, n: 5, boundary: true})
	add(c19case{lines: []c19line{{r.c19Padded(fs, 70*1024), ""}}, n: 2, boundary: true})
	long := `{"a":1,"s":"` + strings.Repeat("x", c19Limit-1-len(`{"a":1,"s":""}`)) + `"}`
	add(c19case{lines: []c19line{{`{"a":0,"s":"y"}`, "\n"}, {long, "\n"}, {`{"a":2,"s":"z"}`, "\n"}}, n: 2, boundary: true})
	add(c19case{lines: []c19line{{long + "x", "\n"}}, n: 2, boundary: true})

	// slow reader / stalled source against a short flush timer (finding D17), with controls
	mk := func(k int) []c19line {
		ls := make([]c19line, k)
		for i := range ls {
			ls[i] = c19line{`{"a":` + strconv.Itoa(i+1) + `,"b":2.5}`, "\n"}
		}
		return ls
	}
	add(c19case{lines: mk(4), n: 5, mode: "slow", flush: 10 * time.Millisecond, delay: 30 * time.Millisecond})
	add(c19case{lines: mk(5), n: 2, mode: "slow", flush: 75 * time.Millisecond, delay: 30 * time.Millisecond})
	add(c19case{lines: mk(4), n: 5, mode: "slow", flush: hour, delay: 5 * time.Millisecond})
	add(c19case{lines: mk(4), n: 5, mode: "stall", flush: 15 * time.Millisecond, delay: 60 * time.Millisecond, stallAt: 3})
	add(c19case{lines: mk(3), n: 1, mode: "stall", flush: 15 * time.Millisecond, delay: 60 * time.Millisecond, stallAt: 1})
	add(c19case{lines: mk(4), n: 5, mode: "stall", flush: hour, delay: 20 * time.Millisecond, stallAt: 2})
	if tier != "quick" {
		for i := 0; i < 12; i++ {
			k := 2 + r.intn(6)
			add(c19case{lines: mk(k), n: ns[r.intn(3)], mode: "stall", flush: 15 * time.Millisecond, delay: 60 * time.Millisecond, stallAt: 1 + r.intn(k)})
			add(c19case{lines: mk(k), n: ns[r.intn(3)], mode: "slow", flush: time.Duration(10+r.intn(80)) * time.Millisecond, delay: 25 * time.Millisecond})
		}
	}
	return cs
}

// ---------------------------------------------------------------- running one JSON case

func c19DropCR(b []byte) []byte {
	if len(b) > 0 && b[len(b)-1] == '\r' {
		return b[:len(b)-1]
	}
	return b
}

// the harness's own split of the input into raw lines
func c19RawLines(input []byte) [][]byte {
	if len(input) == 0 {
		return nil
	}
	parts := bytes.Split(input, []byte("\n"))
	if len(parts[len(parts)-1]) == 0 {
		parts = parts[:len(parts)-1]
	}
	return parts
}

func c19Parse(tok []byte) string {
	// a line is one JSON value and nothing else (judged by encoding/json, not by the parser under test, which stops
	// behind the first value of a line)
	if !json.Valid(tok) {
		// a line cut inside a literal still has to be told apart: the library reports its own end-of-input cause
		d0 := &birch.Document{}
		if err := bson.UnmarshalExtJSON(tok, false, d0); err != nil && pkgerrors.Cause(err) == io.EOF {
			return "eoferr"
		}
		return "malformed"
	}
	doc := &birch.Document{}
	err := bson.UnmarshalExtJSON(tok, false, doc)
	if err != nil {
		if pkgerrors.Cause(err) == io.EOF {
			return "eoferr"
		}
		return "malformed"
	}
	b, err := doc.MarshalBSON()
	if err != nil {
		return "malformed"
	}
	return hex.EncodeToString(b)
}

type c19result struct {
	out []byte
	err error
}

func c19RunJSON(o *out, id int, c c19case, dir string) error {
	input := c.input()
	rerr := c.mode == "readerr"
	readerNs := int64(0)
	opts := metrics.CollectJSONOptions{SampleCount: c.n, FlushInterval: c.flush}
	var s *sched
	var slow *slowReader
	switch c.mode {
	case "reader":
		opts.InputSource = bytes.NewReader(input)
	case "chunked":
		opts.InputSource = &chunkReader{data: append([]byte{}, input...), k: c.chunk}
	case "readerr":
		// the failure is one of several error values, among them io.ErrUnexpectedEOF (a source cut short)
		failures := []error{errC19Boom, io.ErrUnexpectedEOF, io.ErrClosedPipe}
		opts.InputSource = &chunkReader{data: append([]byte{}, input...), k: 0, fail: true, failErr: failures[(id+len(input))%len(failures)]}
	case "file":
		fn := filepath.Join(dir, fmt.Sprintf("c19in.%d.json", id))
		if err := ioutil.WriteFile(fn, input, 0600); err != nil {
			return err
		}
		defer os.Remove(fn)
		opts.FileName = fn
	case "follow":
		// tail -f of a file (only used with inputs that contain a malformed line: the call then returns by itself)
		fn := filepath.Join(dir, fmt.Sprintf("c19in.%d.json", id))
		if err := ioutil.WriteFile(fn, input, 0600); err != nil {
			return err
		}
		defer os.Remove(fn)
		opts.FileName = fn
		opts.Follow = true
	case "slow":
		var pieces [][]byte
		for _, l := range bytes.SplitAfter(input, []byte("\n")) {
			if len(l) > 0 {
				pieces = append(pieces, append([]byte{}, l...))
			}
		}
		slow = &slowReader{pieces: pieces, d: c.delay}
		opts.InputSource = slow
	case "stall":
		opts.InputSource = bytes.NewReader(input)
		s = newSched("js.send", c.stallAt)
	}

	// every other run with a re-readable source delivers through OutputFilePrefix instead of the returned bytes; a
	// longer file of an earlier run is already there (the same prefix used twice): it must be replaced, not patched
	outPrefix := ""
	var stale []byte
	if (c.mode == "reader" || c.mode == "file" || c.mode == "chunked") && id%2 == 0 {
		outPrefix = filepath.Join(dir, fmt.Sprintf("c19out.%d", id))
		stale = bytes.Repeat([]byte("stale output of an earlier run\n"), 4096)
		if err := ioutil.WriteFile(outPrefix+".0", stale, 0600); err != nil {
			return err
		}
		defer os.Remove(outPrefix + ".0")
		opts.OutputFilePrefix = outPrefix
	}

	// the harness's own view of the lines, cross-checked with a scanner that has a large buffer
	raws := c19RawLines(input)
	big := bufio.NewScanner(bytes.NewReader(input))
	big.Buffer(make([]byte, 0, 1<<16), 1<<26)
	i := 0
	for big.Scan() {
		if i >= len(raws) || !bytes.Equal(big.Bytes(), c19DropCR(raws[i])) {
			return fmt.Errorf("case %d: harness line split disagrees with bufio.Scanner at line %d", id, i)
		}
		i++
	}
	if i != len(raws) || big.Err() != nil {
		return fmt.Errorf("case %d: harness line split disagrees with bufio.Scanner (%d vs %d lines, err %v)", id, i, len(raws), big.Err())
	}

	ctx, cancel := context.WithCancel(context.Background())
	defer cancel()
	done := make(chan c19result, 1)
	t0 := time.Now()
	go func() {
		out, err := metrics.CollectJSONStream(ctx, opts)
		done <- c19result{out, err}
	}()
	var res c19result
	hang := false
	if s != nil {
		// hold the source goroutine at its send for the stall duration, then let it go
		if s.waitStalled(3 * time.Second) {
			time.Sleep(c.delay)
		}
		// the source could not have finished before this moment
		readerNs = time.Now().UnixNano() - t0.UnixNano()
		s.releaseStall()
	}
	select {
	case res = <-done:
	case <-time.After(5 * time.Second):
		hang = true
	}
	if outPrefix != "" && !hang {
		// what was delivered is the file (if the run wrote it) followed by whatever was returned (nothing, normally)
		if data, err := ioutil.ReadFile(outPrefix + ".0"); err == nil && !bytes.Equal(data, stale) {
			res.out = append(data, res.out...)
		}
		if more, _ := filepath.Glob(outPrefix + ".*"); len(more) > 1 {
			for _, f := range more {
				os.Remove(f)
			}
			return fmt.Errorf("case %d: more than one output file for a single flush: %v", id, more)
		}
	}
	if s != nil {
		uninstallSched()
	}
	if slow != nil {
		// how long the source needed to be read to its end, measured from before the call (the flush timer
		// is created later); if the call returned before the reader reported EOF: longer than the call
		if at := atomic.LoadInt64(&slow.eofAt); at != 0 {
			readerNs = at - t0.UnixNano()
		} else {
			readerNs = 1 << 62
		}
	}
	o.printf("J %d n=%d mode=%s flush_ns=%d reader_ns=%d rerr=%d chunk=%d delay_ns=%d stall_at=%d input=%s\n", id, c.n, c.mode, int64(c.flush), readerNs, b2i(rerr),
		c.chunk, int64(c.delay), c.stallAt, hex.EncodeToString(input))
	for _, raw := range raws {
		if len(raw) >= c19Limit {
			o.printf("L %d - toolong\n", len(raw))
			continue
		}
		tok := c19DropCR(raw)
		o.printf("L %d %s %s\n", len(raw), hex.EncodeToString(tok), c19Parse(tok))
	}

	if hang {
		o.printf("R 1 1 0 0\n")
		o.printf("O \n")
		return nil
	}
	rctx, rcancel := context.WithTimeout(context.Background(), 20*time.Second)
	docs, _, ierr := drainIter(ftdc.ReadStructuredMetrics(rctx, bytes.NewReader(res.out)), false)
	rcancel()
	o.printf("R %d 0 %d %d %s\n", errFlag(res.err), len(docs), errFlag(ierr), strings.Join(docs, " "))
	o.printf("O %s\n", hex.EncodeToString(normalizeEncoded(res.out)))
	return nil
}

// goroutines of the library still sitting in getSource
func c19Leaked() int {
	buf := make([]byte, 1<<20)
	n := runtime.Stack(buf, true)
	cnt := 0
	for _, st := range bytes.Split(buf[:n], []byte("\n\n")) {
		if bytes.Contains(st, []byte("CollectJSONOptions.getSource")) && bytes.Contains(st, []byte("chan send")) {
			cnt++
		}
	}
	return cnt
}

// ---------------------------------------------------------------- CollectRuntime

type c19rt struct {
	flush, collect, cancel time.Duration
	samples                int
	skipGo, skipSys, skipP bool
	parallel               bool
	ncoll                  int
	shapeAt                int // > 0: the custom collector's document gains a field from its shapeAt-th call on ("RS" line)
}

func c19ID(doc []byte) (int64, bool) {
	es, ok := walkElems(doc)
	if !ok {
		return 0, false
	}
	for _, e := range es {
		if e.key == "id" || e.key == "runtime.id" {
			switch e.t {
			case 0x10:
				return int64(int32(binary.LittleEndian.Uint32(e.val))), true
			case 0x12:
				return int64(binary.LittleEndian.Uint64(e.val)), true
			}
		}
	}
	return 0, false
}

func c19RunRuntime(o *out, id int, c c19rt, dir string) error {
	prefix := filepath.Join(dir, fmt.Sprintf("c19rt.%d", id))
	old, _ := filepath.Glob(prefix + ".*")
	for _, f := range old {
		os.Remove(f)
	}
	generated := int64(-1)
	opts := metrics.CollectOptions{
		FlushInterval: c.flush, CollectionInterval: c.collect, SampleCount: c.samples,
		SkipGolang: c.skipGo, SkipSystem: c.skipSys, SkipProcess: c.skipP,
		RunParallelCollectors: c.parallel, OutputFilePrefix: prefix,
	}
	if c.ncoll > 0 {
		generated = 0
		opts.Collectors = metrics.Collectors{{Name: "cnt", Operation: func(context.Context) *birch.Document {
			generated++
			if c.shapeAt > 0 && generated >= int64(c.shapeAt) {
				return birch.NewDocument(birch.EC.Int64("k", generated), birch.EC.Int64("extra", 1))
			}
			return birch.NewDocument(birch.EC.Int64("k", generated))
		}}}
		// further custom collectors (more of them than CPUs when asked for: the parallel path hands their results over
		// through a channel)
		for i := 1; i < c.ncoll; i++ {
			v := int64(i)
			opts.Collectors = append(opts.Collectors, metrics.CustomCollector{Name: fmt.Sprintf("x%03d", i), Operation: func(context.Context) *birch.Document {
				return birch.NewDocument(birch.EC.Int64("v", v))
			}})
		}
	}
	ctx, cancel := context.WithCancel(context.Background())
	done := make(chan error, 1)
	go func() { done <- metrics.CollectRuntime(ctx, opts) }()
	var err error
	select {
	case err = <-done: // returned by itself (invalid options, or a failure)
	case <-time.After(c.cancel):
		cancel()
		select {
		case err = <-done:
		case <-time.After(5 * time.Second):
			cancel()
			o.printf("RT %d %d %d %d %d %d %d %d %d %d => HANG\n", id, int64(c.flush), int64(c.collect), c.samples,
				b2i(c.skipGo), b2i(c.skipSys), b2i(c.skipP), b2i(c.parallel), c.ncoll, int64(c.cancel))
			left, _ := filepath.Glob(prefix + ".*")
			for _, f := range left {
				os.Remove(f)
			}
			return nil
		}
	}
	cancel()
	// the files prefix.0, prefix.1, ... (and nothing else with that prefix)
	files, _ := filepath.Glob(prefix + ".*")
	nfiles := len(files)
	tag := "RT"
	if c.shapeAt > 0 {
		tag = "RS" // the sample changes its shape in the middle of a chunk: all samples in order, or a loud failure
	}
	o.printf("%s %d %d %d %d %d %d %d %d %d %d => %d %d %d\n", tag, id, int64(c.flush), int64(c.collect), c.samples,
		b2i(c.skipGo), b2i(c.skipSys), b2i(c.skipP), b2i(c.parallel), c.ncoll, int64(c.cancel), errFlag(err), generated, nfiles)
	for k := 0; k < nfiles; k++ {
		fn := fmt.Sprintf("%s.%d", prefix, k)
		data, rerr := ioutil.ReadFile(fn)
		if rerr != nil {
			o.printf("F %d 1 ids= sizes=\n", k) // a gap in the numbering
			continue
		}
		rctx, rcancel := context.WithTimeout(context.Background(), 20*time.Second)
		it := ftdc.ReadMetrics(rctx, bytes.NewReader(data))
		var ids []string
		for it.Next() {
			b, merr := it.Document().MarshalBSON()
			v, ok := int64(0), false
			if merr == nil {
				v, ok = c19ID(b)
			}
			if ok {
				ids = append(ids, strconv.FormatInt(v, 10))
			} else {
				ids = append(ids, "x")
			}
		}
		derr := it.Err()
		it.Close()
		var sizes []string
		cit := ftdc.ReadChunks(rctx, bytes.NewReader(data))
		for cit.Next() {
			sizes = append(sizes, strconv.Itoa(cit.Chunk().Size()))
		}
		if cit.Err() != nil && derr == nil {
			derr = cit.Err()
		}
		cit.Close()
		rcancel()
		o.printf("F %d %d ids=%s sizes=%s\n", k, errFlag(derr), strings.Join(ids, ","), strings.Join(sizes, ","))
	}
	for _, f := range files {
		os.Remove(f)
	}
	return nil
}

func (r *rng) c19Runtimes(tier string) []c19rt {
	var cs []c19rt
	msd := time.Millisecond
	// option sets Validate must refuse (no file may appear)
	cs = append(cs,
		c19rt{flush: 10 * msd, collect: 2 * msd, samples: 9, skipSys: true, skipP: true, cancel: 20 * msd},
		c19rt{flush: 2 * msd, collect: 10 * msd, samples: 10, skipSys: true, skipP: true, cancel: 20 * msd},
		c19rt{flush: 10 * msd, collect: 2 * msd, samples: 10, skipGo: true, skipSys: true, skipP: true, cancel: 20 * msd},
		c19rt{flush: 10 * msd, collect: time.Millisecond - 1, samples: 10, skipSys: true, skipP: true, cancel: 20 * msd},
		c19rt{flush: 10 * msd, collect: 2 * msd, samples: 10, skipSys: true, skipP: true, parallel: true, cancel: 20 * msd},
	)
	n := 20
	if tier != "quick" {
		n = 150
	}
	for i := 0; i < n; i++ {
		c := c19rt{
			collect: time.Duration(1+r.intn(3)) * msd,
			flush:   time.Duration(10+r.intn(31)) * msd,
			samples: 10 + r.intn(11),
			skipSys: true, skipP: true,
			cancel: time.Duration(30+r.intn(121)) * msd,
		}
		if i%2 == 0 {
			c.ncoll = 1
			c.parallel = r.chance(1, 3) || i%4 == 2
		}
		if i == 1 {
			c.cancel = 0 // cancelled at once
		}
		if i == 3 {
			c.collect, c.flush = 3*msd, 3*msd // collection interval equal to the flush interval
		}
		cs = append(cs, c)
	}
	// more custom collectors than CPUs, run in parallel and one after the other
	for _, par := range []bool{true, false} {
		cs = append(cs, c19rt{flush: 30 * msd, collect: 2 * msd, cancel: 20 * msd, samples: 10, skipSys: true, skipP: true,
			ncoll: runtime.NumCPU() + 3, parallel: par})
	}
	// a custom collector whose document changes shape inside a chunk (not at a chunk boundary)
	for _, at := range []int{3, 7, 14} {
		cs = append(cs, c19rt{flush: 60 * msd, collect: msd, cancel: 40 * msd, samples: 10, skipSys: true, skipP: true,
			ncoll: 1, shapeAt: at})
	}
	return cs
}

// ---------------------------------------------------------------- command

func init() {
	commands["c19"] = func(args []string) error {
		if len(args) < 1 {
			return errors.New("usage: c19 <dir>")
		}
		dir := args[0]
		o, err := newOut(filepath.Join(dir, "c19.cases"))
		if err != nil {
			return err
		}
		r := newRng(envSeed())
		tier := envTier()

		// option validation of CollectJSONStream
		for _, v := range [][3]bool{{false, false, false}, {true, true, false}, {true, false, true}, {false, false, true}} {
			opts := metrics.CollectJSONOptions{SampleCount: 2, FlushInterval: time.Hour, Follow: v[2]}
			if v[0] {
				opts.InputSource = strings.NewReader("{\"a\":1}\n")
			}
			if v[1] {
				opts.FileName = filepath.Join(dir, "c19.nonexistent")
			}
			_, verr := metrics.CollectJSONStream(context.Background(), opts)
			o.printf("V %d %d %d => %d\n", b2i(v[0]), b2i(v[1]), b2i(v[2]), errFlag(verr))
		}

		for i, c := range r.c19Cases(tier) {
			if err := c19RunJSON(o, i, c, dir); err != nil {
				o.close()
				return err
			}
		}
		time.Sleep(20 * time.Millisecond)
		o.printf("LEAK %d\n", c19Leaked())

		for i, c := range r.c19Runtimes(tier) {
			if err := c19RunRuntime(o, i, c, dir); err != nil {
				o.close()
				return err
			}
		}
		return o.close()
	}
}

// c19replay <out> <n> <mode> <flush_ns> <chunk> <delay_ns> <stall_at> <input hex>: one CollectJSONStream case again
func init() {
	commands["c19replay"] = func(args []string) error {
		if len(args) < 8 {
			return errors.New("usage: c19replay <out> <n> <mode> <flush_ns> <chunk> <delay_ns> <stall_at> <input hex>")
		}
		o, err := newOut(args[0])
		if err != nil {
			return err
		}
		n, _ := strconv.Atoi(args[1])
		fl, _ := strconv.ParseInt(args[3], 10, 64)
		ck, _ := strconv.Atoi(args[4])
		dl, _ := strconv.ParseInt(args[5], 10, 64)
		st, _ := strconv.Atoi(args[6])
		raw, err := hex.DecodeString(args[7])
		if err != nil {
			return err
		}
		if raw == nil {
			raw = []byte{}
		}
		c := c19case{n: n, mode: args[2], flush: time.Duration(fl), chunk: ck, delay: time.Duration(dl), stallAt: st, raw: raw}
		if err := c19RunJSON(o, 0, c, filepath.Dir(args[0])); err != nil {
			o.close()
			return err
		}
		return o.close()
	}
}
