module ftdcverif

go 1.20

require (
	github.com/evergreen-ci/birch v0.0.0-20191213201306-f4dae6f450a2
	github.com/mongodb/ftdc v0.0.0
	github.com/pkg/errors v0.9.1
	go.mongodb.org/mongo-driver v1.11.1
)

require (
	github.com/andygrunwald/go-jira v1.14.0 // indirect
	github.com/bluele/slack v0.0.0-20180528010058-b4b4d354a079 // indirect
	github.com/coreos/go-systemd v0.0.0-20191104093116-d3cd4ed1dbcf // indirect
	github.com/dghubble/oauth1 v0.7.0 // indirect
	github.com/fatih/structs v1.1.0 // indirect
	github.com/fsnotify/fsnotify v1.5.1 // indirect
	github.com/fuyufjh/splunk-hec-go v0.3.3 // indirect
	github.com/golang-jwt/jwt v3.2.1+incompatible // indirect
	github.com/google/go-github v17.0.0+incompatible // indirect
	github.com/google/go-querystring v0.0.0-20170111101155-53e6ce116135 // indirect
	github.com/mattn/go-xmpp v0.0.0-20210723025538-3871461df959 // indirect
	github.com/mongodb/grip v0.0.0-20211018154934-e661a71929d5 // indirect
	github.com/papertrail/go-tail v0.0.0-20180509224916-973c153b0431 // indirect
	github.com/satori/go.uuid v1.2.0 // indirect
	github.com/shirou/gopsutil v3.21.9+incompatible // indirect
	github.com/tklauser/go-sysconf v0.3.9 // indirect
	github.com/tklauser/numcpus v0.3.0 // indirect
	github.com/trivago/tgo v1.0.7 // indirect
	golang.org/x/net v0.0.0-20211112202133-69e39bad7dc2 // indirect
	golang.org/x/oauth2 v0.0.0-20211005180243-6b3c2da341f1 // indirect
	golang.org/x/sys v0.0.0-20220811171246-fbc7d0a398ab // indirect
)

replace github.com/mongodb/ftdc => /repo
