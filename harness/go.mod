module ftdcverif

go 1.20

require (
	github.com/evergreen-ci/birch v0.0.0-20191213201306-f4dae6f450a2
	github.com/mongodb/ftdc v0.0.0
)

require (
	github.com/pkg/errors v0.9.1 // indirect
	go.mongodb.org/mongo-driver v1.11.1 // indirect
)

replace github.com/mongodb/ftdc => /repo
