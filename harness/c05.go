package main

// C05: a decoding error is never lost, whatever the schedule. Every reader entry point is run
// on streams with a failure at every location, under every single-stall schedule that the vpoint
// hooks allow (one goroutine held at one schedule point until the rest of the system is
// quiescent) and under randomly perturbed schedules. One line per run; the model-side driver
// (ocaml/c05_run.ml) evaluates the prediction, the local-trace automata and the oracle.

import (
	"bytes"
	"context"
	"encoding/binary"
	"errors"
	"fmt"
	"io"
	"runtime"
	"sort"
	"strings"
	"sync"
	"sync/atomic"
	"time"

	"github.com/mongodb/ftdc"
	"github.com/mongodb/ftdc/events"
	"github.com/mongodb/ftdc/metrics"
	"github.com/mongodb/ftdc/util"
)

// ---------------------------------------------------------------- streams

// srStream builds metadata + nchunks chunks of nsamples samples each (three int64 metrics)
func srStream(nchunks, nsamples int) []byte { return srStreamWith(nchunks, nsamples, false) }

// with others set, two documents that are neither metadata nor a metric chunk (one of type 2, one without a type field)
// follow the first chunk: a reader skips them and goes on with the rest of the stream
func srStreamWith(nchunks, nsamples int, others bool) []byte {
	w := &logWriter{}
	c := newCollector("sdyn", nsamples, w)
	_ = c.SetMetadata(encDoc(metaDocs[0]))
	for i := 0; i < nchunks*nsamples; i++ {
		if nchunks >= 3 && i/nsamples == 1 {
			// the second chunk of a longer stream holds samples without a single metric: a good chunk like the others
			_ = c.Add(encDoc([]elem{{"s", &val{T: 0x02, B: []byte("no metrics here")}}}))
			continue
		}
		// the last metric repeats its value in the last sample of every chunk: the payload ends in a zero run of length
		// one (a zero delta followed by the run count 0, the payload's very last byte)
		cv := i % nsamples
		if cv == nsamples-1 && cv > 0 {
			cv--
		}
		_ = c.Add(encDoc([]elem{{"a", &val{T: 0x12, I: int64(i)}}, {"b", &val{T: 0x12, I: int64(i * i % 7)}}, {"c", &val{T: 0x12, I: int64(cv)}}}))
	}
	_ = flushColl(c, w)
	out := []byte{}
	for _, x := range w.writes {
		out = append(out, x...)
	}
	if others {
		docs, _ := walkDocs(out)
		out = []byte{}
		placed := false
		for _, d := range docs {
			out = append(out, d...)
			if es, ok := walkElems(d); ok && !placed {
				for _, e := range es {
					if e.key == "data" {
						out = append(out, encDoc([]elem{{"type", &val{T: 0x10, I: 2}}, {"x", &val{T: 0x12, I: 5}}})...)
						out = append(out, encDoc([]elem{{"note", &val{T: 0x02, B: []byte("no type field")}}})...)
						placed = true
					}
				}
			}
		}
	}
	return out
}

// srAbstract describes a stream as the model's input: M metadata, G<n> good chunk with n samples,
// B undecodable chunk, O other document; ":C" clean end, ":E" read error
func srAbstract(stream []byte, badChunk int, upto int, readErr bool) string {
	docs, _ := walkDocs(stream)
	var items []string
	chunk := 0
	for i, d := range docs {
		if upto >= 0 && i >= upto {
			break
		}
		es, ok := walkElems(d)
		kind := "O"
		if ok {
			for _, e := range es {
				if e.key == "type" && len(e.val) >= 4 {
					switch e.val[0] {
					case 0:
						kind = "M"
					case 1:
						kind = "G"
					}
				}
			}
		}
		if kind == "G" {
			if chunk == badChunk {
				kind = "B"
			} else {
				kind = fmt.Sprintf("G%d", srChunkSamples(d))
			}
			chunk++
		}
		items = append(items, kind)
	}
	end := ":C"
	if readErr {
		end = ":E"
	}
	if len(items) == 0 {
		return "-" + end
	}
	return strings.Join(items, ",") + end
}

// srChunkSamples reads the sample count (deltas + 1) of a chunk document
func srChunkSamples(doc []byte) int {
	es, ok := walkElems(doc)
	if !ok {
		return 0
	}
	for _, e := range es {
		if e.key == "data" && e.t == 0x05 && len(e.val) >= 9 {
			raw, hok, _ := inflateAll(e.val[5:][4:])
			if !hok || len(raw) < 4 {
				return 0
			}
			n := int(uint32(raw[0]) | uint32(raw[1])<<8 | uint32(raw[2])<<16 | uint32(raw[3])<<24)
			if n < 5 || len(raw) < n+8 {
				return 0
			}
			b := raw[n+4 : n+8]
			return int(uint32(b[0])|uint32(b[1])<<8|uint32(b[2])<<16|uint32(b[3])<<24) + 1
		}
	}
	return 0
}

// errAfterReader delivers data and then fails with an I/O error instead of io.EOF
type errAfterReader struct {
	data []byte
	pos  int
}

func (r *errAfterReader) Read(p []byte) (int, error) {
	if r.pos >= len(r.data) {
		return 0, errors.New("injected read error")
	}
	n := copy(p, r.data[r.pos:])
	r.pos += n
	return n, nil
}

type srCase struct {
	kind     string // good | corrupt | cut | ioerr
	k        int
	mk       func() io.Reader
	abstract string
	expect   bool
}

func srCases(nchunks, nsamples int) []srCase {
	base := srStreamWith(nchunks, nsamples, nchunks >= 2)
	docs, _ := walkDocs(base)
	var cs []srCase
	cs = append(cs, srCase{"good", 0, func() io.Reader { return bytes.NewReader(base) }, srAbstract(base, -1, -1, false), false})
	// three ways of cutting a chunk's payload short: inside the reference document; exactly behind the reference
	// document (the two count words are missing: the decoder's read meets a bare end of input); exactly behind a zero
	// delta whose run length is missing (again a bare end of input, in the middle of the delta section)
	cuts := []func(p []byte) []byte{
		func(p []byte) []byte {
			if len(p) > 7 {
				return p[:7]
			}
			return p[:len(p)/2]
		},
		func(p []byte) []byte {
			if len(p) >= 4 {
				if rl := int(binary.LittleEndian.Uint32(p)); rl >= 5 && rl <= len(p) {
					return p[:rl]
				}
			}
			return p[:len(p)/2]
		},
		func(p []byte) []byte {
			if len(p) >= 4 {
				if rl := int(binary.LittleEndian.Uint32(p)); rl >= 5 && rl+8 <= len(p) {
					for k := rl + 8; k < len(p); k++ {
						if p[k] == 0 && (k == rl+8 || p[k-1]&0x80 == 0) {
							return p[:k+1]
						}
					}
					return p[:rl]
				}
			}
			return p[:len(p)/2]
		},
	}
	// a payload that ends in a zero run: the run count, its very last byte, is missing
	cuts = append(cuts, func(p []byte) []byte {
		if len(p) >= 2 && p[len(p)-2] == 0 && p[len(p)-1] < 0x80 {
			return p[:len(p)-1]
		}
		return p[:len(p)/2]
	})
	// and a payload that is complete but declares one metric more than its reference document has
	cuts = append(cuts, func(p []byte) []byte {
		m := append([]byte{}, p...)
		if len(m) >= 4 {
			if rl := int(binary.LittleEndian.Uint32(m)); rl >= 5 && rl+8 <= len(m) {
				binary.LittleEndian.PutUint32(m[rl:], binary.LittleEndian.Uint32(m[rl:])+1)
				return m
			}
		}
		return m[:len(m)/2]
	})
	for k := 0; k < nchunks; k++ {
		for v, cut := range cuts {
			if v != k%len(cuts) && v != (k+2)%len(cuts) && v != (k+4)%len(cuts) && !(k == 0 && nchunks <= 2) {
				continue
			}
			bad := withPayload(base, k, cut)
			cs = append(cs, srCase{"corrupt", k + 1, func() io.Reader { return bytes.NewReader(bad) }, srAbstract(base, k, -1, false), true})
		}
	}
	off := 0
	for i, d := range docs {
		cut := base[:off+len(d)/2]
		cs = append(cs, srCase{"cut", i + 1, func() io.Reader { return bytes.NewReader(cut) }, srAbstract(base, -1, i, true), true})
		off += len(d)
		pre := base[:off]
		cs = append(cs, srCase{"ioerr", i + 1, func() io.Reader { return &errAfterReader{data: pre} }, srAbstract(base, -1, i+1, true), true})
	}
	return cs
}

// ---------------------------------------------------------------- readers

type srIter interface {
	Next() bool
	Err() error
	Close()
}

var srEntries = []string{"chunks", "metrics", "structured", "matrix", "series"}

func srOpen(entry string, ctx context.Context, r io.Reader) srIter {
	switch entry {
	case "chunks":
		return ftdc.ReadChunks(ctx, r)
	case "metrics":
		return ftdc.ReadMetrics(ctx, r)
	case "structured":
		return ftdc.ReadStructuredMetrics(ctx, r)
	case "matrix":
		return ftdc.ReadMatrix(ctx, r)
	case "series":
		return ftdc.ReadSeries(ctx, r)
	}
	panic("entry " + entry)
}

func srInstallHook(f func(string)) {
	ftdc.SetVerifHook(f)
	util.SetVerifHook(f)
	events.SetVerifHook(f)
	metrics.SetVerifHook(f)
}

// srQuiesce waits until no goroutine started by the library is left
func srQuiesce(d time.Duration) int {
	deadline := time.Now().Add(d)
	for {
		n, _ := ftdcGoroutines()
		if n == 0 || time.Now().After(deadline) {
			return n
		}
		time.Sleep(200 * time.Microsecond)
	}
}

func srTraces(s *sched) string {
	var parts []string
	for _, tr := range s.perGoroutine() {
		parts = append(parts, strings.Join(tr, ","))
	}
	if len(parts) == 0 {
		return "-"
	}
	return strings.Join(parts, ";")
}

type c05Obs struct {
	reached    bool
	e1, e2, e3 int // -1 not observed, -2 consumer hung, 0 nil, 1 non-nil
	traces     string
	counts     map[string]int
	leftover   int
}

// c05Run performs one run. label == "" : log only; perturb != nil : random yields at the points.
func c05Run(entry string, cs srCase, label string, occ int, settle time.Duration, perturb *rng) c05Obs {
	s := newSched(label, occ)
	if perturb != nil {
		var mu sync.Mutex
		srInstallHook(func(l string) {
			s.hook(l)
			mu.Lock()
			x := perturb.intn(8)
			mu.Unlock()
			switch {
			case x < 3:
				runtime.Gosched()
			case x == 3:
				time.Sleep(time.Duration(20+x*10) * time.Microsecond)
			}
		})
	}
	ctx, cancel := context.WithCancel(context.Background())
	it := srOpen(entry, ctx, cs.mk())
	done := make(chan struct{})
	// half of the runs use a consumer that also looks at Err() while it iterates (a common pattern: stop early on
	// error); asking must not change what is reported at the end
	poll := occ%2 == 1
	if perturb != nil {
		poll = perturb.intn(2) == 0
	}
	go func() {
		for it.Next() {
			if poll {
				_ = it.Err()
			}
		}
		close(done)
	}()
	o := c05Obs{e1: -1}
	finished := false
	if label != "" {
		// the consumer finishes, or the chosen point is reached and the rest of the system settles
		select {
		case <-done:
			finished = true
		case <-s.stalled:
			o.reached = true
			select {
			case <-done:
				finished = true
			case <-time.After(settle):
			}
		case <-time.After(2 * time.Second):
		}
		if finished && !o.reached {
			// the point may have been reached at the same moment
			select {
			case <-s.stalled:
				o.reached = true
			default:
			}
		}
		if finished && o.reached {
			// THE schedule of the property: the consumer saw the end while a goroutine is held
			o.e1 = errFlag(it.Err())
		}
		s.releaseStall()
	}
	if !finished {
		select {
		case <-done:
		case <-time.After(5 * time.Second):
			o.e2, o.e3 = -2, -2
		}
	}
	if o.e2 != -2 {
		o.e2 = errFlag(it.Err())
		time.Sleep(2 * time.Millisecond)
		runtime.Gosched()
		o.e3 = errFlag(it.Err())
	}
	it.Close()
	// `defer iter.Close()` ... `iter.Err()`: what was reported before Close is still reported after it
	if o.e3 == 1 && errFlag(it.Err()) == 0 {
		o.e3 = 0
	}
	cancel()
	s.releaseStall()
	o.leftover = srQuiesce(2 * time.Second)
	o.traces = srTraces(s)
	o.counts = s.labelCounts()
	uninstallSched()
	return o
}

// runs whose consumer never finished cost ten seconds each; after this many the enumeration stops (the check has failed
// by then), so that a broken implementation does not take hours to report
var c05Hung, c05MaxHung = 0, 20

func c05Line(o *out, entry string, cs srCase, label string, occ int, ob c05Obs) {
	if ob.e2 == -2 {
		c05Hung++
	}
	if label == "" {
		label = "-"
	}
	o.printf("R %s %s %d %s %d reached=%d e1=%d e2=%d e3=%d expect=%d left=%d in=%s traces=%s\n",
		entry, cs.kind, cs.k, label, occ, b2i(ob.reached), ob.e1, ob.e2, ob.e3, b2i(cs.expect), ob.leftover, cs.abstract, ob.traces)
}

// c05Catcher: G goroutines add M errors each to one catcher while readers poll it
func c05Catcher(o *out, g, m int) {
	uninstallSched()
	c := util.NewCatcher()
	var wg sync.WaitGroup
	stop := make(chan struct{})
	var rd sync.WaitGroup
	var bad int32
	for i := 0; i < 2; i++ {
		rd.Add(1)
		go func() {
			defer rd.Done()
			last := 0
			for {
				select {
				case <-stop:
					return
				default:
				}
				n := c.Len()
				if n < last || (n > 0 && !c.HasErrors()) {
					atomic.StoreInt32(&bad, 1)
				}
				last = n
			}
		}()
	}
	for i := 0; i < g; i++ {
		wg.Add(1)
		go func(i int) {
			defer wg.Done()
			for j := 0; j < m; j++ {
				c.Add(fmt.Errorf("e%d.%d", i, j))
				if j%3 == 0 {
					c.Add(nil)
				}
			}
		}(i)
	}
	wg.Wait()
	close(stop)
	rd.Wait()
	o.printf("CATCHER g=%d m=%d len=%d errors=%d has=%d resolve=%d monotone=%d\n", g, m, c.Len(), len(c.Errors()), b2i(c.HasErrors()), errFlag(c.Resolve()), 1-int(atomic.LoadInt32(&bad)))
}

func c05Main(args []string) error {
	if len(args) < 1 {
		return errors.New("usage: c05 <outfile> [entry kind k label occ]")
	}
	o, err := newOut(args[0])
	if err != nil {
		return err
	}
	defer o.close()
	thorough := envTier() == "thorough"
	r := newRng(envSeed())
	settle := 25 * time.Millisecond
	maxOcc, maxAdd, nPerturb := 2, 6, 6
	if thorough {
		settle = 150 * time.Millisecond
		maxOcc, maxAdd, nPerturb = 6, 40, 60
	}
	cases := srCases(3, 3)
	if len(args) >= 6 {
		// replay of one run: entry kind k label occ
		var k, occ int
		fmt.Sscan(args[3], &k)
		fmt.Sscan(args[5], &occ)
		for _, cs := range cases {
			if cs.kind == args[2] && cs.k == k {
				label := args[4]
				if label == "-" {
					for i := 0; i < 200; i++ {
						ob := c05Run(args[1], cs, "", i, settle, newRng(uint64(occ)+uint64(i)))
						c05Line(o, args[1], cs, "", occ, ob)
					}
					return nil
				}
				ob := c05Run(args[1], cs, label, occ, 150*time.Millisecond, nil)
				c05Line(o, args[1], cs, label, occ, ob)
			}
		}
		return nil
	}
	for _, entry := range srEntries {
		for _, cs := range cases {
			if c05Hung >= c05MaxHung {
				break
			}
			// log-only run: which points occur, and how often
			dry := c05Run(entry, cs, "", 0, settle, nil)
			c05Line(o, entry, cs, "", 0, dry)
			labels := make([]string, 0, len(dry.counts))
			for l := range dry.counts {
				labels = append(labels, l)
			}
			sort.Strings(labels)
			for _, l := range labels {
				lim := maxOcc
				if l == "catcher.add" {
					lim = maxAdd
				}
				n := dry.counts[l]
				// one more than seen: occurrence counts depend on the schedule
				for occ := 1; occ <= n+1 && occ <= lim && c05Hung < c05MaxHung; occ++ {
					ob := c05Run(entry, cs, l, occ, settle, nil)
					c05Line(o, entry, cs, l, occ, ob)
				}
			}
			for i := 0; i < nPerturb && c05Hung < c05MaxHung; i++ {
				seed := r.u64() % 1000000
				ob := c05Run(entry, cs, "", int(seed), settle, newRng(seed))
				c05Line(o, entry, cs, "", int(seed), ob)
			}
		}
	}
	for _, gm := range [][2]int{{2, 50}, {8, 200}, {32, 100}, {64, 500}} {
		c05Catcher(o, gm[0], gm[1])
	}
	return nil
}

func init() {
	commands["c05"] = c05Main
}
