package main

// C11 — metadata travels with the chunks it describes.
//
// hist.cases: operation histories on the five compressing collectors with SetMetadata at
// every position (W line after every operation, so the driver sees which records each
// operation wrote); every history is followed by its "twin": the same history, same
// documents, without the SetMetadata operations.
// read.cases: (a) the stream produced by every non-twin history (writer log ++ final
// Resolve), (b) composed streams: outputs of several collectors with different / no
// metadata concatenated, stray type-0 documents (all numeric representations of 0),
// unknown-type documents, chunk documents whose type is an int64 / double 1, unreadable
// chunks; every reader runs over every stream with Metadata() observed after every Next.

import (
	"errors"
	"fmt"
	"path/filepath"
)

var c11Metas = [][]elem{
	{{"host", &val{T: 0x02, B: []byte("h1")}}, {"n", &val{T: 0x10, I: 1}}},
	{{"host", &val{T: 0x02, B: []byte("h2")}}},
	// keys that the reader looks for at top level, nested inside the metadata
	{{"type", &val{T: 0x10, I: 1}}, {"doc", &val{T: 0x03, Doc: []elem{{"type", &val{T: 0x10, I: 0}}}}}, {"_id", &val{T: 0x12, I: 5}}},
	{},
}

func c11Op(r *rng, sym byte) hop {
	switch sym {
	case 'a':
		return hop{op: 'A', doc: poolDoc(r, 'A')}
	case 'b':
		return hop{op: 'A', doc: poolDoc(r, 'B')}
	case 'g':
		return hop{op: 'A', doc: poolDoc(r, 'G')}
	case 'u':
		return hop{op: 'A', raw: []byte{0x03, 0x00, 0x00}}
	case 'r':
		return hop{op: 'R'}
	case 'x':
		return hop{op: 'X'}
	case 'f':
		return hop{op: 'F'}
	case 'i':
		return hop{op: 'I'}
	case '0', '1', '2', '3':
		return hop{op: 'M', doc: c11Metas[sym-'0']}
	case 'n': // SetMetadata with an unreadable value: refused, what was set before stays
		return hop{op: 'N'}
	}
	panic("c11 sym")
}

func c11Erase(ops []hop) []hop {
	out := []hop{}
	for _, h := range ops {
		if h.op != 'M' && h.op != 'N' {
			out = append(out, h)
		}
	}
	return out
}

// one history, the stream it produced (all readers), and its twin
func c11Emit(ho, ro *out, id *int, c hcase) { c11EmitOpt(ho, ro, id, c, true, true) }

// twin=false: the history alone (the longest exhaustive layer of the thorough tier);
// read=false: the produced stream is not handed to the readers
func c11EmitOpt(ho, ro *out, id *int, c hcase, twin, read bool) {
	c.logEach = true
	*id++
	if read {
		runAndRead(ho, ro, *id, c, true)
	} else {
		runHistory(ho, *id, c)
	}
	if !twin {
		return
	}
	t := c
	t.ops = c11Erase(c.ops)
	t.tag = "twin"
	*id++
	runHistory(ho, *id, t)
}

// ---------------------------------------------------------------- composed streams

// output of one collector: Adds, (Flush for the streaming kinds), Resolve; metadata set first if meta >= 0
func c11Segment(r *rng, kind string, n int, meta int, schema string, late bool) []byte {
	w := &logWriter{}
	coll := newCollector(kind, n, w)
	if meta >= 0 && !late {
		_ = coll.SetMetadata(encDoc(c11Metas[meta]))
	}
	for i := 0; i < len(schema); i++ {
		_ = coll.Add(encDoc(poolDoc(r, schema[i])))
	}
	if meta >= 0 && late {
		_ = coll.SetMetadata(encDoc(c11Metas[meta]))
	}
	out := []byte{}
	if isStreamingKind(kind) {
		_ = flushColl(coll, w)
		for _, wr := range w.writes {
			out = append(out, wr...)
		}
		return out
	}
	p, err := coll.Resolve()
	if err != nil {
		return nil
	}
	return p
}

// stray outer documents. kind: '0' type-0 variants, 'u' unknown types, 'e' unreadable chunks
func c11Stray(r *rng, kind byte, variant int) []byte {
	i32 := func(x int64) *val { return &val{T: 0x10, I: x} }
	i64 := func(x int64) *val { return &val{T: 0x12, I: x} }
	dbl := func(bits uint64) *val { return &val{T: 0x01, I: int64(bits)} }
	str := func(s string) *val { return &val{T: 0x02, B: []byte(s)} }
	sub := func(d []elem) *val { return &val{T: 0x03, Doc: d} }
	id := &val{T: 0x09, I: int64(1000 + variant)}
	switch kind {
	case '0':
		switch variant % 8 {
		case 0:
			return encDoc([]elem{{"_id", id}, {"type", i32(0)}, {"doc", sub(c11Metas[0])}})
		case 1:
			return encDoc([]elem{{"_id", id}, {"type", i64(0)}, {"doc", sub(c11Metas[1])}})
		case 2:
			return encDoc([]elem{{"_id", id}, {"type", dbl(0)}, {"doc", sub(c11Metas[2])}})
		case 3: // -0.0
			return encDoc([]elem{{"_id", id}, {"type", dbl(0x8000000000000000)}, {"doc", sub(c11Metas[0])}})
		case 4: // no doc field at all
			return encDoc([]elem{{"type", i32(0)}})
		case 5: // extra fields, different order
			return encDoc([]elem{{"doc", sub(c11Metas[3])}, {"extra", str("x")}, {"type", i32(0)}, {"_id", id}})
		case 6: // doc is not a document
			return encDoc([]elem{{"_id", id}, {"type", i32(0)}, {"doc", str("not a document")}})
		default: // a second "type" key: the first one counts
			return encDoc([]elem{{"type", i32(0)}, {"type", i32(1)}, {"doc", sub(c11Metas[1])}})
		}
	case 'u':
		switch variant % 8 {
		case 0:
			return encDoc([]elem{{"_id", id}, {"type", i32(2)}, {"doc", sub(c11Metas[0])}})
		case 1:
			return encDoc([]elem{{"_id", id}, {"type", str("0")}})
		case 2:
			return encDoc([]elem{{"_id", id}, {"doc", sub(c11Metas[0])}})
		case 3:
			return encDoc([]elem{{"type", dbl(0x3FE0000000000000)}}) // 0.5
		case 4:
			return encDoc([]elem{{"type", &val{T: 0x08, Bool: false}}})
		case 5:
			return encDoc([]elem{{"type", &val{T: 0x0A}}})
		case 6:
			return encDoc([]elem{{"type", i64(-1)}, {"doc", sub(c11Metas[1])}})
		default:
			return encDoc([]elem{})
		}
	case 'e':
		switch variant % 3 {
		case 0: // chunk without data
			return encDoc([]elem{{"_id", id}, {"type", i32(1)}})
		case 1: // data whose zlib header is rejected
			return encDoc([]elem{{"_id", id}, {"type", i32(1)}, {"data", &val{T: 0x05, B: []byte{9, 0, 0, 0, 0xFF, 0xFF, 0xFF, 0xFF, 0xFF}}}})
		default: // chunk typed as int64 1 without data
			return encDoc([]elem{{"_id", id}, {"type", i64(1)}})
		}
	}
	panic("stray")
}

// retype rewrites the "type" element of every chunk document of a stream: int64 1 or double 1.0
func c11Retype(stream []byte, how int) []byte {
	docs, rest := walkDocs(stream)
	out := []byte{}
	for _, d := range docs {
		es, ok := walkElems(d)
		if !ok {
			out = append(out, d...)
			continue
		}
		changed := false
		for i, e := range es {
			if e.key == "type" && e.t == 0x10 && len(e.val) == 4 && e.val[0] == 1 {
				if how == 1 {
					es[i] = rawElem{0x12, "type", le64(1)}
				} else {
					es[i] = rawElem{0x01, "type", le64(0x3FF0000000000000)}
				}
				changed = true
			}
		}
		if changed {
			out = append(out, buildDoc(es)...)
		} else {
			out = append(out, d...)
		}
	}
	return append(out, rest...)
}

// insert stray documents between the outer documents of a stream
func c11Interleave(r *rng, stream []byte, nstray int, withBroken bool) []byte {
	docs, rest := walkDocs(stream)
	pieces := make([][]byte, 0, len(docs)+nstray)
	pieces = append(pieces, docs...)
	for i := 0; i < nstray; i++ {
		kind := byte('0')
		if r.chance(1, 3) {
			kind = 'u'
		}
		if withBroken && r.chance(1, 6) {
			kind = 'e'
		}
		s := c11Stray(r, kind, r.intn(24))
		pos := r.intn(len(pieces) + 1)
		pieces = append(pieces, nil)
		copy(pieces[pos+1:], pieces[pos:])
		pieces[pos] = s
	}
	out := []byte{}
	for _, p := range pieces {
		out = append(out, p...)
	}
	return append(out, rest...)
}

func init() {
	commands["c11"] = func(args []string) error {
		if len(args) < 1 {
			return errors.New("usage: c11 <outdir>")
		}
		ho, err := newOut(filepath.Join(args[0], "hist.cases"))
		if err != nil {
			return err
		}
		ro, err := newOut(filepath.Join(args[0], "read.cases"))
		if err != nil {
			return err
		}
		r := newRng(envSeed())
		thorough := envTier() == "thorough"
		id := 0

		// ---- (a1) exhaustive: every history of <= L operations over {Add A, Add B, Resolve, Reset, Flush},
		// SetMetadata inserted at every position (one M; two Ms at every pair of positions with a
		// different or the same document), a final Resolve observing the end state
		maxLen, pairLen := 3, 2
		if thorough {
			maxLen, pairLen = 5, 3
		}
		for ki, kind := range compressingKinds {
			enumerate("abrxf", maxLen, func(h string) {
				// quick tier: all histories up to length 3; thorough: all up to 5
				n := 1 + (len(h)+ki)%2
				mk := func(syms []byte) {
					c := hcase{kind: kind, n: n}
					for _, s := range syms {
						c.ops = append(c.ops, c11Op(r, s))
					}
					c.ops = append(c.ops, hop{op: 'R'})
					// every second stream of this (highly repetitive) layer goes to the readers
					c11EmitOpt(ho, ro, &id, c, len(h) <= 4, len(h) <= 4 && id%4 == 0)
				}
				ins := func(base []byte, pos int, sym byte) []byte {
					out := make([]byte, 0, len(base)+1)
					out = append(out, base[:pos]...)
					out = append(out, sym)
					return append(out, base[pos:]...)
				}
				base := []byte(h)
				for p := 0; p <= len(base); p++ {
					mk(ins(base, p, byte('0'+(p+len(h))%3)))
				}
				if len(h) <= pairLen {
					for p := 0; p <= len(base); p++ {
						for q := p; q <= len(base); q++ {
							one := ins(base, q, '1')
							mk(ins(one, p, '0')) // replaced by a different document
							if (p+q)%2 == 1 {
								mk(ins(ins(base, q, 'n'), p, '0')) // a refused SetMetadata after an accepted one
							}
							if (p+q)%2 == 0 {
								mk(ins(ins(base, q, '2'), p, '2')) // re-set to the same document
							}
						}
					}
				}
			})
		}
		// sampled longer exhaustive layer in the quick tier
		if !thorough {
			for k := 0; k < 400; k++ {
				l := 4 + r.intn(2)
				syms := make([]byte, 0, l+2)
				for i := 0; i < l; i++ {
					syms = append(syms, "abrxf"[r.intn(5)])
				}
				for m := 0; m < 1+r.intn(2); m++ {
					pos := r.intn(len(syms) + 1)
					syms = append(syms, 0)
					copy(syms[pos+1:], syms[pos:])
					syms[pos] = byte('0' + r.intn(4))
				}
				c := hcase{kind: compressingKinds[r.intn(5)], n: 1 + r.intn(2)}
				for _, s := range syms {
					c.ops = append(c.ops, c11Op(r, s))
				}
				c.ops = append(c.ops, hop{op: 'R'})
				c11Emit(ho, ro, &id, c)
			}
		}
		// ---- (a2) random long histories: all operations, wrappers, writer faults
		nrand := 250
		if thorough {
			nrand = 6000
		}
		for k := 0; k < nrand; k++ {
			c := hcase{kind: compressingKinds[r.intn(5)], n: 1 + r.intn(5)}
			c.wrapper = pickWrapper(r, c.kind)
			l := 5 + r.intn(40)
			for i := 0; i < l; i++ {
				sym := "aaaaaaabbbgurrxff00123in"[r.intn(24)]
				c.ops = append(c.ops, c11Op(r, sym))
			}
			c.ops = append(c.ops, hop{op: 'R'})
			if r.chance(1, 4) {
				nf := 1 + r.intn(4)
				for i := 0; i < nf; i++ {
					switch r.intn(4) {
					case 0:
						c.faults = append(c.faults, fault{kind: fError})
					case 1:
						c.faults = append(c.faults, fault{kind: fShort, n: r.intn(60)})
					default:
						c.faults = append(c.faults, fault{kind: fNone})
					}
				}
			}
			c11Emit(ho, ro, &id, c)
		}

		// ---- (b1) exhaustive composed streams over an alphabet of stream pieces
		type piece struct {
			name string
			gen  func() []byte
		}
		pieces := []piece{
			{"c", func() []byte { return c11Segment(r, "base", 3, -1, "AA", false) }},                          // chunk, no metadata
			{"d", func() []byte { return c11Segment(r, "batch", 1, -1, "BB", false) }},                         // two chunks, no metadata
			{"m", func() []byte { return c11Segment(r, "base", 3, 0, "A", false) }},                            // metadata + chunk from a collector
			{"0", func() []byte { return c11Stray(r, '0', r.intn(8)) }},                                        // stray type-0 document
			{"9", func() []byte { return c11Stray(r, '0', 1) }},                                                // a fixed other type-0 document
			{"u", func() []byte { return c11Stray(r, 'u', r.intn(8)) }},                                        // unknown type
			{"e", func() []byte { return c11Stray(r, 'e', r.intn(3)) }},                                        // unreadable chunk
			{"t", func() []byte { return c11Retype(c11Segment(r, "base", 2, -1, "AAA", false), 1+r.intn(2)) }}, // chunk typed int64/double 1
		}
		names := ""
		for _, p := range pieces {
			names += p.name
		}
		slen := 3
		if thorough {
			slen = 5
		}
		sid := 0
		enumerate(names, slen, func(seq string) {
			if thorough && len(seq) == 5 && !r.chance(1, 4) {
				return
			}
			stream := []byte{}
			for i := 0; i < len(seq); i++ {
				for _, p := range pieces {
					if p.name[0] == seq[i] {
						stream = append(stream, p.gen()...)
					}
				}
			}
			sid++
			readAllExpect(ro, fmt.Sprintf("x%d:%s", sid, seq), stream, true, nil)
		})
		// the empty stream
		readAllExpect(ro, "x0:empty", []byte{}, true, nil)

		// ---- (b2) random composed streams: several collectors with different / no metadata, set early or late,
		// multi-chunk outputs, stray documents inserted between the outer documents
		ncomp := 300
		if thorough {
			ncomp = 8000
		}
		for k := 0; k < ncomp; k++ {
			stream := []byte{}
			nseg := 1 + r.intn(4)
			for s := 0; s < nseg; s++ {
				kind := compressingKinds[r.intn(5)]
				n := 1 + r.intn(3)
				meta := r.intn(len(c11Metas)+2) - 2 // -2,-1: none
				if meta < -1 {
					meta = -1
				}
				cnt := 1 + r.intn(2*n+1)
				if kind == "base" && cnt > n+1 {
					cnt = n + 1
				}
				schema := make([]byte, cnt)
				cur := "AB"[r.intn(2)]
				for i := range schema {
					if (kind == "dyn" || kind == "sdyn") && r.chance(1, 4) {
						cur = "AB"[r.intn(2)]
					}
					schema[i] = cur
				}
				seg := c11Segment(r, kind, n, meta, string(schema), r.chance(1, 3))
				if r.chance(1, 8) {
					seg = c11Retype(seg, 1+r.intn(2))
				}
				stream = append(stream, seg...)
			}
			stream = c11Interleave(r, stream, r.intn(5), r.chance(1, 5))
			readAllExpect(ro, fmt.Sprintf("y%d", k), stream, true, nil)
		}
		if err := ho.close(); err != nil {
			return err
		}
		return ro.close()
	}
}
