package main

// C04: malformed streams. The parent process generates mutants of valid seed
// streams; a worker subprocess runs every reader on them (a panic, a hang or an
// out-of-memory kill of the worker is an observation, not a failure of the check).

import (
	"bufio"
	"bytes"
	"compress/zlib"
	"encoding/binary"
	"encoding/hex"
	"errors"
	"fmt"
	"os"
	"os/exec"
	"path/filepath"
	"strconv"
	"strings"
	"time"
)

func zdeflate(p []byte) []byte {
	var zbuf bytes.Buffer
	zw := zlib.NewWriter(&zbuf)
	_, _ = zw.Write(p)
	_ = zw.Close()
	return zbuf.Bytes()
}

// rebuildChunk replaces the payload of the k-th chunk document of a stream
func withPayload(stream []byte, k int, f func(payload []byte) []byte) []byte {
	docs, rest := walkDocs(stream)
	out := []byte{}
	seen := 0
	for _, d := range docs {
		es, ok := walkElems(d)
		done := false
		if ok {
			for i, e := range es {
				if e.key == "data" && e.t == 0x05 && len(e.val) >= 9 {
					if seen == k {
						zb := e.val[5:]
						raw, hok, _ := inflateAll(zb[4:])
						if hok {
							np := f(raw)
							nd := le32(uint32(len(np)))
							nd = append(nd, zdeflate(np)...)
							nv := le32(uint32(len(nd)))
							nv = append(nv, e.val[4])
							nv = append(nv, nd...)
							es[i].val = nv
							out = append(out, buildDoc(es)...)
							done = true
						}
					}
					seen++
				}
			}
		}
		if !done {
			out = append(out, d...)
		}
	}
	return append(out, rest...)
}

func c04Seeds(r *rng) [][]byte {
	var seeds [][]byte
	mk := func(kind string, n int, docs [][]elem, meta []elem) []byte {
		w := &logWriter{}
		c := newCollector(kind, n, w)
		if meta != nil {
			_ = c.SetMetadata(encDoc(meta))
		}
		for _, d := range docs {
			_ = c.Add(encDoc(d))
		}
		_ = flushColl(c, w)
		out := []byte{}
		for _, x := range w.writes {
			out = append(out, x...)
		}
		return out
	}
	// 1. tiny: one chunk, two int64 metrics, three samples
	d := func(a, b int64) []elem { return []elem{{"a", &val{T: 0x12, I: a}}, {"b", &val{T: 0x12, I: b}}} }
	seeds = append(seeds, mk("base", 5, [][]elem{d(1, 2), d(1, 5), d(3, 5)}, nil))
	// 2. metadata + two chunks, nested document with several leaf types
	o := schemaOpts{maxDepth: 2, maxWidth: 3, nonMetric: true, timestamps: false}
	seeds = append(seeds, mk("batch", 2, genSameSchemaDocs(r, o, 4), metaDocs[0]))
	// 3. streaming output with zero runs
	seeds = append(seeds, mk("stream", 3, [][]elem{d(7, 7), d(7, 7), d(7, 7), d(7, 8), d(0, 8)}, metaDocs[1]))
	// 4. chunks whose reference document has no metrics at all (only non-metric leaves)
	z := func(t string) []elem { return []elem{{"s", &val{T: 0x02, B: []byte(t)}}, {"o", &val{T: 0x0A}}} }
	seeds = append(seeds, mk("batch", 2, [][]elem{z("u"), z("v"), z("w")}, nil))
	// 5. every BSON element type the validator knows, in the reference document and in the metadata (the unchanged
	// stream and its prefixes exercise the length arithmetic of each type on well-formed input)
	all := func(x int64) []elem {
		return []elem{
			{"d", &val{T: 0x01, I: 0x4000000000000000}}, {"s", &val{T: 0x02, B: []byte("text")}},
			{"o", &val{T: 0x03, Doc: []elem{{"i", &val{T: 0x10, I: x}}}}}, {"a", &val{T: 0x04, Arr: []*val{{T: 0x12, I: x}, {T: 0x02, B: []byte("e")}}}},
			{"b", &val{T: 0x05, Sub: 0, B: []byte{1, 2, 3}}}, {"u", &val{T: 0x06}}, {"oid", &val{T: 0x07, B: []byte("0123456789ab")}},
			{"t", &val{T: 0x08, Bool: true}}, {"dt", &val{T: 0x09, I: 1600000000000 + x}}, {"n", &val{T: 0x0A}},
			{"re", &val{T: 0x0B, B: []byte("^conn[0-9]+$"), B2: []byte("i")}}, {"re2", &val{T: 0x0B, B: []byte("x"), B2: []byte("imsx")}},
			{"dbp", &val{T: 0x0C, B: []byte("ns"), B2: []byte("0123456789ab")}}, {"js", &val{T: 0x0D, B: []byte("f()")}},
			{"sym", &val{T: 0x0E, B: []byte("sym")}}, {"jsw", &val{T: 0x0F, B: []byte("g()"), Doc: []elem{{"v", &val{T: 0x10, I: 7}}}}},
			{"i32", &val{T: 0x10, I: x}}, {"ts", &val{T: 0x11, T2: 0, I: x}}, {"i64", &val{T: 0x12, I: x * 3}},
			{"dec", &val{T: 0x13, B: []byte("0123456789abcdef")}}, {"min", &val{T: 0xFF}}, {"max", &val{T: 0x7F}},
		}
	}
	seeds = append(seeds, mk("batch", 3, [][]elem{all(1), all(2), all(5)}, all(9)))
	return seeds
}

var subst = []byte{0x00, 0xFF, 0x7F, 0x80, 0x01, 0x10}

func c04Mutants(r *rng, seed []byte, thorough bool, emit func(tag string, b []byte)) {
	n := len(seed)
	// every prefix
	for k := 0; k <= n; k++ {
		emit(fmt.Sprintf("prefix%d", k), seed[:k])
	}
	// substitution / insertion / deletion at every offset of the outer stream
	for k := 0; k < n; k++ {
		vals := []byte{seed[k] ^ 1, seed[k] + 1}
		if thorough {
			vals = append(vals, subst...)
		} else {
			vals = append(vals, subst[r.intn(len(subst))])
		}
		for _, v := range vals {
			if v == seed[k] {
				continue
			}
			m := append([]byte{}, seed...)
			m[k] = v
			emit(fmt.Sprintf("sub%d=%02x", k, v), m)
		}
		if thorough || k%3 == 0 {
			m := append(append(append([]byte{}, seed[:k]...), subst[r.intn(len(subst))]), seed[k:]...)
			emit(fmt.Sprintf("ins%d", k), m)
			m2 := append(append([]byte{}, seed[:k]...), seed[k+1:]...)
			emit(fmt.Sprintf("del%d", k), m2)
		}
	}
	// perturbed 32-bit fields at every 4-byte window that looks like a length/count
	for k := 0; k+4 <= n; k++ {
		v := binary.LittleEndian.Uint32(seed[k:])
		if v == 0 || v > uint32(n)+16 {
			continue
		}
		for _, nv := range []uint32{v + 1, v - 1, 0, 1 << 31, 0xFFFFFFFF, 4, 5} {
			m := append([]byte{}, seed...)
			binary.LittleEndian.PutUint32(m[k:], nv)
			emit(fmt.Sprintf("len%d=%d", k, nv), m)
		}
	}
	// mutations of the decompressed payload of each chunk (re-compressed)
	docs, _ := walkDocs(seed)
	nchunks := 0
	for _, dd := range docs {
		if es, ok := walkElems(dd); ok {
			for _, e := range es {
				if e.key == "data" && e.t == 0x05 {
					nchunks++
				}
			}
		}
	}
	for c := 0; c < nchunks; c++ {
		var plen int
		_ = withPayload(seed, c, func(p []byte) []byte { plen = len(p); return p })
		for k := 0; k <= plen; k++ {
			kk := k
			emit(fmt.Sprintf("pcut%d.%d", c, k), withPayload(seed, c, func(p []byte) []byte { return append([]byte{}, p[:kk]...) }))
			if k == plen {
				break
			}
			for _, v := range []byte{0x00, 0xFF, 0x80} {
				vv := v
				emit(fmt.Sprintf("psub%d.%d=%02x", c, k, v), withPayload(seed, c, func(p []byte) []byte {
					m := append([]byte{}, p...)
					if m[kk] == vv {
						m[kk] ^= 0x55
					} else {
						m[kk] = vv
					}
					return m
				}))
			}
			if thorough || k%2 == 0 {
				emit(fmt.Sprintf("pdel%d.%d", c, k), withPayload(seed, c, func(p []byte) []byte {
					return append(append([]byte{}, p[:kk]...), p[kk+1:]...)
				}))
				emit(fmt.Sprintf("pins%d.%d", c, k), withPayload(seed, c, func(p []byte) []byte {
					return append(append(append([]byte{}, p[:kk]...), 0x81), p[kk:]...)
				}))
			}
		}
		// the two count fields of the payload (metrics, deltas) set to boundary values
		for fi, field := range []string{"nm", "nd"} {
			for _, nv := range []uint32{0, 1, 2, 50000, 1<<27 + 1, 1 << 31, 0xFFFFFFFF} {
				fo, v := fi*4, nv
				emit(fmt.Sprintf("p%s%d=%d", field, c, nv), withPayload(seed, c, func(p []byte) []byte {
					m := append([]byte{}, p...)
					if len(m) >= 4 {
						rl := int(binary.LittleEndian.Uint32(m))
						if rl+8 <= len(m) {
							binary.LittleEndian.PutUint32(m[rl+fo:], v)
						}
					}
					return m
				}))
			}
		}
		// every varint of the delta section (deltas and zero-run counts alike) replaced by extreme encodings:
		// 2^63-1, 2^63 and 2^64-1 (nine and ten bytes), 2^31, 2^32, and an eleven-byte overlong one
		extremes := [][]byte{
			{0xFF, 0xFF, 0xFF, 0xFF, 0xFF, 0xFF, 0xFF, 0xFF, 0x7F},
			{0x80, 0x80, 0x80, 0x80, 0x80, 0x80, 0x80, 0x80, 0x80, 0x01},
			{0xFF, 0xFF, 0xFF, 0xFF, 0xFF, 0xFF, 0xFF, 0xFF, 0xFF, 0x01},
			{0x80, 0x80, 0x80, 0x80, 0x08},
			{0x80, 0x80, 0x80, 0x80, 0x10},
			{0x80, 0x80, 0x80, 0x80, 0x80, 0x80, 0x80, 0x80, 0x80, 0x80, 0x01},
		}
		var starts [][2]int // offset and length of each varint of the delta section
		_ = withPayload(seed, c, func(p []byte) []byte {
			if len(p) >= 4 {
				if rl := int(binary.LittleEndian.Uint32(p)); rl >= 5 && rl+8 <= len(p) {
					for k := rl + 8; k < len(p); {
						j := k
						for j < len(p) && p[j]&0x80 != 0 {
							j++
						}
						if j >= len(p) {
							break
						}
						starts = append(starts, [2]int{k, j + 1 - k})
						k = j + 1
					}
				}
			}
			return p
		})
		for vi, st := range starts {
			if vi >= 24 && !thorough {
				break
			}
			for xi, x := range extremes {
				o, l, xx := st[0], st[1], x
				emit(fmt.Sprintf("pnvar%d.%d=%d", c, vi, xi), withPayload(seed, c, func(p []byte) []byte {
					m := append([]byte{}, p[:o]...)
					m = append(m, xx...)
					return append(m, p[o+l:]...)
				}))
			}
		}
		// count fields of the payload: they follow the reference document
		emit(fmt.Sprintf("pcount%d", c), withPayload(seed, c, func(p []byte) []byte {
			m := append([]byte{}, p...)
			if len(m) >= 4 {
				rl := int(binary.LittleEndian.Uint32(m))
				if rl+8 <= len(m) {
					binary.LittleEndian.PutUint32(m[rl+4:], binary.LittleEndian.Uint32(m[rl+4:])+1)
				}
			}
			return m
		}))
	}
	// length-consistent truncation inside a metadata document: an element is moved to the end of the embedded document
	// and its value loses its last k bytes, with the lengths of the embedded and of the outer document adjusted: the
	// frames are intact, only the last value is shorter than its type says
	for di, dd := range docs {
		es, ok := walkElems(dd)
		if !ok {
			continue
		}
		for ei, e := range es {
			if e.key != "doc" || e.t != 0x03 {
				continue
			}
			inner, ok := walkElems(e.val)
			if !ok {
				continue
			}
			for ii, ie := range inner {
				for k := 1; k <= 13 && k <= len(ie.val); k++ {
					if !thorough && k > 2 && k != 12 && k != len(ie.val) {
						continue
					}
					moved := append([]rawElem{}, inner[:ii]...)
					moved = append(moved, inner[ii+1:]...)
					moved = append(moved, rawElem{ie.t, ie.key, ie.val[:len(ie.val)-k]})
					outer := append([]rawElem{}, es...)
					outer[ei] = rawElem{e.t, e.key, buildDoc(moved)}
					m := []byte{}
					for dj, other := range docs {
						if dj == di {
							m = append(m, buildDoc(outer)...)
						} else {
							m = append(m, other...)
						}
					}
					emit(fmt.Sprintf("ptrunc%d.%d.%d", di, ii, k), m)
				}
			}
		}
	}
	// type confusion of the three outer fields of every document
	off := 0
	for _, dd := range docs {
		if es, ok := walkElems(dd); ok {
			pos := off + 4
			for _, e := range es {
				for _, t := range []byte{0x01, 0x02, 0x03, 0x04, 0x05, 0x08, 0x09, 0x0A, 0x10, 0x12} {
					if t == e.t {
						continue
					}
					m := append([]byte{}, seed...)
					m[pos] = t
					emit(fmt.Sprintf("type%d=%02x", pos, t), m)
				}
				pos += 1 + len(e.key) + 1 + len(e.val)
			}
		}
		off += len(dd)
	}
}

func init() {
	// worker: reads "id hex" lines, appends reader observations; flushes after every stream
	commands["c04worker"] = func(args []string) error {
		in, err := os.Open(args[0])
		if err != nil {
			return err
		}
		start, _ := strconv.Atoi(args[2])
		f, err := os.OpenFile(args[1], os.O_APPEND|os.O_WRONLY|os.O_CREATE, 0644)
		if err != nil {
			return err
		}
		sc := bufio.NewScanner(in)
		sc.Buffer(make([]byte, 1<<20), 1<<28)
		idx := 0
		for sc.Scan() {
			if idx < start {
				idx++
				continue
			}
			t := strings.SplitN(sc.Text(), " ", 2)
			b, _ := hex.DecodeString(t[1])
			o := &out{f: f, w: bufio.NewWriterSize(f, 1<<16)}
			o.printf("BEGIN %d\n", idx)
			_ = o.w.Flush()
			readAll(o, t[0], b, false)
			_ = o.w.Flush()
			idx++
		}
		return f.Close()
	}

	commands["c04"] = func(args []string) error {
		if len(args) < 1 {
			return errors.New("usage: c04 <outdir>")
		}
		r := newRng(envSeed())
		thorough := envTier() == "thorough"
		inPath := filepath.Join(args[0], "streams.txt")
		outPath := filepath.Join(args[0], "read.cases")
		_ = os.Remove(outPath)
		so, err := newOut(inPath)
		if err != nil {
			return err
		}
		total := 0
		seen := map[string]bool{}
		for si, seed := range c04Seeds(r) {
			light := si == 3
			medium := si == 4
			nmut := 0
			c04Mutants(r, seed, thorough, func(tag string, b []byte) {
				if light && !strings.HasPrefix(tag, "pn") && !(strings.HasPrefix(tag, "prefix") && len(b)%7 == 0) {
					return
				}
				if medium {
					// the all-types stream is long: every prefix, every deletion and every length-field perturbation of
					// the outer stream, the count-field and varint mutants, and every third of the rest
					nmut++
					keep := strings.HasPrefix(tag, "prefix") || strings.HasPrefix(tag, "del") || strings.HasPrefix(tag, "len") ||
						strings.HasPrefix(tag, "pn") || strings.HasPrefix(tag, "pcount") || strings.HasPrefix(tag, "ptrunc") || nmut%3 == 0
					if !keep || (!thorough && strings.HasPrefix(tag, "p") && !strings.HasPrefix(tag, "prefix") && !strings.HasPrefix(tag, "pn") && !strings.HasPrefix(tag, "ptrunc") && nmut%4 != 0) {
						return
					}
				}
				h := hex.EncodeToString(b)
				if seen[h] {
					return
				}
				seen[h] = true
				if !thorough && total > 0 && !strings.HasPrefix(tag, "prefix") && !strings.HasPrefix(tag, "pcut") && !strings.HasPrefix(tag, "pn") && r.intn(100) < 35 {
					return
				}
				so.printf("s%d.%s %s\n", si, tag, h)
				total++
			})
		}
		if err := so.close(); err != nil {
			return err
		}
		// run the worker; restart after the offending stream when it dies or hangs
		start := 0
		crashes := 0
		for start < total {
			cmd := exec.Command(os.Args[0], "c04worker", inPath, outPath, strconv.Itoa(start))
			cmd.Env = append(os.Environ(), "GOMEMLIMIT=2GiB", "GOTRACEBACK=single")
			var stderr bytes.Buffer
			cmd.Stderr = &stderr
			if err := cmd.Start(); err != nil {
				return err
			}
			done := make(chan error, 1)
			go func() { done <- cmd.Wait() }()
			// progress watchdog: the worker must finish a stream every 10 seconds
			last, lastChange := -1, time.Now()
			var werr error
			finished := false
			for !finished {
				select {
				case werr = <-done:
					finished = true
				case <-time.After(500 * time.Millisecond):
					cur := lastBegin(outPath)
					if cur != last {
						last, lastChange = cur, time.Now()
					} else if time.Since(lastChange) > 10*time.Second {
						_ = cmd.Process.Kill()
						<-done
						werr = errors.New("hang")
						finished = true
					}
				}
			}
			cur := lastBegin(outPath)
			if werr == nil {
				break
			}
			crashes++
			f, _ := os.OpenFile(outPath, os.O_APPEND|os.O_WRONLY, 0644)
			kind := "CRASH"
			if werr.Error() == "hang" {
				kind = "HANG"
			}
			msg := strings.ReplaceAll(firstLines(stderr.String(), 3), "\n", " | ")
			fmt.Fprintf(f, "\n%s %d %s\nENDS\n", kind, cur, msg)
			f.Close()
			start = cur + 1
			if crashes > 200 {
				return errors.New("too many crashes")
			}
		}
		fmt.Printf("c04 streams=%d crashes_or_hangs=%d\n", total, crashes)
		return nil
	}
}

func firstLines(s string, n int) string {
	l := strings.Split(s, "\n")
	if len(l) > n {
		l = l[:n]
	}
	return strings.Join(l, "\n")
}

// lastBegin returns the index of the last "BEGIN n" line of the worker output
func lastBegin(path string) int {
	f, err := os.Open(path)
	if err != nil {
		return -1
	}
	defer f.Close()
	st, _ := f.Stat()
	off := st.Size() - (1 << 16)
	if off < 0 {
		off = 0
	}
	buf := make([]byte, st.Size()-off)
	_, _ = f.ReadAt(buf, off)
	i := bytes.LastIndex(buf, []byte("BEGIN "))
	if i < 0 {
		return -1
	}
	rest := buf[i+6:]
	j := bytes.IndexByte(rest, '\n')
	if j < 0 {
		j = len(rest)
	}
	n, _ := strconv.Atoi(string(rest[:j]))
	return n
}
