package main

// C18: CSV export and import. Chunk streams are produced by the real collectors,
// then WriteCSV, DumpCSV and ConvertFromCSV (+ ReadChunks over its output) are run
// and everything they deliver is written out for the model-side driver:
//
//	CASE <id> <tag>
//	S <hex of the normalised source stream>      (T <hex text> for a bare CSV text case)
//	SRC => <err> <nchunks>  followed by the C lines of the source chunks
//	W => <err> <hex csv text>
//	D => <err> <nfiles> <hex file 0> ...
//	V <bucket> => <err>                          ConvertFromCSV of WriteCSV's text
//	RR <bucket> => <err> <nchunks>  followed by the C lines of the chunks read back
//	VF <bucket> => <err> <nwrites>               ConvertFromCSV into a writer that always fails
//	END

import (
	"bytes"
	"context"
	"encoding/hex"
	"errors"
	"fmt"
	"os"
	"path/filepath"
	"strings"
	"time"

	"github.com/mongodb/ftdc"
)

func hexOrDash(b []byte) string {
	if len(b) == 0 {
		return "-"
	}
	return hex.EncodeToString(b)
}

// c18ChunkLines reads a stream with ReadChunks: one "C npoints nmetrics K:<hexkey>:v,v,..." line per chunk
func c18ChunkLines(ctx context.Context, stream []byte) (lines []string, err error) {
	it := ftdc.ReadChunks(ctx, bytes.NewReader(stream))
	for it.Next() {
		c := it.Chunk()
		var sb strings.Builder
		fmt.Fprintf(&sb, "C %d %d", c.Size(), len(c.Metrics))
		for _, m := range c.Metrics {
			vs := make([]string, len(m.Values))
			for i, v := range m.Values {
				vs[i] = fmt.Sprint(v)
			}
			fmt.Fprintf(&sb, " K:%s:%s", hexOrDash([]byte(m.Key())), strings.Join(vs, ","))
		}
		lines = append(lines, sb.String())
	}
	err = it.Err()
	it.Close()
	return
}

type alwaysFail struct{ n int }

func (f *alwaysFail) Write(p []byte) (int, error) {
	f.n++
	return 0, errors.New("injected write error")
}

var c18Buckets = []int{1, 2, 7}

// c18Convert runs ConvertFromCSV on a text for every bucket size and reads the result back
func c18Convert(ctx context.Context, o *out, text []byte) {
	for _, b := range c18Buckets {
		var outb bytes.Buffer
		err := ftdc.ConvertFromCSV(ctx, b, bytes.NewReader(text), &outb)
		o.printf("V %d => %d\n", b, errFlag(err))
		lines, rerr := c18ChunkLines(ctx, outb.Bytes())
		o.printf("RR %d => %d %d\n", b, errFlag(rerr), len(lines))
		for _, l := range lines {
			o.printf("%s\n", l)
		}
	}
	for _, b := range []int{2, 7} {
		fw := &alwaysFail{}
		err := ftdc.ConvertFromCSV(ctx, b, bytes.NewReader(text), fw)
		o.printf("VF %d => %d %d\n", b, errFlag(err), fw.n)
	}
}

// c18Case runs every CSV entry point on one chunk stream
func c18Case(ctx context.Context, o *out, dir string, id int, tag string, stream []byte) error {
	o.printf("CASE %d %s\n", id, tag)
	o.printf("S %s\n", hexOrDash(normalizeEncoded(stream)))
	lines, serr := c18ChunkLines(ctx, stream)
	o.printf("SRC => %d %d\n", errFlag(serr), len(lines))
	for _, l := range lines {
		o.printf("%s\n", l)
	}

	var buf bytes.Buffer
	werr := ftdc.WriteCSV(ctx, ftdc.ReadChunks(ctx, bytes.NewReader(stream)), &buf)
	o.printf("W => %d %s\n", errFlag(werr), hexOrDash(buf.Bytes()))

	tmp := filepath.Join(dir, fmt.Sprintf("c18tmp-%d", id))
	if err := os.MkdirAll(tmp, 0o755); err != nil {
		return err
	}
	// longer files of an earlier dump with the same prefix are already there: a file DumpCSV writes must be
	// replaced as a whole (files it does not touch are not its output and are removed again before the listing)
	stale := bytes.Repeat([]byte("stale,row,of,an,earlier,dump\n"), 2048)
	if id%2 == 0 {
		for n := 0; n < 6; n++ {
			if err := os.WriteFile(filepath.Join(tmp, fmt.Sprintf("p.%d.csv", n)), stale, 0o600); err != nil {
				return err
			}
		}
	}
	derr := ftdc.DumpCSV(ctx, ftdc.ReadChunks(ctx, bytes.NewReader(stream)), filepath.Join(tmp, "p"))
	if id%2 == 0 {
		for n := 0; n < 6; n++ {
			fn := filepath.Join(tmp, fmt.Sprintf("p.%d.csv", n))
			if b, err := os.ReadFile(fn); err == nil && bytes.Equal(b, stale) {
				os.Remove(fn)
			}
		}
	}
	files := []string{}
	for n := 0; ; n++ {
		b, err := os.ReadFile(filepath.Join(tmp, fmt.Sprintf("p.%d.csv", n)))
		if err != nil {
			break
		}
		files = append(files, hexOrDash(b))
	}
	// anything else DumpCSV may have left behind counts as a file, too
	if es, err := os.ReadDir(tmp); err == nil && len(es) != len(files) {
		for _, e := range es {
			files = append(files, "EXTRA:"+hex.EncodeToString([]byte(e.Name())))
		}
	}
	if err := os.RemoveAll(tmp); err != nil {
		return err
	}
	o.printf("D => %d %d %s\n", errFlag(derr), len(files), strings.Join(files, " "))

	c18Convert(ctx, o, buf.Bytes())
	o.printf("END\n")
	return nil
}

func c18TextCase(ctx context.Context, o *out, id int, text []byte) {
	o.printf("CASE %d text\n", id)
	o.printf("T %s\n", hexOrDash(text))
	c18Convert(ctx, o, text)
	o.printf("END\n")
}

// ---------------------------------------------------------------- generators

// keys with CSV metacharacters and other bytes that encoding/csv treats specially
var c18Keys = []string{"#", "#c", "# note", ";", "a#b", ",", "\"", "\n", " ", "a,b", "\"q\"", "x\ny", " lead", "trail ", "\ttab", "\r", "a\rb", "end\r",
	"\\.", "\\.x", "a\"", "\"\"", ",,", "\n\n", "a\n", "\nb", "q\"\"q", "é", " nbsp", " em", "　cjk", "\u0085nel",
	"\xc2", "\xff", "\xe2\x80", "-5", "12", "+7", "k k", "k\"k,k\nk"}

type c18Seg struct {
	shape []elem
	count int
}

func (r *rng) c18Key(used map[string]bool, special bool) string {
	for tries := 0; ; tries++ {
		var k string
		if special && r.chance(2, 3) {
			k = c18Keys[r.intn(len(c18Keys))]
		} else {
			k = keyPool[r.intn(len(keyPool))]
		}
		if tries > 20 {
			k = fmt.Sprintf("%s%d", k, tries)
		}
		if !used[k] {
			used[k] = true
			return k
		}
	}
}

// c18Shape: a document shape with nm metric leaves (timestamps count twice), optionally nested
// and with non-metric leaves in between
func (r *rng) c18Shape(nm int, special, dates, nested bool) []elem {
	used := map[string]bool{}
	var d []elem
	o := schemaOpts{timestamps: true}
	left := nm
	for left > 0 {
		if r.chance(1, 6) {
			d = append(d, elem{r.c18Key(used, special), r.nonMetricLeaf()})
			continue
		}
		var v *val
		for {
			v = r.metricLeaf(o)
			if v.T == 0x09 && !dates {
				continue
			}
			if v.T == 0x11 && left < 2 {
				continue
			}
			break
		}
		if v.T == 0x11 {
			left -= 2
		} else {
			left--
		}
		if nested && r.chance(1, 4) {
			k2 := r.c18Key(map[string]bool{}, special)
			if r.chance(1, 2) {
				v = &val{T: 0x03, Doc: []elem{{k2, v}}}
			} else {
				v = &val{T: 0x04, Arr: []*val{v}}
			}
		}
		d = append(d, elem{r.c18Key(used, special), v})
	}
	if nm == 0 {
		d = append(d, elem{r.c18Key(used, special), r.nonMetricLeaf()})
	}
	return d
}

// c18Stream feeds the segments to one collector and returns the bytes it produced
func c18Stream(r *rng, kind string, n int, segs []c18Seg) []byte {
	w := &logWriter{}
	coll := newCollector(kind, n, w)
	for _, s := range segs {
		var prev []elem
		mode := valueMode(r.intn(4))
		for i := 0; i < s.count; i++ {
			m := mode
			if r.chance(1, 4) {
				m = valueMode(r.intn(4))
			}
			d := r.fill(s.shape, prev, m)
			prev = d
			_ = coll.Add(encDoc(d))
		}
	}
	var final []byte
	if isStreamingKind(kind) {
		_ = flushColl(coll, w)
	} else if p, err := coll.Resolve(); err == nil {
		final = p
	}
	stream := []byte{}
	for _, wr := range w.writes {
		stream = append(stream, wr...)
	}
	return append(stream, final...)
}

func c18SimpleStream(kind string, n int, docs [][]elem) []byte {
	w := &logWriter{}
	coll := newCollector(kind, n, w)
	for _, d := range docs {
		_ = coll.Add(encDoc(d))
	}
	var final []byte
	if isStreamingKind(kind) {
		_ = flushColl(coll, w)
	} else if p, err := coll.Resolve(); err == nil {
		final = p
	}
	stream := []byte{}
	for _, wr := range w.writes {
		stream = append(stream, wr...)
	}
	return append(stream, final...)
}

var c18TextTokens = []string{"a", "b", "1", "2", "-3", "+4", "007", "-", "+", "", ",", ",", "\"", "\"", "\"\"", "\n", "\n", "\r\n", "\r", " ",
	"9223372036854775807", "-9223372036854775808", "9223372036854775808", "1_0", "1e3", "0x10", "x y", "1970-01-01T00:00:00Z"}

func (r *rng) c18Text() []byte {
	var sb strings.Builder
	switch r.intn(3) {
	case 0: // free soup
		n := 1 + r.intn(14)
		for i := 0; i < n; i++ {
			sb.WriteString(c18TextTokens[r.intn(len(c18TextTokens))])
		}
	default: // mostly regular table with occasional irregularities
		cols := 1 + r.intn(3)
		rows := 1 + r.intn(6)
		for i := 0; i < rows; i++ {
			c := cols
			if r.chance(1, 6) {
				c = 1 + r.intn(4)
			}
			for j := 0; j < c; j++ {
				if j > 0 {
					sb.WriteString(",")
				}
				switch {
				case i == 0:
					sb.WriteString([]string{"a", "b", "k", "\"q,\"", "\"x\ny\"", ""}[r.intn(6)])
				case r.chance(1, 8):
					sb.WriteString(c18TextTokens[r.intn(len(c18TextTokens))])
				default:
					sb.WriteString(fmt.Sprint(r.i64Value(nil, vmRandom)))
				}
			}
			if i < rows-1 || r.chance(3, 4) {
				sb.WriteString([]string{"\n", "\n", "\n", "\r\n"}[r.intn(4)])
			}
		}
	}
	return []byte(sb.String())
}

func init() {
	// c18replay <outdir> S|T <hex>: re-run the implementation on one recorded input
	commands["c18replay"] = func(args []string) error {
		if len(args) < 3 {
			return errors.New("usage: c18replay <outdir> S|T <hex>")
		}
		o, err := newOut(filepath.Join(args[0], "replay.cases"))
		if err != nil {
			return err
		}
		time.Local = time.UTC
		ctx := context.Background()
		var in []byte
		if args[2] != "-" {
			if in, err = hex.DecodeString(args[2]); err != nil {
				return err
			}
		}
		if args[1] == "T" {
			c18TextCase(ctx, o, 1, in)
		} else if err := c18Case(ctx, o, args[0], 1, "replay", denormalizeStream(in)); err != nil {
			return err
		}
		return o.close()
	}
	commands["c18"] = func(args []string) error {
		if len(args) < 1 {
			return errors.New("usage: c18 <outdir>")
		}
		dir := args[0]
		o, err := newOut(filepath.Join(dir, "c18.cases"))
		if err != nil {
			return err
		}
		// datetime cells are rendered in the local zone; the model renders UTC
		time.Local = time.UTC
		ctx := context.Background()
		r := newRng(envSeed())
		r.tsSeconds = false
		thorough := envTier() == "thorough"
		id := 0
		nrand, ntext := 500, 300
		if thorough {
			nrand, ntext = 12000, 6000
		}

		// 1. random streams: same schema / count-changing / key-changing with equal count
		dynKinds := []string{"dyn", "sdyn"}
		for i := 0; i < nrand; i++ {
			special := r.chance(1, 2)
			dates := r.chance(1, 3)
			nested := r.chance(1, 4)
			n := []int{1, 2, 3, 5, 10}[r.intn(5)]
			var segs []c18Seg
			kind := compressingKinds[r.intn(len(compressingKinds))]
			tag := "same"
			switch r.intn(6) {
			case 0, 1, 2: // one schema, possibly several chunks
				nm := 1 + r.intn(5)
				cnt := 1 + r.intn(3*n)
				if kind == "base" && cnt > n+1 {
					cnt = 1 + r.intn(n+1)
				}
				segs = []c18Seg{{r.c18Shape(nm, special, dates, nested), cnt}}
			case 3, 4: // the metric count changes between segments
				tag = "count"
				kind = dynKinds[r.intn(2)]
				nseg := 2 + r.intn(3)
				last := -1
				for s := 0; s < nseg; s++ {
					nm := 1 + r.intn(4)
					if r.chance(1, 12) {
						nm = 0
					}
					if nm == last && r.chance(3, 4) {
						nm++
					}
					last = nm
					segs = append(segs, c18Seg{r.c18Shape(nm, special, dates, nested), 1 + r.intn(2*n)})
				}
			default: // same count, different keys
				tag = "keys"
				kind = dynKinds[r.intn(2)]
				nm := 1 + r.intn(3)
				for s := 0; s < 2+r.intn(2); s++ {
					segs = append(segs, c18Seg{r.c18Shape(nm, special, dates, false), 1 + r.intn(2*n)})
				}
			}
			id++
			if err := c18Case(ctx, o, dir, id, tag, c18Stream(r, kind, n, segs)); err != nil {
				return err
			}
		}

		// 2. every key of at most 3 characters over {a , " \n}: alone, and as the second of two metrics
		i64 := func(k string, v int64) elem { return elem{k, &val{T: 0x12, I: v}} }
		enumerate("a,\"\n", 3, func(k string) {
			if k == "" {
				return
			}
			id++
			_ = c18Case(ctx, o, dir, id, "key1", c18SimpleStream("base", 3, [][]elem{{i64(k, 5)}, {i64(k, -6)}}))
			id++
			_ = c18Case(ctx, o, dir, id, "key2", c18SimpleStream("sdyn", 2,
				[][]elem{{i64("z", 1), i64(k, 2)}, {i64("z", -3), i64(k, 4)}, {i64("z", 0), i64(k, -9223372036854775808)}}))
		})

		// 3. corner cases: no chunk at all, a lone empty key, empty key among others, CR LF in a key,
		//    a chunk without metrics followed by one with metrics
		str := func(k string) elem { return elem{k, &val{T: 0x02, B: []byte("s")}} }
		corner := [][][]elem{
			{},
			{{i64("", 5)}, {i64("", 6)}},
			{{i64("a", 1), i64("", 2)}, {i64("a", 3), i64("", 4)}},
			{{i64("", 1), i64("b", 2)}, {i64("", 3), i64("b", 4)}},
			{{i64("a\r\nb", 1)}, {i64("a\r\nb", 2)}},
			{{str("s")}, {str("s")}, {i64("a", 1), i64("b", 2)}, {i64("a", 3), i64("b", 4)}},
			{{str("s")}, {str("s")}},
			{{i64("a", 1), i64("b", 2)}, {str("s")}, {i64("a", 3), i64("b", 4)}},
		}
		for _, docs := range corner {
			id++
			if err := c18Case(ctx, o, dir, id, "corner", c18SimpleStream("sdyn", 3, docs)); err != nil {
				return err
			}
		}

		// 4. bare CSV texts through ConvertFromCSV (reader and header-switch logic)
		for i := 0; i < ntext; i++ {
			id++
			c18TextCase(ctx, o, id, r.c18Text())
		}
		return o.close()
	}
}
