package main

// C13: quantiles, Min/Max/Mean, Merge, WindowedHistogram and snapshot round trips of
// hdrhist, observed through the public API (plus VerifCounts / VerifGeometry of the
// verif-tag file).  One line per case, inputs before the "|" token, the
// implementation's observations after it:
//
//   Q lo hi s n v1..vn nq q1..qnq | total min max meanbits ntie nlt1 nkept {q goRank exactRank value}*nkept
//   M k {lo hi s n v1..vn}*k      | dropped_2..dropped_k total nnz {idx count}*nnz      (operand 1 is the target)
//   W n lo hi s nops {v|R|m}*nops | total nnz {idx count}*nnz                           (R = Rotate, m = a Merge() call)
//   X lo hi s n v1..vn            | eqExportImport total eqBSON total eqJSON total      (total -1: error)
//
// A lower-case kind letter (q m w x) marks a case whose geometry is too large for the
// model's cell iteration: the driver evaluates only the oracle (point functions) on it.

import (
	"bufio"
	"errors"
	"fmt"
	"math"
	"math/big"
	"os"
	"sort"
	"strconv"
	"strings"

	"github.com/mongodb/ftdc/hdrhist"
)

// ---------------------------------------------------------------- the float step

var (
	c13Eps  = big.NewRat(1, 1000000000)
	c13Half = big.NewRat(1, 2)
	c13One  = big.NewRat(1, 1)
)

// c13Rank returns the rank as hdrhist.ValueAtQuantile computes it (same expression on
// float64) and, independently, floor(q*n/100 + 1/2) in exact rational arithmetic on the
// exact value of the float64 q; tie reports that q*n/100+1/2 is within 1e-9 of an integer.
func c13Rank(q float64, n int64) (goRank, exact int64, tie bool) {
	if q > 100 {
		q = 100
	}
	totalCount := n
	countAtPercentile := int64(((q / 100) * float64(totalCount)) + 0.5)
	goRank = countAtPercentile

	x := new(big.Rat).SetFloat64(q)
	x.Mul(x, new(big.Rat).SetInt64(n))
	x.Quo(x, big.NewRat(100, 1))
	x.Add(x, c13Half)
	fl := new(big.Int).Div(x.Num(), x.Denom()) // x >= 0: floor
	frac := new(big.Rat).Sub(x, new(big.Rat).SetInt(fl))
	up := new(big.Rat).Sub(c13One, frac)
	tie = frac.Cmp(c13Eps) < 0 || up.Cmp(c13Eps) < 0
	return goRank, fl.Int64(), tie
}

func c13FmtQ(q float64) string { return strconv.FormatFloat(q, 'g', -1, 64) }

// ---------------------------------------------------------------- observations

type c13Stats struct {
	lines                     map[string]int
	qKept, qTie, qLt1, qRankD int
	mergeDropped              int
}

var c13St = c13Stats{lines: map[string]int{}}

func c13PrintValues(o *out, vs []int64) {
	o.printf(" %d", len(vs))
	for _, v := range vs {
		o.printf(" %d", v)
	}
}

func c13Hist(c hcfg, vs []int64) (*hdrhist.Histogram, int) {
	h := hdrhist.New(c.lo, c.hi, c.s)
	return h, recordRuns(h, vs, len(vs)%3 == 1)
}

func c13PrintSparse(o *out, h *hdrhist.Histogram) {
	cs := h.VerifCounts()
	nnz := 0
	for _, c := range cs {
		if c != 0 {
			nnz++
		}
	}
	o.printf(" %d %d", h.TotalCount(), nnz)
	for i, c := range cs {
		if c != 0 {
			o.printf(" %d %d", i, c)
		}
	}
}

func c13ObserveQ(o *out, kind string, c hcfg, vs []int64, qs []float64) {
	c13St.lines[kind]++
	h, _ := c13Hist(c, vs)
	o.printf("%s %d %d %d", kind, c.lo, c.hi, c.s)
	c13PrintValues(o, vs)
	o.printf(" %d", len(qs))
	for _, q := range qs {
		o.printf(" %s", c13FmtQ(q))
	}
	n := h.TotalCount()
	type kept struct {
		q    float64
		g, e int64
		val  int64
	}
	var ks []kept
	ntie, nlt1 := 0, 0
	for _, q := range qs {
		g, e, tie := c13Rank(q, n)
		if tie {
			ntie++
			continue
		}
		if e < 1 {
			nlt1++
			continue
		}
		if g != e {
			c13St.qRankD++
		}
		ks = append(ks, kept{q, g, e, h.ValueAtQuantile(q)})
	}
	c13St.qKept += len(ks)
	c13St.qTie += ntie
	c13St.qLt1 += nlt1
	o.printf(" | %d %d %d %d %d %d %d", n, h.Min(), h.Max(), math.Float64bits(h.Mean()), ntie, nlt1, len(ks))
	for _, k := range ks {
		o.printf(" %s %d %d %d", c13FmtQ(k.q), k.g, k.e, k.val)
	}
	o.printf("\n")
}

type c13Op struct {
	c  hcfg
	vs []int64
}

func c13ObserveM(o *out, kind string, ops []c13Op) {
	c13St.lines[kind]++
	o.printf("%s %d", kind, len(ops))
	hs := make([]*hdrhist.Histogram, len(ops))
	for i, op := range ops {
		o.printf(" %d %d %d", op.c.lo, op.c.hi, op.c.s)
		c13PrintValues(o, op.vs)
		hs[i], _ = c13Hist(op.c, op.vs)
	}
	o.printf(" |")
	any := false
	for i := 1; i < len(ops); i++ {
		d := hs[0].Merge(hs[i])
		if d != 0 {
			any = true
		}
		o.printf(" %d", d)
	}
	if any {
		c13St.mergeDropped++
	}
	c13PrintSparse(o, hs[0])
	o.printf("\n")
}

const (
	c13Rot   = int64(-1)
	c13Merge = int64(-2)
)

func c13ObserveW(o *out, kind string, n int, c hcfg, ops []int64) {
	c13St.lines[kind]++
	w := hdrhist.NewWindowed(n, c.lo, c.hi, c.s)
	o.printf("%s %d %d %d %d %d", kind, n, c.lo, c.hi, c.s, len(ops))
	for _, op := range ops {
		switch op {
		case c13Rot:
			w.Rotate()
			o.printf(" R")
		case c13Merge:
			w.Merge()
			o.printf(" m")
		default:
			_ = w.Current.RecordValue(op)
			o.printf(" %d", op)
		}
	}
	o.printf(" |")
	c13PrintSparse(o, w.Merge())
	o.printf("\n")
}

func c13ObserveX(o *out, kind string, c hcfg, vs []int64) {
	c13St.lines[kind]++
	h, _ := c13Hist(c, vs)
	o.printf("%s %d %d %d", kind, c.lo, c.hi, c.s)
	c13PrintValues(o, vs)
	o.printf(" |")
	// Export / Import: the snapshot is taken, THEN the source histogram keeps recording (and a second snapshot is
	// imported and recorded into), and only then is the first snapshot imported: it must still hold exactly vs
	snap := h.Export()
	other := hdrhist.Import(h.Export())
	for _, v := range vs {
		_ = h.RecordValue(v)
		_ = other.RecordValue(v)
	}
	_ = h.RecordValue(c.lo)
	h, _ = c13Hist(c, vs) // an independent histogram holding vs, for the comparisons below
	h2 := hdrhist.Import(snap)
	o.printf(" %d %d", b2i(h2.Equals(h) && h.Equals(h2)), h2.TotalCount())
	// BSON
	if b, err := h.MarshalBSON(); err != nil {
		o.printf(" 0 -1")
	} else {
		h3 := &hdrhist.Histogram{}
		if err := h3.UnmarshalBSON(b); err != nil {
			o.printf(" 0 -1")
		} else {
			o.printf(" %d %d", b2i(h3.Equals(h) && h.Equals(h3)), h3.TotalCount())
		}
	}
	// JSON
	if b, err := h.MarshalJSON(); err != nil {
		o.printf(" 0 -1")
	} else {
		h4 := &hdrhist.Histogram{}
		if err := h4.UnmarshalJSON(b); err != nil {
			o.printf(" 0 -1")
		} else {
			o.printf(" %d %d", b2i(h4.Equals(h) && h.Equals(h4)), h4.TotalCount())
		}
	}
	o.printf("\n")
}

// ---------------------------------------------------------------- replay: re-observe the inputs of one case line

type c13Toks struct {
	t []string
	i int
}

func (t *c13Toks) next() (string, error) {
	if t.i >= len(t.t) {
		return "", errors.New("short case line")
	}
	t.i++
	return t.t[t.i-1], nil
}
func (t *c13Toks) i64() (int64, error) {
	s, err := t.next()
	if err != nil {
		return 0, err
	}
	return strconv.ParseInt(s, 10, 64)
}
func (t *c13Toks) cfg() (hcfg, error) {
	var c hcfg
	var err error
	if c.lo, err = t.i64(); err != nil {
		return c, err
	}
	if c.hi, err = t.i64(); err != nil {
		return c, err
	}
	s, err := t.i64()
	c.s = int(s)
	return c, err
}
func (t *c13Toks) values() ([]int64, error) {
	n, err := t.i64()
	if err != nil || n < 0 {
		return nil, errors.New("bad count")
	}
	vs := make([]int64, n)
	for i := range vs {
		if vs[i], err = t.i64(); err != nil {
			return nil, err
		}
	}
	return vs, nil
}

func c13Reobserve(o *out, line string) error {
	all := strings.Fields(line)
	for i, x := range all {
		if x == "|" {
			all = all[:i]
			break
		}
	}
	if len(all) == 0 {
		return errors.New("empty case line")
	}
	kind := all[0]
	t := &c13Toks{t: all, i: 1}
	switch strings.ToUpper(kind) {
	case "Q":
		c, err := t.cfg()
		if err != nil {
			return err
		}
		vs, err := t.values()
		if err != nil {
			return err
		}
		nq, err := t.i64()
		if err != nil {
			return err
		}
		qs := make([]float64, nq)
		for i := range qs {
			s, err := t.next()
			if err != nil {
				return err
			}
			if qs[i], err = strconv.ParseFloat(s, 64); err != nil {
				return err
			}
		}
		c13ObserveQ(o, kind, c, vs, qs)
	case "M":
		k, err := t.i64()
		if err != nil {
			return err
		}
		ops := make([]c13Op, k)
		for i := range ops {
			if ops[i].c, err = t.cfg(); err != nil {
				return err
			}
			if ops[i].vs, err = t.values(); err != nil {
				return err
			}
		}
		c13ObserveM(o, kind, ops)
	case "W":
		n, err := t.i64()
		if err != nil {
			return err
		}
		c, err := t.cfg()
		if err != nil {
			return err
		}
		nops, err := t.i64()
		if err != nil {
			return err
		}
		ops := make([]int64, nops)
		for i := range ops {
			s, err := t.next()
			if err != nil {
				return err
			}
			switch s {
			case "R":
				ops[i] = c13Rot
			case "m":
				ops[i] = c13Merge
			default:
				if ops[i], err = strconv.ParseInt(s, 10, 64); err != nil {
					return err
				}
			}
		}
		c13ObserveW(o, kind, int(n), c, ops)
	case "X":
		c, err := t.cfg()
		if err != nil {
			return err
		}
		vs, err := t.values()
		if err != nil {
			return err
		}
		c13ObserveX(o, kind, c, vs)
	default:
		return fmt.Errorf("unknown case kind %q", kind)
	}
	return nil
}

// ---------------------------------------------------------------- generators

func c13Bits(x int64) int {
	n := 0
	for ; x > 0; x >>= 1 {
		n++
	}
	return n
}

var c13Los = []int64{0, 1, 1, 1, 1, 2, 3, 4, 8, 10, 64, 100, 1000}

// configurations the model can iterate: s in 1..2, at most a few thousand cells
func c13Cfg(r *rng) hcfg {
	s := 1 + r.intn(2)
	maxBits := 20
	if s == 2 {
		maxBits = 16
	}
	bits := 3 + r.intn(maxBits-2)
	hi := int64(1)<<uint(bits) + r.i64n(int64(1)<<uint(bits)) - 1
	switch r.intn(6) {
	case 0:
		hi = int64(1) << uint(bits) // exact bucket boundary
	case 1:
		hi = 1 + r.i64n(300)
	}
	lo := c13Los[r.intn(len(c13Los))]
	if r.chance(1, 5) {
		lo = 1 + r.i64n(hi)
	}
	if lo > hi && !r.chance(1, 4) {
		lo = 1
	}
	return hcfg{lo, hi, s}
}

// configurations with s in 3..5: only point functions on the model side
func c13CfgBig(r *rng) hcfg {
	s := 3 + r.intn(3)
	if s == 5 && !r.chance(1, 3) {
		s = 3 + r.intn(2)
	}
	var bits int
	switch s {
	case 3:
		bits = 10 + r.intn(31)
	case 4:
		bits = 14 + r.intn(19)
	default:
		bits = 17 + r.intn(7)
	}
	hi := int64(1)<<uint(bits) + r.i64n(int64(1)<<uint(bits)) - 1
	if r.chance(1, 5) {
		hi = int64(1) << uint(bits)
	}
	lo := c13Los[r.intn(len(c13Los))]
	if r.chance(1, 6) {
		lo = int64(1) << uint(r.intn(bits))
	}
	return hcfg{lo, hi, s}
}

// one value of the given flavour, always in 0..hi
func c13Value(r *rng, c hcfg, bnd []int64, mode int) int64 {
	switch mode {
	case 0: // uniform
		return r.i64n(c.hi + 1)
	case 1: // skewed: log-uniform
		b := r.intn(c13Bits(c.hi) + 1)
		v := r.i64n(int64(1)<<uint(b) + 1)
		if v > c.hi {
			v = c.hi
		}
		return v
	case 2: // at bucket / sub-bucket boundaries
		if len(bnd) > 0 {
			return bnd[r.intn(len(bnd))]
		}
		return r.i64n(c.hi + 1)
	default: // tight cluster with a few far outliers
		if r.chance(1, 12) {
			return c.hi - r.i64n(c.hi/16+1)
		}
		return r.i64n(c.hi/64 + 2)
	}
}

func c13Boundaries(r *rng, c hcfg) []int64 {
	g := hdrhist.New(c.lo, c.hi, c.s).VerifGeometry()
	var bnd []int64
	for _, v := range c12Boundaries(r, c, g, 40) {
		if v >= 0 && v <= c.hi {
			bnd = append(bnd, v)
		}
	}
	return bnd
}

// a multiset of n values: skewed, clustered at boundaries, heavy duplicates, ...
func c13Values(r *rng, c hcfg, n int) []int64 {
	bnd := c13Boundaries(r, c)
	flavour := r.intn(7)
	vs := make([]int64, n)
	switch flavour {
	case 4: // heavy duplicates: a pool of 1..4 values
		pool := make([]int64, 1+r.intn(4))
		for i := range pool {
			pool[i] = c13Value(r, c, bnd, r.intn(4))
		}
		for i := range vs {
			vs[i] = pool[r.intn(len(pool))]
		}
	case 5: // all equal
		v := c13Value(r, c, bnd, r.intn(4))
		for i := range vs {
			vs[i] = v
		}
	case 6: // mixture, with repeats of the previous value
		for i := range vs {
			if i > 0 && r.chance(1, 3) {
				vs[i] = vs[i-1]
			} else {
				vs[i] = c13Value(r, c, bnd, r.intn(4))
			}
		}
	default:
		for i := range vs {
			vs[i] = c13Value(r, c, bnd, flavour)
		}
	}
	if n > 0 && r.chance(1, 6) {
		vs[r.intn(n)] = 0
	}
	if n > 0 && r.chance(1, 6) {
		vs[r.intn(n)] = c.hi
	}
	if r.chance(1, 6) {
		sort.Slice(vs, func(a, b int) bool { return vs[a] < vs[b] })
	}
	return vs
}

// sizes 1..200, small sizes favoured
func c13Size(r *rng) int {
	switch r.intn(6) {
	case 0:
		return 1 + r.intn(4)
	case 1, 2:
		return 1 + r.intn(30)
	case 3, 4:
		return 1 + r.intn(100)
	default:
		return 1 + r.intn(200)
	}
}

var c13SpecialQ = []float64{100, 99.999, 99.99, 99.9, 99.5, 99, 98, 95, 90, 80, 75, 66.66, 50, 33.33, 25, 20, 10, 5, 2.5, 1, 0.5, 0.1, 0.01}

// a dense quantile grid for a multiset of n values, ascending, without repetitions
func c13Quantiles(r *rng, n int, count int) []float64 {
	qs := append([]float64(nil), c13SpecialQ...)
	for len(qs) < count {
		switch r.intn(8) {
		case 0, 1, 2: // 0.01 steps
			qs = append(qs, float64(1+r.intn(10000))/100)
		case 3: // the same grid computed by multiplication (different float)
			qs = append(qs, float64(1+r.intn(10000))*0.01)
		case 4, 5: // dyadics
			j := 1 + r.intn(10)
			qs = append(qs, 100*float64(1+r.intn(1<<uint(j)))/float64(int(1)<<uint(j)))
		case 6: // exactly the quantile of a rank: q*n/100 = k
			qs = append(qs, 100*float64(1+r.intn(n))/float64(n))
		default: // rounding ties q*n/100 = k - 1/2 (dropped when within 1e-9) and tiny q (rank 0)
			if r.chance(1, 4) {
				qs = append(qs, 1/float64(int64(1)<<uint(10+r.intn(30))))
			} else {
				qs = append(qs, 100*(float64(1+r.intn(n))-0.5)/float64(n))
			}
		}
	}
	return c13SortQ(qs)
}

func c13SortQ(qs []float64) []float64 {
	sort.Float64s(qs)
	out := qs[:0]
	for i, q := range qs {
		if q > 0 && q <= 100 && (i == 0 || q != qs[i-1]) {
			out = append(out, q)
		}
	}
	return out
}

func c13FullGrid() []float64 {
	qs := make([]float64, 0, 10000)
	for i := 1; i <= 10000; i++ {
		qs = append(qs, float64(i)/100)
	}
	return qs
}

// all multisets of size 1..k over pool (as sorted index vectors)
func c13Multisets(pool []int64, k int, f func(vs []int64)) {
	var rec func(start int, cur []int64)
	rec = func(start int, cur []int64) {
		if len(cur) > 0 {
			f(append([]int64(nil), cur...))
		}
		if len(cur) == k {
			return
		}
		for i := start; i < len(pool); i++ {
			rec(i, append(cur, pool[i]))
		}
	}
	rec(0, nil)
}

// all assignments of the elements of vs to k operands
func c13Splits(vs []int64, k int, f func(parts [][]int64)) {
	total := 1
	for range vs {
		total *= k
	}
	for code := 0; code < total; code++ {
		parts := make([][]int64, k)
		x := code
		for _, v := range vs {
			parts[x%k] = append(parts[x%k], v)
			x /= k
		}
		f(parts)
	}
}

func c13Schedule(r *rng, c hcfg, n, length int) []int64 {
	bnd := c13Boundaries(r, c)
	rotDen := 2 + r.intn(12)
	ops := make([]int64, 0, length)
	for i := 0; i < length; i++ {
		switch {
		case r.chance(1, rotDen):
			ops = append(ops, c13Rot)
		case r.chance(1, 15):
			ops = append(ops, c13Merge)
		default:
			ops = append(ops, c13Value(r, c, bnd, r.intn(4)))
		}
	}
	if r.chance(1, 4) { // a burst of rotations: more than n in a row empties the ring
		for i := 0; i < n+r.intn(2) && len(ops) > 0; i++ {
			ops[r.intn(len(ops))] = c13Rot
		}
	}
	return ops
}

func c13Generate(o *out, r *rng, thorough bool) {
	mul := 1
	if thorough {
		mul = 20
	}

	// ---- 0. witnesses of two recorded findings: a quantile whose rank q*n/100 ends in exactly one half (the float
	//         expression int64(q/100*n + 0.5) can land on the rank below), and a Mean whose sum of count*value leaves
	//         int64. T lo hi s n q goRank exactRank value tie ; U lo hi s v count meanbits total
	for _, w := range [][2]int64{{45, 70}, {25, 58}, {50, 29}, {50, 57}, {75, 82}, {85, 70}, {90, 35}, {40, 70}, {10, 25}} {
		c := hcfg{1, 1000, 3}
		h := hdrhist.New(c.lo, c.hi, c.s)
		for v := int64(1); v <= w[0]; v++ {
			_ = h.RecordValue(v)
		}
		q := float64(w[1])
		g, e, tie := c13Rank(q, w[0])
		o.printf("T %d %d %d %d %s %d %d %d %d\n", c.lo, c.hi, c.s, w[0], c13FmtQ(q), g, e, h.ValueAtQuantile(q), b2i(tie))
	}
	for _, w := range [][2]int64{{20000000000, 500000000}, {20000000000, 5}, {3000000000000, 4000000}} {
		c := hcfg{1, 3600000000000, 3}
		h := hdrhist.New(c.lo, c.hi, c.s)
		_ = h.RecordValues(w[0], w[1])
		o.printf("U %d %d %d %d %d %d %d\n", c.lo, c.hi, c.s, w[0], w[1], math.Float64bits(h.Mean()), h.TotalCount())
	}

	// ---- 1. quantiles / Min / Max / Mean: random multisets, dense q grid
	for i := 0; i < 400*mul; i++ {
		c := c13Cfg(r)
		vs := c13Values(r, c, c13Size(r))
		c13ObserveQ(o, "Q", c, vs, c13Quantiles(r, len(vs), 60))
	}
	// every multiset of at most 3 (thorough: 4) values from a pool of 6 boundary values
	npool, ksize := 1, 3
	if thorough {
		npool, ksize = 20, 4
	}
	for i := 0; i < npool; i++ {
		c := c13Cfg(r)
		bnd := c13Boundaries(r, c)
		pool := []int64{0, c.hi}
		for len(pool) < 6 {
			pool = append(pool, c13Value(r, c, bnd, 1+r.intn(2)))
		}
		sort.Slice(pool, func(a, b int) bool { return pool[a] < pool[b] })
		c13Multisets(pool, ksize, func(vs []int64) {
			qs := []float64{}
			for k := 1; k <= len(vs); k++ { // every rank, plus its tie
				qs = append(qs, 100*float64(k)/float64(len(vs)), 100*(float64(k)-0.5)/float64(len(vs)), 100*(float64(k)-0.25)/float64(len(vs)))
			}
			qs = append(qs, c13SpecialQ...)
			c13ObserveQ(o, "Q", c, vs, c13SortQ(qs))
		})
	}
	// the full 0.01 grid
	for i := 0; i < 4*mul; i++ {
		c := c13Cfg(r)
		c.s = 1
		vs := c13Values(r, c, 1+r.intn(200))
		c13ObserveQ(o, "Q", c, vs, c13FullGrid())
	}
	// large geometries (s = 3..5): oracle only
	for i := 0; i < 60*mul; i++ {
		c := c13CfgBig(r)
		nq := 40
		if c.s == 5 {
			nq = 12
		}
		vs := c13Values(r, c, c13Size(r))
		c13ObserveQ(o, "q", c, vs, c13Quantiles(r, len(vs), nq))
	}

	// ---- 2. merge
	// all splits of small multisets into 2 and 3 operands (both merge orders are among them)
	for i := 0; i < 8*mul; i++ {
		c := c13Cfg(r)
		vs := c13Values(r, c, 2+r.intn(3))
		for k := 2; k <= 3; k++ {
			c13Splits(vs, k, func(parts [][]int64) {
				ops := make([]c13Op, k)
				for j := range ops {
					ops[j] = c13Op{c, parts[j]}
				}
				c13ObserveM(o, "M", ops)
			})
		}
	}
	// random splits of larger multisets, equal geometry, both orders
	for i := 0; i < 150*mul; i++ {
		c := c13Cfg(r)
		vs := c13Values(r, c, c13Size(r))
		cut := r.intn(len(vs) + 1)
		if r.chance(1, 2) { // random assignment instead of a prefix cut
			r2 := append([]int64(nil), vs...)
			for j := len(r2) - 1; j > 0; j-- {
				k := r.intn(j + 1)
				r2[j], r2[k] = r2[k], r2[j]
			}
			vs = r2
		}
		a, b := c13Op{c, vs[:cut]}, c13Op{c, vs[cut:]}
		c13ObserveM(o, "M", []c13Op{a, b})
		c13ObserveM(o, "M", []c13Op{b, a})
	}
	// different geometries (dropped > 0 when the target range is smaller), both orders
	for i := 0; i < 200*mul; i++ {
		ca, cb := c13Cfg(r), c13Cfg(r)
		switch r.intn(6) {
		case 0, 1, 2: // same but smaller range
			cb = hcfg{ca.lo, ca.hi>>uint(1+r.intn(6)) + 1, ca.s}
		case 3: // same range, other precision
			cb = hcfg{ca.lo, ca.hi, 3 - ca.s}
		case 4: // same range, other unit
			cb = hcfg{c13Los[r.intn(len(c13Los))], ca.hi, ca.s}
		}
		a := c13Op{ca, c13Values(r, ca, r.intn(60))}
		b := c13Op{cb, c13Values(r, cb, r.intn(60))}
		for j := 0; j < len(a.vs) && j < 1+r.intn(3); j++ { // some values in the upper half of the larger range
			a.vs[r.intn(len(a.vs))] = ca.hi - r.i64n(ca.hi/2+1)
		}
		c13ObserveM(o, "M", []c13Op{a, b})
		c13ObserveM(o, "M", []c13Op{b, a})
	}
	// three and four operands, mixed geometries
	for i := 0; i < 60*mul; i++ {
		c := c13Cfg(r)
		k := 3 + r.intn(2)
		ops := make([]c13Op, k)
		for j := range ops {
			cj := c
			if r.chance(1, 4) {
				cj = c13Cfg(r)
			}
			ops[j] = c13Op{cj, c13Values(r, cj, r.intn(40))}
		}
		c13ObserveM(o, "M", ops)
	}
	// large geometries
	for i := 0; i < 40*mul; i++ {
		ca := c13CfgBig(r)
		for ca.s == 5 {
			ca = c13CfgBig(r)
		}
		cb := ca
		if r.chance(1, 2) {
			cb = hcfg{ca.lo, ca.hi>>uint(1+r.intn(8)) + 1, ca.s}
		}
		a := c13Op{ca, c13Values(r, ca, r.intn(80))}
		b := c13Op{cb, c13Values(r, cb, r.intn(80))}
		if r.chance(1, 2) {
			a, b = b, a
		}
		c13ObserveM(o, "m", []c13Op{a, b})
	}

	// ---- 3. windows
	// every schedule over {record, rotate} up to a length bound, for every ring size
	maxN, maxLen := 3, 6
	if thorough {
		maxN, maxLen = 4, 10
	}
	for n := 1; n <= maxN; n++ {
		c := c13Cfg(r)
		for l := 1; l <= maxLen; l++ {
			for code := 0; code < 1<<uint(l); code++ {
				ops := make([]int64, l)
				for j := range ops {
					if code>>uint(j)&1 == 1 {
						ops[j] = c13Rot
					} else {
						ops[j] = (int64(j)*c.hi/int64(maxLen) + int64(j)) % (c.hi + 1)
					}
				}
				c13ObserveW(o, "W", n, c, ops)
			}
		}
	}
	for i := 0; i < 250*mul; i++ {
		c := c13Cfg(r)
		n := 1 + r.intn(4)
		c13ObserveW(o, "W", n, c, c13Schedule(r, c, n, 1+r.intn(80)))
	}
	for i := 0; i < 30*mul; i++ {
		c := c13CfgBig(r)
		for c.s == 5 {
			c = c13CfgBig(r)
		}
		n := 1 + r.intn(4)
		c13ObserveW(o, "w", n, c, c13Schedule(r, c, n, 1+r.intn(60)))
	}

	// ---- 4. Export/Import, BSON, JSON
	for i := 0; i < 150*mul; i++ {
		c := c13Cfg(r)
		n := c13Size(r)
		if r.chance(1, 10) {
			n = 0
		}
		c13ObserveX(o, "X", c, c13Values(r, c, n))
	}
	// larger counts arrays (birch's MarshalBSON is quadratic in the array length: 11 s for
	// s = 4, hi = 2^30, so the lengths stay below about 33000)
	for i := 0; i < 30*mul; i++ {
		bits := 10 + r.intn(13)
		c := hcfg{c13Los[r.intn(len(c13Los))], int64(1)<<uint(bits) + r.i64n(int64(1)<<uint(bits)), 3}
		if i%10 == 9 {
			c = hcfg{1, 1 + r.i64n(32767), 4}
		}
		c13ObserveX(o, "x", c, c13Values(r, c, c13Size(r)))
	}
	// bounds far beyond 2^31 (the timers of the events package go up to 1.2e12) at one or two significant figures,
	// where the counts array stays short
	for i := 0; i < 12*mul; i++ {
		bits := 32 + r.intn(13)
		lo := int64(1)
		if i%3 == 1 {
			lo = int64(1) << uint(31+r.intn(3))
		}
		c := hcfg{lo, int64(1)<<uint(bits) + r.i64n(int64(1)<<uint(bits)), 1 + i%2}
		c13ObserveX(o, "x", c, c13Values(r, c, c13Size(r)))
	}
}

func init() {
	commands["c13replay"] = func(args []string) error {
		// c13replay <outfile> <file with one case line>: observe the implementation again on the inputs of the line
		if len(args) < 2 {
			return errors.New("usage: c13replay <outfile> <casefile>")
		}
		in, err := os.Open(args[1])
		if err != nil {
			return err
		}
		defer in.Close()
		o, err := newOut(args[0])
		if err != nil {
			return err
		}
		sc := bufio.NewScanner(in)
		sc.Buffer(make([]byte, 1<<20), 1<<28)
		for sc.Scan() {
			if strings.TrimSpace(sc.Text()) == "" {
				continue
			}
			if err := c13Reobserve(o, sc.Text()); err != nil {
				o.close()
				return err
			}
		}
		return o.close()
	}
	commands["c13"] = func(args []string) error {
		if len(args) < 1 {
			return errors.New("usage: c13 <outfile>")
		}
		o, err := newOut(args[0])
		if err != nil {
			return err
		}
		c13Generate(o, newRng(envSeed()), envTier() == "thorough")
		if err := o.close(); err != nil {
			return err
		}
		// statistics of the generator for the evidence file
		fmt.Printf("STATS q_kept=%d q_dropped_tie=%d q_dropped_rank_lt1=%d q_rank_float_ne_exact=%d merges_with_dropped=%d",
			c13St.qKept, c13St.qTie, c13St.qLt1, c13St.qRankD, c13St.mergeDropped)
		kinds := []string{}
		for k := range c13St.lines {
			kinds = append(kinds, k)
		}
		sort.Strings(kinds)
		for _, k := range kinds {
			fmt.Printf(" lines_%s=%d", k, c13St.lines[k])
		}
		fmt.Println()
		fmt.Println("c13 cases written")
		return nil
	}
}
