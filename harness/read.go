package main

// Reader observations: every reader entry point of the library is run on a byte
// stream and what it delivers is written out for the model-side driver.

import (
	"bytes"
	"context"
	"encoding/hex"
	"fmt"
	"strings"
	"time"

	"github.com/evergreen-ci/birch"
	"github.com/mongodb/ftdc"
)

func docHex(d *birch.Document) string {
	if d == nil {
		return "-"
	}
	b, err := d.MarshalBSON()
	if err != nil {
		return "ERR"
	}
	return hex.EncodeToString(b)
}

func errFlag(err error) int {
	if err != nil {
		return 1
	}
	return 0
}

type iterLike interface {
	Next() bool
	Document() *birch.Document
	Metadata() *birch.Document
	Err() error
	Close()
}

func drainIter(it iterLike, withMeta bool) (docs []string, metas []string, err error) {
	for it.Next() {
		docs = append(docs, docHex(it.Document()))
		if withMeta {
			metas = append(metas, docHex(it.Metadata()))
		}
	}
	err = it.Err()
	it.Close()
	// the usual calling pattern is `defer iter.Close()` ... `iter.Err()`: an error reported before Close must
	// still be reported after it (observed as "no error" if it is gone)
	if err != nil && it.Err() == nil {
		err = nil
	}
	return
}

func readAll(o *out, id string, stream []byte, withMeta bool) {
	readAllExpect(o, id, stream, withMeta, nil)
}

// readAllExpect runs all reader views over one stream and prints the observations.
func readAllExpect(o *out, id string, stream []byte, withMeta bool, expect [][]elem) {
	readAllWith(o, id, stream, withMeta, expect, false)
}

// readAllEncoded is readAllExpect for a stream that one of the library's ENCODERS produced: its zlib streams
// must be complete (normalizeEncoded)
func readAllEncoded(o *out, id string, stream []byte, withMeta bool, expect [][]elem) {
	readAllWith(o, id, stream, withMeta, expect, true)
}

func readAllWith(o *out, id string, stream []byte, withMeta bool, expect [][]elem, encoded bool) {
	ctx, cancel := context.WithTimeout(context.Background(), 20*time.Second)
	defer cancel()
	if encoded {
		o.printf("S %s %s\n", id, hex.EncodeToString(normalizeEncoded(stream)))
	} else {
		o.printf("S %s %s\n", id, hex.EncodeToString(normalizeStream(stream)))
	}
	if expect != nil {
		hs := make([]string, len(expect))
		for i, d := range expect {
			hs[i] = hexDoc(d)
		}
		o.printf("IN => %d %s\n", len(expect), strings.Join(hs, " "))
	}

	// chunk view, plus the two per-chunk iterators
	it := ftdc.ReadChunks(ctx, bytes.NewReader(stream))
	type ck struct{ line string }
	var lines []string
	var perChunkFlat, perChunkStruct []string
	n := 0
	for it.Next() {
		c := it.Chunk()
		n++
		// the two per-chunk iterators report the chunk's metadata with every sample; where one of them reports something
		// else, that is what the chunk line carries (so that the metadata oracle sees it)
		fd, fm, _ := drainIter(c.Iterator(ctx), true)
		sd, sm, _ := drainIter(c.StructuredIterator(ctx), true)
		mdHex := docHex(c.GetMetadata())
		for _, m := range append(fm, sm...) {
			if m != mdHex {
				mdHex = m
				break
			}
		}
		var sb strings.Builder
		fmt.Fprintf(&sb, "C %d %d %s", c.Size(), len(c.Metrics), mdHex)
		for _, m := range c.Metrics {
			vs := make([]string, len(m.Values))
			for i, v := range m.Values {
				vs[i] = fmt.Sprint(v)
			}
			fmt.Fprintf(&sb, " K:%s:%s", hex.EncodeToString([]byte(m.Key())), strings.Join(vs, ","))
		}
		lines = append(lines, sb.String())
		perChunkFlat = append(perChunkFlat, fd...)
		perChunkStruct = append(perChunkStruct, sd...)
	}
	err := it.Err()
	it.Close()
	if err != nil && it.Err() == nil {
		err = nil // an error that Close makes disappear is an error that was not reported
	}
	o.printf("RC => %d %d\n", errFlag(err), n)
	for _, l := range lines {
		o.printf("%s\n", l)
	}
	o.printf("CF => %d %s\n", len(perChunkFlat), strings.Join(perChunkFlat, " "))
	o.printf("CS => %d %s\n", len(perChunkStruct), strings.Join(perChunkStruct, " "))

	pr := func(tag string, it iterLike) {
		docs, metas, err := drainIter(it, withMeta)
		o.printf("%s => %d %d %s\n", tag, errFlag(err), len(docs), strings.Join(docs, " "))
		if withMeta {
			o.printf("%sM => %s\n", tag, strings.Join(metas, " "))
		}
	}
	pr("RS", ftdc.ReadStructuredMetrics(ctx, bytes.NewReader(stream)))
	pr("RF", ftdc.ReadMetrics(ctx, bytes.NewReader(stream)))
	pr("RM", ftdc.ReadMatrix(ctx, bytes.NewReader(stream)))
	pr("RE", ftdc.ReadSeries(ctx, bytes.NewReader(stream)))
	o.printf("ENDS\n")
}
