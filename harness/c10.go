package main

// C10 — thread-safe wrappers lose nothing (DESIGN.md section 8, C10).
//
// Runs the REAL synchronizedCollector, bufferedCollector and basicCatcher under
// many goroutines and writes one line per run with everything that was observed
// through the public API (plus the vpoint log of the drainer goroutine):
//
//   RUN id=.. mode=sync|buf inner=dyn|batch|base cap=.. n=.. G=.. M=.. size=.. procs=..
//       perturb=.. stall=<label>:<occ>|- reached=0|1 cancel=<mode>|- panics=.. hung=..
//       probe=.. info=.. nsnap=.. snapok=.. reserr=.. decerr=.. quiesced=.. leak=..
//       trace=<r|a|c string>|- adds=<p.s.nil.pre,...>|- decoded=<p.s,...>|-
//   CAT id=.. G=.. M=.. procs=.. len=.. has=.. res=.. mono=.. panics=.. want=<p.s,...>|- got=<p.s,...>|-
//
// Documents are {p: int64 producer, s: int64 sequence number}, so the decoded output
// identifies every sample. "pre" = the Add returned before cancel() was called, decided
// with a global atomic counter (never the wall clock).

import (
	"bytes"
	"context"
	"errors"
	"fmt"
	"os"
	"runtime"
	"strconv"
	"strings"
	"sync"
	"sync/atomic"
	"time"

	"github.com/mongodb/ftdc"
	"github.com/mongodb/ftdc/util"
)

type c10cfg struct {
	id       int
	mode     string // sync | buf
	inner    string // dyn | batch | base
	capv     int    // number of samples the inner collector accepts (0 = unlimited)
	n        int    // chunk parameter of the inner collector
	G, M     int
	size     int
	procs    int
	perturb  int    // 0 none, 1 Gosched, 2 short sleeps
	stall    string // vpoint label or ""
	occ      int
	cancel   string // end | count | sleep | stall | -
	cancelAt int    // for "count": number of acknowledged Adds to wait for
	seed     uint64
}

type c10add struct {
	p, s  int
	isNil bool
	ret   uint64
}

func c10doc(p, s int) []byte {
	return encDoc([]elem{{"p", &val{T: 0x12, I: int64(p)}}, {"s", &val{T: 0x12, I: int64(s)}}})
}

// c10decode reads the samples back with the library's structured reader.
func c10decode(b []byte) (out [][2]int64, err error) {
	defer func() {
		if r := recover(); r != nil {
			err = fmt.Errorf("panic while decoding: %v", r)
		}
	}()
	ctx, cancel := context.WithTimeout(context.Background(), 20*time.Second)
	defer cancel()
	it := ftdc.ReadStructuredMetrics(ctx, bytes.NewReader(b))
	for it.Next() {
		d := it.Document()
		if d == nil {
			return out, errors.New("nil document")
		}
		pv, e1 := d.LookupErr("p")
		sv, e2 := d.LookupErr("s")
		if e1 != nil || e2 != nil {
			return out, errors.New("field missing")
		}
		p, ok1 := pv.Int64OK()
		s, ok2 := sv.Int64OK()
		if !ok1 || !ok2 {
			return out, errors.New("field type")
		}
		out = append(out, [2]int64{p, s})
	}
	err = it.Err()
	it.Close()
	return
}

// countDrainers counts the live goroutines started by NewBufferedCollector
func countDrainers() int {
	buf := make([]byte, 1<<20)
	for {
		n := runtime.Stack(buf, true)
		if n < len(buf) {
			buf = buf[:n]
			break
		}
		buf = make([]byte, 2*len(buf))
	}
	return bytes.Count(buf, []byte("created by github.com/mongodb/ftdc.NewBufferedCollector"))
}

func c10inner(kind string, n, capv int) ftdc.Collector {
	switch kind {
	case "batch":
		return ftdc.NewBatchCollector(n)
	case "base":
		return ftdc.NewBaseCollector(capv - 1) // reference document + capv-1 deltas
	}
	return ftdc.NewDynamicCollector(n)
}

func c10perturb(r *rng, mode int) {
	switch mode {
	case 1:
		if r.chance(1, 2) {
			runtime.Gosched()
		}
	case 2:
		switch r.intn(4) {
		case 0:
			runtime.Gosched()
		case 1:
			time.Sleep(time.Duration(r.intn(20)) * time.Microsecond)
		}
	}
}

func isPrefix(a, b [][2]int64) bool {
	if len(a) > len(b) {
		return false
	}
	for i := range a {
		if a[i] != b[i] {
			return false
		}
	}
	return true
}

func joinPairs(l [][2]int64) string {
	if len(l) == 0 {
		return "-"
	}
	sb := strings.Builder{}
	for i, x := range l {
		if i > 0 {
			sb.WriteByte(',')
		}
		sb.WriteString(strconv.FormatInt(x[0], 10))
		sb.WriteByte('.')
		sb.WriteString(strconv.FormatInt(x[1], 10))
	}
	return sb.String()
}

// waitTimeout waits for the group; false when it did not finish in time
func waitTimeout(wg *sync.WaitGroup, d time.Duration) bool {
	ch := make(chan struct{})
	go func() { wg.Wait(); close(ch) }()
	select {
	case <-ch:
		return true
	case <-time.After(d):
		return false
	}
}

func c10run(o *out, c c10cfg) {
	r := newRng(c.seed)
	old := runtime.GOMAXPROCS(c.procs)
	defer runtime.GOMAXPROCS(old)

	var sc *sched
	if c.mode == "buf" {
		sc = newSched(c.stall, c.occ)
	} else {
		uninstallSched()
	}
	g0 := countDrainers()

	inner := ftdc.NewSynchronizedCollector(c10inner(c.inner, c.n, c.capv))
	var coll ftdc.Collector = inner
	ctx, cancel := context.WithCancel(context.Background())
	defer cancel()
	if c.mode == "buf" {
		coll = ftdc.NewBufferedCollector(ctx, c.size, inner)
	}

	var clock, acks uint64
	var panics int32
	recs := make([][]c10add, c.G)
	// progress of every producer in its own (padded) word: written by that producer only, so the
	// harness adds no synchronisation between producers (which could hide races from the detector)
	type padded struct {
		n uint64
		_ [7]uint64
	}
	prog := make([]padded, c.G)
	progress := func() uint64 {
		var t uint64
		for i := range prog {
			t += atomic.LoadUint64(&prog[i].n)
		}
		return t
	}
	buffered := c.mode == "buf"
	seeds := make([]uint64, c.G+2)
	for i := range seeds {
		seeds[i] = r.u64()
	}
	start := make(chan struct{})
	var prod sync.WaitGroup
	for p := 0; p < c.G; p++ {
		prod.Add(1)
		go func(p int) {
			defer prod.Done()
			pr := newRng(seeds[p])
			<-start
			for s := 0; s < c.M; s++ {
				doc := c10doc(p, s)
				var err error
				func() {
					defer func() {
						if rec := recover(); rec != nil {
							atomic.AddInt32(&panics, 1)
							err = fmt.Errorf("panic: %v", rec)
						}
					}()
					err = coll.Add(doc)
				}()
				var st uint64
				if buffered {
					st = atomic.AddUint64(&clock, 1)
					if err == nil {
						atomic.AddUint64(&acks, 1)
					}
				}
				recs[p] = append(recs[p], c10add{p, s, err == nil, st})
				atomic.AddUint64(&prog[p].n, 1)
				c10perturb(pr, c.perturb)
			}
		}(p)
	}

	// observers: Info / Resolve / SetMetadata in loops until told to stop
	stop := make(chan struct{})
	var obs sync.WaitGroup
	var infoMono int32 = 1
	var snaps [][]byte
	var snapMu sync.Mutex
	obs.Add(4)
	// two observers that do nothing but Info: readers of the synchronized collector that are inside it together (Info
	// holds the read lock only, so whatever it calls must not write)
	for w := 0; w < 2; w++ {
		go func() {
			defer obs.Done()
			defer func() {
				if rec := recover(); rec != nil {
					atomic.AddInt32(&panics, 1)
				}
			}()
			<-start
			for {
				select {
				case <-stop:
					return
				default:
				}
				_ = coll.Info()
				runtime.Gosched()
			}
		}()
	}
	go func() {
		defer obs.Done()
		defer func() {
			if rec := recover(); rec != nil {
				atomic.AddInt32(&panics, 1)
			}
		}()
		or := newRng(seeds[c.G])
		last := -1
		<-start
		for {
			select {
			case <-stop:
				return
			default:
			}
			n := coll.Info().SampleCount
			if n < last {
				atomic.StoreInt32(&infoMono, 0)
			}
			last = n
			if or.chance(1, 4) {
				if b, err := coll.Resolve(); err == nil {
					snapMu.Lock()
					if len(snaps) < 3 && len(b) > 0 {
						snaps = append(snaps, append([]byte{}, b...))
					}
					snapMu.Unlock()
				}
			}
			c10perturb(or, 2)
		}
	}()
	go func() {
		defer obs.Done()
		defer func() {
			if rec := recover(); rec != nil {
				atomic.AddInt32(&panics, 1)
			}
		}()
		or := newRng(seeds[c.G+1])
		k := 0
		<-start
		for {
			select {
			case <-stop:
				return
			default:
			}
			k++
			_ = coll.SetMetadata(encDoc([]elem{{"m", &val{T: 0x12, I: int64(k)}}}))
			_, _ = coll.Resolve()
			_ = coll.Info()
			c10perturb(or, 2)
		}
	}()

	close(start)

	var cancelStamp uint64 = ^uint64(0)
	reached := false
	hung := 0
	doCancel := func() {
		cancelStamp = atomic.AddUint64(&clock, 1)
		cancel()
	}
	prodDone := make(chan struct{})
	go func() { prod.Wait(); close(prodDone) }()
	// waits for the producers as long as they make progress; false = no Add returned for 20 s
	waitProducers := func() bool {
		last, since := progress(), time.Now()
		for {
			select {
			case <-prodDone:
				return true
			case <-time.After(200 * time.Millisecond):
			}
			if n := progress(); n != last {
				last, since = n, time.Now()
			} else if time.Since(since) > 20*time.Second {
				return false
			}
		}
	}
	if c.mode == "buf" {
		switch c.cancel {
		case "end":
			if !waitProducers() {
				hung = 1
			}
			doCancel()
		case "count":
			dl := time.Now().Add(5 * time.Second)
		loop:
			for atomic.LoadUint64(&acks) < uint64(c.cancelAt) && time.Now().Before(dl) {
				select {
				case <-prodDone:
					break loop
				default:
					runtime.Gosched()
				}
			}
			doCancel()
		case "sleep":
			time.Sleep(time.Duration(c.cancelAt) * time.Microsecond)
			doCancel()
		case "stall":
			if c.stall == "bd.cancel" {
				// the drainer stalls right after taking the ctx.Done arm: cancel first
				time.Sleep(time.Duration(c.cancelAt) * time.Microsecond)
				doCancel()
				reached = sc.waitStalled(2 * time.Second)
				// producers keep going (send arm or ctx arm) while the drainer is stalled
				waitProducers()
				sc.releaseStall()
			} else {
				reached = sc.waitStalled(500 * time.Millisecond)
				// let the others fill the pipe and block
				time.Sleep(time.Duration(200+r.intn(1500)) * time.Microsecond)
				doCancel()
				if r.chance(1, 2) {
					time.Sleep(time.Duration(r.intn(500)) * time.Microsecond)
				}
				sc.releaseStall()
			}
		}
		sc.releaseStall()
	}
	if !waitProducers() {
		hung = 1
	}
	close(stop)
	if !waitTimeout(&obs, 120*time.Second) {
		hung = 1
	}

	// quiescence: the inner sample count stops changing for 50 ms (at most 2 s)
	quiesced := 1
	if c.mode == "buf" {
		quiesced = 0
		last := inner.Info().SampleCount
		stable := time.Now()
		dl := time.Now().Add(2 * time.Second)
		for time.Now().Before(dl) {
			time.Sleep(5 * time.Millisecond)
			n := inner.Info().SampleCount
			if n != last {
				last = n
				stable = time.Now()
			} else if time.Since(stable) >= 50*time.Millisecond {
				quiesced = 1
				break
			}
		}
	}

	// lock discipline probe: the mutex is free again, a call returns promptly
	probe := 0
	pch := make(chan int, 1)
	go func() { pch <- inner.Info().SampleCount }()
	info := -1
	select {
	case info = <-pch:
		probe = 1
	case <-time.After(2 * time.Second):
	}

	trace := "-"
	leak := 0
	if c.mode == "buf" {
		var sb strings.Builder
		for _, seq := range sc.perGoroutine() {
			isDrainer := false
			for _, l := range seq {
				if l == "bd.recv" || l == "bd.cancel" {
					isDrainer = true
				}
			}
			if !isDrainer {
				continue
			}
			for _, l := range seq {
				switch l {
				case "bd.recv":
					sb.WriteByte('r')
				case "catcher.add":
					sb.WriteByte('a')
				case "bd.cancel":
					sb.WriteByte('c')
				default:
					sb.WriteByte('?')
				}
			}
		}
		if sb.Len() > 0 {
			trace = sb.String()
		}
		// goroutines left behind by this run (the drainer when it entered "range c.pipe")
		leak = countDrainers() - g0
	}
	uninstallSched()

	reserr := 0
	if _, err := coll.Resolve(); err != nil {
		reserr = 1
	}
	var decoded [][2]int64
	decerr := 0
	if p, err := inner.Resolve(); err == nil {
		var derr error
		decoded, derr = c10decode(p)
		if derr != nil {
			decerr = 1
		}
	} else if inner.Info().SampleCount != 0 {
		// an empty collector has nothing to resolve (whatever the error text says); a collector that holds samples must resolve
		decerr = 1
	}
	snapok := 1
	for _, sn := range snaps {
		d, err := c10decode(sn)
		if err != nil || !isPrefix(d, decoded) {
			snapok = 0
		}
	}
	if atomic.LoadInt32(&infoMono) == 0 {
		snapok = 0
	}

	var ab strings.Builder
	first := true
	for p := 0; p < c.G && hung == 0; p++ {
		for _, a := range recs[p] {
			if !first {
				ab.WriteByte(',')
			}
			first = false
			fmt.Fprintf(&ab, "%d.%d.%d.%d", a.p, a.s, b2i(a.isNil), b2i(a.ret < cancelStamp))
		}
	}
	adds := ab.String()
	if adds == "" {
		adds = "-"
	}
	st := "-"
	if c.stall != "" {
		st = fmt.Sprintf("%s:%d", c.stall, c.occ)
	}
	cm := c.cancel
	if cm == "" {
		cm = "-"
	}
	o.printf("RUN id=%d mode=%s inner=%s cap=%d n=%d G=%d M=%d size=%d procs=%d perturb=%d stall=%s reached=%d cancel=%s cancelat=%d seed=%d "+
		"panics=%d hung=%d probe=%d info=%d nsnap=%d snapok=%d reserr=%d decerr=%d quiesced=%d leak=%d trace=%s adds=%s decoded=%s\n",
		c.id, c.mode, c.inner, c.capv, c.n, c.G, c.M, c.size, c.procs, c.perturb, st, b2i(reached), cm, c.cancelAt, c.seed,
		atomic.LoadInt32(&panics), hung, probe, info, len(snaps), snapok, reserr, decerr, quiesced, leak, trace, adds, joinPairs(decoded))
}

// ---------------------------------------------------------------- catcher

func c10catcher(o *out, id, G, M, procs int, allNonNil bool, seed uint64) {
	r := newRng(seed)
	old := runtime.GOMAXPROCS(procs)
	defer runtime.GOMAXPROCS(old)
	uninstallSched()
	c := util.NewCatcher()
	errsIn := make([][]error, G)
	var want [][2]int64
	for p := 0; p < G; p++ {
		errsIn[p] = make([]error, M)
		for s := 0; s < M; s++ {
			if allNonNil || r.chance(1, 2) {
				errsIn[p][s] = fmt.Errorf("e%d.%d", p, s)
				want = append(want, [2]int64{int64(p), int64(s)})
			}
		}
	}
	var panics int32
	var mono int32 = 1
	start := make(chan struct{})
	stop := make(chan struct{})
	var wg, rd sync.WaitGroup
	for p := 0; p < G; p++ {
		wg.Add(1)
		go func(p int) {
			defer wg.Done()
			defer func() {
				if rec := recover(); rec != nil {
					atomic.AddInt32(&panics, 1)
				}
			}()
			<-start
			if p%2 == 1 {
				// every other producer hands its errors over in batches (Extend keeps the non-nil ones, like Add)
				for s := 0; s < M; s += 3 {
					e := s + 3
					if e > M {
						e = M
					}
					c.Extend(errsIn[p][s:e])
				}
				return
			}
			for s := 0; s < M; s++ {
				c.Add(errsIn[p][s])
			}
		}(p)
	}
	for k := 0; k < 2; k++ {
		rd.Add(1)
		go func(k int) {
			defer rd.Done()
			defer func() {
				if rec := recover(); rec != nil {
					atomic.AddInt32(&panics, 1)
				}
			}()
			last := 0
			<-start
			for {
				select {
				case <-stop:
					return
				default:
				}
				n := c.Len()
				if n < last {
					atomic.StoreInt32(&mono, 0)
				}
				last = n
				if c.HasErrors() != (c.Len() > 0) && n > 0 {
					atomic.StoreInt32(&mono, 0)
				}
				if k == 0 {
					_ = c.Resolve()
					// what Errors() hands out belongs to the caller: overwriting it and appending to it must not
					// reach the errors the catcher retains
					es := c.Errors()
					for i := range es {
						es[i] = nil
					}
					_ = append(es, errors.New("scribbled by an observer"))
				} else {
					_ = c.String()
				}
				runtime.Gosched()
			}
		}(k)
	}
	close(start)
	wg.Wait()
	close(stop)
	rd.Wait()
	var got [][2]int64
	for _, e := range c.Errors() {
		var p, s int64
		if e == nil {
			got = append(got, [2]int64{-1, -1})
			continue
		}
		if _, err := fmt.Sscanf(e.Error(), "e%d.%d", &p, &s); err != nil {
			p, s = -1, -1
		}
		got = append(got, [2]int64{p, s})
	}
	// Resolve reports every retained error: its text has one line per error (an incomplete report counts as none)
	resolved := c.Resolve()
	resOK := resolved != nil
	if resolved != nil && len(want) > 0 {
		lines := map[string]int{}
		for _, l := range strings.Split(resolved.Error(), "\n") {
			lines[l]++
		}
		for _, w := range want {
			k := fmt.Sprintf("e%d.%d", w[0], w[1])
			if lines[k] == 0 {
				resOK = false
			}
			lines[k]--
		}
	}
	o.printf("CAT id=%d G=%d M=%d procs=%d seed=%d len=%d has=%d res=%d mono=%d panics=%d want=%s got=%s\n",
		id, G, M, procs, seed, c.Len(), b2i(c.HasErrors()), b2i(resOK), mono, atomic.LoadInt32(&panics),
		joinPairs(want), joinPairs(got))
}

// ---------------------------------------------------------------- case generation

func c10cases(r *rng, reps int, emitRun func(c10cfg), emitCat func(G, M, procs int, all bool, seed uint64)) {
	Gs := []int{2, 4, 8}
	Ms := []int{1, 50}
	Ps := []int{1, 2, 16}
	id := 0
	for rep := 0; rep < reps; rep++ {
		// (1) synchronized collector
		for _, G := range Gs {
			for _, M := range Ms {
				for _, procs := range Ps {
					for _, inner := range []string{"dyn", "batch", "base"} {
						if rep%2 == 1 && inner == "base" {
							continue
						}
						id++
						c := c10cfg{id: id, mode: "sync", inner: inner, G: G, M: M, procs: procs, perturb: r.intn(3), seed: r.u64()}
						c.n = []int{1000, 7, 64}[r.intn(3)]
						if inner == "base" {
							c.capv = 1 + r.intn(G*M)
						}
						emitRun(c)
					}
				}
			}
		}
		// (2) buffered collector over a synchronized one
		for _, G := range Gs {
			for _, M := range Ms {
				for _, procs := range Ps {
					for size := 0; size <= 3; size++ {
						id++
						c := c10cfg{id: id, mode: "buf", inner: "dyn", n: []int{1000, 7}[r.intn(2)], G: G, M: M, size: size, procs: procs,
							perturb: r.intn(3), seed: r.u64()}
						if size == 2 {
							// an inner collector that refuses everything beyond its capacity: acknowledged samples can be
							// rejected later, and then Resolve has to say so
							c.inner, c.capv = "base", 1+r.intn(G*M)
						}
						switch r.intn(8) {
						case 0:
							c.cancel = "end"
						case 1:
							c.cancel, c.cancelAt = "count", r.intn(G*M+1)
						case 2:
							c.cancel, c.cancelAt = "sleep", r.intn(300)
						case 3, 4, 5:
							c.cancel, c.stall, c.occ = "stall", "bd.recv", 1+r.intn((G*M+1)/2)
						case 6:
							c.cancel, c.stall, c.occ = "stall", "bp.add", 1+r.intn(G*M)
						case 7:
							c.cancel, c.stall, c.occ, c.cancelAt = "stall", "bd.cancel", 1, r.intn(200)
						}
						emitRun(c)
					}
				}
			}
		}
		// (4) catcher
		for _, G := range Gs {
			for _, M := range Ms {
				for _, procs := range Ps {
					for k := 0; k < 8; k++ {
						id++
						emitCat(G, M, procs, k%2 == 0, r.u64())
					}
				}
			}
		}
	}
}

func init() {
	commands["c10"] = func(args []string) error {
		if len(args) < 1 {
			return errors.New("usage: c10 <outfile> [reps]")
		}
		o, err := newOut(args[0])
		if err != nil {
			return err
		}
		reps := 2
		if envTier() == "thorough" {
			reps = 20
		}
		if len(args) > 1 {
			if v, err := strconv.Atoi(args[1]); err == nil {
				reps = v
			}
		}
		r := newRng(envSeed())
		cid := 0
		c10cases(r, reps,
			func(c c10cfg) { c10run(o, c) },
			func(G, M, procs int, all bool, seed uint64) { cid++; c10catcher(o, 100000+cid, G, M, procs, all, seed) })
		return o.close()
	}
	// c10one <outfile> <reps> key=value... : repeat one configuration (replay of a reported run)
	commands["c10one"] = func(args []string) error {
		if len(args) < 2 {
			return errors.New("usage: c10one <outfile> <reps> key=value...")
		}
		o, err := newOut(args[0])
		if err != nil {
			return err
		}
		reps, _ := strconv.Atoi(args[1])
		kv := map[string]string{}
		for _, a := range args[2:] {
			if i := strings.IndexByte(a, '='); i > 0 {
				kv[a[:i]] = a[i+1:]
			}
		}
		geti := func(k string, d int) int {
			if v, err := strconv.Atoi(kv[k]); err == nil {
				return v
			}
			return d
		}
		seed, _ := strconv.ParseUint(kv["seed"], 10, 64)
		for i := 0; i < reps; i++ {
			if _, isCat := kv["want"]; isCat || kv["mode"] == "" {
				c10catcher(o, 100000+i, geti("G", 4), geti("M", 50), geti("procs", 2), true, seed+uint64(i))
				continue
			}
			c := c10cfg{id: i + 1, mode: kv["mode"], inner: kv["inner"], capv: geti("cap", 0), n: geti("n", 1000), G: geti("G", 2), M: geti("M", 1),
				size: geti("size", 0), procs: geti("procs", 2), perturb: geti("perturb", 0), cancel: kv["cancel"], cancelAt: geti("cancelat", 0),
				seed: seed + uint64(i)}
			if c.cancel == "-" {
				c.cancel = ""
			}
			if st := kv["stall"]; st != "" && st != "-" {
				if j := strings.LastIndexByte(st, ':'); j > 0 {
					c.stall = st[:j]
					c.occ, _ = strconv.Atoi(st[j+1:])
				}
			}
			c10run(o, c)
		}
		_ = os.Stdout
		return o.close()
	}
}
