package main

import (
	"fmt"
	"os"
	"sort"
)

// subcommands register themselves in init() functions of the per-property files
var commands = map[string]func(args []string) error{}

func main() {
	if len(os.Args) < 2 {
		names := []string{}
		for k := range commands {
			names = append(names, k)
		}
		sort.Strings(names)
		fmt.Fprintln(os.Stderr, "usage: ftdcverif <command> [args]; commands:", names)
		os.Exit(2)
	}
	cmd, ok := commands[os.Args[1]]
	if !ok {
		fmt.Fprintln(os.Stderr, "unknown command", os.Args[1])
		os.Exit(2)
	}
	startWatchdog(os.Args[1])
	if err := cmd(os.Args[2:]); err != nil {
		fmt.Fprintln(os.Stderr, "error:", err)
		os.Exit(3)
	}
}
