package main

// C12: drive hdrhist through its public API (plus the verif-tag accessors) and
// write one observation line per case for the model-side driver.

import (
	"errors"
	"fmt"
	"sort"

	"github.com/mongodb/ftdc/hdrhist"
)

type hcfg struct {
	lo, hi int64
	s      int
}

func c12Geometry(o *out, c hcfg) *hdrhist.Histogram {
	h := hdrhist.New(c.lo, c.hi, c.s)
	g := h.VerifGeometry()
	o.printf("G %d %d %d %d %d %d %d %d %d %d\n", c.lo, c.hi, c.s, g.UnitMagnitude, g.SubBucketHalfCountMagnitude,
		g.SubBucketHalfCount, g.SubBucketMask, g.SubBucketCount, g.BucketCount, g.CountsLen)
	return h
}

var c12Reuse *hdrhist.Histogram
var c12ReuseCfg hcfg
var c12ReuseN int

func c12Value(o *out, c hcfg, probe *hdrhist.Histogram, v int64) {
	// a fresh histogram every 32nd time, otherwise a Reset one (allocation dominates otherwise)
	if c12Reuse == nil || c12ReuseCfg != c || c12ReuseN%32 == 0 {
		c12Reuse = hdrhist.New(c.lo, c.hi, c.s)
		c12ReuseCfg = c
	} else {
		c12Reuse.Reset()
	}
	c12ReuseN++
	h := c12Reuse
	err := h.RecordValue(v)
	var idx, le, he, sz int64
	if v >= 0 {
		idx, le, he, sz = probe.VerifCountsIndexFor(v), probe.VerifLowestEquivalent(v), probe.VerifHighestEquivalent(v), probe.VerifSizeOfEquivalentRange(v)
	}
	if probe.VerifGeometry().CountsLen > 40000 {
		// iterating Min/Max/quantile over a very large counts array dominates the run time:
		// observe them on every 8th value only
		if c12ReuseN%8 != 0 {
			o.printf("V %d %d %d %d %d %d NA NA NA %d %d %d %d\n", c.lo, c.hi, c.s, v, b2i(err != nil), h.TotalCount(), idx, le, he, sz)
			return
		}
	}
	o.printf("V %d %d %d %d %d %d %d %d %d %d %d %d %d\n", c.lo, c.hi, c.s, v, b2i(err != nil), h.TotalCount(),
		h.Min(), h.Max(), h.ValueAtQuantile(100), idx, le, he, sz)
}

// recordRuns records vs; with grouped set, a run of k equal neighbours goes in as one RecordValues(v, k), which is the
// same as k RecordValue(v) calls (k rejections when the value is out of range). Returns the number of rejections.
func recordRuns(h *hdrhist.Histogram, vs []int64, grouped bool) int {
	nrej := 0
	for i := 0; i < len(vs); {
		j := i + 1
		for grouped && j < len(vs) && vs[j] == vs[i] {
			j++
		}
		if j-i > 1 {
			if h.RecordValues(vs[i], int64(j-i)) != nil {
				nrej += j - i
			}
		} else if h.RecordValue(vs[i]) != nil {
			nrej++
		}
		i = j
	}
	return nrej
}

func c12Seq(o *out, c hcfg, vs []int64) {
	h := hdrhist.New(c.lo, c.hi, c.s)
	nrej := recordRuns(h, vs, len(vs)%2 == 1)
	o.printf("D %d %d %d %d", c.lo, c.hi, c.s, len(vs))
	for _, v := range vs {
		o.printf(" %d", v)
	}
	bars := h.Distribution()
	o.printf(" %d %d %d", nrej, h.TotalCount(), len(bars))
	for _, b := range bars {
		o.printf(" %d %d %d", b.From, b.To, b.Count)
	}
	o.printf("\n")
}

// c12Corrected: a sequence of RecordCorrectedValue(v, e) calls on a fresh histogram
func c12Corrected(o *out, c hcfg, ops [][2]int64) {
	h := hdrhist.New(c.lo, c.hi, c.s)
	o.printf("K %d %d %d %d", c.lo, c.hi, c.s, len(ops))
	for _, op := range ops {
		o.printf(" %d %d", op[0], op[1])
	}
	for _, op := range ops {
		o.printf(" %d", b2i(h.RecordCorrectedValue(op[0], op[1]) == nil))
	}
	bars := h.Distribution()
	o.printf(" %d %d", h.TotalCount(), len(bars))
	for _, b := range bars {
		o.printf(" %d %d %d", b.From, b.To, b.Count)
	}
	o.printf("\n")
}

// boundary values of a configuration: around every bucket and sub-bucket edge
func c12Boundaries(r *rng, c hcfg, g hdrhist.VerifGeometry, n int) []int64 {
	vs := []int64{0, 1, c.lo, c.lo - 1, c.lo + 1, c.hi, c.hi - 1, c.hi + 1, c.hi / 2}
	for i := 0; i < n; i++ {
		b := int64(r.intn(int(g.BucketCount) + 1))
		sb := g.SubBucketHalfCount + r.i64n(g.SubBucketHalfCount+1)
		if r.chance(1, 4) {
			sb = r.i64n(g.SubBucketCount + 1)
		}
		sh := uint(b + g.UnitMagnitude)
		if sh > 61 {
			continue
		}
		base := sb << sh
		v := base + int64(r.intn(3)) - 1
		if r.chance(1, 3) {
			v = base + (int64(1) << sh) - 1 + int64(r.intn(3)) - 1
		}
		vs = append(vs, v)
	}
	out := vs[:0]
	for _, v := range vs {
		if v >= 0 && v <= c.hi+c.hi/8+2 {
			out = append(out, v)
		}
	}
	return out
}

func init() {
	commands["c12replay"] = func(args []string) error {
		// c12replay <outfile> V lo hi s v
		o, err := newOut(args[0])
		if err != nil {
			return err
		}
		if len(args) >= 6 {
			var c hcfg
			var v int64
			fmt.Sscan(args[2], &c.lo)
			fmt.Sscan(args[3], &c.hi)
			fmt.Sscan(args[4], &c.s)
			fmt.Sscan(args[5], &v)
			probe := c12Geometry(o, c)
			c12Value(o, c, probe, v)
		}
		return o.close()
	}
	commands["c12"] = func(args []string) error {
		if len(args) < 1 {
			return errors.New("usage: c12 <outfile>")
		}
		o, err := newOut(args[0])
		if err != nil {
			return err
		}
		r := newRng(envSeed())
		thorough := envTier() == "thorough"

		// 1. exhaustive: every v in 0..hi (+ a margin above) for a grid of small configurations
		grid := []hcfg{}
		his := []int64{1, 2, 31, 32, 33, 63, 64, 65, 100, 255, 256, 257, 511, 512, 1000, 1023, 1024, 2047, 2048, 2049, 4096, 5000}
		los := []int64{0, 1, 2, 3, 8, 10, 64}
		for _, s := range []int{1, 2, 3} {
			for _, hi := range his {
				for _, lo := range los {
					keep := lo == 1 || r.chance(1, 6)
					if s == 3 && !(hi == 2047 || hi == 2048 || hi == 2049 || hi == 4096) {
						keep = keep && lo == 1 && r.chance(1, 5)
					}
					if thorough {
						keep = true
					}
					if keep {
						grid = append(grid, hcfg{lo, hi, s})
					}
				}
			}
		}
		// exact power-of-two multiples of the sub bucket count (bucket-boundary highs)
		for _, c := range []hcfg{{1, 32, 1}, {1, 64, 1}, {1, 128, 1}, {2, 64, 1}, {4, 128, 1}, {1, 256, 2}, {1, 512, 2}, {1, 2048, 3}, {1, 4096, 3}, {8, 16384, 3}, {1, 32768, 4}, {1, 262144, 5}} {
			grid = append(grid, c)
		}
		for _, c := range grid {
			probe := c12Geometry(o, c)
			top := c.hi + c.hi/8 + 2
			if c.hi > 6000 { // the large exact-boundary configs: boundary values only
				for _, v := range c12Boundaries(r, c, probe.VerifGeometry(), 60) {
					c12Value(o, c, probe, v)
				}
				continue
			}
			for v := int64(0); v <= top; v++ {
				c12Value(o, c, probe, v)
			}
			c12Value(o, c, probe, -1)
		}

		// 2. random large configurations (hi up to 2^40, all s), boundary-concentrated values
		nbig := 150
		if thorough {
			nbig = 3000
		}
		for i := 0; i < nbig; i++ {
			s := 1 + r.intn(5)
			hiBits := 3 + r.intn(38)
			hi := int64(1)<<uint(hiBits) + r.i64n(int64(1)<<uint(hiBits)) - 1
			if r.chance(1, 4) { // exact sub-bucket-count * 2^k highs
				hi = int64(1) << uint(hiBits)
			}
			if hi < 1 {
				hi = 1
			}
			lo := int64(0)
			switch r.intn(4) {
			case 1:
				lo = 1
			case 2:
				lo = int64(1) << uint(r.intn(hiBits))
			case 3:
				lo = 1 + r.i64n(hi)
			}
			c := hcfg{lo, hi, s}
			probe := c12Geometry(o, c)
			for _, v := range c12Boundaries(r, c, probe.VerifGeometry(), 40) {
				c12Value(o, c, probe, v)
			}
		}

		// 3. record sequences on small configurations: counting contract and Distribution
		nseq := 200
		if thorough {
			nseq = 4000
		}
		for i := 0; i < nseq; i++ {
			c := hcfg{int64(r.intn(4)), int64(1 + r.intn(3000)), 1 + r.intn(2)}
			if c.s == 2 {
				c.hi = int64(1 + r.intn(1200))
			}
			n := r.intn(40)
			vs := make([]int64, n)
			for j := range vs {
				switch r.intn(10) {
				case 0:
					vs[j] = c.hi + 1 + r.i64n(c.hi*4+5) // above range
				case 1:
					vs[j] = -1 - r.i64n(50)
				case 2:
					vs[j] = c.hi
				case 3:
					if j > 0 {
						vs[j] = vs[j-1]
					}
				default:
					vs[j] = r.i64n(c.hi + 1)
				}
			}
			if r.chance(1, 5) {
				sort.Slice(vs, func(a, b int) bool { return vs[a] < vs[b] })
			}
			c12Seq(o, c, vs)
		}
		// 4. RecordCorrectedValue: expected intervals that divide the value exactly, by one more and by one less, zero and
		//    negative intervals, values equal to the interval, above the range and negative
		ncorr := 150
		if thorough {
			ncorr = 3000
		}
		for i := 0; i < ncorr; i++ {
			c := hcfg{int64(r.intn(4)), int64(10 + r.intn(3000)), 1 + r.intn(2)}
			ops := make([][2]int64, 1+r.intn(6))
			for j := range ops {
				e := 1 + r.i64n(c.hi/2+1)
				v := r.i64n(c.hi + 1)
				switch r.intn(10) {
				case 0, 1, 2:
					v = e * (1 + r.i64n(c.hi/e+1)) // an exact multiple (possibly just above the range)
				case 3:
					v = e*(1+r.i64n(c.hi/e+1)) + 1
				case 4:
					v = e*(1+r.i64n(c.hi/e+1)) - 1
				case 5:
					e = []int64{0, -1, -250}[r.intn(3)]
				case 6:
					v = e
				case 7:
					v = c.hi + 1 + r.i64n(4*c.hi)
				case 8:
					v = -1 - r.i64n(50)
				}
				ops[j] = [2]int64{v, e}
			}
			c12Corrected(o, c, ops)
		}
		fmt.Println("c12 cases written")
		return o.close()
	}
}
