package main

// Source-facts translator for C16/C10 (DESIGN.md section 5b): lock paths.
//
//   ftdcverif lockpaths <repo-dir> <out.v>
//
// For every function/method of the files listed in lpFiles it enumerates the control-flow
// paths from entry to each return / end of function as the sequence of lock events on the
// RECEIVER's mutex and writes them as the Coq table
//
//   Definition lock_paths : list (string * list lock_event)
//
// (one entry per function x path, in source order). Props/C16.v proves by vm_compute that
// every path of the regenerated table is balanced, and reads the shape of the flusher and
// of the public methods off the same table.
//
// What it understands (a narrow pattern extractor, not a Go semantics):
//   * the receiver's mutex: a field of type sync.Mutex / sync.RWMutex of the receiver's
//     struct type, embedded (r.Lock(), r.Mutex.Lock()) or named (c.mu.Lock());
//   * statements: blocks, expression statements, assignments, declarations, inc/dec, send,
//     return, if/else, for (with or without condition), range, switch, type switch, select,
//     unlabelled break/continue, defer, go, labelled statements without jumps to them;
//   * `defer x.Unlock()` / `defer x.RUnlock()` (events DeferUnlock / DeferRUnlock, run at
//     return by the Coq side);
//   * loops are unrolled once: zero iterations (if the loop has a condition or is a range)
//     and one iteration; for `for { ... }` without condition a path that reaches the end of
//     the body ends there (the back edge). In addition every loop body is emitted on its own
//     as "<function>/loop" (one iteration must be lock-neutral);
//   * calls of other methods of the same receiver (r.reset(), c.HasErrors(), r.doOp(...)) are
//     inlined: the callee's paths with its deferred unlocks executed at its return;
//   * panic(...) ends a path like return.
// What it does NOT understand, and therefore rejects with an error as soon as the function
// touches the mutex ("source facts no longer extractable"):
//   goto, labelled break/continue, fallthrough, TryLock/TryRLock/RLocker, defer of a Lock,
//   a deferred or go'ed function literal that touches the mutex, a mutex defer inside a loop,
//   a function literal or method value that touches the mutex, lock calls in the right operand
//   of && / ||, any other use of the mutex field (address taken, passed on, copied), lock calls
//   on a mutex that is not the receiver's, recursion among the inlined methods, structs with
//   more than one mutex, plain functions (no receiver) that touch a mutex.
// What it ignores (assumed not to touch the receiver's mutex): calls through other objects
// (r.collector.Add, r.catcher.Add, op(val), r.recorder.X): lock ORDER between different objects'
// mutexes is not analysed; the goroutine started by a `go` statement (its function is analysed
// as a function of its own).

import (
	"bytes"
	"fmt"
	"go/ast"
	"go/parser"
	"go/token"
	"os"
	"path/filepath"
	"strings"
)

type lpFile struct {
	rel      string
	onlyRecv string // restrict to methods of this receiver type ("" = every function)
}

var lpFiles = []lpFile{
	{"events/recorder_performance_interval.go", ""},
	{"events/recorder_histogram_interval.go", ""},
	{"events/recorder_wrapper_sync.go", ""},
	{"events/collector.go", "synchronizedCollector"},
	{"collector_sync.go", ""},
	{"util/catcher.go", ""},
}

var lpLockNames = map[string]bool{"Lock": true, "Unlock": true, "RLock": true, "RUnlock": true,
	"TryLock": true, "TryRLock": true, "RLocker": true}

type lpError struct{ msg string }

type lpStatus int

const (
	lpFall lpStatus = iota
	lpRet
	lpBrk
	lpCont
	lpBack // reached the back edge of a `for {}` loop
)

type lpPath struct {
	ev      []string
	ndefers int // mutex defers pushed so far
}

func (p lpPath) add(e ...string) lpPath {
	n := make([]string, 0, len(p.ev)+len(e))
	n = append(n, p.ev...)
	n = append(n, e...)
	return lpPath{n, p.ndefers}
}

type lpOut struct {
	p  lpPath
	st lpStatus
}

type lpMethod struct {
	pkg, typ, name string
	decl           *ast.FuncDecl
	fset           *token.FileSet
}

type lpPkg struct {
	name    string
	mutexOf map[string]string // struct type -> mutex field name ("Mutex"/"RWMutex" when embedded)
	embed   map[string]bool   // struct type -> mutex is embedded
	methods map[string]*lpMethod
}

type lpAn struct {
	pkg      *lpPkg
	m        *lpMethod
	recv     string // receiver identifier
	inlining map[string]bool
	memo     map[string][][]string
	loops    [][]string // loop-body paths of the function being analysed
	inLoop   int
	npaths   int
}

func (a *lpAn) fail(n ast.Node, format string, args ...interface{}) {
	pos := ""
	if n != nil && a.m != nil {
		p := a.m.fset.Position(n.Pos())
		pos = fmt.Sprintf("%s:%d: ", filepath.Base(p.Filename), p.Line)
	}
	name := ""
	if a.m != nil {
		name = a.m.pkg + "." + a.m.typ + "." + a.m.name + ": "
	}
	panic(lpError{pos + name + fmt.Sprintf(format, args...)})
}

// ---------------------------------------------------------------- recognition

// mutexExpr reports whether e denotes the receiver's mutex (not a call on it).
func (a *lpAn) mutexExpr(e ast.Expr) bool {
	if a.recv == "" {
		return false
	}
	field := a.pkg.mutexOf[a.m.typ]
	if field == "" {
		return false
	}
	if s, ok := e.(*ast.SelectorExpr); ok {
		if id, ok := s.X.(*ast.Ident); ok && id.Name == a.recv && s.Sel.Name == field {
			return true
		}
	}
	return false
}

// lockCall classifies a call: (event name, true) when it is a lock call on the receiver's mutex.
func (a *lpAn) lockCall(c *ast.CallExpr) (string, bool) {
	s, ok := c.Fun.(*ast.SelectorExpr)
	if !ok || !lpLockNames[s.Sel.Name] {
		return "", false
	}
	onRecv := false
	if a.mutexExpr(s.X) {
		onRecv = true
	} else if id, ok := s.X.(*ast.Ident); ok && id.Name == a.recv && a.recv != "" && a.pkg.embed[a.m.typ] {
		onRecv = true
	}
	if !onRecv {
		a.fail(c, "%s() on something that is not the receiver's mutex", s.Sel.Name)
	}
	switch s.Sel.Name {
	case "Lock", "Unlock", "RLock", "RUnlock":
		if len(c.Args) != 0 {
			a.fail(c, "%s with arguments", s.Sel.Name)
		}
		return s.Sel.Name, true
	}
	a.fail(c, "%s is not understood", s.Sel.Name)
	return "", false
}

// sameRecvMethod: r.M(...) where M is an analysed method of the receiver's type.
func (a *lpAn) sameRecvMethod(fun ast.Expr) *lpMethod {
	s, ok := fun.(*ast.SelectorExpr)
	if !ok || a.recv == "" {
		return nil
	}
	id, ok := s.X.(*ast.Ident)
	if !ok || id.Name != a.recv {
		return nil
	}
	return a.pkg.methods[a.m.typ+"."+s.Sel.Name]
}

// touches: does the subtree contain anything that concerns the receiver's mutex?
func (a *lpAn) touches(n ast.Node) bool {
	if n == nil {
		return false
	}
	found := false
	ast.Inspect(n, func(c ast.Node) bool {
		if found || c == nil {
			return false
		}
		switch x := c.(type) {
		case *ast.CallExpr:
			if s, ok := x.Fun.(*ast.SelectorExpr); ok && lpLockNames[s.Sel.Name] {
				found = true
			}
			if m := a.sameRecvMethod(x.Fun); m != nil && a.methodLocks(m, x) {
				found = true
			}
		case *ast.SelectorExpr:
			if a.mutexExpr(x) {
				found = true
			}
			if m := a.sameRecvMethod(x); m != nil && a.methodLocks(m, x) {
				found = true
			}
		}
		return !found
	})
	return found
}

func (a *lpAn) methodLocks(m *lpMethod, at ast.Node) bool {
	for _, p := range a.closedPaths(m, at) {
		if len(p) > 0 {
			return true
		}
	}
	return false
}

// closedPaths: the paths of a same-receiver method with its deferred unlocks executed at return.
func (a *lpAn) closedPaths(m *lpMethod, at ast.Node) [][]string {
	key := m.typ + "." + m.name
	if r, ok := a.memo[key]; ok {
		return r
	}
	if a.inlining[key] {
		a.fail(at, "recursion through %s", key)
	}
	a.inlining[key] = true
	sub := &lpAn{pkg: a.pkg, m: m, recv: lpRecvName(m.decl), inlining: a.inlining, memo: a.memo}
	var res [][]string
	for _, o := range sub.function() {
		var flat, defers []string
		for _, e := range o {
			switch e {
			case "DeferUnlock":
				defers = append(defers, "Unlock")
			case "DeferRUnlock":
				defers = append(defers, "RUnlock")
			default:
				flat = append(flat, e)
			}
		}
		for i := len(defers) - 1; i >= 0; i-- {
			flat = append(flat, defers[i])
		}
		res = append(res, flat)
	}
	delete(a.inlining, key)
	a.memo[key] = res
	return res
}

// ---------------------------------------------------------------- expressions

type lpEff struct {
	ev     string     // direct event, or
	inline [][]string // alternatives of an inlined call
}

func (a *lpAn) collect(n ast.Node, effs *[]lpEff) {
	switch x := n.(type) {
	case nil:
		return
	case *ast.CallExpr:
		if s, ok := x.Fun.(*ast.SelectorExpr); ok && lpLockNames[s.Sel.Name] {
			ev, _ := a.lockCall(x)
			*effs = append(*effs, lpEff{ev: ev})
			return
		}
		if id, ok := x.Fun.(*ast.Ident); ok && id.Name == "panic" {
			for _, arg := range x.Args {
				a.collect(arg, effs)
			}
			*effs = append(*effs, lpEff{ev: "panic"})
			return
		}
		if m := a.sameRecvMethod(x.Fun); m != nil {
			for _, arg := range x.Args {
				a.collect(arg, effs)
			}
			ps := a.closedPaths(m, x)
			nonEmpty := false
			for _, p := range ps {
				if len(p) > 0 {
					nonEmpty = true
				}
			}
			if nonEmpty {
				*effs = append(*effs, lpEff{inline: ps})
			}
			return
		}
		if _, ok := x.Fun.(*ast.FuncLit); ok {
			if a.touches(x.Fun) {
				a.fail(x, "call of a function literal that touches the mutex")
			}
		} else {
			a.collect(x.Fun, effs)
		}
		for _, arg := range x.Args {
			a.collect(arg, effs)
		}
	case *ast.FuncLit:
		if a.touches(x.Body) {
			a.fail(x, "function literal that touches the mutex")
		}
	case *ast.BinaryExpr:
		a.collect(x.X, effs)
		if x.Op == token.LAND || x.Op == token.LOR {
			var tmp []lpEff
			a.collect(x.Y, &tmp)
			if len(tmp) > 0 {
				a.fail(x, "lock events in the right operand of %s", x.Op)
			}
			return
		}
		a.collect(x.Y, effs)
	case *ast.SelectorExpr:
		if a.mutexExpr(x) {
			a.fail(x, "the mutex is used other than by Lock/Unlock/RLock/RUnlock calls")
		}
		if m := a.sameRecvMethod(x); m != nil && a.methodLocks(m, x) {
			a.fail(x, "method value %s of a method that locks", m.name)
		}
		a.collect(x.X, effs)
	default:
		ast.Inspect(n, func(c ast.Node) bool {
			if c == n {
				return true
			}
			if c != nil {
				a.collect(c, effs)
			}
			return false
		})
	}
}

// eval: apply the lock effects of evaluating n to every path. A panic ends the path (status lpRet).
func (a *lpAn) eval(n ast.Node, in []lpOut) []lpOut {
	if n == nil {
		return in
	}
	var effs []lpEff
	a.collect(n, &effs)
	cur := in
	for _, e := range effs {
		var nxt []lpOut
		for _, o := range cur {
			if o.st != lpFall {
				nxt = append(nxt, o)
				continue
			}
			if e.ev == "panic" {
				nxt = append(nxt, lpOut{o.p, lpRet})
			} else if e.ev != "" {
				nxt = append(nxt, lpOut{o.p.add(e.ev), lpFall})
			} else {
				for _, alt := range e.inline {
					nxt = append(nxt, lpOut{o.p.add(alt...), lpFall})
				}
			}
		}
		cur = nxt
		a.guard(n, len(cur))
	}
	return cur
}

func (a *lpAn) guard(n ast.Node, k int) {
	if k > 20000 {
		a.fail(n, "more than 20000 paths")
	}
}

// ---------------------------------------------------------------- statements

func lpOne(p lpPath) []lpOut { return []lpOut{{p, lpFall}} }

// seq runs the statements on every falling-through path.
func (a *lpAn) seq(list []ast.Stmt, in []lpOut) []lpOut {
	cur := in
	for _, s := range list {
		var nxt []lpOut
		var live []lpOut
		for _, o := range cur {
			if o.st == lpFall {
				live = append(live, o)
			} else {
				nxt = append(nxt, o)
			}
		}
		if len(live) == 0 {
			return cur
		}
		nxt = append(nxt, a.stmt(s, live)...)
		cur = nxt
		a.guard(s, len(cur))
	}
	return cur
}

// stmt: all paths in `in` have status lpFall.
func (a *lpAn) stmt(s ast.Stmt, in []lpOut) []lpOut {
	switch x := s.(type) {
	case nil, *ast.EmptyStmt:
		return in
	case *ast.BlockStmt:
		return a.seq(x.List, in)
	case *ast.ExprStmt:
		return a.eval(x.X, in)
	case *ast.AssignStmt, *ast.DeclStmt, *ast.IncDecStmt, *ast.SendStmt:
		return a.eval(x, in)
	case *ast.LabeledStmt:
		return a.stmt(x.Stmt, in)
	case *ast.ReturnStmt:
		out := a.eval(x, in)
		for i := range out {
			if out[i].st == lpFall {
				out[i].st = lpRet
			}
		}
		return out
	case *ast.BranchStmt:
		if x.Label != nil || (x.Tok != token.BREAK && x.Tok != token.CONTINUE) {
			a.fail(x, "%s (labelled jump, goto or fallthrough) is not understood", x.Tok)
		}
		st := lpBrk
		if x.Tok == token.CONTINUE {
			st = lpCont
		}
		out := make([]lpOut, len(in))
		for i, o := range in {
			out[i] = lpOut{o.p, st}
		}
		return out
	case *ast.DeferStmt:
		if sel, ok := x.Call.Fun.(*ast.SelectorExpr); ok && lpLockNames[sel.Sel.Name] {
			ev, _ := a.lockCall(x.Call)
			if ev != "Unlock" && ev != "RUnlock" {
				a.fail(x, "defer %s is not understood", ev)
			}
			if a.inLoop > 0 {
				a.fail(x, "deferred unlock inside a loop")
			}
			out := make([]lpOut, len(in))
			for i, o := range in {
				p := o.p.add("Defer" + ev)
				p.ndefers++
				out[i] = lpOut{p, lpFall}
			}
			return out
		}
		if a.touches(x.Call) {
			a.fail(x, "deferred call that touches the mutex other than defer x.Unlock()/x.RUnlock()")
		}
		return in
	case *ast.GoStmt:
		if _, ok := x.Call.Fun.(*ast.FuncLit); ok && a.touches(x.Call.Fun) {
			a.fail(x, "go statement with a function literal that touches the mutex")
		}
		cur := in
		for _, arg := range x.Call.Args {
			cur = a.eval(arg, cur)
		}
		return cur
	case *ast.IfStmt:
		cur := in
		if x.Init != nil {
			cur = a.stmt(x.Init, cur)
		}
		cur = a.eval(x.Cond, cur)
		var live, rest []lpOut
		for _, o := range cur {
			if o.st == lpFall {
				live = append(live, o)
			} else {
				rest = append(rest, o)
			}
		}
		out := rest
		out = append(out, a.seq(x.Body.List, live)...)
		if x.Else != nil {
			out = append(out, a.stmt(x.Else, live)...)
		} else {
			out = append(out, live...)
		}
		return out
	case *ast.ForStmt:
		cur := in
		if x.Init != nil {
			cur = a.stmt(x.Init, cur)
		}
		return a.loop(x, x.Cond, x.Post, x.Body, x.Cond != nil, cur)
	case *ast.RangeStmt:
		cur := a.eval(x.X, in)
		return a.loop(x, nil, nil, x.Body, true, cur)
	case *ast.SwitchStmt:
		cur := in
		if x.Init != nil {
			cur = a.stmt(x.Init, cur)
		}
		cur = a.eval(x.Tag, cur)
		return a.clauses(x.Body, cur, false)
	case *ast.TypeSwitchStmt:
		cur := in
		if x.Init != nil {
			cur = a.stmt(x.Init, cur)
		}
		cur = a.stmt(x.Assign, cur)
		return a.clauses(x.Body, cur, false)
	case *ast.SelectStmt:
		return a.clauses(x.Body, in, true)
	}
	if a.touches(s) {
		a.fail(s, "statement of a kind that is not understood (%T)", s)
	}
	return in
}

func lpSplit(cur []lpOut) (live, rest []lpOut) {
	for _, o := range cur {
		if o.st == lpFall {
			live = append(live, o)
		} else {
			rest = append(rest, o)
		}
	}
	return
}

// clauses of switch / type switch / select: one branch per clause; without a default clause a
// switch may also run no clause at all (a select without default blocks until one is ready).
func (a *lpAn) clauses(body *ast.BlockStmt, in []lpOut, isSelect bool) []lpOut {
	live, out := lpSplit(in)
	hasDefault := false
	for _, cl := range body.List {
		var br []lpOut
		switch c := cl.(type) {
		case *ast.CaseClause:
			if c.List == nil {
				hasDefault = true
			}
			cur := live
			for _, e := range c.List {
				cur = a.eval(e, cur)
			}
			br = a.seq(c.Body, cur)
		case *ast.CommClause:
			if c.Comm == nil {
				hasDefault = true
			}
			cur := live
			if c.Comm != nil {
				cur = a.stmt(c.Comm, cur)
			}
			br = a.seq(c.Body, cur)
		}
		for _, o := range br {
			if o.st == lpBrk {
				o.st = lpFall
			}
			out = append(out, o)
		}
	}
	if !hasDefault && !isSelect {
		out = append(out, live...)
	}
	return out
}

func (a *lpAn) loop(at ast.Node, cond ast.Expr, post ast.Stmt, body *ast.BlockStmt, canSkip bool, in []lpOut) []lpOut {
	live, out := lpSplit(in)
	live = a.eval(cond, live)
	live, r := lpSplit(live)
	out = append(out, r...)
	if canSkip {
		out = append(out, live...) // zero iterations
	}
	a.inLoop++
	br := a.seq(body.List, live)
	a.inLoop--
	for _, o := range br {
		switch o.st {
		case lpRet, lpBack:
			out = append(out, o)
		case lpBrk:
			out = append(out, lpOut{o.p, lpFall})
		case lpFall, lpCont:
			// one iteration done
			for _, l := range live {
				if len(o.p.ev) >= len(l.p.ev) && lpPrefix(l.p.ev, o.p.ev) {
					a.loops = append(a.loops, append([]string{}, o.p.ev[len(l.p.ev):]...))
					break
				}
			}
			o.st = lpFall
			cur := []lpOut{o}
			if post != nil {
				cur = a.stmt(post, cur)
			}
			if canSkip {
				cur = a.eval(cond, cur) // the test that ends the loop
				out = append(out, cur...)
			} else {
				for _, c := range cur {
					out = append(out, lpOut{c.p, lpBack})
				}
			}
		}
	}
	return out
}

func lpPrefix(p, q []string) bool {
	for i := range p {
		if p[i] != q[i] {
			return false
		}
	}
	return true
}

func lpRecvName(d *ast.FuncDecl) string {
	if d.Recv == nil || len(d.Recv.List) == 0 || len(d.Recv.List[0].Names) == 0 {
		return ""
	}
	return d.Recv.List[0].Names[0].Name
}

func lpRecvType(d *ast.FuncDecl) string {
	if d.Recv == nil || len(d.Recv.List) == 0 {
		return ""
	}
	t := d.Recv.List[0].Type
	if s, ok := t.(*ast.StarExpr); ok {
		t = s.X
	}
	if id, ok := t.(*ast.Ident); ok {
		return id.Name
	}
	return "?"
}

// function: the paths (event lists, Defer* events included) of a.m.
func (a *lpAn) function() [][]string {
	d := a.m.decl
	if d.Body == nil {
		return [][]string{{}}
	}
	if !a.touches(d.Body) {
		// nothing in this function concerns the receiver's mutex (or any mutex)
		return [][]string{{}}
	}
	if a.recv == "" {
		a.fail(d, "a function without (named) receiver touches a mutex")
	}
	outs := a.seq(d.Body.List, lpOne(lpPath{}))
	var res [][]string
	for _, o := range outs {
		switch o.st {
		case lpBrk, lpCont:
			a.fail(d, "break/continue outside a loop")
		}
		res = append(res, o.p.ev)
	}
	return res
}

// ---------------------------------------------------------------- driver

func lpIsSync(e ast.Expr, name string) bool {
	s, ok := e.(*ast.SelectorExpr)
	if !ok {
		return false
	}
	id, ok := s.X.(*ast.Ident)
	return ok && id.Name == "sync" && s.Sel.Name == name
}

func lockPaths(repo string) (entries [][2]string, err error) {
	defer func() {
		if r := recover(); r != nil {
			if le, ok := r.(lpError); ok {
				err = fmt.Errorf("source facts no longer extractable: %s", le.msg)
				return
			}
			panic(r)
		}
	}()
	fset := token.NewFileSet()
	pkgs := map[string]*lpPkg{}
	type parsed struct {
		lf  lpFile
		f   *ast.File
		pkg *lpPkg
	}
	var files []parsed
	for _, lf := range lpFiles {
		f, perr := parser.ParseFile(fset, filepath.Join(repo, lf.rel), nil, 0)
		if perr != nil {
			return nil, fmt.Errorf("source facts no longer extractable: %v", perr)
		}
		dir := filepath.Dir(lf.rel)
		pk := pkgs[dir]
		if pk == nil {
			pk = &lpPkg{name: f.Name.Name, mutexOf: map[string]string{}, embed: map[string]bool{}, methods: map[string]*lpMethod{}}
			pkgs[dir] = pk
		}
		files = append(files, parsed{lf, f, pk})
		for _, d := range f.Decls {
			switch x := d.(type) {
			case *ast.GenDecl:
				for _, sp := range x.Specs {
					ts, ok := sp.(*ast.TypeSpec)
					if !ok {
						continue
					}
					st, ok := ts.Type.(*ast.StructType)
					if !ok {
						continue
					}
					for _, fld := range st.Fields.List {
						for _, kind := range []string{"Mutex", "RWMutex"} {
							if !lpIsSync(fld.Type, kind) {
								if s, ok := fld.Type.(*ast.StarExpr); ok && lpIsSync(s.X, kind) {
									panic(lpError{ts.Name.Name + ": pointer to a mutex is not understood"})
								}
								continue
							}
							if pk.mutexOf[ts.Name.Name] != "" || len(fld.Names) > 1 {
								panic(lpError{ts.Name.Name + ": more than one mutex"})
							}
							if len(fld.Names) == 0 {
								pk.mutexOf[ts.Name.Name] = kind
								pk.embed[ts.Name.Name] = true
							} else {
								pk.mutexOf[ts.Name.Name] = fld.Names[0].Name
							}
						}
					}
				}
			case *ast.FuncDecl:
				if x.Recv != nil {
					t := lpRecvType(x)
					pk.methods[t+"."+x.Name.Name] = &lpMethod{pkg: pk.name, typ: t, name: x.Name.Name, decl: x, fset: fset}
				}
			}
		}
	}
	memos := map[*lpPkg]map[string][][]string{}
	for _, pf := range files {
		if memos[pf.pkg] == nil {
			memos[pf.pkg] = map[string][][]string{}
		}
		for _, d := range pf.f.Decls {
			fd, ok := d.(*ast.FuncDecl)
			if !ok {
				continue
			}
			t := lpRecvType(fd)
			if pf.lf.onlyRecv != "" && t != pf.lf.onlyRecv {
				continue
			}
			m := &lpMethod{pkg: pf.pkg.name, typ: t, name: fd.Name.Name, decl: fd, fset: fset}
			a := &lpAn{pkg: pf.pkg, m: m, recv: lpRecvName(fd), inlining: map[string]bool{}, memo: memos[pf.pkg]}
			name := pf.pkg.name + "." + fd.Name.Name
			if t != "" {
				name = pf.pkg.name + "." + t + "." + fd.Name.Name
				a.inlining[t+"."+fd.Name.Name] = true
			}
			for _, p := range a.function() {
				entries = append(entries, [2]string{name, strings.Join(p, "; ")})
			}
			for _, p := range a.loops {
				entries = append(entries, [2]string{name + "/loop", strings.Join(p, "; ")})
			}
		}
	}
	return entries, nil
}

func lockPathsCoq(entries [][2]string) []byte {
	var b bytes.Buffer
	b.WriteString("(* GENERATED by `ftdcverif lockpaths <repo> <out.v>` (harness/lockpaths.go) from\n")
	for _, lf := range lpFiles {
		b.WriteString("     " + lf.rel)
		if lf.onlyRecv != "" {
			b.WriteString(" (" + lf.onlyRecv + ")")
		}
		b.WriteString("\n")
	}
	b.WriteString("   Regenerated by ./check C16 on every run; do not edit.\n")
	b.WriteString("   One entry per function x control-flow path: the lock events on the receiver's mutex. *)\n")
	b.WriteString("From Coq Require Import String List.\nFrom FV.Model Require Import SysInterval.\nImport ListNotations.\nLocal Open Scope string_scope.\n\n")
	b.WriteString("Definition lock_paths : list (string * list lock_event) := [\n")
	for i, e := range entries {
		sep := ";"
		if i == len(entries)-1 {
			sep = ""
		}
		fmt.Fprintf(&b, "  (\"%s\", [%s])%s\n", e[0], e[1], sep)
	}
	b.WriteString("].\n")
	return b.Bytes()
}

func init() {
	commands["lockpaths"] = func(args []string) error {
		if len(args) != 2 {
			return fmt.Errorf("usage: lockpaths <repo-dir> <out.v>")
		}
		entries, err := lockPaths(args[0])
		if err != nil {
			return err
		}
		out := lockPathsCoq(entries)
		old, rerr := os.ReadFile(args[1])
		if rerr == nil && bytes.Equal(old, out) {
			fmt.Printf("lockpaths: %d entries, unchanged\n", len(entries))
			return nil
		}
		if err := os.WriteFile(args[1], out, 0o644); err != nil {
			return err
		}
		fmt.Printf("lockpaths: %d entries, written\n", len(entries))
		return nil
	}
}
