(* Executable statements of C07 / C08 / C11(emit) over observations of a
   collector history (what the implementation returned, decoded with the
   model's reader). *)
From Coq Require Import ZArith NArith List Bool.
From FV.Model Require Import Bytes Bson Metrics Codec Collector Wf RoundTrip.
Import ListNotations.
Open Scope Z_scope.

Definition doc_eqb (a b : doc) : bool := bytes_eqb (enc_doc a) (enc_doc b).

Fixpoint docs_eqb (a b : list doc) : bool :=
  match a, b with
  | [], [] => true
  | x :: r, y :: s => doc_eqb x y && docs_eqb r s
  | _, _ => false
  end.

Section Zlib.
Variable deflate : bytes -> bytes.
Variable inflate : bytes -> option bytes.
Variable cap : option N.   (* see Codec.read_chunk_gen *)

(* decoded view of an FTDC document sequence: the restored samples, the chunk
   sizes, the per-chunk metadata documents; None if unreadable *)
Record decoded := mkDecoded { dc_docs : list doc; dc_sizes : list Z; dc_metas : list (option doc) }.

Definition decode_ftdc (ds : list doc) : option decoded :=
  let '(cs, e) := read_chunks_gen inflate cap None ds in
  match e, all_some (flat_map structured_docs cs) with
  | None, Some docs => Some (mkDecoded docs (map ck_npoints cs) (map ck_meta cs))
  | _, _ => None
  end.

Inductive opk := KAdd | KResolve | KReset | KFlush | KSetMeta | KInfo.

(* C07: the abstract log. [total] = stripped documents accepted and not discarded
   by a Reset, oldest first.  After every operation:
     decoded(writer) ++ decoded(Resolve) = total            (once each, in order)
     Info().SampleCount = |total| - |decoded(writer)|        (accepted, not yet flushed)
     every chunk holds at most cap samples
   Reset discards exactly the pending part. *)
Definition c07_step (cap : Z) (total : list doc) (o : opk) (add_ok : bool) (d : doc)
           (w r : decoded) (info_samples : Z) : list doc * bool :=
  let total' := match o with
                | KAdd => if add_ok then total ++ [strip_doc d] else total
                | KReset => firstn (length (dc_docs w)) total
                | _ => total
                end in
  (total',
   docs_eqb (dc_docs w ++ dc_docs r) total'
   && (info_samples =? Z.of_nat (length total') - Z.of_nat (length (dc_docs w)))
   && forallb (fun s => s <=? cap) (dc_sizes w ++ dc_sizes r)).

(* C08: expected chunk sizes for a pure Add sequence through a schema-aware
   collector: a new chunk at every schema change and at capacity *)
Fixpoint run_lengths (sigs : list (bytes * Z)) (cur : option (bytes * Z)) (n : Z) : list Z :=
  match sigs with
  | [] => match cur with Some _ => [n] | None => [] end
  | s :: r =>
      match cur with
      | None => run_lengths r (Some s) 1
      | Some c => if bytes_eqb (fst c) (fst s) && (snd c =? snd s) then run_lengths r cur (n + 1)
                  else n :: run_lengths r (Some s) 1
      end
  end.

Fixpoint split_cap_fuel (fuel : nat) (cap n : Z) : list Z :=
  match fuel with
  | O => [n]
  | S f => if n <=? cap then [n] else cap :: split_cap_fuel f cap (n - cap)
  end.

Definition expected_sizes (cap : Z) (docs : list doc) : list Z :=
  flat_map (fun n => split_cap_fuel (Z.to_nat n) cap n) (run_lengths (map schema_sig docs) None 0).

Definition c08_ok (cap : Z) (docs : list doc) (all_accepted : bool) (out : decoded) : bool :=
  all_accepted && docs_eqb (dc_docs out) (map strip_doc docs)
  && (if list_eq_dec Z.eq_dec (dc_sizes out) (expected_sizes cap docs) then true else false).

(* C08, all kinds: a stored sample never sits in a chunk of another schema: every
   decoded document of a chunk has the skeleton of the chunk's reference document.
   (Checked on the implementation's chunks via the reader model: ck_ref.) *)

(* C11 (emit side): the metadata reported for every chunk of an output *)
Definition metas_of (ds : list doc) : option (list (option doc)) :=
  match decode_ftdc ds with Some d => Some (dc_metas d) | None => None end.

(* ---- the C07 statement as an executable check of a whole history on the model ---- *)
Definition opk_of (o : op) : opk :=
  match o with
  | OAdd _ _ | OAddBad => KAdd | OResolve => KResolve | OReset => KReset | OFlush => KFlush
  | OSetMeta _ => KSetMeta | OInfo => KInfo
  end.
Definition op_doc (o : op) : doc := match o with OAdd d _ => d | _ => [] end.
Definition obs_add_ok (b : obs) : bool := match b with BAdd ROk => true | _ => false end.

Definition decode_out (o : option outp) : option decoded :=
  match o with
  | None => Some (mkDecoded [] [] [])
  | Some (OFtdc ds) => decode_ftdc ds
  | Some (ODocs _ _) => None
  end.

Definition cap_of (k : kind) (n : Z) : Z := match k with KBase => n + 1 | _ => n end.

Fixpoint c07_run_from (capz : Z) (st : coll * writer) (total : list doc) (ops : list op) : bool :=
  match ops with
  | [] => true
  | o :: r =>
      let '(st', ob) := step deflate st o in
      match decode_ftdc (emitted (snd st')), decode_out (c_resolve deflate (fst st')) with
      | Some wd, Some rd =>
          let '(total', ok) := c07_step capz total (opk_of o) (obs_add_ok ob) (op_doc o) wd rd
                                        (snd (c_info (fst st'))) in
          ok && c07_run_from capz st' total' r
      | _, _ => false
      end
  end.

Definition c07_run (k : kind) (n : Z) (ops : list op) : bool :=
  c07_run_from (cap_of k n) (new_coll k n, mkWriter [] [] false) [] ops.

End Zlib.

(* ---- hypotheses and auxiliary notions of the C07 / C08 theorems (Props/C07.v,
   Props/C08.v); propositions only, nothing here is extracted ---- *)
Section C07C08Statements.


(* the collectors that compare schema signatures (bson_hash.go) *)
Definition sig_aware (k : kind) : bool := match k with KDyn | KSDyn => true | _ => false end.

(* a sample document the format can carry: representable keys and values, below
   BSON's 2 GiB limit, metric count within the uint32 field, and not in the class
   of the known finding D1 (timestamp seconds) *)
Definition doc_wf (d : doc) : Prop :=
  doc_ok d = true /\ doc_leaves_ok d = true /\ small (enc_doc d) /\ doc_has_ts_seconds d = false /\
  (N.of_nat (length (flatten_doc d)) < 2 ^ 32)%N.

(* two documents the collector cannot tell apart really have one schema: the
   fixed-schema collectors compare metric count and metric types only, the
   schema-aware ones additionally the signature *)
Definition distinguishable (k : kind) (D : doc -> Prop) : Prop :=
  forall a b, D a -> D b -> map fst (flatten_doc a) = map fst (flatten_doc b) ->
    (sig_aware k = true -> schema_sig a = schema_sig b) -> skeleton_doc a = skeleton_doc b.

Definition ops_added (ops : list op) (d : doc) : Prop := exists now, In (OAdd d now) ops.

Definition ops_ok (k : kind) (ops : list op) : Prop :=
  (forall d, ops_added ops d -> doc_wf d) /\ distinguishable k (ops_added ops).

(* what a collector and its writer hold, as the reader sees it: the samples
   decodable from the writer followed by those decodable from Resolve *)
Definition c07_contents (deflate : bytes -> bytes) (inflate : bytes -> option bytes) (st : coll * writer)
  : option (list doc) :=
  match decode_ftdc inflate None (emitted (snd st)), decode_out inflate None (c_resolve deflate (fst st)) with
  | Some a, Some b => Some (dc_docs a ++ dc_docs b)
  | _, _ => None
  end.

(* the state reached by a history on a fresh collector and a fault-free writer *)
Definition c07_reach (deflate : bytes -> bytes) (k : kind) (n : Z) (ops : list op) : coll * writer :=
  fst (run deflate (new_coll k n, mkWriter [] [] false) ops).

(* C08: what the schema-aware collectors compare between consecutive documents:
   the dynamic collector the key string only, the streaming dynamic collector the
   key string and the metric count *)
Definition same_sig (k : kind) (a b : doc) : Prop :=
  match k with
  | KDyn => fst (schema_sig a) = fst (schema_sig b)
  | _ => schema_sig a = schema_sig b
  end.

(* no change of value types alone: documents the collector takes for one schema
   have the same metric types *)
Definition no_type_only_change (k : kind) (docs : list doc) : Prop :=
  forall a b, In a docs -> In b docs -> same_sig k a b -> map fst (flatten_doc a) = map fst (flatten_doc b).

Definition docs_ok (k : kind) (docs : list doc) : Prop :=
  Forall doc_wf docs /\ distinguishable k (fun d => In d docs) /\ no_type_only_change k docs.

(* C08, no mixing: a base collector (one chunk) whose reference document is r
   holds only rows of r's metric count, and its last sample has r's metric types *)
Definition bc_unmixed (b : bcoll) : Prop :=
  match bc_ref b with
  | None => True
  | Some r => map fst (bc_last b) = map fst (flatten_doc r) /\
              Forall (fun row : list Z => length row = length (flatten_doc r)) (bc_rows b)
  end.

(* every chunk under construction inside a collector *)
Definition bcolls_of (c : coll) : list bcoll :=
  match c with
  | CBase b => [b]
  | CBatch b => ba_chunks b
  | CDyn x => flat_map ba_chunks (dy_chunks x)
  | CStream s => match sc_inner s with IB b => [b] | IU _ => [] end
  | CSDyn s => match sc_inner (sd_s s) with IB b => [b] | IU _ => [] end
  | CUnc _ => []
  end.

Definition unmixed (c : coll) : Prop := Forall bc_unmixed (bcolls_of c).

(* C07, Reset: the metadata a Reset keeps (base, streaming and streaming dynamic
   collectors keep it, batch and dynamic collectors are rebuilt without it), and
   the freshly constructed collector carrying it *)
Definition meta_kept (c : coll) : option doc :=
  match c with
  | CBase b => bc_meta b
  | CStream s => match sc_inner s with IB b => bc_meta b | IU u => uc_meta u end
  | CSDyn x => match sc_inner (sd_s x) with IB b => bc_meta b | IU u => uc_meta u end
  | _ => None
  end.

Definition fresh_like (k : kind) (n : Z) (c : coll) : coll :=
  match k with
  | KBatch | KDyn => new_coll k n
  | _ => c_set_meta (new_coll k n) (meta_kept c)
  end.

End C07C08Statements.

(* ---- C07, "only the last chunk may hold fewer": executable side conditions used by
   the history driver on the implementation's observations ----
   batch collector: in every Resolve output all chunks but the last hold exactly n;
   streaming collector: a writer record produced by an Add (flush-before-add at
   capacity) holds exactly n samples *)
Fixpoint all_but_last_full (n : Z) (sizes : list Z) : bool :=
  match sizes with
  | [] | [_] => true
  | s :: r => (s =? n) && all_but_last_full n r
  end.

Definition all_full (n : Z) (sizes : list Z) : bool := forallb (fun s => s =? n) sizes.
